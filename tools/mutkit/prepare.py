#!/usr/bin/env python3
"""prepare.py <round-tag> ID=focus-text ...  : create /tmp/mut/<ID><tag> worktrees of /repo HEAD and the prompt files
/tmp/mutkit/prompts/<ID><tag>.md (property text + brief; nothing else from /verif)."""
import json, os, subprocess, sys, shutil
here = os.path.dirname(os.path.abspath(__file__))
tag = sys.argv[1]
props = {json.loads(l)['id']: json.loads(l) for l in open(os.path.join(here, '..', '..', 'properties.jsonl'))}
brief = open(os.path.join(here, 'BRIEF.md')).read()
os.makedirs('/tmp/mutkit/prompts', exist_ok=True)
shutil.copy(os.path.join(here, 'build_and_test.sh'), '/tmp/mutkit/build_and_test.sh')
for a in sys.argv[2:]:
    pid, _, focus = a.partition('=')
    p = props[pid]
    wt = '/tmp/mut/%s%s' % (pid, tag)
    if not os.path.isdir(wt):
        subprocess.run(['git', '-C', '/repo', 'worktree', 'add', '--detach', wt, 'HEAD', '-q'], check=True)
    text = '%s - %s\n\n%s\n\nQuantifier: %s\n\nWhy the existing tests cannot settle it: %s\n\nAnchors: %s' % (
        pid, p['title'], p['statement'], p['quantifier']['text'], p['why_tests_cant'],
        json.dumps(p['anchors'], indent=1))
    f = ('Suggested area for your change (other areas were used by earlier volunteers; stay inside the property): ' + focus) if focus else ''
    # one-line summaries of the changes earlier volunteers already delivered for this property: a new delivery that
    # repeats one of them is discarded, so the volunteer is told what not to repeat (nothing else about /verif)
    sd = os.path.join(here, '..', '..', 'seeded')
    used = []
    for d in sorted(os.listdir(sd)):
        mp = os.path.join(sd, d, 'meta.json')
        if d.startswith(pid + '-') and os.path.exists(mp):
            used.append('  - ' + ' '.join(json.load(open(mp)).get('summary', d).split())[:260])
    if used:
        f += '\n\nChanges ALREADY DELIVERED by earlier volunteers for this property - do not repeat any of them or a close variant (a repeat is discarded):\n' + '\n'.join(used)
    out = brief.replace('{WT}', wt).replace('{PROPERTY}', text).replace('{FOCUS}', f).replace('{ID}', pid)
    open('/tmp/mutkit/prompts/%s%s.md' % (pid, tag), 'w').write(out)
    print(wt)
