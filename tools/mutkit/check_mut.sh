#!/bin/sh
# check_mut.sh <ID> <PROP> [tier]  : run /verif's check of PROP against the mutated worktree /tmp/mut/<ID>,
# with a private Lean copy and a private evidence directory (nothing of /verif's own state is replaced).
ID=$1; P=$2; T=${3:-quick}
L=/tmp/mut/_lean_$ID
rm -rf $L; rsync -a /verif/lean/ $L/
mkdir -p /verif/build/seeded-evidence/$ID
VERIF_REPO=/tmp/mut/$ID VERIF_LEAN_DIR=$L VERIF_EVIDENCE_DIR=/verif/build/seeded-evidence/$ID /verif/check $P --tier $T > /verif/build/seeded-evidence/$ID/check_$P.log 2>&1
echo "exit $?"; grep -c '^VIOLATION' /verif/build/seeded-evidence/$ID/check_$P.log; grep '^VIOLATION\|^KNOWN\|^OK' /verif/build/seeded-evidence/$ID/check_$P.log | head -8
rm -rf $L
