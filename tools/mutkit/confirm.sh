#!/bin/sh
# confirm.sh <ID>   (worktree /tmp/mut/<ID> with the patch applied, delivery in _deliver/)
# lead's confirmation: suite passes with the patch, demo fails with it and passes without it.
W=/tmp/mut/$1; D=$W/_deliver
[ -f $D/patch.diff ] || { echo "no delivery in $D"; exit 2; }
cd $W || exit 2
git checkout -q -- . && git apply $D/patch.diff || { echo "PATCH DOES NOT APPLY"; exit 1; }
git status --short | grep -v '^??' 
/tmp/mutkit/build_and_test.sh $W | tail -3
sh $D/demo/run.sh $W > $D/demo_with_patch.log 2>&1; echo "demo with patch: exit $?"
git checkout -q -- . && cmake --build $W/_build -j8 --target sbeppc > /dev/null 2>&1
sh $D/demo/run.sh $W > $D/demo_without_patch.log 2>&1; echo "demo without patch: exit $?"
git apply $D/patch.diff && cmake --build $W/_build -j8 --target sbeppc > /dev/null 2>&1; echo "patch re-applied"
