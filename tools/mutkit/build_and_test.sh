#!/bin/sh
# usage: build_and_test.sh <worktree-of-sbepp>
# Configures (first time), builds everything (sbeppc, generated headers, all test binaries) and runs the whole
# ctest suite exactly as the pinned baseline does.  Prints the ctest summary; exit 0 iff build + all tests pass.
set -e
W="$1"; [ -d "$W" ] || { echo "usage: $0 <worktree>"; exit 2; }
B="$W/_build"
if [ ! -f "$B/build.ninja" ]; then
  cmake -G Ninja -S "$W" -B "$B" -DCMAKE_BUILD_TYPE=RelWithDebInfo -DCMAKE_CXX_FLAGS=-Wno-error \
    -DSBEPP_BUILD_TESTS=ON -DSBEPP_BUILD_SBEPPC=ON -DSBEPP_DEV_MODE=ON -DSBEPP_SEPARATE_TESTS=ON \
    -DSBEPP_BUILD_BENCHMARK=OFF -DSBEPP_BUILD_DOCS=OFF \
    -DGTest_DIR=/root/miniconda/lib/cmake/GTest -Dfmt_DIR=/root/miniconda/lib/cmake/fmt \
    -Dpugixml_DIR=/usr/lib/x86_64-linux-gnu/cmake/pugixml > "$B.configure.log" 2>&1 || { tail -30 "$B.configure.log"; exit 1; }
fi
cmake --build "$B" -j${JOBS:-8} > "$B.build.log" 2>&1 || { tail -60 "$B.build.log"; echo BUILD FAILED; exit 1; }
ctest --test-dir "$B" -j${JOBS:-8} --timeout 900 2>&1 | tail -15
