#!/bin/sh
# reseed.sh <seeded-name> <PROP>: apply a kept seeded patch to a scratch worktree of /repo HEAD and run the check
N=$1; P=$2; W=/tmp/mut/re_$N
git -C /repo worktree add --detach $W HEAD -q && git -C $W apply /verif/seeded/$N/patch.diff || { echo "$N: PATCH DOES NOT APPLY"; git -C /repo worktree remove --force $W; exit 0; }
L=/tmp/mut/_lean_re_$N; rm -rf $L; rsync -a /verif/lean/ $L/ 2>/dev/null
mkdir -p /verif/build/seeded-evidence/re_$N
VERIF_REPO=$W VERIF_LEAN_DIR=$L VERIF_EVIDENCE_DIR=/verif/build/seeded-evidence/re_$N /verif/check $P --tier quick > /verif/build/seeded-evidence/re_$N/log 2>&1
echo "$N: exit $? $(grep -c '^VIOLATION' /verif/build/seeded-evidence/re_$N/log) violations ($(grep '^VIOLATION' /verif/build/seeded-evidence/re_$N/log | grep -vc no-failing) with input)"
rm -rf $L; git -C /repo worktree remove --force $W
