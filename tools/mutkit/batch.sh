#!/bin/sh
# batch.sh ID:PROP ...
for a in "$@"; do
  ID=${a%%:*}; P=${a##*:}
  echo "=== $ID ($P)"
  /tmp/mutkit/confirm.sh $ID 2>&1 | grep -v WARNING | tail -6
  /tmp/mutkit/check_mut.sh $ID $P 2>&1 | grep -v WARNING
done
