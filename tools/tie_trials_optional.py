#!/usr/bin/env python3
"""Sensitivity trial of the translator tie for required_base / optional_base.

usage: tie_trials_optional.py <repo copy> <private lean copy>

Every trial edits sbepp.hpp of the repo COPY (never /repo), runs
extract/methods_optional.py into the private Lean copy and builds
Sbepp.Lemmas.OptionalTie there.  Semantic edits must make a tie theorem fail
(or the extraction report a failure), harmless edits must not.
"""
import json
import os
import re
import subprocess
import sys

VERIF = os.path.dirname(os.path.dirname(os.path.abspath(__file__)))
sys.path.insert(0, VERIF)
from extract import methods_optional  # noqa: E402

HPP = 'sbepp/src/sbepp/sbepp.hpp'


def sub1(old, new, nth=0):
    """replace the nth occurrence (0-based) of the exact text `old`"""
    def f(s):
        idx = -1
        for _ in range(nth + 1):
            idx = s.find(old, idx + 1)
            assert idx >= 0, 'pattern not found: %r' % old
        return s[:idx] + new + s[idx + len(old):]
    return f


def in_class(cls, fn):
    """apply fn to the text of one class only"""
    def f(s):
        a = s.index('class alignas(T) %s' % cls)
        b = s.index('\n};', a)
        return s[:a] + fn(s[a:b]) + s[b:]
    return f


def move_value_or_after_operator_bool(s):
    a = s.index('    //! @brief Returns value if not null, `default_value` otherwise')
    b = s.index('    //! @brief Checks if has value\n    constexpr bool has_value')
    block = s[a:b]
    s = s[:a] + s[b:]
    c = s.index('    //! @name Comparisons\n    //! The contained values')
    return s[:c] + block + s[c:]


OPT, REQ = 'optional_base', 'required_base'
SEMANTIC = [
    ('has_value: `val != null` -> `val == null` (operator)', in_class(OPT, sub1('return (val != Derived::null_value())', 'return (val == Derived::null_value())'))),
    ('has_value: NaN clause dropped (pre-fix a1acb43 text)', in_class(OPT, sub1(
        '''return (val != Derived::null_value())
               && !((val != val)
                    && (Derived::null_value() != Derived::null_value()));''', 'return (val != Derived::null_value());'))),
    ('has_value: operand `null != null` -> `val != null`', in_class(OPT, sub1(
        '(Derived::null_value() != Derived::null_value())', '(val != Derived::null_value())'))),
    ('optional operator<: swapped operands `*rhs < *lhs`', in_class(OPT, sub1('(*lhs < *rhs)', '(*rhs < *lhs)'))),
    ('optional operator<=: `||` -> `&&`', in_class(OPT, sub1('return !lhs || (rhs && (*lhs <= *rhs));', 'return !lhs && (rhs && (*lhs <= *rhs));'))),
    ('optional operator>=: order of short-circuit tests `lhs && ..` <-> `!rhs ||`', in_class(OPT, sub1(
        'return !rhs || (lhs && (*lhs >= *rhs));', 'return (lhs && (*lhs >= *rhs)) || !rhs;'))),
    ('optional operator==: branches of ?: swapped', in_class(OPT, sub1(
        '''? (*lhs == *rhs)
                   : (lhs.has_value() == rhs.has_value());''', '''? (lhs.has_value() == rhs.has_value())
                   : (*lhs == *rhs);'''))),
    ('optional operator!=: dropped `!`', in_class(OPT, sub1('return !(lhs == rhs);', 'return (lhs == rhs);'))),
    ('optional operator<=>: return type std::strong_ordering (pre-fix b6c076b)', in_class(OPT, sub1(
        'constexpr friend std::compare_three_way_result_t<value_type>\n        operator<=>',
        'constexpr friend std::strong_ordering\n        operator<=>'))),
    ('optional operator<=>: `if(lhs && rhs)` -> `if(lhs || rhs)`', in_class(OPT, sub1('if(lhs && rhs)', 'if(lhs || rhs)'))),
    ('optional operator<=>: swapped operands of the bool <=>', in_class(OPT, sub1(
        'return lhs.has_value() <=> rhs.has_value();', 'return rhs.has_value() <=> lhs.has_value();'))),
    ('value_or: condition negated', in_class(OPT, sub1('if(*this)', 'if(!*this)'))),
    ('value_or: the two return statements exchanged', in_class(OPT, lambda s: sub1('return @@;', 'return default_value;')(
        sub1('return default_value;', 'return value();')(sub1('return value();', 'return @@;')(s))))),
    ('operator bool: callee has_value() -> in_range()', in_class(OPT, sub1('return has_value();', 'return in_range();'))),
    ('optional operator*() const: returns null_value()', in_class(OPT, sub1('return val;', 'return Derived::null_value();', nth=1))),
    ('optional default member initialiser `{null_value()}` -> `{}`', in_class(OPT, sub1('value_type val{Derived::null_value()};', 'value_type val{};'))),
    ('optional(nullopt_t): delegation replaced by val{max_value()}', in_class(OPT, sub1(': optional_base{}', ': val{Derived::max_value()}'))),
    ('optional operator!= removed from the pre-C++20 set (dropped member)', in_class(OPT, sub1(
        '''    constexpr friend bool
        operator!=(const optional_base& lhs, const optional_base& rhs) noexcept
    {
        return !(lhs == rhs);
    }
''', ''))),
    ('optional operator<=> moved under #ifdef SBEPP_DOXYGEN (C++20 set loses orderings)', in_class(OPT, sub1(
        '#if SBEPP_HAS_THREE_WAY_COMPARISON\n    // `float`', '#ifdef SBEPP_DOXYGEN\n    // `float`'))),
    ('required in_range: `val <= max` -> `val < max` (off by one)', in_class(REQ, sub1('(val <= Derived::max_value())', '(val < Derived::max_value())'))),
    ('required in_range: callee min_value() -> max_value()', in_class(REQ, sub1('(Derived::min_value() <= val)', '(Derived::max_value() <= val)'))),
    ('required operator>: `>` -> `>=`', in_class(REQ, sub1('return *lhs > *rhs;', 'return *lhs >= *rhs;'))),
    ('required operator<: swapped operands', in_class(REQ, sub1('return *lhs < *rhs;', 'return *rhs < *lhs;'))),
    ('required default member initialiser `{}` -> `{min_value()}`', in_class(REQ, sub1('value_type val{};', 'value_type val{Derived::min_value()};'))),
    ('required(value_type): stores min_value() instead of the argument', in_class(REQ, sub1(': val{val}', ': val{Derived::min_value()}'))),
    ('required value(): `**this` -> `Derived::max_value()`', in_class(REQ, sub1('return **this;', 'return Derived::max_value();'))),
]
HARMLESS = [
    ('comment inside has_value', in_class(OPT, sub1('return (val != Derived::null_value())', '/* not null */ return (val != Derived::null_value()) // x\n'))),
    ('whitespace / line breaks / redundant parentheses in optional operator<', in_class(OPT, sub1(
        'return rhs && (!lhs || (*lhs < *rhs));', 'return ( rhs )\n   &&   ( (!lhs)||( ( *lhs )<( *rhs ) ) ) ;'))),
    ('parameters renamed (lhs/rhs -> x/y in optional operator<=, default_value -> dflt)', in_class(OPT, lambda s: sub1(
        'value_or(T default_value) const noexcept\n    {\n        if(*this)\n        {\n            return value();\n        }\n        return default_value;',
        'value_or(T dflt) const noexcept\n    {\n        if(*this)\n        {\n            return value();\n        }\n        return dflt;')(
        sub1('operator<=(const optional_base& lhs, const optional_base& rhs) noexcept\n    {\n        return !lhs || (rhs && (*lhs <= *rhs));',
             'operator<=(const optional_base& x, const optional_base& y) noexcept\n    {\n        return !x || (y && (*x <= *y));')(s)))),
    ('decoration: has_value constexpr -> SBEPP_CPP14_CONSTEXPR, noexcept removed', in_class(OPT, sub1(
        'constexpr bool has_value() const noexcept', 'SBEPP_CPP14_CONSTEXPR bool has_value() const'))),
    ('value_or moved after operator bool (reorder of independent members)', move_value_or_after_operator_bool),
    ('value_or: explicit else branch', in_class(OPT, sub1(
        '            return value();\n        }\n        return default_value;', '            return value();\n        }\n        else\n        {\n            return default_value;\n        }'))),
    ('value_or: `if(*this)` -> `if(has_value())` (equivalent refactoring through operator bool)', in_class(OPT, sub1('if(*this)', 'if(has_value())'))),
    ('has_value: result through a local `const bool r = ...; return r;`', in_class(OPT, sub1(
        '''return (val != Derived::null_value())
               && !((val != val)
                    && (Derived::null_value() != Derived::null_value()));''',
        '''const bool r = (val != Derived::null_value())
               && !((val != val)
                    && (Derived::null_value() != Derived::null_value()));
        return r;'''))),
]


def main():
    repo, lean = sys.argv[1], sys.argv[2]
    path = os.path.join(repo, HPP)
    orig = open(path, encoding='utf-8').read()
    outdir = os.path.join(lean, 'Sbepp', 'Extracted')
    rows = []
    try:
        for kind, trials in (('baseline', [('unchanged', lambda s: s)]), ('semantic', SEMANTIC), ('harmless', HARMLESS)):
            for name, fn in trials:
                text = fn(orig)
                assert kind == 'baseline' or text != orig, name
                open(path, 'w', encoding='utf-8').write(text)
                rep = methods_optional.extract(repo, outdir)
                p = subprocess.run(['lake', 'build', 'Sbepp.Lemmas.OptionalTie'], cwd=lean, capture_output=True, text=True)
                out = p.stdout + p.stderr
                bad = sorted(set(re.findall(r'OptionalTie\.lean:(\d+):\d+', out)))
                src = open(os.path.join(lean, 'Sbepp', 'Lemmas', 'OptionalTie.lean')).read().split('\n')
                thms = []
                for ln in bad:
                    i = int(ln) - 1
                    while src[i].startswith('/--') or (i + 1 < len(src) and src[i].startswith('    ') and src[i].rstrip().endswith('-/')):
                        i += 1              # an error reported at the doc comment of a theorem
                    while i >= 0 and not src[i].startswith('theorem'):
                        i -= 1
                    ns = 'Required' if i < src.index('namespace Optional') else 'Optional'
                    t = ns + '.' + src[i].split()[1]
                    if t not in thms:
                        thms.append(t)
                detected = p.returncode != 0 or bool(rep['failed'])
                ok = detected if kind == 'semantic' else not detected
                rows.append({'kind': kind, 'edit': name, 'extraction_failed': sorted(rep['failed']), 'tie_build': 'FAIL' if p.returncode else 'ok',
                             'failing_theorems': thms, 'as_expected': ok})
                print('%-8s %-4s build=%-4s extract_failed=%s theorems=%s :: %s' % (
                    kind, 'OK' if ok else 'BAD', 'FAIL' if p.returncode else 'ok', sorted(rep['failed']), thms, name), flush=True)
    finally:
        open(path, 'w', encoding='utf-8').write(orig)
        methods_optional.extract(repo, outdir)
    json.dump(rows, open(os.path.join(os.path.dirname(lean), 'trials.json'), 'w'), indent=1)
    return 0 if all(r['as_expected'] for r in rows) else 1


if __name__ == '__main__':
    sys.exit(main())
