"""Sensitivity trial for the static_array_ref translator tie (extract/methods_staticarray.py,
lean/Sbepp/Lemmas/StaticArrayTie.lean).  Scratch layout it expects (all private copies):
  /tmp/b_sarr/repo        cp -r of /repo (without _build)
  /tmp/b_sarr/trial_lean  cp -r of /verif/lean (with .lake)
Each row applies one edit to the copy of sbepp.hpp, regenerates Extracted/StaticArray.lean into the
Lean copy and runs `lake build Sbepp.Lemmas.StaticArrayTie`; semantic edits must break a tie theorem,
harmless ones must not, `equivalent` rows document how conservative the proofs are.
Usage: python3 tools/tie_trials_staticarray.py [ids...]
"""
import json
import os
import re
import shutil
import subprocess
import sys
import time

sys.path.insert(0, '/verif')
from extract import methods_staticarray as M

PRISTINE = '/repo/sbepp/src/sbepp/sbepp.hpp'
REPO = '/tmp/b_sarr/repo'
HPP = REPO + '/sbepp/src/sbepp/sbepp.hpp'
LEAN = '/tmp/b_sarr/trial_lean'
TIE = LEAN + '/Sbepp/Lemmas/StaticArrayTie.lean'

S, H, Q = 'semantic', 'harmless', 'equivalent'
TRIALS = [
    ('S1', S, 'strlen (run time)', 'off-by-one: memchr count size() -> size() - 1',
     "std::memchr(data(), '\\0', size()));", "std::memchr(data(), '\\0', size() - 1));"),
    ('S2', S, 'strlen (constant evaluation)', 'operator: first[length] != 0 -> ==',
     "(first[length] != '\\0')", "(first[length] == '\\0')"),
    ('S3', S, 'strlen_r', 'off-by-one in the result',
     "return size() - (last_non_null - rbegin());", "return size() - 1 - (last_non_null - rbegin());"),
    ('S4', S, 'assign_string(const char*)', 'dropped assert (length <= size())',
     "        SBEPP_ASSERT(length <= size());\n        const auto eos_pos = std::copy_n", "        const auto eos_pos = std::copy_n"),
    ('S5', S, 'assign_string(const char*)', 'reordered statements (string_length before the null check)',
     "        SBEPP_ASSERT(str != nullptr);\n        const auto length = string_length(str);",
     "        const auto length = string_length(str);\n        SBEPP_ASSERT(str != nullptr);"),
    ('S6', S, 'assign_range', 'operator: res <= end() -> res < end()',
     "SBEPP_ASSERT(res <= end());", "SBEPP_ASSERT(res < end());"),
    ('S7', S, 'fill', 'changed callee: begin() -> end()',
     "std::fill_n(begin(), size(), value);", "std::fill_n(end(), size(), value);"),
    ('S8', S, 'assign(count, value)', 'off-by-one: count <= size() -> count < size()',
     "SBEPP_ASSERT(count <= size());\n        return std::fill_n", "SBEPP_ASSERT(count < size());\n        return std::fill_n"),
    ('S9', S, 'assign(first, last)', 'swapped arguments of std::copy',
     "std::copy(first, last, begin());\n        SBEPP_ASSERT(static_cast<size_type>", "std::copy(last, first, begin());\n        SBEPP_ASSERT(static_cast<size_type>"),
    ('S10', S, 'assign(initializer_list)', 'changed argument: begin(ilist) -> end(ilist)',
     "return assign(std::begin(ilist), std::end(ilist));\n    }\n\nprivate:\n    SBEPP_CPP20_CONSTEXPR void\n        pad",
     "return assign(std::end(ilist), std::end(ilist));\n    }\n\nprivate:\n    SBEPP_CPP20_CONSTEXPR void\n        pad"),
    ('S11', S, 'pad', "changed constant: fill with '\\0' -> '\\1'",
     "std::fill(eos_pos, end(), '\\0');", "std::fill(eos_pos, end(), '\\1');"),
    ('S12', S, 'data', 'changed constant: SBEPP_SIZE_CHECK offset 0 -> 1',
     "            0,\n            N);\n        return (pointer)", "            1,\n            N);\n        return (pointer)"),
    ('S13', S, 'end', 'off-by-one: data() + size() -> data() + (size() - 1)',
     "        return data() + size();", "        return data() + (size() - 1);"),
    ('S14', S, 'string_length (constant evaluation)', "operator: *str != '\\0' -> ==",
     "for(; *str != '\\0'; str++, length++)", "for(; *str == '\\0'; str++, length++)"),
    ('S15', S, 'SBEPP_SIZE_CHECK macro', 'operator in the #define: <= -> <',
     "&& (((offset) + (size)) <= static_cast< ::std::size_t>((end) - (begin))))",
     "&& (((offset) + (size)) < static_cast< ::std::size_t>((end) - (begin))))"),
    ('S16', S, 'rbegin', 'changed callee: end() -> begin()',
     "return reverse_iterator{end()};\n    }\n\n    //! @brief Returns a reverse iterator to the end\n    constexpr reverse_iterator rend() const noexcept\n    {\n        return reverse_iterator{begin()};\n    }\n\n    /**\n     * @brief Returns `static_array_ref",
     "return reverse_iterator{begin()};\n    }\n\n    //! @brief Returns a reverse iterator to the end\n    constexpr reverse_iterator rend() const noexcept\n    {\n        return reverse_iterator{begin()};\n    }\n\n    /**\n     * @brief Returns `static_array_ref"),
    ('S17', S, 'pad', 'dropped assert (mode == eos_null::none)',
     "            SBEPP_ASSERT(mode == eos_null::none);\n            return;\n        }\n    }\n};\n\n//! @brief Represents reference to dynamic arrays",
     "            return;\n        }\n    }\n};\n\n//! @brief Represents reference to dynamic arrays"),
    ('S18', S, 'assign_range (SBEPP_HAS_RANGES)', 'changed callee argument in the ranges branch: begin() -> end()',
     "auto res = std::ranges::copy(std::forward<R>(r), begin()).out;\n#else\n        auto res = std::copy(std::begin(r), std::end(r), begin());\n#endif\n        SBEPP_ASSERT(res <= end());",
     "auto res = std::ranges::copy(std::forward<R>(r), end()).out;\n#else\n        auto res = std::copy(std::begin(r), std::end(r), begin());\n#endif\n        SBEPP_ASSERT(res <= end());"),
    ('S19', S, 'strlen (run time)', 'added statement: early return 0',
     "            if(first_null)\n            {\n                return first_null - data();\n            }\n\n            return size();\n        }\n    }\n\n    /**\n     * @brief Calculates string length from right to left",
     "            if(first_null)\n            {\n                return first_null - data();\n            }\n            SBEPP_ASSERT(size() != 0);\n            return size();\n        }\n    }\n\n    /**\n     * @brief Calculates string length from right to left"),
    ('H1', H, 'assign(count, value)', 'comment added',
     "SBEPP_ASSERT(count <= size());\n        return std::fill_n", "SBEPP_ASSERT(count <= size()); // precondition\n        /* fill */ return std::fill_n"),
    ('H2', H, 'assign_string(const char*)', 'whitespace / line breaks',
     "        const auto eos_pos = std::copy_n(str, length, begin());\n        pad(eos_mode, eos_pos);\n        return eos_pos;\n    }\n\n    /**\n     * @brief Assigns string represented by a range",
     "        const auto eos_pos=std::copy_n( str,\n            length ,   begin( ) );\n\n\n        pad( eos_mode,eos_pos ) ;  return eos_pos;\n    }\n\n    /**\n     * @brief Assigns string represented by a range"),
    ('H3', H, 'assign(first, last)', 'local renamed: last_out -> out_end',
     "        const auto last_out = std::copy(first, last, begin());\n        SBEPP_ASSERT(static_cast<size_type>(last_out - begin()) <= size());\n        return last_out;",
     "        const auto out_end = std::copy(first, last, begin());\n        SBEPP_ASSERT(static_cast<size_type>(out_end - begin()) <= size());\n        return out_end;"),
    ('H4', H, 'strlen (constant evaluation)', 'loop variable renamed: length -> len',
     "            std::size_t length{};\n            // NOLINTNEXTLINE(cppcoreguidelines-pro-bounds-pointer-arithmetic)\n            for(; (length != size()) && (first[length] != '\\0'); length++)\n            {\n            }\n\n            return length;",
     "            std::size_t len{};\n            for(; (len != size()) && (first[len] != '\\0'); len++)\n            {\n            }\n\n            return len;"),
    ('H5', H, 'fill', 'noexcept dropped, SBEPP_CPP20_CONSTEXPR -> inline',
     "    SBEPP_CPP20_CONSTEXPR void fill(const value_type value) const noexcept", "    inline void fill(const value_type value) const"),
    ('H6', H, 'assign(count, value)', 'template/SFINAE decoration and parameter names changed',
     "    template<typename T = void, typename = enable_if_writable_t<Byte, T>>\n    SBEPP_CPP20_CONSTEXPR iterator\n        assign(size_type count, const value_type value) const noexcept\n    {\n        SBEPP_ASSERT(count <= size());\n        return std::fill_n(begin(), count, value);",
     "    template<typename U = int, typename = enable_if_t<!std::is_const<Byte>::value, U>>\n    SBEPP_CPP14_CONSTEXPR iterator\n        assign(const size_type n, value_type x) const\n    {\n        SBEPP_ASSERT(n <= size());\n        return std::fill_n(begin(), n, x);"),
    ('H7', H, 'strlen (constant evaluation)', 'independent declarations reordered',
     "            const auto first = data();\n            std::size_t length{};", "            std::size_t length{};\n            const auto first = data();"),
    ('H8', H, 'assign_range', 'redundant parentheses',
     "SBEPP_ASSERT(res <= end());", "SBEPP_ASSERT(((res) <= (end())));"),
    ('H9', H, 'pad', 'braces dropped around a single statement',
     "            if(eos_pos != end())\n            {\n                *eos_pos = '\\0';\n            }", "            if(eos_pos != end())\n                *eos_pos = '\\0';"),
    ('Q1', Q, 'assign(count, value)', 'equivalent rewrite: count <= size() -> !(count > size())',
     "SBEPP_ASSERT(count <= size());\n        return std::fill_n", "SBEPP_ASSERT(!(count > size()));\n        return std::fill_n"),
    ('Q2', Q, 'assign(count, value)', 'equivalent rewrite: count <= size() -> size() >= count',
     "SBEPP_ASSERT(count <= size());\n        return std::fill_n", "SBEPP_ASSERT(size() >= count);\n        return std::fill_n"),
    ('Q3', Q, 'strlen (constant evaluation)', 'equivalent rewrite: length != size() -> length < size()',
     "(length != size()) && (first[length]", "(length < size()) && (first[length]"),
    ('Q4', Q, 'fill', 'equivalent rewrite: fill_n(begin(), size(), v) -> fill(begin(), end(), v)',
     "std::fill_n(begin(), size(), value);", "std::fill(begin(), end(), value);"),
]


def theorem_at(lines, n):
    for i in range(min(n, len(lines)) - 1, -1, -1):
        m = re.match(r'\s*theorem\s+(\S+)', lines[i])
        if m:
            return m.group(1)
    return '?'


def run(only=None):
    src = open(PRISTINE, encoding='utf-8').read()
    tie_lines = open(TIE, encoding='utf-8').read().split('\n')
    rows = []
    for tid, kind, where, what, old, new in TRIALS:
        if only and tid not in only:
            continue
        a = src.index('inline SBEPP_CPP20_CONSTEXPR std::size_t string_length')
        b = src.index('class dynamic_array_ref')
        region = src[a:b]
        if region.count(old) == 1:
            edited = src[:a] + region.replace(old, new) + src[b:]
        else:
            assert src.count(old) == 1, (tid, src.count(old), region.count(old))
            edited = src.replace(old, new)
        with open(HPP, 'w', encoding='utf-8') as f:
            f.write(edited)
        t0 = time.time()
        rep = M.extract(REPO, LEAN + '/Sbepp/Extracted')
        p = subprocess.run(['lake', 'build', 'Sbepp.Lemmas.StaticArrayTie'], cwd=LEAN, capture_output=True, text=True)
        out = p.stdout + p.stderr
        failing = []
        for m in re.finditer(r'error: Sbepp/Lemmas/StaticArrayTie\.lean:(\d+):', out):
            t = theorem_at(tie_lines, int(m.group(1)))
            if t not in failing:
                failing.append(t)
        gen_err = bool(re.search(r'error: Sbepp/Extracted/StaticArray\.lean', out))
        ok = p.returncode == 0
        verdict = 'tie holds' if ok else 'tie FAILS'
        expected = (kind == S and not ok) or (kind == H and ok) or kind == Q
        rows.append(dict(id=tid, kind=kind, where=where, what=what, build_ok=ok, failing=failing,
                         extract_failed=rep['failed'], generated_file_error=gen_err, expected=expected,
                         secs=round(time.time() - t0, 1)))
        print('%-4s %-9s %-38s %-62s -> %s %s %s%s [%s] %.1fs' % (
            tid, kind, where, what, verdict, ','.join(failing), json.dumps(rep['failed']) if rep['failed'] else '',
            ' GENERATED-FILE-ERROR' if gen_err else '', 'as expected' if expected else 'UNEXPECTED', time.time() - t0), flush=True)
        if not ok and not failing and not gen_err:
            print(out[-1500:])
    shutil.copy(PRISTINE, HPP)
    json.dump(rows, open('/tmp/b_sarr/trials.json', 'w'), indent=1)
    return rows


if __name__ == '__main__':
    run(set(sys.argv[1:]) or None)
