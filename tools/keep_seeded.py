#!/usr/bin/env python3
"""keep_seeded.py <ID> <name> <check-results-json>: copy a confirmed seeded change into /verif/seeded/<name>/"""
import json, os, shutil, sys
ID, name, results = sys.argv[1], sys.argv[2], json.loads(sys.argv[3])
src = '/tmp/mut/%s/_deliver' % ID
dst = '/verif/seeded/%s' % name
shutil.rmtree(dst, ignore_errors=True)
os.makedirs(dst)
shutil.copy(os.path.join(src, 'patch.diff'), dst)
shutil.copytree(os.path.join(src, 'demo'), os.path.join(dst, 'demo'))
meta = json.load(open(os.path.join(src, 'meta.json')))
meta['confirmed_by_lead'] = {
    'suite_with_patch': '4311/4311 passed (/tmp/mutkit/build_and_test.sh in the scratch worktree)',
    'demo_with_patch': 'exit 1', 'demo_without_patch': 'exit 0',
    'commands': ['/tmp/mutkit/confirm.sh %s' % ID, 'VERIF_REPO=/tmp/mut/%s ./check <prop>' % ID],
}
meta['detected_by'] = results
json.dump(meta, open(os.path.join(dst, 'meta.json'), 'w'), indent=1)
print('kept', dst)
