#!/usr/bin/env python3
"""keep_seeded.py <ID> <name> <check-results-json>: copy a confirmed seeded change into /verif/seeded/<name>/"""
import json, os, shutil, sys
ID, name, results = sys.argv[1], sys.argv[2], json.loads(sys.argv[3])
src = '/tmp/mut/%s/_deliver' % ID
dst = '/verif/seeded/%s' % name
shutil.rmtree(dst, ignore_errors=True)
os.makedirs(dst)
shutil.copy(os.path.join(src, 'patch.diff'), dst)
shutil.copytree(os.path.join(src, 'demo'), os.path.join(dst, 'demo'))
meta = json.load(open(os.path.join(src, 'meta.json')))
meta['confirmed_by_lead'] = {
    'suite_with_patch': '4311/4311 passed (tools/mutkit/build_and_test.sh in the scratch worktree)',
    'demo_with_patch': 'exit 1', 'demo_without_patch': 'exit 0',
    'commands': ['tools/mutkit/confirm.sh %s' % ID, 'tools/mutkit/check_mut.sh %s <prop>' % ID],
}
meta['detected_by'] = results
import subprocess
head = subprocess.run(['git', '-C', '/repo', 'rev-parse', '--short', 'HEAD'], capture_output=True, text=True).stdout.strip()
meta['applies_to_repo_commits'] = {'newest': head, 'applies_to_head_' + head: True}
json.dump(meta, open(os.path.join(dst, 'meta.json'), 'w'), indent=1)
print('kept', dst)
