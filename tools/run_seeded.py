#!/usr/bin/env python3
"""Mutation regression of the machinery itself: for every kept seeded change apply seeded/<name>/patch.diff to a
scratch worktree of /repo's HEAD (outside /repo and /verif), run the property's quick check against it
(VERIF_REPO=<worktree>, evidence redirected) and expect exit 1 with a VIOLATION line; the worktree is removed
afterwards.  Sequential (the extracted Lean modules are shared).  Writes seeded/RESULTS.json.

usage: tools/run_seeded.py [name-prefix ...]"""
import json, os, re, subprocess, sys, tempfile, time, shutil

VERIF = os.path.dirname(os.path.dirname(os.path.abspath(__file__)))
REPO = '/repo'


def main():
    want = sys.argv[1:]
    names = sorted(d for d in os.listdir(os.path.join(VERIF, 'seeded')) if os.path.isdir(os.path.join(VERIF, 'seeded', d)))
    if want:
        names = [n for n in names if any(n.startswith(w) for w in want)]
    head = subprocess.run(['git', '-C', REPO, 'rev-parse', '--short', 'HEAD'], capture_output=True, text=True).stdout.strip()
    results = {}
    scratch = tempfile.mkdtemp(prefix='seeded-', dir=os.environ.get('TMPDIR', '/tmp'))
    # private copy of the Lean project (with its build output) so that the extracted modules of the mutated trees
    # never replace those of /verif/lean
    lean_copy = os.path.join(scratch, 'lean')
    subprocess.run(['rsync', '-a', os.path.join(VERIF, 'lean') + '/', lean_copy + '/'], check=True)
    try:
        for n in names:
            prop = n.split('-')[0]
            wt = os.path.join(scratch, n)
            t0 = time.time()
            subprocess.run(['git', '-C', REPO, 'worktree', 'add', '--detach', wt, 'HEAD', '-q'], check=True)
            try:
                r = subprocess.run(['git', '-C', wt, 'apply', os.path.join(VERIF, 'seeded', n, 'patch.diff')], capture_output=True, text=True)
                if r.returncode != 0:
                    results[n] = {'outcome': 'patch-does-not-apply', 'repo_head': head}
                    print(n, 'PATCH DOES NOT APPLY', flush=True)
                    continue
                env = dict(os.environ, VERIF_REPO=wt, VERIF_LEAN_DIR=lean_copy, VERIF_EVIDENCE_DIR=os.path.join(VERIF, 'build', 'seeded-evidence', n))
                os.makedirs(env['VERIF_EVIDENCE_DIR'], exist_ok=True)
                p = subprocess.run([os.path.join(VERIF, 'check'), prop, '--tier', 'quick'], cwd=VERIF, env=env,
                                   capture_output=True, text=True)
                vio = [l for l in p.stdout.splitlines() if l.startswith('VIOLATION')]
                with_input = [l for l in vio if not l.endswith('no-failing-input-found')]
                outcome = ('caught-with-failing-input' if with_input else
                           'caught-no-failing-input' if vio else 'MISSED')
                if p.returncode == 0 and not vio:
                    outcome = 'MISSED'
                results[n] = {'outcome': outcome, 'exit': p.returncode, 'violations': len(vio),
                              'with_failing_input': len(with_input), 'repo_head': head,
                              'wall_s': round(time.time() - t0, 1)}
                print(n, outcome, 'exit=%d' % p.returncode, '%.0fs' % (time.time() - t0), flush=True)
            finally:
                subprocess.run(['git', '-C', REPO, 'worktree', 'remove', '--force', wt])
    finally:
        shutil.rmtree(scratch, ignore_errors=True)
        subprocess.run(['git', '-C', REPO, 'worktree', 'prune'])
    out = os.environ.get('SEEDED_RESULTS', os.path.join(VERIF, 'seeded', 'RESULTS.json'))
    old = {}
    key = 'seed%s' % os.environ.get('VERIF_SEED', '0')
    if os.path.exists(out):
        old = json.load(open(out)).get('results', {})
    old.setdefault(key, {}).update(results)
    json.dump({'note': 'tools/run_seeded.py: each kept seeded change applied to a scratch worktree of /repo HEAD and '
                       'checked with the quick tier of its property', 'results': old}, open(out, 'w'), indent=1, sort_keys=True)
    missed = [n for n, r in results.items() if r['outcome'] in ('MISSED', 'patch-does-not-apply')]
    print('missed:', missed)
    return 1 if missed else 0


if __name__ == '__main__':
    sys.exit(main())
