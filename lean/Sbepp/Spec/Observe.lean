/-
  What a decoder must observe on a well-formed image (specification side,
  computed from the value tree alone) and what the runtime model observes by
  walking the buffer (model side).  Both produce the same canonical list of
  `key=value` strings; the generated C++ drivers print the same list from the
  real accessors.
-/
import Sbepp.Schema.Resolve
import Sbepp.Rt.Walk

namespace Sbepp.Observe
open Sbepp Sbepp.Schema

def hexNum (n : Nat) : String := String.ofList (Nat.toDigits 16 n)

def pathStr (p : List String) : String := ".".intercalate p

/-- canonical rendering of one leaf given its bytes in wire order -/
def leafObs (bo : ByteOrder) (pfx : String) (l : NLeaf) (bytes : List Nat) : String :=
  if l.kind = "array" then s!"{pfx}{pathStr l.path}=[{SExp.hex bytes}]"
  else s!"{pfx}{pathStr l.path}={hexNum (get bo bytes)}"

/-- observation line announcing entry `i` of the group whose prefix is `gp` -/
def entryHdr (gp : String) (i sz : Nat) : String := gp ++ "[" ++ toString i ++ "]:sz=" ++ toString sz
/-- prefix of the members of entry `i` -/
def entryPfx (gp : String) (i : Nat) : String := gp ++ "[" ++ toString i ++ "]."
def groupHdr (gp : String) (n sz : Nat) : String := gp ++ ":n=" ++ toString n ++ ",sz=" ++ toString sz
def dataLine (pfx name : String) (payload : List Nat) (sz : Nat) : String :=
  pfx ++ name ++ "=<" ++ SExp.hex payload ++ ">,sz=" ++ toString sz

/-! ### specification side: from the value tree -/

def dataObs (pfx : String) : List NData → List (List Nat) → List String
  | d :: ds, p :: ps => dataLine pfx d.name p (d.lenSize + p.length) :: dataObs pfx ds ps
  | _, _ => []

mutual
  def specL (bo : ByteOrder) (pfx : String) : NLevel → LVal → List String
    | .mk _ lv gs ds, .mk block gvs dvs =>
      lv.map (fun l => leafObs bo pfx l (slice block l.off l.size))
        ++ specGs bo pfx gs gvs ++ dataObs pfx ds dvs
  def specGs (bo : ByteOrder) (pfx : String) : List NGroup → List GVal → List String
    | g :: gs, v :: vs => specG bo pfx g v ++ specGs bo pfx gs vs
    | _, _ => []
  def specG (bo : ByteOrder) (pfx : String) : NGroup → GVal → List String
    | .mk name _ l, .mk hdr es =>
      groupHdr (pfx ++ name) es.length (hdr.length + (flattenEs bo l.erase es).length)
        :: specEs bo (pfx ++ name) 0 l es
  def specEs (bo : ByteOrder) (pfx : String) (i : Nat) : NLevel → List LVal → List String
    | _, [] => []
    | l, e :: es =>
      entryHdr pfx i (flattenL bo l.erase e).length :: specL bo (entryPfx pfx i) l e
        ++ specEs bo pfx (i + 1) l es
end

/-! ### model side: walking the buffer -/

def modelDs (bo : ByteOrder) (buf : List Nat) (pfx : String) : List NData → Nat → List String
  | [], _ => []
  | d :: ds, p =>
    let n := rd bo buf p d.lenSize
    dataLine pfx d.name (slice buf (p + d.lenSize) n) (d.lenSize + n) :: modelDs bo buf pfx ds (p + d.lenSize + n)

mutual
  def modelL (bo : ByteOrder) (buf : List Nat) (pfx : String) : NLevel → Nat → Nat → List String
    | .mk _ lv gs ds, pos, wbl =>
      lv.map (fun l => leafObs bo pfx l (slice buf (pos + l.off) l.size))
        ++ modelGs bo buf pfx gs (pos + wbl)
        ++ modelDs bo buf pfx ds (endGs bo buf (eraseGs gs) (pos + wbl))
  def modelGs (bo : ByteOrder) (buf : List Nat) (pfx : String) : List NGroup → Nat → List String
    | [], _ => []
    | g :: gs, p => modelG bo buf pfx g p ++ modelGs bo buf pfx gs (endG bo buf g.erase p)
  def modelG (bo : ByteOrder) (buf : List Nat) (pfx : String) : NGroup → Nat → List String
    | .mk name dim l, p =>
      let bl := rd bo buf (p + dim.dim.blOff) dim.dim.blSize
      let n := rd bo buf (p + dim.dim.numOff) dim.dim.numSize
      let e := endG bo buf (Group.mk dim.dim l.erase) p
      groupHdr (pfx ++ name) n (e - p) ::
        (List.range n).flatMap (fun i =>
          entryHdr (pfx ++ name) i
              (endL bo buf l.erase (iter (fun q => endL bo buf l.erase q bl) i (p + dim.dim.size)) bl
                - iter (fun q => endL bo buf l.erase q bl) i (p + dim.dim.size))
            :: modelL bo buf (entryPfx (pfx ++ name) i) l
                (iter (fun q => endL bo buf l.erase q bl) i (p + dim.dim.size)) bl)
end

/-! ### value trees from S-expressions -/

/-- `x<hex>` (the prefix keeps empty byte strings representable as atoms) -/
def xhex (s : String) : Option (List Nat) :=
  if s.startsWith "x" then SExp.unhex (s.drop 1).toString else none

partial def parseLVal (e : SExp) : Option LVal := do
  let block ← (e.atomField? "block").bind xhex
  let groups ← (e.listField "groups").mapM parseGVal
  let datas ← (e.listField "datas").mapM (fun d => d.asAtom?.bind xhex)
  some (.mk block groups datas)
where
  parseGVal (e : SExp) : Option GVal := do
    let hdr ← (e.atomField? "hdr").bind xhex
    let entries ← (e.listField "entries").mapM parseLVal
    some (.mk hdr entries)

end Sbepp.Observe
