/-
  Specification of set choices (SBE `<set>`): choice `n` is bit `n` of the
  underlying unsigned value.  Written with `Nat.testBit` only; nothing here
  comes from sbepp.
-/
namespace Sbepp.Spec

/-- the getter of choice `n` -/
def getBit (v n : Nat) : Bool := v.testBit n

/-- `r` is `v` with bit `n` set to `b` and every other bit below `w` unchanged -/
def IsSetBit (w v n : Nat) (b : Bool) (r : Nat) : Prop :=
  r < 2 ^ w ∧ ∀ i, i < w → r.testBit i = if i = n then b else v.testBit i

/-- executable version used by the correspondence driver -/
def setBit (v n : Nat) (b : Bool) : Nat :=
  if b then v ||| 2 ^ n else v ^^^ (v &&& 2 ^ n)

theorem setBit_spec (w v n : Nat) (b : Bool) (hv : v < 2 ^ w) (hn : n < w) :
    IsSetBit w v n b (setBit v n b) := by
  have h2 : 2 ^ n < 2 ^ w := Nat.pow_lt_pow_right (by decide) hn
  constructor
  · unfold setBit
    cases b
    · simp only [Bool.false_eq_true, if_false]
      exact Nat.xor_lt_two_pow hv (Nat.lt_of_le_of_lt Nat.and_le_left hv)
    · simp only [if_true]
      exact Nat.or_lt_two_pow hv h2
  · intro i _
    unfold setBit
    cases b
    · simp only [Bool.false_eq_true, if_false, Nat.testBit_xor, Nat.testBit_and, Nat.testBit_two_pow]
      by_cases h : i = n
      · subst h; simp
      · have : ¬ n = i := fun e => h e.symm
        simp [h, this]
    · simp only [if_true, Nat.testBit_or, Nat.testBit_two_pow]
      by_cases h : i = n
      · subst h; simp
      · have : ¬ n = i := fun e => h e.symm
        simp [h, this]

end Sbepp.Spec
