/-
  Specification for `size_bytes_checked` (C06): the size of the structure that
  the header / dimension / length values found in `buf[0..n)` describe.

  Written from the SBE layout rules only (block, then groups, then data; a group
  is its dimension header followed by `numInGroup` entries, each a level with the
  group's wire `blockLength`; a data member is its length prefix followed by
  `length` bytes).  `parse… = some e` iff every byte the structure needs - every
  header, every block, every payload - lies below `n`; `e` is then the offset one
  past the structure.  Nothing of sbepp (cursor, visitor, `size_t`) appears here:
  all arithmetic is on unbounded naturals.

  The specification proper (`parseL` …) iterates `numInGroup` times.  Because
  `numInGroup` comes from the buffer, the executable variant (`fparseL` …) stops
  as soon as an entry occupies zero bytes (all following entries then occupy the
  same zero bytes), which bounds its work by `n`; `fparse_eq` proves both equal.
-/
import Sbepp.Rt.Walk

namespace Sbepp.Spec.CheckedSize
open Sbepp

/-- `k`-fold Kleisli iteration -/
def iterO (f : Nat → Option Nat) : Nat → Nat → Option Nat
  | 0, q => some q
  | k + 1, q => (f q).bind (iterO f k)

/-- the same, leaving the loop at the first fixed point -/
def iterOFast (f : Nat → Option Nat) : Nat → Nat → Option Nat
  | 0, q => some q
  | k + 1, q =>
    match f q with
    | none => none
    | some q' => if q' = q then some q else iterOFast f k q'

section
variable (bo : ByteOrder) (buf : List Nat) (n : Nat)

/-- data members starting at `p`: each needs its length prefix and its payload below `n` -/
def parseDs : List DataL → Nat → Option Nat
  | [], p => some p
  | d :: ds, p =>
    if p + d.lenSize ≤ n then
      if p + d.lenSize + rd bo buf p d.lenSize ≤ n then parseDs ds (p + d.lenSize + rd bo buf p d.lenSize)
      else none
    else none

mutual
  /-- a level at `pos` whose wire block length is `wbl` -/
  def parseL : Level → Nat → Nat → Option Nat
    | .mk _ _ gs ds, pos, wbl =>
      if pos + wbl ≤ n then (parseGs gs (pos + wbl)).bind (parseDs bo buf n ds) else none
  def parseGs : List Group → Nat → Option Nat
    | [], p => some p
    | g :: gs, p => (parseG g p).bind (parseGs gs)
  /-- a group whose dimension header starts at `p` -/
  def parseG : Group → Nat → Option Nat
    | .mk dim l, p =>
      if p + dim.size ≤ n then
        iterO (fun q => parseL l q (rd bo buf (p + dim.blOff) dim.blSize))
          (rd bo buf (p + dim.numOff) dim.numSize) (p + dim.size)
      else none
end

mutual
  def fparseL : Level → Nat → Nat → Option Nat
    | .mk _ _ gs ds, pos, wbl =>
      if pos + wbl ≤ n then (fparseGs gs (pos + wbl)).bind (parseDs bo buf n ds) else none
  def fparseGs : List Group → Nat → Option Nat
    | [], p => some p
    | g :: gs, p => (fparseG g p).bind (fparseGs gs)
  def fparseG : Group → Nat → Option Nat
    | .mk dim l, p =>
      if p + dim.size ≤ n then
        iterOFast (fun q => fparseL l q (rd bo buf (p + dim.blOff) dim.blSize))
          (rd bo buf (p + dim.numOff) dim.numSize) (p + dim.size)
      else none
end

/-! The strict variant additionally requires every wire block length to be at
least the compiled one (`Level.blockLen`) - what a conforming encoder of this or a
newer schema version produces (`ConfL` of `Schema/Layout.lean`, C03). -/
mutual
  def sparseL : Level → Nat → Nat → Option Nat
    | .mk bl _ gs ds, pos, wbl =>
      if bl ≤ wbl ∧ pos + wbl ≤ n then (sparseGs gs (pos + wbl)).bind (parseDs bo buf n ds) else none
  def sparseGs : List Group → Nat → Option Nat
    | [], p => some p
    | g :: gs, p => (sparseG g p).bind (sparseGs gs)
  def sparseG : Group → Nat → Option Nat
    | .mk dim l, p =>
      if p + dim.size ≤ n then
        iterO (fun q => sparseL l q (rd bo buf (p + dim.blOff) dim.blSize))
          (rd bo buf (p + dim.numOff) dim.numSize) (p + dim.size)
      else none
end

/-- a message: header of `hdrSize` bytes at offset 0 whose `blockLength` member is
    at `blOff`, `blSize` bytes wide; the result is the message size -/
def parseMsg (hdrSize blOff blSize : Nat) (l : Level) : Option Nat :=
  if hdrSize ≤ n then parseL bo buf n l hdrSize (rd bo buf blOff blSize) else none

def fparseMsg (hdrSize blOff blSize : Nat) (l : Level) : Option Nat :=
  if hdrSize ≤ n then fparseL bo buf n l hdrSize (rd bo buf blOff blSize) else none

def sparseMsg (hdrSize blOff blSize : Nat) (l : Level) : Option Nat :=
  if hdrSize ≤ n then sparseL bo buf n l hdrSize (rd bo buf blOff blSize) else none

/-- a group view at offset 0 -/
def parseGroup (g : Group) : Option Nat := parseG bo buf n g 0

def fparseGroup (g : Group) : Option Nat := fparseG bo buf n g 0

end

/-! ### the executable variant computes the specification -/

theorem iterO_fixed (f : Nat → Option Nat) (q : Nat) (h : f q = some q) : ∀ k, iterO f k q = some q
  | 0 => rfl
  | k + 1 => by simp [iterO, h, iterO_fixed f q h k]

theorem iterOFast_eq (f : Nat → Option Nat) : ∀ k q, iterOFast f k q = iterO f k q
  | 0, _ => rfl
  | k + 1, q => by
    simp only [iterOFast, iterO]
    cases hf : f q with
    | none => simp
    | some q' =>
      simp only [Option.bind_some]
      by_cases hq : q' = q
      · subst hq; simp [iterO_fixed f q' hf k]
      · simp [hq, iterOFast_eq f k q']

mutual
  theorem fparseL_eq (bo : ByteOrder) (buf : List Nat) (n : Nat) (l : Level) (pos wbl : Nat) :
      fparseL bo buf n l pos wbl = parseL bo buf n l pos wbl := by
    match l with
    | .mk _ _ gs ds => simp only [fparseL, parseL, fparseGs_eq bo buf n gs]
  theorem fparseGs_eq (bo : ByteOrder) (buf : List Nat) (n : Nat) (gs : List Group) (p : Nat) :
      fparseGs bo buf n gs p = parseGs bo buf n gs p := by
    match gs with
    | [] => simp [fparseGs, parseGs]
    | g :: gs =>
      simp only [fparseGs, parseGs, fparseG_eq bo buf n g]
      congr 1; funext q; exact fparseGs_eq bo buf n gs q
  theorem fparseG_eq (bo : ByteOrder) (buf : List Nat) (n : Nat) (g : Group) (p : Nat) :
      fparseG bo buf n g p = parseG bo buf n g p := by
    match g with
    | .mk dim l =>
      simp only [fparseG, parseG, iterOFast_eq]
      have : (fun q => fparseL bo buf n l q (rd bo buf (p + dim.blOff) dim.blSize))
           = (fun q => parseL bo buf n l q (rd bo buf (p + dim.blOff) dim.blSize)) := by
        funext q; exact fparseL_eq bo buf n l q _
      rw [this]
end

theorem fparseMsg_eq (bo : ByteOrder) (buf : List Nat) (n hdrSize blOff blSize : Nat) (l : Level) :
    fparseMsg bo buf n hdrSize blOff blSize l = parseMsg bo buf n hdrSize blOff blSize l := by
  simp only [fparseMsg, parseMsg, fparseL_eq]

theorem fparseGroup_eq (bo : ByteOrder) (buf : List Nat) (n : Nat) (g : Group) :
    fparseGroup bo buf n g = parseGroup bo buf n g := fparseG_eq bo buf n g 0

end Sbepp.Spec.CheckedSize
