/-
  Specification of repeating groups as ranges (C12) and of the flat group size
  (C05).  Written from the SBE layout rules over `Int`/`Nat`; nothing here comes
  from sbepp.

  * A flat group is `header ++ entry_0 ++ … ++ entry_{n-1}` where every entry
    occupies exactly the *wire* block length `bl` found in the header, so entry
    `i` starts at `dataStart + i·bl` (also for `bl = 0`).
  * An iterator is a position `p` (an integer); `it + k` is the position
    `p + k`, `it₂ - it₁` is `p₂ - p₁`, iterators are ordered like their
    positions, dereferencing gives the entry starting at `entryAddr p`.
  * C++ can only express a step or a distance through `difference_type`, the
    signed counterpart of the `numInGroup` type of width `w`:
    `Representable w k` is that side condition, stated once, here.
  * A nested group is a forward range: entry `i+1` starts where entry `i` ends.
-/
namespace Sbepp.Spec.Group

/-- address of the entry at position `p` of a flat group -/
def entryAddr (dataStart : Int) (bl : Nat) (p : Int) : Int := dataStart + p * (bl : Int)

/-- size in bytes of a flat group -/
def flatSize (hdr n bl : Nat) : Nat := hdr + n * bl

/-- `k` is a value of the signed integer type of width `w` -/
def Representable (w : Nat) (k : Int) : Prop :=
  -((2 ^ (w - 1) : Nat) : Int) ≤ k ∧ k < ((2 ^ (w - 1) : Nat) : Int)

instance (w : Nat) (k : Int) : Decidable (Representable w k) := by
  unfold Representable; exact inferInstance

/-! ### index algebra (the laws the property promises, on positions) -/

theorem entryAddr_zero (d : Int) (bl : Nat) : entryAddr d bl 0 = d := by
  simp [entryAddr]

theorem entryAddr_add (d : Int) (bl : Nat) (p k : Int) :
    entryAddr d bl (p + k) = entryAddr d bl p + k * (bl : Int) := by
  simp only [entryAddr, Int.add_mul]; omega

theorem entryAddr_succ (d : Int) (bl : Nat) (p : Int) :
    entryAddr d bl (p + 1) = entryAddr d bl p + (bl : Int) := by
  rw [entryAddr_add]; omega

theorem entryAddr_end (d : Int) (hdr n bl : Nat) :
    entryAddr (d + hdr) bl n = d + (flatSize hdr n bl : Nat) := by
  simp only [entryAddr, flatSize, Int.natCast_add, Int.natCast_mul]; omega

theorem add_sub_cancel (p k : Int) : (p + k) - k = p := by omega
theorem distance (p q : Int) : (p + (q - p)) = q := by omega

/-- entries of zero length all start at the data start -/
theorem entryAddr_bl_zero (d : Int) (p : Int) : entryAddr d 0 p = d := by
  simp [entryAddr]

/-! ### nested groups: prefix sums -/

/-- start of entry `i` when the entry starting at address `a` occupies
    `esize a` bytes -/
def chain (dataStart : Int) (esize : Int → Nat) : Nat → Int
  | 0 => dataStart
  | i + 1 => chain dataStart esize i + (esize (chain dataStart esize i) : Int)

/-- starts of the first `n` entries -/
def starts (dataStart : Int) (esize : Int → Nat) (n : Nat) : List Int :=
  (List.range n).map (chain dataStart esize)

/-- total size of a nested group with `n` entries whose header starts at `addr` -/
def nestedSize (addr : Int) (hdr : Nat) (esize : Int → Nat) (n : Nat) : Int :=
  chain (addr + hdr) esize n - addr

/-- the same starts, computed front to back (used by the driver for long groups) -/
def startsIter (esize : Int → Nat) : Nat → Int → List Int
  | 0, _ => []
  | n + 1, a => a :: startsIter esize n (a + (esize a : Int))

/-- where the entry after the `n`-th one would start -/
def endIter (esize : Int → Nat) : Nat → Int → Int
  | 0, a => a
  | n + 1, a => endIter esize n (a + (esize a : Int))

theorem startsIter_eq (d : Int) (esize : Int → Nat) (n : Nat) :
    ∀ k, startsIter esize n (chain d esize k) = (List.range' k n).map (chain d esize) := by
  induction n with
  | zero => intro k; rfl
  | succ m ih =>
    intro k
    simp only [startsIter, List.range'_succ, List.map_cons]
    have := ih (k + 1)
    simp only [chain] at this
    rw [this]

theorem startsIter_eq_starts (d : Int) (esize : Int → Nat) (n : Nat) :
    startsIter esize n d = starts d esize n := by
  have := startsIter_eq d esize n 0
  simp only [chain] at this
  rw [this, starts, List.range_eq_range']

theorem endIter_eq (d : Int) (esize : Int → Nat) (n : Nat) :
    ∀ k, endIter esize n (chain d esize k) = chain d esize (k + n) := by
  induction n with
  | zero => intro k; rfl
  | succ m ih =>
    intro k
    simp only [endIter]
    have := ih (k + 1)
    simp only [chain] at this
    rw [this]
    congr 1; omega

theorem endIter_eq_nestedSize (addr : Int) (hdr : Nat) (esize : Int → Nat) (n : Nat) :
    endIter esize n (addr + hdr) - addr = nestedSize addr hdr esize n := by
  have := endIter_eq (addr + hdr) esize n 0
  simp only [chain, Nat.zero_add] at this
  rw [this, nestedSize]

theorem chain_const (d : Int) (s : Nat) (i : Nat) :
    chain d (fun _ => s) i = entryAddr d s i := by
  induction i with
  | zero => simp [chain, entryAddr]
  | succ k ih =>
    simp only [chain, ih, entryAddr, Int.natCast_add, Int.natCast_one, Int.add_mul]; omega

/-! ### header frame: resizing a group writes the `numInGroup` field only -/

/-- little/big-endian bytes of `v`, `w` bytes wide -/
def putLE : Nat → Nat → List Nat
  | 0, _ => []
  | w + 1, v => (v % 256) :: putLE w (v / 256)

def putBytes (bigEndian : Bool) (w v : Nat) : List Nat :=
  if bigEndian then (putLE w v).reverse else putLE w v

/-- `buf'` differs from `buf` at most inside `[off, off+len)` -/
def FrameOutside (buf buf' : List Nat) (off len : Nat) : Prop :=
  buf'.length = buf.length ∧ ∀ i, (i < off ∨ off + len ≤ i) → buf'[i]? = buf[i]?

/-- the bytes of `buf` at `[off, off+len)` -/
def slice (buf : List Nat) (off len : Nat) : List Nat := (buf.drop off).take len

/-! ### a small expression language over a flat group, evaluated ideally

  Used by the correspondence driver: the same expression is evaluated by the
  C++ harness on the real `flat_group_base`, by the implementation model and by
  `specEval` below. -/

inductive GExpr
  | begin | end_
  | lit (v : Int)             -- an integer argument (a `long long` in C++)
  | size                      -- `g.size()` (of type `size_type`)
  | add (it k : GExpr)        -- `it + k`
  | radd (k it : GExpr)       -- `k + it`
  | sub (it k : GExpr)        -- `it - k`
  | inc (it : GExpr)          -- `++it`
  | dec (it : GExpr)          -- `--it`
  | diff (a b : GExpr)        -- `a - b` (iterators)
  | deref (it : GExpr)        -- `addressof(*it)`
  | at_ (it k : GExpr)        -- `addressof(it[k])`
  | idx (k : GExpr)           -- `addressof(g[k])`
  | front | back
  | iter (k : GExpr)          -- `addressof(*it)` after k times `++` from begin()
  | cmp (op : String) (a b : GExpr)   -- lt le gt ge eq ne
  deriving Repr, Inhabited

inductive SVal
  | pos (p : Int)        -- an iterator at position p
  | int (i : Int)        -- an integer (argument, size or distance)
  | addr (off : Int)     -- an entry address, relative to the data start
  | bool (b : Bool)
  | pre                  -- precondition of the operation violated (outside the range)
  | nr                   -- the step/distance is not a value of difference_type
  | ood                  -- an address leaves the address space [0, 2^63)
  | bad                  -- ill-typed expression
  deriving Repr, DecidableEq, Inhabited

structure Ctx where
  w : Nat          -- width of the numInGroup type
  base : Nat       -- absolute address of the group header
  hdr : Nat
  n : Nat
  bl : Nat

/-- the entry address at position `p` is an address -/
def Ctx.inSpace (c : Ctx) (p : Int) : Bool :=
  let a := entryAddr ((c.base : Int) + c.hdr) c.bl p
  decide (0 ≤ a) && decide (a < ((2 ^ 63 : Nat) : Int))

def Ctx.mkPos (c : Ctx) (p : Int) : SVal :=
  if !(decide (0 ≤ p) && decide (p ≤ (c.n : Int))) then .pre
  else if !c.inSpace p then .ood
  else .pos p

def Ctx.mkAddr (c : Ctx) (p : Int) (strict : Bool) : SVal :=
  if !(decide (0 ≤ p) && (if strict then decide (p < (c.n : Int)) else decide (p ≤ (c.n : Int)))) then .pre
  else if !c.inSpace p then .ood
  else .addr (p * (c.bl : Int))

def cmpInt (op : String) (a b : Int) : Option Bool :=
  match op with
  | "lt" => some (decide (a < b)) | "le" => some (decide (a ≤ b))
  | "gt" => some (decide (a > b)) | "ge" => some (decide (a ≥ b))
  | "eq" => some (decide (a = b)) | "ne" => some (decide (a ≠ b))
  | _ => none

/-- the first non-value among two results (errors propagate left to right) -/
def firstErr (a b : SVal) : SVal :=
  match a with
  | .pre | .nr | .ood | .bad => a
  | _ => match b with
    | .pre | .nr | .ood | .bad => b
    | _ => .bad

def specEval (c : Ctx) : GExpr → SVal
  | .begin => c.mkPos 0
  | .end_ => c.mkPos c.n
  | .lit v => .int v
  | .size => .int c.n
  | .add it k | .radd k it =>
    match specEval c it, specEval c k with
    | .pos p, .int k => if Representable c.w k then c.mkPos (p + k) else .nr
    | a, b => firstErr a b
  | .sub it k =>
    match specEval c it, specEval c k with
    | .pos p, .int k =>
      -- `it - k` is `it + (-k)`: both `k` and `-k` must be differences
      if Representable c.w k ∧ Representable c.w (-k) then c.mkPos (p - k) else .nr
    | a, b => firstErr a b
  | .inc it =>
    match specEval c it with
    | .pos p => c.mkPos (p + 1)
    | a => firstErr a a
  | .dec it =>
    match specEval c it with
    | .pos p => c.mkPos (p - 1)
    | a => firstErr a a
  | .diff a b =>
    match specEval c a, specEval c b with
    | .pos p, .pos q => if Representable c.w (p - q) then .int (p - q) else .nr
    | a, b => firstErr a b
  | .deref it =>
    match specEval c it with
    | .pos p => c.mkAddr p false
    | a => firstErr a a
  | .at_ it k =>
    match specEval c it, specEval c k with
    | .pos p, .int k => if Representable c.w k then c.mkAddr (p + k) false else .nr
    | a, b => firstErr a b
  | .idx k =>
    match specEval c k with
    | .int k => c.mkAddr k true
    | a => firstErr a a
  | .front => c.mkAddr 0 true
  | .back =>
    -- the last entry is found from the end of the group, which must be an address
    if c.n = 0 then .pre else if !c.inSpace c.n then .ood else c.mkAddr ((c.n : Int) - 1) true
  | .iter k =>
    match specEval c k with
    | .int k => c.mkAddr k false
    | a => firstErr a a
  | .cmp op a b =>
    match specEval c a, specEval c b with
    | .pos p, .pos q =>
      match cmpInt op p q with
      | some r => .bool r
      | none => .bad
    | a, b => firstErr a b

def SVal.fmt : SVal → String
  | .pos p => s!"it:{p}"
  | .int i => s!"d:{i}"
  | .addr a => s!"a:{a}"
  | .bool b => if b then "b:1" else "b:0"
  | .pre => "PRE" | .nr => "NR" | .ood => "OOD" | .bad => "BAD"

end Sbepp.Spec.Group
