/-
  C08 — declarative specification of the schema rules sbeppc promises to
  enforce, written over the schema AST entity by entity, with no notion of
  "first error" and no traversal state:

    * names are SBE symbolic names, are not C++ keywords, and are unique in
      their scope;
    * every min/max/null/constant/enum literal is representable in its
      primitive type; every choice index is inside the encoding width;
    * every type reference resolves, to an encoding of the right kind, and the
      reference structure is acyclic;
    * arrays are single-byte;
    * every explicit offset is at least the end of the preceding members and
      every explicit blockLength is at least the end of the last field; every
      non-constant member ends at or before 2^64 − 1;
    * level headers (message / group / data) have their required members,
      each a non-array, non-constant type (or a ref to one).

  `violations s` lists every broken rule with the entity it is broken at;
  `Rules s` says there is none.  Nothing here refers to the implementation
  model (`Schema/Rules.lean`); the only shared items are the schema AST, the
  catalogue of rule identifiers `DiagClass` and `Path`.
-/
import Sbepp.Schema.Ast

namespace Sbepp.Spec.Rules
open Sbepp Sbepp.Schema

/-- one identifier per rule (= per distinct diagnostic template of sbeppc's
    parser, SBE validator and C++ validator that can be raised on a parsed
    schema) -/
inductive DiagClass
  -- parser
  | attrEmpty | attrNotNumeric | nodeContentEmpty | choiceIndexNotNumeric
  | duplicateEncoding | duplicateMessageName | duplicateMessageId | duplicateMemberName
  | duplicateValidValue | duplicateChoice | duplicateCompositeElement
  -- SBE validator: names, types
  | invalidName | unknownPrimitiveType | constantWithoutValue | badValueRef | unknownEncoding
  | notAnEnum | noSuchValidValue | valueRefOutOfRange | constantTooLong | valueOutOfRange
  | nonCharConstantLength | arrayNotSingleByte | notAType | encodingTypeLength
  | enumTypeNotIntegral | setTypeNotUnsigned | choiceIndexOutOfRange | offsetTooSmall
  | cyclicReference
  -- a non-constant member must end at or before 2^64 − 1 (`offset_t` holds every running offset; sbeppc fix 0032)
  | offsetOverflow
  -- SBE validator: level headers
  | headerUnknown | headerNotComposite | headerMissingElement | headerElementKind
  | headerElementRefKind | headerElementArray | headerElementConstant | varDataLength
  -- SBE validator: members
  | unknownFieldType | fieldConstantWithoutValueRef | compositeFieldConstant
  | enumConstantTypeMismatch | blockLengthTooSmall
  -- SBE validator: what the generated code needs from headers and enums
  | headerElementNotInteger | headerValueOutOfRange | duplicateEnumValue
  -- C++ validator
  | keywordName | badSchemaName
  -- the runtime reads a `<data>` length at offset 0 and the payload right behind it, so the
  -- data header composite must occupy exactly the bytes of its `length` member
  | dataHeaderLayout
  -- never produced on any input (`Lemmas/Rules.lean: fuel_never_exhausted`)
  | fuelExhausted
  deriving DecidableEq, Repr, Inhabited

def DiagClass.toString (c : DiagClass) : String :=
  let s := reprStr c
  -- `Sbepp.Spec.Rules.DiagClass.xyz` -> `xyz`
  (s.splitOn ".").getLast!

abbrev Path := List String
abbrev Viol := DiagClass × Path

/-! ### primitive types -/

/-- size in bytes -/
def primBytes : String → Option Nat
  | "char" => some 1 | "int8" => some 1 | "uint8" => some 1
  | "int16" => some 2 | "uint16" => some 2
  | "int32" => some 4 | "uint32" => some 4 | "float" => some 4
  | "int64" => some 8 | "uint64" => some 8 | "double" => some 8
  | _ => none

def isPrim (p : String) : Bool := (primBytes p).isSome

/-- inclusive numeric range of the integer primitive types (`char` is the
    C++ `char` of the supported platforms: 8 bits, signed) -/
def intRange : String → Option (Int × Int)
  | "char" => some (-128, 127) | "int8" => some (-128, 127) | "uint8" => some (0, 255)
  | "int16" => some (-32768, 32767) | "uint16" => some (0, 65535)
  | "int32" => some (-2147483648, 2147483647) | "uint32" => some (0, 4294967295)
  | "int64" => some (-9223372036854775808, 9223372036854775807)
  | "uint64" => some (0, 18446744073709551615)
  | _ => none

def isUnsignedPrim (p : String) : Bool := p == "uint8" || p == "uint16" || p == "uint32" || p == "uint64"
def isIntegralPrim (p : String) : Bool := (intRange p).isSome
def isSingleBytePrim (p : String) : Bool := primBytes p == some 1

/-! ### integer literals -/

def isDigitChar (c : Char) : Bool := '0' ≤ c && c ≤ '9'
def digitOf (c : Char) : Nat := c.toNat - '0'.toNat

/-- positional value of a digit string, least significant digit first -/
def decValRev : List Char → Nat
  | [] => 0
  | d :: r => digitOf d + 10 * decValRev r

def decVal (ds : List Char) : Nat := decValRev ds.reverse

/-- `cs` is the decimal literal of `v`: an optional `-` (only where a sign is
    allowed), then one or more digits, nothing else (no `+`, no blanks) -/
def IsIntLiteral (allowSign : Bool) (cs : List Char) (v : Int) : Prop :=
  ∃ (neg : Bool) (ds : List Char),
    cs = (if neg then ['-'] else []) ++ ds ∧ ds ≠ [] ∧ (∀ c ∈ ds, isDigitChar c = true) ∧
    (neg = true → allowSign = true) ∧ v = (if neg then -(decVal ds : Int) else (decVal ds : Int))

/-- value of an integer literal, `none` if `cs` is not one -/
def intLiteral? (allowSign : Bool) (cs : List Char) : Option Int :=
  match cs with
  | [] => none
  | '-' :: ds =>
    if allowSign && !ds.isEmpty && ds.all isDigitChar then some (-(decVal ds : Int)) else none
  | ds => if ds.all isDigitChar then some (decVal ds : Int) else none

/-- the literal denotes a value of the integer primitive type `p` -/
def intRepresentable (p : String) (lit : String) : Bool :=
  match intRange p with
  | none => false
  | some (lo, hi) =>
    match intLiteral? (decide (lo < 0)) lit.toList with
    | some v => decide (lo ≤ v) && decide (v ≤ hi)
    | none => false

/-! ### floating-point literals

  XML-schema lexical forms: `[+-]? (digits [. digits*] | . digits) ([eE] [+-]? digits)?`,
  `INF`, `+INF`, `-INF`, `NaN`.  A decimal form is representable when its
  value, rounded to the binary format, neither overflows nor underflows
  inexactly (what `strtof`/`strtod` report as a range error). -/

structure FpFormat where
  /-- precision in bits -/ p : Nat
  /-- largest binary exponent: max finite < 2^(emax+1) -/ emax : Nat
  /-- min normal = 2^(-emin) -/ emin : Nat

def fpFloat : FpFormat := ⟨24, 127, 126⟩
def fpDouble : FpFormat := ⟨53, 1023, 1022⟩

/-- split a list at the first element satisfying `f` -/
def splitAt? (f : Char → Bool) : List Char → Option (List Char × List Char)
  | [] => none
  | c :: cs => if f c then some ([], cs) else (splitAt? f cs).map (fun (a, b) => (c :: a, b))

/-- decimal form → (mantissa digits as a number, decimal exponent): value = m · 10^e -/
def decimalForm? (cs : List Char) : Option (Nat × Int) :=
  let (mant, exp?) := match splitAt? (fun c => c == 'e' || c == 'E') cs with
    | some (m, e) => (m, some e)
    | none => (cs, none)
  let (ip, fp) := match splitAt? (· == '.') mant with
    | some (i, f) => (i, f)
    | none => (mant, [])
  if !(ip.all isDigitChar && fp.all isDigitChar) || (ip.isEmpty && fp.isEmpty) then none
  else
    let e? : Option Int := match exp? with
      | none => some 0
      | some ('+' :: ds) => (intLiteral? false ds)
      | some ds => intLiteral? true ds
    match e? with
    | none => none
    | some e => some (decVal (ip ++ fp), e - fp.length)

def numDigits (m : Nat) : Nat := (Nat.toDigits 10 m).length

/-- `m · 10^e` (m > 0) rounds to a finite value without inexact underflow -/
def inFpRange (f : FpFormat) (m : Nat) (e : Int) : Bool :=
  if m = 0 then true
  else
    -- crude magnitude guards keep the exact test below small
    let mag : Int := e + numDigits m
    if mag > 400 then false
    else if mag < -1200 then false
    else
      -- q = num / den
      let num := if e ≥ 0 then m * 10 ^ e.toNat else m
      let den := if e ≥ 0 then 1 else 10 ^ (-e).toNat
      -- overflow: q ≥ (2^p − 1/2) · 2^(emax+1−p)  ⇔  2·q ≥ (2^(p+1) − 1) · 2^(emax+1−p)
      let over := decide (2 * num ≥ (2 ^ (f.p + 1) - 1) * 2 ^ (f.emax + 1 - f.p) * den)
      -- tiny (after rounding to p bits with unbounded exponent): q < (1 − 2^(−p−1)) · 2^(−emin)
      --   ⇔ q · 2^(emin+p+1) < 2^(p+1) − 1   [a tie rounds to even = up to 2^(−emin)]
      let tiny := decide (num * 2 ^ (f.emin + f.p + 1) < (2 ^ (f.p + 1) - 1) * den)
      -- exact in the subnormal grid: q is a multiple of 2^(−emin−p+1)
      let exact := decide ((num * 2 ^ (f.emin + f.p - 1)) % den = 0)
      !over && !(tiny && !exact)

def fpRepresentable (f : FpFormat) (lit : String) : Bool :=
  let cs := lit.toList
  if cs = "NaN".toList || cs = "INF".toList || cs = "+INF".toList || cs = "-INF".toList then true
  else
    let body := match cs with
      | '+' :: r => r
      | '-' :: r => r
      | r => r
    match decimalForm? body with
    | some (m, e) => inFpRange f m e
    | none => false

/-- "the literal is representable in primitive type `p`" -/
def representable (p : String) (lit : String) : Bool :=
  if p == "float" then fpRepresentable fpFloat lit
  else if p == "double" then fpRepresentable fpDouble lit
  else intRepresentable p lit

/-! ### names -/

/-- SBE symbolic name: non-empty, letters/digits/underscore, not starting with a digit -/
def symbolicName (n : String) : Bool :=
  match n.toList with
  | [] => false
  | c :: cs => !c.isDigit && (c :: cs).all (fun ch => ch.isAlphanum || ch == '_')

/-- the C++ keywords (ISO C++20 [lex.key] table 5 and the alternative tokens of table 6) -/
def cppKeywords : List String :=
  ["alignas", "alignof", "asm", "auto", "bool", "break", "case", "catch", "char", "char8_t", "char16_t",
   "char32_t", "class", "concept", "const", "consteval", "constexpr", "constinit", "const_cast", "continue",
   "co_await", "co_return", "co_yield", "decltype", "default", "delete", "do", "double", "dynamic_cast",
   "else", "enum", "explicit", "export", "extern", "false", "float", "for", "friend", "goto", "if", "inline",
   "int", "long", "mutable", "namespace", "new", "noexcept", "nullptr", "operator", "private", "protected",
   "public", "register", "reinterpret_cast", "requires", "return", "short", "signed", "sizeof", "static",
   "static_assert", "static_cast", "struct", "switch", "template", "this", "thread_local", "throw", "true",
   "try", "typedef", "typeid", "typename", "union", "unsigned", "using", "virtual", "void", "volatile",
   "wchar_t", "while",
   "and", "and_eq", "bitand", "bitor", "compl", "not", "not_eq", "or", "or_eq", "xor", "xor_eq"]

def isKeyword (n : String) : Bool := cppKeywords.contains n

/-- usable as the C++ namespace of the generated code -/
def validNamespace (n : String) : Bool := symbolicName n && !isKeyword n && n != "std" && n != "posix"

/-! ### the entities of a schema, with their paths -/

def elemOffset : Elem → Option Nat
  | .type t => t.offset
  | .composite _ o _ _ => o
  | .ref _ _ o _ => o
  | .enum _ _ o _ _ => o
  | .set _ _ o _ _ => o

mutual
  /-- an encoding and every encoding nested in it, with paths -/
  def subElems (p : Path) : Elem → List (Path × Elem)
    | .composite n o elems a => (p, .composite n o elems a) :: subElemsL p elems
    | e => [(p, e)]
  def subElemsL (p : Path) : List Elem → List (Path × Elem)
    | [] => []
    | e :: rest => subElems (p ++ [e.name]) e ++ subElemsL p rest
end

def typePath (e : Elem) : Path := ["types", e.name]

/-- every encoding of the schema: public types and everything nested in composites -/
def allElems (s : SchemaDef) : List (Path × Elem) := s.types.flatMap (fun t => subElems (typePath t) t)

/-- one level of a message: (path, custom blockLength, fields, groups, datas) -/
structure LevelView where
  path : Path
  blockLength : Option Nat
  fields : List FieldDef
  groups : List GroupDef
  datas : List DataDef
  /-- the composite in front of the level on the wire: the message header / the group's dimension -/
  hdr : String

def gName : GroupDef → String | .mk n _ _ _ _ _ _ _ => n
def gId : GroupDef → Nat | .mk _ i _ _ _ _ _ _ => i
def gDim : GroupDef → String | .mk _ _ d _ _ _ _ _ => d
def gAttrs : GroupDef → Attrs | .mk _ _ _ _ _ _ _ a => a

mutual
  def groupLevels (p : Path) : GroupDef → List LevelView
    | .mk n _ dim bl fields groups datas _ => ⟨p ++ [n], bl, fields, groups, datas, dim⟩ :: groupLevelsL (p ++ [n]) groups
  def groupLevelsL (p : Path) : List GroupDef → List LevelView
    | [] => []
    | g :: rest => groupLevels p g ++ groupLevelsL p rest
end

def msgPath (m : MessageDef) : Path := ["messages", m.name]

def messageLevels (hdr : String) (m : MessageDef) : List LevelView :=
  ⟨msgPath m, m.blockLength, m.fields, m.groups, m.datas, hdr⟩ :: groupLevelsL (msgPath m) m.groups

def allLevels (s : SchemaDef) : List LevelView := s.messages.flatMap (messageLevels s.headerType)

/-! ### references -/

/-- type lookup is case-insensitive (SBE) -/
def findType (types : List Elem) (name : String) : Option Elem :=
  types.find? (fun e => e.name.toLower == name.toLower)

/-- primitive type behind an `encodingType` (enum / set), if it is a primitive
    or names a public scalar type -/
def underlyingPrim (types : List Elem) (enc : String) : Option String :=
  if isPrim enc then some enc
  else match findType types enc with
    | some (.type t) => some t.prim
    | _ => none

mutual
  /-- names of the public types an encoding refers to through `<ref>` (directly,
      i.e. without following them) -/
  def directRefs : Elem → List String
    | .ref _ ty _ _ => [ty]
    | .composite _ _ elems _ => directRefsL elems
    | _ => []
  def directRefsL : List Elem → List String
    | [] => []
    | e :: rest => directRefs e ++ directRefsL rest
end

mutual
  /-- do the references below an encoding unfold completely when `jump` says
      whether a referenced public type does? (a reference to nothing counts as
      unfolded: that is another rule) -/
  def unfoldsWith (types : List Elem) (jump : Elem → Bool) : Elem → Bool
    | .ref _ ty _ _ =>
      (match findType types ty with
       | some u => jump u
       | none => true)
    | .composite _ _ elems _ => unfoldsWithL types jump elems
    | _ => true
  def unfoldsWithL (types : List Elem) (jump : Elem → Bool) : List Elem → Bool
    | [] => true
    | e :: rest => unfoldsWith types jump e && unfoldsWithL types jump rest
end

/-- the reference structure below `e` unfolds within `k` levels of `<ref>` -/
def unfoldsK (types : List Elem) : Nat → Elem → Bool
  | 0 => fun _ => false
  | k + 1 => unfoldsWith types (unfoldsK types k)

/-- the references below a public type do not form (or lead into) a cycle: with `n`
    public types an acyclic chain of references has at most `n` links, so it unfolds
    within `n + 2` levels (one for the type itself, one for the last target) -/
def acyclicBelow (types : List Elem) (t : Elem) : Bool := unfoldsK types (types.length + 2) t

/-! ### sizes (defined exactly for the encodings whose references unfold in at
    most `k` steps; for an acyclic schema `k = number of public types` covers
    everything) -/

def isConstElem (types : List Elem) : Elem → Bool
  | .type t => t.presence == .constant
  | .ref _ ty _ _ =>
    match findType types ty with
    | some (.type t) => t.presence == .constant
    | _ => false
  | _ => false

mutual
  def sizeWith (types : List Elem) (jump : Elem → Option Nat) : Elem → Option Nat
    | .type t => (primBytes t.prim).map (· * t.length)
    | .enum _ enc _ _ _ => (underlyingPrim types enc).bind primBytes
    | .set _ enc _ _ _ => (underlyingPrim types enc).bind primBytes
    | .ref _ ty _ _ => (findType types ty).bind jump
    | .composite _ _ elems _ => endWith types jump 0 elems
  /-- end of the last member when the members are laid out from `cur`
      (constants occupy no space; an explicit offset places its member) -/
  def endWith (types : List Elem) (jump : Elem → Option Nat) (cur : Nat) : List Elem → Option Nat
    | [] => some cur
    | e :: rest =>
      if isConstElem types e then endWith types jump cur rest
      else match sizeWith types jump e with
        | none => none
        | some sz => endWith types jump ((elemOffset e).getD cur + sz) rest
end

def sizeK (types : List Elem) : Nat → Elem → Option Nat
  | 0 => fun _ => none
  | k + 1 => sizeWith types (sizeK types k)

/-- encoded size of an encoding; `none` if something it needs is undefined -/
def sizeOf (types : List Elem) (e : Elem) : Option Nat := sizeK types (types.length + 1) e

/-- position (running minimum) in front of each member of a composite:
    `(member, minimum offset)` for the non-constant members whose predecessors have a size -/
def memberMinima (types : List Elem) : Nat → List Elem → List (Elem × Nat)
  | _, [] => []
  | cur, e :: rest =>
    if isConstElem types e then memberMinima types cur rest
    else (e, cur) :: (match sizeOf types e with
      | some sz => memberMinima types ((elemOffset e).getD cur + sz) rest
      | none => [])

/-! ### rule families -/

def u64Max : Nat := 18446744073709551615
def u32Max : Nat := 4294967295
def u16Max : Nat := 65535
def u8Max : Nat := 255

def attrsNumeric (a : Attrs) : Bool := a.since ≤ u64Max && (a.deprecated.getD 0) ≤ u64Max
def optU64 (o : Option Nat) : Bool := o.getD 0 ≤ u64Max

def elemAttrs : Elem → Attrs
  | .type t => t.attrs
  | .composite _ _ _ a => a
  | .ref _ _ _ a => a
  | .enum _ _ _ _ a => a
  | .set _ _ _ _ a => a

def vvAttrViols (p : Path) (v : ValidValue) : List Viol :=
  (if v.name.isEmpty then [(.attrEmpty, p ++ [v.name])] else []) ++
  (if !attrsNumeric v.attrs then [(.attrNotNumeric, p ++ [v.name])] else []) ++
  (if v.value.isEmpty then [(.nodeContentEmpty, p ++ [v.name])] else [])

def choiceAttrViols (p : Path) (c : Choice) : List Viol :=
  (if c.name.isEmpty then [(.attrEmpty, p ++ [c.name])] else []) ++
  (if !attrsNumeric c.attrs then [(.attrNotNumeric, p ++ [c.name])] else []) ++
  (if c.index > u8Max then [(.choiceIndexNotNumeric, p ++ [c.name])] else [])

/-- parser-level well-formedness of attributes: required strings non-empty,
    numbers inside the range of their C++ type -/
def attrViolsElem (p : Path) (e : Elem) : List Viol :=
  (if e.name.isEmpty then [(.attrEmpty, p)] else []) ++
  (if !(optU64 (elemOffset e) && attrsNumeric (elemAttrs e)) then [(.attrNotNumeric, p)] else []) ++
  (match e with
   | .type t =>
     (if t.prim.isEmpty then [(.attrEmpty, p)] else []) ++
     (if t.length > u64Max then [(.attrNotNumeric, p)] else [])
   | .ref _ ty _ _ => if ty.isEmpty then [(.attrEmpty, p)] else []
   | .enum _ enc _ vs _ => (if enc.isEmpty then [(.attrEmpty, p)] else []) ++ vs.flatMap (vvAttrViols p)
   | .set _ enc _ cs _ => (if enc.isEmpty then [(.attrEmpty, p)] else []) ++ cs.flatMap (choiceAttrViols p)
   | _ => [])

def fieldAttrViols (lp : Path) (f : FieldDef) : List Viol :=
  (if f.name.isEmpty || f.type.isEmpty then [(.attrEmpty, lp ++ [f.name])] else []) ++
  (if !(f.id ≤ u16Max && optU64 f.offset && attrsNumeric f.attrs) then [(.attrNotNumeric, lp ++ [f.name])] else [])

def groupAttrViols (lp : Path) (g : GroupDef) : List Viol :=
  (if (gName g).isEmpty then [(.attrEmpty, lp ++ [gName g])] else []) ++
  (if !(gId g ≤ u16Max && attrsNumeric (gAttrs g)) then [(.attrNotNumeric, lp ++ [gName g])] else [])

def dataAttrViols (lp : Path) (d : DataDef) : List Viol :=
  (if d.name.isEmpty || d.type.isEmpty then [(.attrEmpty, lp ++ [d.name])] else []) ++
  (if !(d.id ≤ u16Max && attrsNumeric d.attrs) then [(.attrNotNumeric, lp ++ [d.name])] else [])

def attrViolsLevel (l : LevelView) : List Viol :=
  (if !optU64 l.blockLength then [(.attrNotNumeric, l.path)] else []) ++
  l.fields.flatMap (fieldAttrViols l.path) ++ l.groups.flatMap (groupAttrViols l.path) ++
  l.datas.flatMap (dataAttrViols l.path)

def msgAttrViols (m : MessageDef) : List Viol :=
  (if m.name.isEmpty then [(.attrEmpty, msgPath m)] else []) ++
  (if !(m.id ≤ u32Max && attrsNumeric m.attrs) then [(.attrNotNumeric, msgPath m)] else [])

def attrViols (s : SchemaDef) : List Viol :=
  (if !(s.id ≤ u32Max && s.version ≤ u64Max) then [(.attrNotNumeric, ["schema"])] else []) ++
  (allElems s).flatMap (fun (p, e) => attrViolsElem p e) ++
  s.messages.flatMap msgAttrViols ++
  (allLevels s).flatMap attrViolsLevel

/-- the elements of `xs` that repeat an earlier element (under `key`) -/
def repeats {α} (key : α → String) : List String → List α → List α
  | _, [] => []
  | seen, x :: rest => if seen.contains (key x) then x :: repeats key seen rest else repeats key (key x :: seen) rest

def repeatsNat {α} (key : α → Nat) : List Nat → List α → List α
  | _, [] => []
  | seen, x :: rest => if seen.contains (key x) then x :: repeatsNat key seen rest else repeatsNat key (key x :: seen) rest

/-- names inside one encoding are unique: members of a composite, valid values, choices -/
def dupViolsElem (p : Path) : Elem → List Viol
  | .composite _ _ elems _ => (repeats Elem.name [] elems).map (fun x => (.duplicateCompositeElement, p ++ [x.name]))
  | .enum _ _ _ vs _ => (repeats ValidValue.name [] vs).map (fun x => (.duplicateValidValue, p ++ [x.name]))
  | .set _ _ _ cs _ => (repeats Choice.name [] cs).map (fun x => (.duplicateChoice, p ++ [x.name]))
  | _ => []

/-- member names of one level are unique across fields, groups and data -/
def dupViolsLevel (l : LevelView) : List Viol :=
  (repeats id [] (l.fields.map FieldDef.name ++ l.groups.map gName ++ l.datas.map DataDef.name)).map
    (fun n => (.duplicateMemberName, l.path ++ [n]))

/-- uniqueness of names inside their scope -/
def dupViols (s : SchemaDef) : List Viol :=
  (repeats (fun (e : Elem) => e.name.toLower) [] s.types).map (fun e => (.duplicateEncoding, typePath e)) ++
  (allElems s).flatMap (fun (p, e) => dupViolsElem p e) ++
  (repeats MessageDef.name [] s.messages).map (fun m => (.duplicateMessageName, msgPath m)) ++
  (repeatsNat MessageDef.id [] s.messages).map (fun m => (.duplicateMessageId, msgPath m)) ++
  (allLevels s).flatMap dupViolsLevel

/-- every named entity: (name, path) -/
def entityNames (s : SchemaDef) : List (String × Path) :=
  (allElems s).flatMap (fun (p, e) =>
    (e.name, p) :: (match e with
      | .enum _ _ _ vs _ => vs.map (fun v => (v.name, p ++ [v.name]))
      | .set _ _ _ cs _ => cs.map (fun c => (c.name, p ++ [c.name]))
      | _ => [])) ++
  s.messages.map (fun m => (m.name, msgPath m)) ++
  (allLevels s).flatMap (fun l =>
    l.fields.map (fun f => (f.name, l.path ++ [f.name])) ++
    l.groups.map (fun g => (gName g, l.path ++ [gName g])) ++
    l.datas.map (fun d => (d.name, l.path ++ [d.name])))

def nameViols (s : SchemaDef) : List Viol :=
  (entityNames s).filterMap (fun (n, p) =>
    if !symbolicName n then some (.invalidName, p)
    else if isKeyword n then some (.keywordName, p) else none) ++
  (if !validNamespace s.package then [(.badSchemaName, ["schema"])] else [])

/-- numeric value an enum's valid value stands for, as a literal of the enum's
    underlying type: for `char`-based enums the character code -/
def enumValueLiteral (prim : String) (v : String) : String :=
  if prim == "char" then
    match v.toUTF8.data.toList with
    | b :: _ => toString (if b.toNat < 128 then (b.toNat : Int) else (b.toNat : Int) - 256)
    | [] => "0"     -- an empty valid value is itself a violation (`nodeContentEmpty`)
  else v

/-- split `Enum.value` at the first dot -/
def splitValueRef (r : String) : Option (String × String) :=
  match splitAt? (· == '.') r.toList with
  | some (a, b) =>
    if (String.ofList a).isEmpty || (String.ofList b).isEmpty then none else some (String.ofList a, String.ofList b)
  | none => none

/-- what a `valueRef` resolves to: (enum name, its encodingType, the valid value) -/
def resolveValueRef (types : List Elem) (ref : String) : Except DiagClass (String × String × ValidValue) :=
  match splitValueRef ref with
  | none => .error .badValueRef
  | some (en, vn) =>
    match findType types en with
    | none => .error .unknownEncoding
    | some (.enum n enc _ vs _) =>
      (match vs.find? (fun v => v.name == vn) with
       | none => .error .noSuchValidValue
       | some v => .ok (n, enc, v))
    | some _ => .error .notAnEnum

/-- a `valueRef` used where a value of primitive type `prim` is expected -/
def valueRefViols (types : List Elem) (p : Path) (ref : String) (prim : String) : List Viol :=
  match resolveValueRef types ref with
  | .error c => [(c, p)]
  | .ok (_, enc, v) =>
    -- the value is judged as a value of the enum's underlying primitive type
    let up := (underlyingPrim types enc).getD enc
    if !representable prim (enumValueLiteral up v.value) then [(.valueRefOutOfRange, p)] else []

/-- a min/max/null literal of a type over `prim` -/
def litViol (prim : String) (p : Path) : Option String → Option Viol
  | some lit => if representable prim lit then none else some (.valueOutOfRange, p)
  | none => none

/-- rules of a constant `<type>`: exactly one of value / valueRef; the value fits;
    only `char` constants given by value may be longer than 1 -/
def constViols (types : List Elem) (p : Path) (t : TypeDef) : List Viol :=
  (match t.valueRef, t.constValue with
   | some r, none => valueRefViols types p r t.prim
   | none, some c =>
     if t.prim == "char" then (if t.length < c.utf8ByteSize then [(.constantTooLong, p)] else [])
     else (if !representable t.prim c then [(.valueOutOfRange, p)] else [])
   | _, _ => [(.constantWithoutValue, p)]) ++
  (if (t.valueRef.isSome || t.prim != "char") && t.length != 1 then [(.nonCharConstantLength, p)] else [])

/-- rules of one `<type>` -/
def typeViols (types : List Elem) (p : Path) (t : TypeDef) : List Viol :=
  if !isPrim t.prim then [(.unknownPrimitiveType, p)]
  else if t.presence == .constant then constViols types p t
  else if t.length == 1 then
    ([t.minValue, t.maxValue] ++ (if t.presence == .optional then [t.nullValue] else [])).filterMap (litViol t.prim p)
  else if !isSingleBytePrim t.prim then [(.arrayNotSingleByte, p)] else []

/-- the primitive type an `encodingType` attribute stands for (a primitive type, or a
    public non-array `<type>`), or the rule it breaks -/
def resolveEncodingType (types : List Elem) (enc : String) : Except DiagClass String :=
  if isPrim enc then .ok enc
  else match findType types enc with
    | none => .error .unknownEncoding
    | some (.type t) => if t.length != 1 then .error .encodingTypeLength else .ok t.prim
    | some _ => .error .notAType

/-- a valid value of an enum over `prim`: one character for `char`, a representable number otherwise -/
def validValueViol (prim : String) (p : Path) (v : ValidValue) : Option Viol :=
  if (if prim == "char" then v.value.utf8ByteSize == 1 else representable prim v.value) then none
  else some (.valueOutOfRange, p ++ [v.name])

/-- an integer literal without its superfluous leading zeros (the last digit always stays);
    `-0` is `0` -/
def canonInt (cs : List Char) : List Char :=
  let neg := cs.head? == some '-'
  let ds := if neg then cs.drop 1 else cs
  let body := match ds.dropWhile (· == '0') with
    | [] => ds.getLast?.toList
    | r => r
  let r := (if neg then ['-'] else []) ++ body
  if r == ['-', '0'] then ['0'] else r

/-- what a valid value stands for: the character of a `char` enum, the number otherwise
    (`1` and `01` are the same value) -/
def enumValueKey (prim : String) (v : ValidValue) : String :=
  if prim == "char" then v.value else String.ofList (canonInt v.value.toList)

/-- a choice of a set over `prim`: its bit exists -/
def choiceViol (prim : String) (p : Path) (c : Choice) : Option Viol :=
  if c.index < 8 * (primBytes prim).getD 0 then none else some (.choiceIndexOutOfRange, p ++ [c.name])

/-- a member of `size` bytes placed at `off` ends at or before 2^64 − 1 -/
def overflowViol (q : Path) (size : Option Nat) (off : Nat) : Option Viol :=
  match size with
  | some sz => if u64Max < off + sz then some (.offsetOverflow, q) else none
  | none => none

/-- an explicit offset is not below the running minimum, and the member (at its explicit offset, else at the
    running minimum) ends at or before 2^64 − 1 -/
def offsetViol (types : List Elem) (p : Path) (x : Elem × Nat) : Option Viol :=
  match elemOffset x.1 with
  | some o => if o < x.2 then some (.offsetTooSmall, p ++ [x.1.name])
              else overflowViol (p ++ [x.1.name]) (sizeOf types x.1) o
  | none => overflowViol (p ++ [x.1.name]) (sizeOf types x.1) x.2

def elemViols (types : List Elem) (p : Path) : Elem → List Viol
  | .type t => typeViols types p t
  | .enum _ enc _ vs _ =>
    (match resolveEncodingType types enc with
     | .error c => [(c, p)]
     | .ok prim =>
       if !isIntegralPrim prim then [(.enumTypeNotIntegral, p)]
       else vs.filterMap (validValueViol prim p) ++
         -- enumerators become `case` labels: no two of them stand for the same value
         (repeats (enumValueKey prim) [] vs).map (fun v => (.duplicateEnumValue, p ++ [v.name])))
  | .set _ enc _ cs _ =>
    (match resolveEncodingType types enc with
     | .error c => [(c, p)]
     | .ok prim =>
       if !isUnsignedPrim prim then [(.setTypeNotUnsigned, p)] else cs.filterMap (choiceViol prim p))
  | .ref _ ty _ _ => if (findType types ty).isNone then [(.unknownEncoding, p)] else []
  | .composite _ _ elems _ => (memberMinima types 0 elems).filterMap (offsetViol types p)

def cycleViols (s : SchemaDef) : List Viol :=
  s.types.filterMap (fun t => if acyclicBelow s.types t then none else some (.cyclicReference, typePath t))

/-- the `<type>` behind member `name` of a header composite (directly or through a
    `<ref>`) and the member's path, or the rule that is broken -/
def headerMemberType (types : List Elem) (hp : Path) (elems : List Elem) (name : String) : Except Viol (TypeDef × Path) :=
  match elems.find? (fun e => e.name == name) with
  | none => .error (.headerMissingElement, hp)
  | some (.type t) => .ok (t, hp ++ [t.name])
  | some (.ref n ty _ _) =>
    (match findType types ty with
     | some (.type t) => .ok (t, hp ++ [n])
     | _ => .error (.headerElementRefKind, hp ++ [n]))
  | some e => .error (.headerElementKind, hp ++ [e.name])

/-- a level header composite must have member `name`: a non-array, non-constant
    `<type>` or a `<ref>` to one (`varData`: of length 0) -/
def headerMemberViols (types : List Elem) (hp : Path) (elems : List Elem) (name : String) (varData : Bool) : List Viol :=
  match headerMemberType types hp elems name with
  | .error v => [v]
  | .ok (t, ep) =>
    if varData then (if t.length != 0 then [(.varDataLength, ep)] else [])
    else if t.length != 1 then [(.headerElementArray, ep)]
    else if t.presence == .constant then [(.headerElementConstant, ep)]
    else if !isIntegralPrim t.prim then [(.headerElementNotInteger, ep)] else []

/-- encoded size of a composite with these members -/
def compositeSize (types : List Elem) (elems : List Elem) : Option Nat :=
  sizeOf types (.composite "" none elems)

/-- the runtime (`dynamic_array_ref`) reads the length of a `<data>` member at offset 0 and
    expects the payload right behind it: the header composite must occupy exactly the bytes
    of its `length` member (which then sits at offset 0, every other member being empty) -/
def dataLayoutViols (types : List Elem) (hp : Path) (elems : List Elem) : List Viol :=
  match headerMemberType types hp elems "length", compositeSize types elems with
  | .ok (t, ep), some sz => if some sz == primBytes t.prim then [] else [(.dataHeaderLayout, ep)]
  | _, _ => []

/-- counters the header fillers set when a message / group header has them -/
def optionalCounters : List String := ["numGroups", "numVarDataFields"]

/-- a level header: `user` is the entity naming it -/
def headerViols (types : List Elem) (user : Path) (hdr : String) (required : List String) (data : Bool) : List Viol :=
  match findType types hdr with
  | none => [(.headerUnknown, user)]
  | some (.composite n _ elems _) =>
    required.flatMap (fun r => headerMemberViols types ["types", n] elems r false) ++
    (if data then headerMemberViols types ["types", n] elems "varData" true ++ dataLayoutViols types ["types", n] elems
     else optionalCounters.flatMap (fun r =>
       if (elems.find? (fun e => e.name == r)).isSome then headerMemberViols types ["types", n] elems r false else []))
  | some e => [(.headerNotComposite, typePath e)]

/-- the value a header filler writes into member `name` of the header composite `hdr` is
    representable in that member's type (an absent member is not written) -/
def headerValueViols (types : List Elem) (hdr name : String) (value : Nat) (loc : Path) : List Viol :=
  match findType types hdr with
  | some (.composite n _ elems _) =>
    (match headerMemberType types ["types", n] elems name with
     | .ok (t, _) => if representable t.prim (toString value) then [] else [(.headerValueOutOfRange, loc)]
     | .error _ => [])
  | _ => []

/-- presence a field actually has (a field of enum type is never optional, a
    set never anything but required, a field of scalar type inherits the type's) -/
def fieldPresence (types : List Elem) (f : FieldDef) : Presence :=
  if isPrim f.type then f.presence
  else match findType types f.type with
    | some (.type t) => t.presence
    | some (.enum _ _ _ _ _) => if f.presence == .optional then .required else f.presence
    | some (.set _ _ _ _ _) => .required
    | _ => f.presence

def fieldSize (types : List Elem) (f : FieldDef) : Option Nat :=
  if isPrim f.type then primBytes f.type else (findType types f.type).bind (sizeOf types)

/-- rules of a field whose presence is constant: its value comes from a `valueRef` -/
def constFieldViols (types : List Elem) (p : Path) (f : FieldDef) : List Viol :=
  if isPrim f.type then
    (match f.valueRef with
     | none => [(.fieldConstantWithoutValueRef, p)]
     | some r => valueRefViols types p r f.type)
  else match findType types f.type with
    | some (.composite _ _ _ _) => [(.compositeFieldConstant, p)]
    | some (.enum _ _ _ _ _) =>
      (match f.valueRef with
       | none => [(.fieldConstantWithoutValueRef, p)]
       | some r =>
         match resolveValueRef types r with
         | .error c => [(c, p)]
         | .ok (n, _, _) => if f.type.toLower == n.toLower then [] else [(.enumConstantTypeMismatch, p)])
    | _ => []

def fieldViols (types : List Elem) (lp : Path) (f : FieldDef) : List Viol :=
  if !isPrim f.type && (findType types f.type).isNone then [(.unknownFieldType, lp ++ [f.name])]
  else if fieldPresence types f == .constant then constFieldViols types (lp ++ [f.name]) f
  else []

/-- running minima of the non-constant fields of a level -/
def fieldMinima (types : List Elem) : Nat → List FieldDef → List (FieldDef × Nat)
  | _, [] => []
  | cur, f :: rest =>
    if fieldPresence types f == .constant then fieldMinima types cur rest
    else (f, cur) :: (match fieldSize types f with
      | some sz => fieldMinima types (f.offset.getD cur + sz) rest
      | none => [])

/-- end of the last field (= the minimal block length), if all sizes are defined -/
def fieldsEnd (types : List Elem) : Nat → List FieldDef → Option Nat
  | cur, [] => some cur
  | cur, f :: rest =>
    if fieldPresence types f == .constant then fieldsEnd types cur rest
    else match fieldSize types f with
      | some sz => fieldsEnd types (f.offset.getD cur + sz) rest
      | none => none

/-- an explicit field offset is not below the running minimum, and the field ends at or before 2^64 − 1 -/
def fieldOffsetViol (types : List Elem) (lp : Path) (x : FieldDef × Nat) : Option Viol :=
  match x.1.offset with
  | some o => if o < x.2 then some (.offsetTooSmall, lp ++ [x.1.name])
              else overflowViol (lp ++ [x.1.name]) (fieldSize types x.1) o
  | none => overflowViol (lp ++ [x.1.name]) (fieldSize types x.1) x.2

/-- an explicit blockLength is not below the end of the last field -/
def blockLengthViols (types : List Elem) (lp : Path) (bl : Option Nat) (fields : List FieldDef) : List Viol :=
  match bl, fieldsEnd types 0 fields with
  | some b, some e => if b < e then [(.blockLengthTooSmall, lp)] else []
  | _, _ => []

def levelViols (types : List Elem) (l : LevelView) : List Viol :=
  l.fields.flatMap (fieldViols types l.path) ++
  (fieldMinima types 0 l.fields).filterMap (fieldOffsetViol types l.path) ++
  blockLengthViols types l.path l.blockLength l.fields ++
  (match fieldsEnd types 0 l.fields with
   | some e => headerValueViols types l.hdr "blockLength" (l.blockLength.getD e) l.path
   | none => []) ++
  headerValueViols types l.hdr "numGroups" l.groups.length l.path ++
  headerValueViols types l.hdr "numVarDataFields" l.datas.length l.path ++
  l.groups.flatMap (fun g => headerViols types (l.path ++ [gName g]) (gDim g) ["numInGroup", "blockLength"] false) ++
  l.datas.flatMap (fun d => headerViols types (l.path ++ [d.name]) d.type ["length"] true)

/-- every broken rule, with the entity it is broken at -/
def violations (s : SchemaDef) : List Viol :=
  attrViols s ++ dupViols s ++ nameViols s ++
  (allElems s).flatMap (fun (p, e) => elemViols s.types p e) ++
  cycleViols s ++
  headerViols s.types ["schema"] s.headerType ["schemaId", "templateId", "version", "blockLength"] false ++
  headerValueViols s.types s.headerType "schemaId" s.id ["schema"] ++
  headerValueViols s.types s.headerType "version" s.version ["schema"] ++
  s.messages.flatMap (fun m => headerValueViols s.types s.headerType "templateId" m.id (msgPath m)) ++
  (allLevels s).flatMap (levelViols s.types)

/-- **the specification**: no rule is broken anywhere -/
def Rules (s : SchemaDef) : Prop := violations s = []

def rulesB (s : SchemaDef) : Bool := (violations s).isEmpty

instance (s : SchemaDef) : Decidable (Rules s) := by unfold Rules; exact inferInstance

end Sbepp.Spec.Rules
