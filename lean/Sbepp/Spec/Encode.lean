/-
  Specification of what an in-order encode must leave in the buffer: the SBE
  wire image of the value (compiled block lengths, i.e. no extension), with every
  byte that does not belong to a written member keeping its previous value.

  The value tree supplies field bytes (only the leaf ranges of each block are
  consulted), entry counts and data payloads.
-/
import Sbepp.Schema.Layout

namespace Sbepp.Spec
open Sbepp

def writeLeaves (buf : List Nat) (pos : Nat) (block : List Nat) : List Leaf → List Nat
  | [] => buf
  | lf :: rest => writeLeaves (writeAt buf (pos + lf.off) (slice block lf.off lf.size)) pos block rest

def writeExtras (bo : ByteOrder) (buf : List Nat) (pos : Nat) : List (Leaf × Nat) → List Nat
  | [] => buf
  | (lf, v) :: rest => writeExtras bo (writeAt buf (pos + lf.off) (put bo lf.size v)) pos rest

def encDs (bo : ByteOrder) : List DataL → List (List Nat) → List Nat → Nat → List Nat × Nat
  | d :: ds, p :: ps, buf, pos =>
    let buf := writeAt buf pos (put bo d.lenSize p.length)
    let buf := writeAt buf (pos + d.lenSize) p
    encDs bo ds ps buf (pos + d.lenSize + p.length)
  | _, _, buf, pos => (buf, pos)

mutual
  def encL (bo : ByteOrder) : Level → LVal → List Nat → Nat → List Nat × Nat
    | .mk bl lv gs ds, .mk block gvs dvs, buf, pos =>
      let buf := writeLeaves buf pos block lv
      let r := encGs bo gs gvs buf (pos + bl)
      encDs bo ds dvs r.1 r.2
  def encGs (bo : ByteOrder) : List Group → List GVal → List Nat → Nat → List Nat × Nat
    | g :: gs, v :: vs, buf, pos =>
      let r := encG bo g v buf pos
      encGs bo gs vs r.1 r.2
    | _, _, buf, pos => (buf, pos)
  def encG (bo : ByteOrder) : Group → GVal → List Nat → Nat → List Nat × Nat
    | .mk dim l, .mk _ es, buf, pos =>
      let buf := writeAt buf (pos + dim.blOff) (put bo dim.blSize l.blockLen)
      let buf := writeAt buf (pos + dim.numOff) (put bo dim.numSize es.length)
      let buf := writeExtras bo buf pos dim.extras
      encEs bo l es buf (pos + dim.size)
  def encEs (bo : ByteOrder) : Level → List LVal → List Nat → Nat → List Nat × Nat
    | _, [], buf, pos => (buf, pos)
    | l, e :: es, buf, pos =>
      let r := encL bo l e buf pos
      encEs bo l es r.1 r.2
end

end Sbepp.Spec
