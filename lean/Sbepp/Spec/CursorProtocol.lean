/-
  The documented cursor protocol (doc/representation.md "Cursor-based
  accessors" and the `sbepp::cursor_ops` documentation), written over the
  *geometry* of a level — where each member starts and ends — and nothing from
  the cursor implementation (no relative offsets, no accessor variants).

  * By default a member assumes that the cursor is at the end of the previous
    member in schema order (`Pre`): for a field, the end of the previous
    non-constant field (the level start = end of the message/no header for the
    first one); the first variable-length member of a level needs nothing (it
    "unconditionally initializes cursor to the end of the block"); a later
    group/data member needs the end of the previous one, which is its own start.
  * Afterwards (`Post`): a field moves the cursor up by its size, the last field
    moves it to the end of the block, a group moves it to the end of its
    dimension header, a data member to the end of its payload; `skip` moves to
    the end of the field/group/data (the *whole* group) and returns nothing;
    `init` needs no `Pre`; `dont_move` does not advance; `init_dont_move`
    initializes (to `Pre`, for a dynamic member its start) and does not advance.
  * With checks enabled a plain/dont_move/skip call whose `Pre` does not hold is
    reported (`reported`), nothing else happens.

  The geometry comes either from the buffer the way the random-access
  accessors compute it (`geoWalk`, used by the theorems: cursor ≡ random
  access) or from the value tree alone (`geoTree`, used by the driver as the
  independent expectation).
-/
import Sbepp.Rt.Walk
import Sbepp.Gen.CursorOffsets

namespace Sbepp.Spec.CursorProtocol
open Sbepp Sbepp.Gen Sbepp.Cursor Sbepp.Schema

structure FieldGeo where
  /-- end of the previous non-constant field (level start for the first) -/
  pre : Nat
  start : Nat
  size : Nat
  isView : Bool
  /-- the field's bytes -/
  bytes : List Nat
  deriving Repr, Inhabited, DecidableEq

structure GroupGeo where
  start : Nat
  hdrEnd : Nat
  /-- end of the last entry -/
  stop : Nat
  deriving Repr, Inhabited, DecidableEq

structure DataGeo where
  start : Nat
  stop : Nat
  deriving Repr, Inhabited, DecidableEq

structure LevelGeo where
  /-- level start + wire block length -/
  blockEnd : Nat
  fields : List FieldGeo
  groups : List GroupGeo
  datas : List DataGeo
  deriving Repr, Inhabited

inductive SpecOut
  | ok (res : Res) (cur : Option Nat)
  /-- reported through the assertion handler -/
  | reported
  /-- the call does not exist (no such member; setter through `skip`) -/
  | noSuchCall
  deriving Repr, DecidableEq, Inhabited

/-- plain, dont_move and skip rely on the cursor position -/
def needsPre : Wrapper → Bool
  | .plain | .dontMove | .skip => true
  | .init | .initDontMove => false

/-! ### one member -/

def fieldRes (f : FieldGeo) : Wrapper → Res
  | .skip => .void
  | _ => if f.isView then .view f.start else .value f.bytes

def fieldPost (f : FieldGeo) (last : Bool) (blockEnd : Nat) (cur : Option Nat) : Wrapper → Option Nat
  | .plain | .init | .skip => some (if last then blockEnd else f.start + f.size)
  | .initDontMove => some f.pre
  | .dontMove => cur

/-- getter of a field -/
def specField (f : FieldGeo) (last : Bool) (blockEnd : Nat) (w : Wrapper) (cur : Option Nat) : SpecOut :=
  if needsPre w ∧ cur ≠ some f.pre then .reported
  else .ok (fieldRes f w) (fieldPost f last blockEnd cur w)

/-- setter of a scalar field: positions as for the getter, nothing returned -/
def specFieldSet (f : FieldGeo) (last : Bool) (blockEnd : Nat) (w : Wrapper) (cur : Option Nat) : SpecOut :=
  match w with
  | .skip => .noSuchCall
  | _ =>
    if needsPre w ∧ cur ≠ some f.pre then .reported
    else .ok .void (fieldPost f last blockEnd cur w)

/-- a group or data accessor returns the view of the member, `skip` returns nothing -/
def viewRes (start : Nat) : Wrapper → Res
  | .skip => .void
  | _ => .view start

def groupPost (g : GroupGeo) (first : Bool) (cur : Option Nat) : Wrapper → Option Nat
  | .plain | .init => some g.hdrEnd
  | .skip => some g.stop
  | .initDontMove => some g.start
  | .dontMove => if first then some g.start else cur

/-- `first`: the group is the first variable-length member of its level -/
def specGroup (g : GroupGeo) (first : Bool) (w : Wrapper) (cur : Option Nat) : SpecOut :=
  if needsPre w ∧ ¬ first ∧ cur ≠ some g.start then .reported
  else .ok (viewRes g.start w) (groupPost g first cur w)

def dataPost (d : DataGeo) (first : Bool) (cur : Option Nat) : Wrapper → Option Nat
  | .plain | .init | .skip => some d.stop
  | .initDontMove => some d.start
  | .dontMove => if first then some d.start else cur

def specData (d : DataGeo) (first : Bool) (w : Wrapper) (cur : Option Nat) : SpecOut :=
  if needsPre w ∧ ¬ first ∧ cur ≠ some d.start then .reported
  else .ok (viewRes d.start w) (dataPost d first cur w)

/-! ### a member of a level, by index -/

inductive MRef
  | field (i : Nat)
  | group (k : Nat)
  | data (k : Nat)
  deriving Repr, DecidableEq, Inhabited

def specGet (geo : LevelGeo) (m : MRef) (w : Wrapper) (cur : Option Nat) : SpecOut :=
  match m with
  | .field i =>
    match geo.fields[i]? with
    | none => .noSuchCall
    | some f => specField f (i + 1 == geo.fields.length) geo.blockEnd w cur
  | .group k =>
    match geo.groups[k]? with
    | none => .noSuchCall
    | some g => specGroup g (k == 0) w cur
  | .data k =>
    match geo.datas[k]? with
    | none => .noSuchCall
    | some d => specData d (k == 0 && geo.groups.isEmpty) w cur

def specSet (geo : LevelGeo) (i : Nat) (w : Wrapper) (cur : Option Nat) : SpecOut :=
  match geo.fields[i]? with
  | none => .noSuchCall
  | some f => specFieldSet f (i + 1 == geo.fields.length) geo.blockEnd w cur

/-! ### geometry -/

/-- fields of a level that starts at `lvl`, with the bytes found by `bytesAt start size` -/
def fieldGeos (lvl : Nat) (bytesAt : Nat → Nat → List Nat) : Nat → List FieldSpan → List FieldGeo
  | _, [] => []
  | prevEnd, s :: rest =>
    ⟨lvl + prevEnd, lvl + s.off, s.size, s.isView, bytesAt (lvl + s.off) s.size⟩
      :: fieldGeos lvl bytesAt (s.off + s.size) rest

/-- groups from the buffer, the way the random-access accessors find them:
    the first at the block end, each next one at the previous one's address +
    `size_bytes` -/
def groupGeosWalk (bo : ByteOrder) (buf : List Nat) : List Group → Nat → List GroupGeo
  | [], _ => []
  | g :: gs, p => ⟨p, p + g.dim.size, endG bo buf g p⟩ :: groupGeosWalk bo buf gs (endG bo buf g p)

def dataGeosWalk (bo : ByteOrder) (buf : List Nat) : List DataL → Nat → List DataGeo
  | [], _ => []
  | d :: ds, p =>
    ⟨p, p + d.lenSize + rd bo buf p d.lenSize⟩ :: dataGeosWalk bo buf ds (p + d.lenSize + rd bo buf p d.lenSize)

/-- geometry read from the buffer (random access): level at `lvl`, wire block length `wbl` -/
def geoWalk (bo : ByteOrder) (buf : List Nat) (spans : List FieldSpan) (gs : List Group) (ds : List DataL)
    (lvl wbl : Nat) : LevelGeo :=
  { blockEnd := lvl + wbl
    fields := fieldGeos lvl (fun p n => slice buf p n) 0 spans
    groups := groupGeosWalk bo buf gs (lvl + wbl)
    datas := dataGeosWalk bo buf ds (endGs bo buf gs (lvl + wbl)) }

/-- groups from the value tree: sizes of the images -/
def groupGeosTree (bo : ByteOrder) : List Group → List GVal → Nat → List GroupGeo
  | g :: gs, v :: vs, p =>
    ⟨p, p + g.dim.size, p + (flattenG bo g v).length⟩ :: groupGeosTree bo gs vs (p + (flattenG bo g v).length)
  | _, _, _ => []

def dataGeosTree : List DataL → List (List Nat) → Nat → List DataGeo
  | d :: ds, pl :: pls, p =>
    ⟨p, p + d.lenSize + pl.length⟩ :: dataGeosTree ds pls (p + d.lenSize + pl.length)
  | _, _, _ => []

/-- geometry from the value tree alone; `bytesAt` supplies the current bytes of
    a field (the block of the tree, or the image after earlier setter calls) -/
def geoTree (bo : ByteOrder) (spans : List FieldSpan) (gs : List Group) (ds : List DataL) (v : LVal) (lvl : Nat)
    (bytesAt : Nat → Nat → List Nat) : LevelGeo :=
  { blockEnd := lvl + v.block.length
    fields := fieldGeos lvl bytesAt 0 spans
    groups := groupGeosTree bo gs v.groups (lvl + v.block.length)
    datas := dataGeosTree ds v.datas (lvl + v.block.length + (flattenGs bo gs v.groups).length) }

/-- the bytes of a field according to the tree -/
def blockBytes (v : LVal) (lvl : Nat) : Nat → Nat → List Nat := fun p n => slice v.block (p - lvl) n

/-- start of entry `i` of a group whose first entry starts at `p` (tree) -/
def entryStartTree (bo : ByteOrder) (l : Level) : List LVal → Nat → Nat → Nat
  | _, 0, p => p
  | [], _ + 1, p => p
  | e :: es, i + 1, p => entryStartTree bo l es i (p + (flattenL bo l e).length)

/-! ### cursor ranges (documentation of `cursor_range` / `cursor_subrange`)

  `cursor_range(c)` is the range of all entries `[0, size())`;
  `cursor_subrange(c, pos)` is `[pos, size())`, precondition `pos < size()`;
  `cursor_subrange(c, pos, count)` is `[pos, pos + count)`, preconditions
  `pos < size()` and `count <= size() - pos`.  Each entry is created from the
  cursor, which must be at the start of the entry (end of the group header for
  entry 0, end of entry `i-1` for entry `i`); after a complete iteration in which
  every entry is traversed the cursor is at the end of the last entry of the
  range.  In a checked build a violated precondition is reported. -/

/-- `(first index, number of entries)` of the range over a group of `n`
    entries; `none`: precondition violated -/
def rangeSpec (n : Nat) : RangeKind → Option (Nat × Nat)
  | .all => some (0, n)
  | .sub pos => if pos < n then some (pos, n - pos) else none
  | .subn pos count => if pos < n ∧ count ≤ n - pos then some (pos, count) else none

/-- the entries a complete iteration visits -/
def rangeEntries (n : Nat) (k : RangeKind) : List Nat :=
  match rangeSpec n k with
  | some (s, l) => (List.range l).map (· + s)
  | none => []

end Sbepp.Spec.CursorProtocol
