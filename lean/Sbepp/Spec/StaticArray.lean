/-
  Specification of fixed-length arrays (SBE `<type length="N">`, used as
  strings): what assignment, padding and the two string-length functions are
  documented to do, in plain `List` terms.  Nothing here comes from sbepp.

  An array is the list of its `N` elements.  A byte is a `Nat`; `0` is NUL.
-/
namespace Sbepp.Spec.StaticArray

/-- how many NULs follow the content -/
inductive Eos
  | none    -- nothing after the content is touched
  | single  -- one NUL, if there is room
  | all     -- NULs up to the end of the array
  deriving DecidableEq, Repr

/-- the elements after the content, after padding -/
def padded (rest : List Nat) : Eos → List Nat
  | .none => rest
  | .single =>
    match rest with
    | [] => []
    | _ :: t => 0 :: t
  | .all => List.replicate rest.length 0

/-- array after assigning the string `s` with padding mode `m` -/
def assignString (arr s : List Nat) (m : Eos) : List Nat :=
  s ++ padded (arr.drop s.length) m

/-- array after assigning `s` to the first elements -/
def assignPrefix (arr s : List Nat) : List Nat :=
  s ++ arr.drop s.length

/-- index of the first NUL, or the array length -/
def strlen (arr : List Nat) : Nat :=
  (arr.takeWhile (fun b => b != 0)).length

/-- index after the last non-NUL, or 0 -/
def strlenR (arr : List Nat) : Nat :=
  arr.length - (arr.reverse.takeWhile (fun b => b == 0)).length

inductive Op
  | assignString (s : List Nat) (m : Eos)   -- `assign_string`, both overloads
  | assignRange (s : List Nat)               -- `assign_range`, `assign(first,last)`, `assign({…})`
  | assignCount (count value : Nat)          -- `assign(count, value)`
  | fill (value : Nat)
  | strlen
  | strlenR
  deriving Repr

/-- what a call returns -/
inductive Ret
  | iter (i : Nat)   -- iterator to element `i` (`i = N`: `end()`)
  | size (n : Nat)
  | void
  deriving DecidableEq, Repr

inductive Result
  /-- array afterwards, returned value -/
  | ok (arr : List Nat) (ret : Ret)
  /-- documented precondition violated: a checked build must call the handler -/
  | reject
  deriving DecidableEq, Repr

def apply (arr : List Nat) : Op → Result
  | .assignString s m =>
    if s.length ≤ arr.length then .ok (assignString arr s m) (.iter s.length) else .reject
  | .assignRange s =>
    if s.length ≤ arr.length then .ok (assignPrefix arr s) (.iter s.length) else .reject
  | .assignCount count value =>
    if count ≤ arr.length then .ok (assignPrefix arr (List.replicate count value)) (.iter count)
    else .reject
  | .fill value => .ok (List.replicate arr.length value) .void
  | .strlen => .ok arr (.size (strlen arr))
  | .strlenR => .ok arr (.size (strlenR arr))

/-- the documented precondition of a call on an array of `N` elements -/
def InContract (N : Nat) : Op → Prop
  | .assignString s _ => s.length ≤ N
  | .assignRange s => s.length ≤ N
  | .assignCount count _ => count ≤ N
  | .fill _ => True
  | .strlen => True
  | .strlenR => True

/-! ### the executable definitions mean what the property says -/

/-- `k` is the index of the first NUL of `arr`, or its length -/
def IsStrlen (arr : List Nat) (k : Nat) : Prop :=
  k ≤ arr.length ∧ (∀ i, i < k → arr[i]? ≠ some 0) ∧ (k < arr.length → arr[k]? = some 0)

/-- `k` is the index after the last non-NUL of `arr`, or 0 -/
def IsStrlenR (arr : List Nat) (k : Nat) : Prop :=
  k ≤ arr.length ∧ (∀ i, k ≤ i → i < arr.length → arr[i]? = some 0) ∧
    (0 < k → arr[k - 1]? ≠ some 0)

/-- `r` is `arr` with content `s` followed by none/one/all NULs, never longer
    than `arr` -/
def IsAssignString (arr s : List Nat) (m : Eos) (r : List Nat) : Prop :=
  r.length = arr.length ∧
  ∀ i, i < arr.length →
    r[i]? =
      if i < s.length then s[i]?
      else match m with
        | .none => arr[i]?
        | .single => if i = s.length then some 0 else arr[i]?
        | .all => some 0

theorem strlen_cons (b : Nat) (bs : List Nat) :
    strlen (b :: bs) = if b = 0 then 0 else strlen bs + 1 := by
  unfold strlen
  by_cases h : b = 0
  · simp [h]
  · simp [h]

theorem strlen_isStrlen (arr : List Nat) : IsStrlen arr (strlen arr) := by
  induction arr with
  | nil => exact ⟨Nat.le_refl _, fun i h => absurd h (Nat.not_lt_zero _), fun h => absurd h (Nat.lt_irrefl _)⟩
  | cons b bs ih =>
    obtain ⟨h1, h2, h3⟩ := ih
    rw [strlen_cons]
    by_cases hb : b = 0
    · simp only [hb, if_true]
      refine ⟨Nat.zero_le _, fun i h => absurd h (Nat.not_lt_zero _), fun _ => ?_⟩
      simp
    · simp only [hb, if_false]
      refine ⟨by simp only [List.length_cons]; omega, ?_, ?_⟩
      · intro i hi
        cases i with
        | zero => simp [hb]
        | succ j =>
          simp only [List.getElem?_cons_succ]
          exact h2 j (by omega)
      · intro hk
        simp only [List.length_cons] at hk
        simp only [List.getElem?_cons_succ]
        exact h3 (by omega)

/-- the value is unique: any `k` with the stated meaning is `strlen arr` -/
theorem isStrlen_unique (arr : List Nat) (k : Nat) (h : IsStrlen arr k) : k = strlen arr := by
  obtain ⟨a1, a2, a3⟩ := h
  obtain ⟨b1, b2, b3⟩ := strlen_isStrlen arr
  apply Nat.le_antisymm
  · apply Nat.le_of_not_lt
    intro hlt
    exact a2 _ hlt (b3 (by omega))
  · apply Nat.le_of_not_lt
    intro hlt
    exact b2 _ hlt (a3 (by omega))

theorem takeWhile_length_le (p : Nat → Bool) (l : List Nat) : (l.takeWhile p).length ≤ l.length := by
  induction l with
  | nil => simp
  | cons a t ih =>
    simp only [List.takeWhile_cons]
    split
    · simp only [List.length_cons]; omega
    · simp

theorem strlenR_append_zero (l : List Nat) : strlenR (l ++ [0]) = strlenR l := by
  unfold strlenR
  have h := takeWhile_length_le (fun b => b == 0) l.reverse
  simp only [List.length_reverse] at h
  simp only [List.reverse_append, List.reverse_cons, List.reverse_nil, List.nil_append,
    List.singleton_append, List.takeWhile_cons, List.length_append, List.length_cons,
    List.length_nil, beq_self_eq_true, if_true]
  omega

theorem strlenR_append_nonzero (l : List Nat) (b : Nat) (hb : b ≠ 0) :
    strlenR (l ++ [b]) = l.length + 1 := by
  unfold strlenR
  simp [List.reverse_append, hb]

/-- induction from the right end of a list -/
theorem snoc_induction {P : List Nat → Prop} (h0 : P [])
    (hs : ∀ (l : List Nat) (b : Nat), P l → P (l ++ [b])) (l : List Nat) : P l := by
  have h : ∀ r : List Nat, P r.reverse := by
    intro r
    induction r with
    | nil => exact h0
    | cons a t ih => rw [List.reverse_cons]; exact hs _ _ ih
  have h' := h l.reverse
  rwa [List.reverse_reverse] at h'

theorem strlenR_isStrlenR (arr : List Nat) : IsStrlenR arr (strlenR arr) := by
  induction arr using snoc_induction with
  | h0 =>
    exact ⟨Nat.le_refl _, fun i _ h => absurd h (Nat.not_lt_zero _), fun h => absurd h (Nat.lt_irrefl _)⟩
  | hs l b ih =>
    obtain ⟨h1, h2, h3⟩ := ih
    by_cases hb : b = 0
    · subst hb
      rw [strlenR_append_zero]
      refine ⟨by simp only [List.length_append, List.length_cons, List.length_nil]; omega, ?_, ?_⟩
      · intro i hki hi
        simp only [List.length_append, List.length_cons, List.length_nil] at hi
        by_cases hil : i < l.length
        · rw [List.getElem?_append_left hil]
          exact h2 i hki hil
        · have : i = l.length := by omega
          subst this
          simp
      · intro hk
        have : strlenR l - 1 < l.length := by omega
        rw [List.getElem?_append_left this]
        exact h3 hk
    · rw [strlenR_append_nonzero l b hb]
      refine ⟨by simp, ?_, ?_⟩
      · intro i hki hi
        simp only [List.length_append, List.length_cons, List.length_nil] at hi
        omega
      · intro _
        simp [hb]

theorem isStrlenR_unique (arr : List Nat) (k : Nat) (h : IsStrlenR arr k) : k = strlenR arr := by
  obtain ⟨a1, a2, a3⟩ := h
  obtain ⟨b1, b2, b3⟩ := strlenR_isStrlenR arr
  apply Nat.le_antisymm
  · apply Nat.le_of_not_lt
    intro hlt
    exact a3 (by omega) (b2 (k - 1) (by omega) (by omega))
  · apply Nat.le_of_not_lt
    intro hlt
    exact b3 (by omega) (a2 (strlenR arr - 1) (by omega) (by omega))

theorem padded_length (rest : List Nat) (m : Eos) : (padded rest m).length = rest.length := by
  cases m with
  | none => rfl
  | single => cases rest <;> simp [padded]
  | all => simp [padded]

theorem assignString_isAssignString (arr s : List Nat) (m : Eos) (h : s.length ≤ arr.length) :
    IsAssignString arr s m (assignString arr s m) := by
  unfold assignString
  constructor
  · simp only [List.length_append, padded_length, List.length_drop]; omega
  · intro i hi
    by_cases his : i < s.length
    · simp only [his, if_true]
      exact List.getElem?_append_left his
    · simp only [his, if_false]
      rw [List.getElem?_append_right (by omega)]
      cases m with
      | none =>
        simp only [padded, List.getElem?_drop]
        congr 1; omega
      | single =>
        simp only [padded]
        cases hd : arr.drop s.length with
        | nil =>
          have := congrArg List.length hd
          simp only [List.length_drop, List.length_nil] at this
          omega
        | cons x t =>
          by_cases hie : i = s.length
          · subst hie; simp
          · simp only [hie, if_false]
            have : i - s.length = (i - s.length - 1) + 1 := by omega
            rw [this, List.getElem?_cons_succ]
            have ht : t = arr.drop (s.length + 1) := by
              have := congrArg List.tail hd
              simpa [List.tail_drop] using this.symm
            rw [ht, List.getElem?_drop]
            congr 1; omega
      | all =>
        simp only [padded, List.length_drop]
        rw [List.getElem?_replicate]
        simp; omega

theorem apply_reject_iff (arr : List Nat) (op : Op) :
    apply arr op = .reject ↔ ¬ InContract arr.length op := by
  cases op <;> simp only [apply, InContract] <;> (try split) <;> simp_all

/-- never beyond element `N-1`: the array keeps its length -/
theorem apply_length (arr : List Nat) (op : Op) (arr' : List Nat) (ret : Ret)
    (h : apply arr op = .ok arr' ret) : arr'.length = arr.length := by
  cases op with
  | assignString s m =>
    simp only [apply] at h
    split at h
    · simp only [Result.ok.injEq] at h
      rw [← h.1]
      simp only [assignString, List.length_append, padded_length, List.length_drop]; omega
    · cases h
  | assignRange s =>
    simp only [apply] at h
    split at h
    · simp only [Result.ok.injEq] at h
      rw [← h.1]
      simp only [assignPrefix, List.length_append, List.length_drop]; omega
    · cases h
  | assignCount c x =>
    simp only [apply] at h
    split at h
    · simp only [Result.ok.injEq] at h
      rw [← h.1]
      simp only [assignPrefix, List.length_append, List.length_drop, List.length_replicate]; omega
    · cases h
  | fill x => simp only [apply, Result.ok.injEq] at h; rw [← h.1]; simp
  | strlen => simp only [apply, Result.ok.injEq] at h; rw [← h.1]
  | strlenR => simp only [apply, Result.ok.injEq] at h; rw [← h.1]

end Sbepp.Spec.StaticArray
