/-
  Specification for C16, written from the SBE 1.0 specification and from the
  documented contract of sbepp's optional/required types — not from their code.

  1. `Num`, `denote`: the mathematical value a bit pattern of a primitive type
     denotes (integers: two's complement by sign-bit weight; binary32/64: the
     exact value `±significand × 2^exponent`, scaled by a fixed power of two so
     that it is an integer), and the numeric relations on it (NaN unordered).
  2. The documented rules: a value is null iff it equals the null value of its
     type (for a NaN null: iff it is a NaN); null equals only null and orders
     before every value; otherwise the underlying values compare; `value_or`,
     `in_range`; default- and `nullopt`-constructed optionals are null.
  3. The SBE default table (min/max/null per primitive type).
  4. A small evaluator for the C++ literal forms in which defaults are written
     (`evalLit`), with the C++ typing rules for integer literals, integer
     arithmetic (`Base/CExpr`) and list-initialisation narrowing.
-/
import Sbepp.Base.Ieee
import Sbepp.Base.CExpr

namespace Sbepp.Spec.Scalar
open Sbepp

/-! ## 1. Denotation -/

/-- a number, or NaN.  `fin v` carries the exact value times a constant that
    depends only on the primitive type (1 for integers, `2^149` for `float`,
    `2^1074` for `double`), so comparing `v`s compares the values. -/
inductive Num
  | nan
  | fin (v : Int)
  deriving DecidableEq, Repr, Inhabited

/-- two's complement: the top bit weighs `−2^(w−1)` -/
def intDenote (w : Nat) (signed : Bool) (bits : Nat) : Int :=
  let r := bits % 2 ^ w
  if signed then ((r % 2 ^ (w - 1) : Nat) : Int) - ((r / 2 ^ (w - 1) * 2 ^ (w - 1) : Nat) : Int)
  else (r : Int)

/-- IEEE-754 binary interchange format with `eb` exponent bits and `mb`
    trailing significand bits.  With `e`, `m` the biased exponent and trailing
    significand fields the value is
      `m × 2^(1−bias−mb)`              if `e = 0` (zero, subnormal),
      `(2^mb + m) × 2^(e−bias−mb)`     if `0 < e < 2^eb − 1`,
      `±∞` if `e = 2^eb − 1 ∧ m = 0`, NaN if `e = 2^eb − 1 ∧ m ≠ 0`.
    Scaled by `2^(bias+mb−1)` this is the integer below.  An infinity is
    represented by the same formula (the first value of the binade after the
    last finite one), which lies strictly beyond every finite value
    (`Lemmas.Optional.inf_beyond_finite`). -/
def floatDenote (eb mb : Nat) (bits : Nat) : Num :=
  let m := bits % 2 ^ mb
  let e := bits / 2 ^ mb % 2 ^ eb
  let s := bits / 2 ^ (eb + mb) % 2
  if e = 2 ^ eb - 1 ∧ m ≠ 0 then .nan
  else
    let mag : Nat := if e = 0 then m else (2 ^ mb + m) * 2 ^ (e - 1)
    .fin (if s = 1 then -(mag : Int) else (mag : Int))

def denote : Prim → Nat → Num
  | .char, b => .fin (intDenote 8 true b)
  | .int8, b => .fin (intDenote 8 true b)
  | .int16, b => .fin (intDenote 16 true b)
  | .int32, b => .fin (intDenote 32 true b)
  | .int64, b => .fin (intDenote 64 true b)
  | .uint8, b => .fin (intDenote 8 false b)
  | .uint16, b => .fin (intDenote 16 false b)
  | .uint32, b => .fin (intDenote 32 false b)
  | .uint64, b => .fin (intDenote 64 false b)
  | .float, b => floatDenote 8 23 b
  | .double, b => floatDenote 11 52 b

/-- numeric relations; anything involving NaN is false, except `≠` -/
def relNum : Rel → Num → Num → Bool
  | .eq, .fin a, .fin b => decide (a = b)
  | .ne, .fin a, .fin b => decide (a ≠ b)
  | .lt, .fin a, .fin b => decide (a < b)
  | .le, .fin a, .fin b => decide (a ≤ b)
  | .gt, .fin a, .fin b => decide (a > b)
  | .ge, .fin a, .fin b => decide (a ≥ b)
  | .ne, _, _ => true
  | _, _, _ => false

/-- relations on naturals, used for "null orders before every value" -/
def relNat : Rel → Nat → Nat → Bool
  | .eq, a, b => decide (a = b)
  | .ne, a, b => decide (a ≠ b)
  | .lt, a, b => decide (a < b)
  | .le, a, b => decide (a ≤ b)
  | .gt, a, b => decide (a > b)
  | .ge, a, b => decide (a ≥ b)

/-! ## 2. Documented rules -/

/-- `v` is the null value of a type whose `nullValue` is `null`: same number,
    or — for the SBE floating-point null, NaN — any NaN -/
def isNull (p : Prim) (null v : Nat) : Bool :=
  match denote p null, denote p v with
  | .nan, .nan => true
  | .fin a, .fin b => decide (a = b)
  | _, _ => false

/-- rank in "null orders before every value" -/
def nullRank (p : Prim) (null v : Nat) : Nat := if isNull p null v then 0 else 1

/-- "The contained values are compared only if both `lhs` and `rhs` are not
    null.  Otherwise `lhs` is equal to `rhs` iff both are null; `lhs` is less
    than `rhs` iff `rhs` is not null and `lhs` is null." -/
def optRel (p : Prim) (null : Nat) (r : Rel) (a b : Nat) : Bool :=
  if !isNull p null a && !isNull p null b then relNum r (denote p a) (denote p b)
  else relNat r (nullRank p null a) (nullRank p null b)

/-- required types compare their values -/
def reqRel (p : Prim) (r : Rel) (a b : Nat) : Bool := relNum r (denote p a) (denote p b)

/-- "Returns value if not null, `default_value` otherwise" -/
def valueOr (p : Prim) (null v d : Nat) : Nat := if isNull p null v then d else v

/-- "Checks if value is in `[min_value(); max_value()]` range" -/
def inRange (p : Prim) (min max v : Nat) : Bool :=
  relNum .le (denote p min) (denote p v) && relNum .le (denote p v) (denote p max)

/-- `has_value()` / `operator bool` -/
def hasValue (p : Prim) (null v : Nat) : Bool := !isNull p null v

/-- same denoted value (all NaNs alike; `+0 = −0`) -/
def sameValue (p : Prim) (a b : Nat) : Bool := denote p a == denote p b

/-! ## 3. SBE 1.0 default ranges and null values (object representations)

  char: 0x20..0x7e, null 0.  intN: −2^(N−1)+1 .. 2^(N−1)−1, null −2^(N−1).
  uintN: 0 .. 2^N−2, null 2^N−1.  float/double: min = smallest positive normal
  number, max = largest finite number, null = NaN (canonical quiet NaN). -/

inductive Attr
  | min | max | null
  deriving DecidableEq, Repr, Inhabited

def Attr.all : List Attr := [.min, .max, .null]
def Attr.name : Attr → String
  | .min => "min" | .max => "max" | .null => "null"
def Attr.ofName? (s : String) : Option Attr := Attr.all.find? (fun a => a.name == s)

def sbeSigned (w : Nat) : Attr → Nat
  | .min => 2 ^ (w - 1) + 1        -- two's complement of −2^(w−1)+1
  | .max => 2 ^ (w - 1) - 1
  | .null => 2 ^ (w - 1)           -- two's complement of −2^(w−1)

def sbeUnsigned (w : Nat) : Attr → Nat
  | .min => 0
  | .max => 2 ^ w - 2
  | .null => 2 ^ w - 1

def sbeFloat (eb mb : Nat) : Attr → Nat
  | .min => 2 ^ mb                                   -- e = 1, m = 0
  | .max => (2 ^ eb - 2) * 2 ^ mb + (2 ^ mb - 1)     -- e = 2^eb − 2, m all ones
  | .null => (2 ^ eb - 1) * 2 ^ mb + 2 ^ (mb - 1)    -- e all ones, quiet bit

def sbeDefault : Prim → Attr → Nat
  | .char, .min => 0x20
  | .char, .max => 0x7e
  | .char, .null => 0
  | .int8, a => sbeSigned 8 a
  | .int16, a => sbeSigned 16 a
  | .int32, a => sbeSigned 32 a
  | .int64, a => sbeSigned 64 a
  | .uint8, a => sbeUnsigned 8 a
  | .uint16, a => sbeUnsigned 16 a
  | .uint32, a => sbeUnsigned 32 a
  | .uint64, a => sbeUnsigned 64 a
  | .float, a => sbeFloat 8 23 a
  | .double, a => sbeFloat 11 52 a

/-! ## 4. Literal evaluator -/

inductive Tok
  | num (v : Nat) (hex u l : Bool)
  | ident (s : String)
  | plus | minus | lpar | rpar | lt | gt | scope
  deriving DecidableEq, Repr, Inhabited

def isIdentStart (c : Char) : Bool := c.isAlpha || c == '_'
def isIdentChar (c : Char) : Bool := c.isAlphanum || c == '_'

def hexDigit? (c : Char) : Option Nat :=
  if c.isDigit then some (c.toNat - '0'.toNat)
  else if 'a' ≤ c ∧ c ≤ 'f' then some (c.toNat - 'a'.toNat + 10)
  else if 'A' ≤ c ∧ c ≤ 'F' then some (c.toNat - 'A'.toNat + 10)
  else none

def digitsVal (base : Nat) (cs : List Char) : Option Nat :=
  if cs.isEmpty then none else
  cs.foldl (fun acc c =>
    match acc, hexDigit? c with
    | some a, some d => if d < base then some (a * base + d) else none
    | _, _ => none) (some 0)

/-- split a trailing integer suffix: returns (digits, u, l) -/
def splitSuffix (cs : List Char) : Option (List Char × Bool × Bool) :=
  let isSuf (c : Char) : Bool := c == 'u' || c == 'U' || c == 'l' || c == 'L'
  let digits := cs.takeWhile (fun c => !isSuf c)
  let suf := (cs.dropWhile (fun c => !isSuf c)).map Char.toLower
  if suf = [] then some (digits, false, false)
  else if suf = ['u'] then some (digits, true, false)
  else if suf = ['l'] ∨ suf = ['l', 'l'] then some (digits, false, true)
  else if suf = ['u', 'l'] ∨ suf = ['l', 'u'] ∨ suf = ['u', 'l', 'l'] ∨ suf = ['l', 'l', 'u'] then
    some (digits, true, true)
  else none

/-- an alphanumeric run starting with a digit: decimal or `0x` hex integer
    literal with optional suffix (octal and floating literals are not accepted) -/
def numTok (cs : List Char) : Option Tok :=
  let decimal : Option Tok :=
    match splitSuffix cs with
    | some (d, u, l) => (digitsVal 10 d).map (fun v => .num v false u l)
    | none => none
  match cs with
  | '0' :: x :: rest =>
    if x == 'x' || x == 'X' then
      match splitSuffix rest with
      | some (d, u, l) => (digitsVal 16 d).map (fun v => .num v true u l)
      | none => none
    else if x.isDigit then none        -- octal literals are not accepted
    else decimal
  | _ => decimal

inductive LexState
  | idle
  | word (acc : List Char)     -- reversed characters of an identifier or number
  | colon                      -- one ':' seen, the second must follow

def flushWord (acc : List Char) (out : List Tok) : Option (List Tok) :=
  match acc.reverse with
  | [] => some out
  | c :: cs =>
    if c.isDigit then (numTok (c :: cs)).map (fun t => t :: out)
    else some (.ident (String.ofList (c :: cs)) :: out)

/-- one step of the lexer on a character that does not continue a word:
    the token it produces (if any) and the next state -/
def punct (c : Char) : Option (Option Tok × LexState) :=
  if c == ' ' || c == '\t' || c == '\n' then some (none, .idle)
  else if c == '+' then some (some .plus, .idle)
  else if c == '-' then some (some .minus, .idle)
  else if c == '(' then some (some .lpar, .idle)
  else if c == ')' then some (some .rpar, .idle)
  else if c == '<' then some (some .lt, .idle)
  else if c == '>' then some (some .gt, .idle)
  else if c == ':' then some (none, .colon)
  else none

/-- tokens in reverse order (structural recursion on the characters) -/
def lexAux : List Char → LexState → List Tok → Option (List Tok)
  | [], .idle, out => some out
  | [], .word acc, out => flushWord acc out
  | [], .colon, _ => none
  | c :: cs, .colon, out => if c == ':' then lexAux cs .idle (.scope :: out) else none
  | c :: cs, .idle, out =>
    if isIdentChar c then lexAux cs (.word [c]) out
    else
      match punct c with
      | some (some t, st) => lexAux cs st (t :: out)
      | some (none, st) => lexAux cs st out
      | none => none
  | c :: cs, .word acc, out =>
    if isIdentChar c then lexAux cs (.word (c :: acc)) out
    else
      match flushWord acc out, punct c with
      | some out, some (some t, st) => lexAux cs st (t :: out)
      | some out, some (none, st) => lexAux cs st out
      | _, _ => none

def lex (cs : List Char) : Option (List Tok) := (lexAux cs .idle []).map List.reverse

/-- the type-id between `<` and `>`: identifiers and `::`, concatenated -/
def parseTypeId : List Tok → String → Option (String × List Tok)
  | .gt :: rest, acc => if acc.isEmpty then none else some (acc, rest)
  | .ident s :: rest, acc => parseTypeId rest (acc ++ s)
  | .scope :: rest, acc => parseTypeId rest (acc ++ "::")
  | _, _ => none

/-- `numeric_limits < type-id > :: fn ( )` after the optional `::` / `std::` -/
def parseLimit : List Tok → Option (LitExpr × List Tok)
  | .ident "numeric_limits" :: .lt :: rest =>
    match parseTypeId rest "" with
    | some (ty, .scope :: .ident fn :: .lpar :: .rpar :: rest') => some (.limit ty fn, rest')
    | _ => none
  | _ => none

/-- term := '-' term | '+' term | number | limit   (structural on the tokens) -/
def parseTerm : List Tok → Option (LitExpr × List Tok)
  | .minus :: rest => (parseTerm rest).map (fun (e, r) => (.neg e, r))
  | .plus :: rest => parseTerm rest
  | .num v h u l :: rest => some (.int v h u l, rest)
  | .scope :: .ident "std" :: .scope :: rest => parseLimit rest
  | .ident "std" :: .scope :: rest => parseLimit rest
  | _ => none

/-- expr := term (('+' | '-') term)*, left associative; `fuel` bounds the
    number of operators (parenthesised forms do not occur and are rejected) -/
def parseRest : Nat → LitExpr → List Tok → Option (LitExpr × List Tok)
  | _, e, [] => some (e, [])
  | 0, _, _ :: _ => none
  | fuel + 1, e, .plus :: rest =>
    match parseTerm rest with
    | some (e2, r) => parseRest fuel (.add e e2) r
    | none => none
  | fuel + 1, e, .minus :: rest =>
    match parseTerm rest with
    | some (e2, r) => parseRest fuel (.sub e e2) r
    | none => none
  | _ + 1, e, toks => some (e, toks)

def parseExpr (fuel : Nat) (toks : List Tok) : Option (LitExpr × List Tok) :=
  match parseTerm toks with
  | some (e, rest) => parseRest fuel e rest
  | none => none

/-- parse a complete literal expression -/
def parseLit (cs : List Char) : Option LitExpr :=
  match lex cs with
  | none => none
  | some toks =>
    match parseExpr toks.length toks with
    | some (e, []) => some e
    | _ => none

/-- C++ type named inside `numeric_limits<…>` -/
def limitType? (ty : String) : Option Prim :=
  -- on `List Char` so that the kernel can evaluate it (`decide`)
  let stripPrefix (pre cs : List Char) : List Char :=
    if pre.isPrefixOf cs then cs.drop pre.length else cs
  let core := stripPrefix "std::".toList (stripPrefix "::".toList ty.toList)
  let names : List (String × Prim) :=
    [("char", .char), ("int8_t", .int8), ("int16_t", .int16), ("int32_t", .int32), ("int64_t", .int64),
     ("uint8_t", .uint8), ("uint16_t", .uint16), ("uint32_t", .uint32), ("uint64_t", .uint64),
     ("float", .float), ("double", .double)]
  (names.find? (fun (n, _) => n.toList == core)).map (·.2)

/-- C++ integer type of a primitive (LP64; plain `char` signed) -/
def primCTy? : Prim → Option CTy
  | .char | .int8 => some .i8
  | .int16 => some .i16 | .int32 => some .i32 | .int64 => some .i64
  | .uint8 => some .u8 | .uint16 => some .u16 | .uint32 => some .u32 | .uint64 => some .u64
  | .float | .double => none

/-- type of an integer literal ([lex.icon] table 8): the first type of the
    list in which the value fits; `none` = ill-formed -/
def litType (v : Nat) (hex u l : Bool) : Option CTy :=
  let fits (t : CTy) : Bool := CVal.inRange t (v : Int)
  let cands : List CTy :=
    match u, l with
    | false, false => if hex then [.i32, .u32, .i64, .u64] else [.i32, .i64]
    | true, false => [.u32, .u64]
    | false, true => if hex then [.i64, .u64] else [.i64]
    | true, true => [.u64]
  cands.find? fits

/-- integer constant expression → `CExpr` (evaluated with promotion, usual
    arithmetic conversions and overflow = not a constant expression) -/
def toCExpr : LitExpr → Option CExpr
  | .int v h u l => (litType v h u l).map (fun t => .lit t v)
  | .neg e => (toCExpr e).map (.un .neg)
  | .add a b =>
    match toCExpr a, toCExpr b with
    | some x, some y => some (.bin .add x y)
    | _, _ => none
  | .sub a b =>
    match toCExpr a, toCExpr b with
    | some x, some y => some (.bin .sub x y)
    | _, _ => none
  | .limit ty fn =>
    match (limitType? ty).bind primCTy? with
    | some t =>
      if fn = "min" ∨ fn = "lowest" then
        some (.lit t (if t.signed then -((2 ^ (t.bits - 1) : Nat) : Int) else 0))
      else if fn = "max" then
        some (.lit t (if t.signed then ((2 ^ (t.bits - 1) : Nat) : Int) - 1 else ((2 ^ t.bits : Nat) : Int) - 1))
      else none
    | none => none

/-- `std::numeric_limits<float|double>` members as bit patterns -/
def floatLimit (eb mb : Nat) (fn : String) : Option Nat :=
  if fn = "min" then some (2 ^ mb)
  else if fn = "max" then some ((2 ^ eb - 2) * 2 ^ mb + (2 ^ mb - 1))
  else if fn = "lowest" then some (2 ^ (eb + mb) + (2 ^ eb - 2) * 2 ^ mb + (2 ^ mb - 1))
  else if fn = "infinity" then some ((2 ^ eb - 1) * 2 ^ mb)
  else if fn = "quiet_NaN" then some ((2 ^ eb - 1) * 2 ^ mb + 2 ^ (mb - 1))
  else if fn = "denorm_min" then some 1
  else none

/-- floating-point constant expressions that occur: a `numeric_limits` member,
    possibly negated -/
def evalFloat : LitExpr → Option (Prim × Nat)
  | .limit ty fn =>
    match limitType? ty with
    | some .float => (floatLimit 8 23 fn).map (fun b => (.float, b))
    | some .double => (floatLimit 11 52 fn).map (fun b => (.double, b))
    | _ => none
  | .neg e =>
    match evalFloat e with
    | some (.float, b) => some (.float, (b + 2 ^ 31) % 2 ^ 32)
    | some (.double, b) => some (.double, (b + 2 ^ 63) % 2 ^ 64)
    | _ => none
  | _ => none

/-- value of `return {E};` in a function returning primitive type `p`, as an
    object representation.  `none`: `E` is not a constant expression of the
    supported forms, or the list-initialisation is ill-formed (narrowing: an
    integer constant that does not fit the target type).  Integer → floating
    conversions and floating literals are not supported (`none`). -/
def evalExpr (p : Prim) (e : LitExpr) : Option Nat :=
  match primCTy? p with
  | some t =>
    match (toCExpr e).bind (CExpr.eval []) with
    | some v => if CVal.inRange t v.toInt then some (CVal.wrap t v.toInt).bits else none
    | none => none
  | none =>
    match evalFloat e with
    | some (q, b) => if q = p then some b else none
    | none => none

def evalLitChars (p : Prim) (cs : List Char) : Option Nat := (parseLit cs).bind (evalExpr p)

/-- evaluate the literal text `s` as the initialiser of a value of type `p` -/
def evalLit (p : Prim) (s : String) : Option Nat := evalLitChars p s.toList

end Sbepp.Spec.Scalar
