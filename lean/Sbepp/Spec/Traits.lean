/-
  Specification for C18, independent of the generator model (`Gen.Traits`):

  1. the shared vocabulary: tag paths, canonical value texts, schema entities;
  2. which entities a schema has - a declarative (inductive) enumeration of
     the schema tree: every public and inline type/enum/set/composite incl.
     refs, enum values, set choices, every message, field, group at any depth,
     data member - each with its tag path;
  3. what the descriptive traits must equal: the XML attribute of the entity
     (`xmlAttrs`); for a `<ref>` (doc/traits.md: "there's no ref_traits: use the
     traits corresponding to the referred type") the ref's own name /
     sinceVersion / deprecated and the referred type's remaining attributes;
  4. the SBE derivations that are not layout (layout = `Schema.Resolve`): the
     actual presence rule, the children of every entity in schema order, the
     traits class a tag belongs to;
  5. uniqueness of sibling names (the hypothesis of `tags_distinct`).
-/
import Sbepp.Schema.Resolve

namespace Sbepp.Spec.Traits
open Sbepp Sbepp.Schema

/-! ## 1. vocabulary -/

abbrev Path := List String
abbrev KV := String × String
abbrev Row := Path × List KV

/-! ### canonical value texts -/

def txt (s : String) : String := "x" ++ SExp.hex (s.toUTF8.toList.map UInt8.toNat)
def num (n : Nat) : String := toString n
def tagText (p : Path) : String := ".".intercalate p
def tagList (ps : List Path) : String := ",".intercalate (ps.map tagText)

def presText : Presence → String
  | .required => "required"
  | .optional => "optional"
  | .constant => "constant"

/-- `(k, v)` replaces every pair with key `k` (a derived class member hides the base class member) -/
def setKV (k v : String) (kvs : List KV) : List KV := (k, v) :: kvs.filter (fun kv => kv.1 != k)

/-- every pair with key `k` removed (a derived class member declared `= delete` hides the
    base class member and cannot be used) -/
def eraseKV (k : String) (kvs : List KV) : List KV := kvs.filter (fun kv => kv.1 != k)

def depr (a : Attrs) : List KV :=
  match a.deprecated with
  | some d => [("deprecated", num d)]
  | none => []

/-! ### entities -/

def gName : GroupDef → String | .mk n _ _ _ _ _ _ _ => n
def gId : GroupDef → Nat | .mk _ i _ _ _ _ _ _ => i
def gDim : GroupDef → String | .mk _ _ d _ _ _ _ _ => d
def gBlockLength : GroupDef → Option Nat | .mk _ _ _ b _ _ _ _ => b
def gFields : GroupDef → List FieldDef | .mk _ _ _ _ f _ _ _ => f
def gGroups : GroupDef → List GroupDef | .mk _ _ _ _ _ g _ _ => g
def gDatas : GroupDef → List DataDef | .mk _ _ _ _ _ _ d _ => d
def gAttrs : GroupDef → Attrs | .mk _ _ _ _ _ _ _ a => a

/-- `length` of a `<type>` as the parser hands it on (`parse_type_encoding`): a constant
    `char` type without `length` attribute has the length of its value (in bytes).  The
    transport renders an absent attribute as 1, and an explicit `length="1"` with a longer
    value is rejected by the validator, so on accepted schemas this is the parser's value. -/
def typeLength (t : TypeDef) : Nat :=
  if t.presence == .constant && t.prim == "char" && t.length == 1 then
    match t.constValue with
    | some v => v.toUTF8.toList.length
    | none => 1
  else t.length

def elemAttrs : Elem → Attrs
  | .type t => t.attrs
  | .composite _ _ _ a => a
  | .ref _ _ _ a => a
  | .enum _ _ _ _ a => a
  | .set _ _ _ _ a => a

/-- a schema entity together with the context its derived traits depend on:
    the preceding siblings of a composite element (`none`: public type) or of a field -/
inductive Entity
  | schema
  | elem (e : Elem) (before : Option (List Elem))
  | value (enc : String) (v : ValidValue)
  | choice (c : Choice)
  | message (m : MessageDef)
  | group (g : GroupDef)
  | field (f : FieldDef) (before : List FieldDef)
  | data (d : DataDef)
  deriving Inhabited

/-! ## 2. the entities of a schema -/

/-- `x` occurs in `l` right after the prefix `before` -/
def SplitAt {α : Type} (l before : List α) (x : α) : Prop := ∃ after, l = before ++ x :: after

/-- entities contributed by the encoding `e` whose tag is `pfx ++ [e.name]`;
    `ctx` = preceding siblings when `e` is a composite element, `none` for a public type -/
inductive ElemAt : Path → Option (List Elem) → Elem → Path → Entity → Prop
  | self (pfx : Path) (ctx : Option (List Elem)) (e : Elem) : ElemAt pfx ctx e (pfx ++ [e.name]) (.elem e ctx)
  | value (pfx : Path) (ctx : Option (List Elem)) (n enc : String) (o : Option Nat) (vs : List ValidValue) (a : Attrs)
      (v : ValidValue) : v ∈ vs → ElemAt pfx ctx (.enum n enc o vs a) (pfx ++ [n] ++ [v.name]) (.value enc v)
  | choice (pfx : Path) (ctx : Option (List Elem)) (n enc : String) (o : Option Nat) (cs : List Choice) (a : Attrs)
      (c : Choice) : c ∈ cs → ElemAt pfx ctx (.set n enc o cs a) (pfx ++ [n] ++ [c.name]) (.choice c)
  | nested (pfx : Path) (ctx : Option (List Elem)) (n : String) (o : Option Nat) (elems : List Elem) (a : Attrs)
      (before : List Elem) (x : Elem) (p : Path) (ent : Entity) :
      SplitAt elems before x → ElemAt (pfx ++ [n]) (some before) x p ent →
      ElemAt pfx ctx (.composite n o elems a) p ent

/-- entities below a level (message root or group entry) whose tag is `pfx` -/
inductive LevelAt : Path → List FieldDef → List GroupDef → List DataDef → Path → Entity → Prop
  | field (pfx : Path) (fs : List FieldDef) (gs : List GroupDef) (ds : List DataDef) (before : List FieldDef)
      (f : FieldDef) : SplitAt fs before f → LevelAt pfx fs gs ds (pfx ++ [f.name]) (.field f before)
  | group (pfx : Path) (fs : List FieldDef) (gs : List GroupDef) (ds : List DataDef) (g : GroupDef) :
      g ∈ gs → LevelAt pfx fs gs ds (pfx ++ [gName g]) (.group g)
  | data (pfx : Path) (fs : List FieldDef) (gs : List GroupDef) (ds : List DataDef) (d : DataDef) :
      d ∈ ds → LevelAt pfx fs gs ds (pfx ++ [d.name]) (.data d)
  | nested (pfx : Path) (fs : List FieldDef) (gs : List GroupDef) (ds : List DataDef) (g : GroupDef)
      (p : Path) (ent : Entity) :
      g ∈ gs → LevelAt (pfx ++ [gName g]) (gFields g) (gGroups g) (gDatas g) p ent → LevelAt pfx fs gs ds p ent

/-- `EntityAt s p ent`: the schema has the entity `ent`, and its tag is `p` -/
inductive EntityAt (s : SchemaDef) : Path → Entity → Prop
  | schema : EntityAt s ["schema"] .schema
  | type (e : Elem) (p : Path) (ent : Entity) : e ∈ s.types → ElemAt ["types"] none e p ent → EntityAt s p ent
  | message (m : MessageDef) : m ∈ s.messages → EntityAt s ["messages", m.name] (.message m)
  | member (m : MessageDef) (p : Path) (ent : Entity) :
      m ∈ s.messages → LevelAt ["messages", m.name] m.fields m.groups m.datas p ent → EntityAt s p ent

/-! ## 3. descriptive traits: what the XML states -/

/-- the entity's own `deprecated` attribute -/
def ownDeprecated : Entity → Option Nat
  | .schema => none
  | .elem e _ => (elemAttrs e).deprecated
  | .value _ v => v.attrs.deprecated
  | .choice c => c.attrs.deprecated
  | .message m => m.attrs.deprecated
  | .group g => (gAttrs g).deprecated
  | .field f _ => f.attrs.deprecated
  | .data d => d.attrs.deprecated

/-- (trait, value) pairs the XML element of a non-ref encoding states, in XML attribute order -/
def xmlEncAttrs : Elem → List KV
  | .type t =>
    [("name", txt t.name), ("primitive_type", t.prim), ("length", num (typeLength t)), ("presence", presText t.presence),
     ("character_encoding", txt (t.characterEncoding.getD "")), ("description", txt t.attrs.description),
     ("since_version", num t.attrs.since), ("semantic_type", txt t.attrs.semanticType)]
  | .composite n _ _ a =>
    [("name", txt n), ("description", txt a.description), ("since_version", num a.since),
     ("semantic_type", txt a.semanticType)]
  | .enum n _ _ _ a => [("name", txt n), ("description", txt a.description), ("since_version", num a.since)]
  | .set n _ _ _ a => [("name", txt n), ("description", txt a.description), ("since_version", num a.since)]
  | .ref n _ _ a => [("name", txt n), ("since_version", num a.since)]

/-- (trait, value) pairs the XML states for an entity -/
def xmlAttrs (s : SchemaDef) : Entity → List KV
  | .schema =>
    [("package", txt s.package), ("id", num s.id), ("version", num s.version),
     ("semantic_version", txt s.semanticVersion), ("description", txt s.description),
     ("byte_order", match s.byteOrder with | .big => "big" | .little => "little")]
  | .elem e _ => xmlEncAttrs e
  | .value _ v => [("name", txt v.name), ("description", txt v.attrs.description), ("since_version", num v.attrs.since)]
  | .choice c =>
    [("name", txt c.name), ("description", txt c.attrs.description), ("since_version", num c.attrs.since),
     ("index", num c.index)]
  | .message m =>
    [("name", txt m.name), ("id", num m.id), ("description", txt m.attrs.description),
     ("since_version", num m.attrs.since), ("semantic_type", txt m.attrs.semanticType)]
  | .group g =>
    [("name", txt (gName g)), ("id", num (gId g)), ("description", txt (gAttrs g).description),
     ("since_version", num (gAttrs g).since), ("semantic_type", txt (gAttrs g).semanticType)]
  | .field f _ =>
    [("name", txt f.name), ("id", num f.id), ("description", txt f.attrs.description),
     ("since_version", num f.attrs.since)]
  | .data d =>
    [("name", txt d.name), ("id", num d.id), ("description", txt d.attrs.description),
     ("since_version", num d.attrs.since)]

/-- what a ref's traits take from the referred encoding: everything the ref does not state itself -/
def refInherited (target : Elem) : List KV :=
  (xmlEncAttrs target).filter (fun kv => kv.1 != "name" && kv.1 != "since_version")

def isRef : Entity → Bool
  | .elem (.ref _ _ _ _) _ => true
  | _ => false

/-! ## 4. derivations that are not layout -/

/-- SBE / sbepp documented rule for the presence a field really has: a field
    of a `<type>` has the type's presence, a composite field the field's, an
    enum field is required unless constant, a set field is required, a field
    of a primitive type has the field's own presence -/
def specPresence (types : List Elem) (f : FieldDef) : Option Presence :=
  if isPrimitive f.type then some f.presence
  else
    match lookup types f.type with
    | some (.type t) => some t.presence
    | some (.composite _ _ _ _) => some f.presence
    | some (.enum _ _ _ _ _) => some (match f.presence with | .constant => .constant | _ => .required)
    | some (.set _ _ _ _ _) => some .required
    | _ => none

/-- the children lists of an entity: (list trait, children names in schema order) -/
def childLists (s : SchemaDef) : Entity → List (String × List String)
  | .schema => [("message_tags", s.messages.map (·.name))]
  | .elem (.enum _ _ _ vs _) _ => [("value_tags", vs.map (·.name))]
  | .elem (.set _ _ _ cs _) _ => [("choice_tags", cs.map (·.name))]
  | .elem (.composite _ _ elems _) _ => [("element_tags", elems.map Elem.name)]
  | .message m =>
    [("field_tags", m.fields.map (·.name)), ("group_tags", m.groups.map gName), ("data_tags", m.datas.map (·.name))]
  | .group g =>
    [("field_tags", (gFields g).map (·.name)), ("group_tags", (gGroups g).map gName),
     ("data_tags", (gDatas g).map (·.name))]
  | _ => []

/-- the root of the children's tags: the entity's own tag, `messages` for the schema's message list -/
def childRoot (self : Path) : Entity → Path
  | .schema => ["messages"]
  | _ => self

/-- the traits class template a tag belongs to (`sbepp::<kind>_traits`); a
    ref belongs to the class of the encoding it refers to -/
def specKind (types : List Elem) : Entity → Option String
  | .schema => some "schema"
  | .elem (.type _) _ => some "type"
  | .elem (.composite _ _ _ _) _ => some "composite"
  | .elem (.enum _ _ _ _ _) _ => some "enum"
  | .elem (.set _ _ _ _ _) _ => some "set"
  | .elem (.ref _ ty _ _) _ =>
    match lookup types ty with
    | some (.type _) => some "type"
    | some (.composite _ _ _ _) => some "composite"
    | some (.enum _ _ _ _ _) => some "enum"
    | some (.set _ _ _ _ _) => some "set"
    | _ => none
  | .value _ _ => some "enum_value"
  | .choice _ => some "set_choice"
  | .message _ => some "message"
  | .group _ => some "group"
  | .field _ _ => some "field"
  | .data _ => some "data"

/-- the tag-kind predicates of sbepp.hpp (`is_<k>_tag`), one per traits class -/
def tagKinds : List String :=
  ["type", "enum", "enum_value", "set", "set_choice", "composite", "field", "group", "data", "message", "schema"]

/-! ## 5. uniqueness of sibling names -/

mutual
  /-- within `e`: value names, choice names, element names (recursively) are pairwise distinct -/
  def UniqueElem : Elem → Prop
    | .enum _ _ _ vs _ => (vs.map (·.name)).Nodup
    | .set _ _ _ cs _ => (cs.map (·.name)).Nodup
    | .composite _ _ elems _ => (elems.map Elem.name).Nodup ∧ UniqueElems elems
    | _ => True
  def UniqueElems : List Elem → Prop
    | [] => True
    | e :: rest => UniqueElem e ∧ UniqueElems rest
end

def levelNames (fs : List FieldDef) (gs : List GroupDef) (ds : List DataDef) : List String :=
  fs.map (·.name) ++ (gs.map gName ++ ds.map (·.name))

mutual
  /-- members of every level below `g` (fields, groups and data share one scope) have distinct names -/
  def UniqueGroup : GroupDef → Prop
    | .mk _ _ _ _ fs gs ds _ => (levelNames fs gs ds).Nodup ∧ UniqueGroups gs
  def UniqueGroups : List GroupDef → Prop
    | [] => True
    | g :: rest => UniqueGroup g ∧ UniqueGroups rest
end

def UniqueMessages : List MessageDef → Prop
  | [] => True
  | m :: rest => ((levelNames m.fields m.groups m.datas).Nodup ∧ UniqueGroups m.groups) ∧ UniqueMessages rest

/-- sibling names are unique everywhere in the schema (what sbeppc's parser enforces
    through its `unique_set`s) -/
def UniqueNames (s : SchemaDef) : Prop :=
  (s.types.map Elem.name).Nodup ∧ UniqueElems s.types ∧ (s.messages.map (·.name)).Nodup ∧ UniqueMessages s.messages

end Sbepp.Spec.Traits
