/-
  Specification of `std::vector` operations on plain lists.  Nothing here
  comes from sbepp: the definitions follow [vector.modifiers] /
  [sequence.reqmts] of the C++ standard.  Positions (iterators) are element
  indices from `begin()`.

  `Op` is the abstract syntax of one container operation; it is the common
  input language of the specification and of the implementation model
  (`Sbepp.Rt.DynArray`).
-/
namespace Sbepp.Spec.Vec

variable {α : Type}

/-- `v.push_back(x)` -/
def pushBack (v : List α) (x : α) : List α := v ++ [x]

/-- `v.pop_back()`; precondition `!v.empty()` -/
def popBack (v : List α) : List α := v.take (v.length - 1)

/-- `v.clear()` -/
def clear (_ : List α) : List α := []

/-- `v.erase(begin()+i)`; precondition `i < size()`; returns `begin()+i` -/
def erase (v : List α) (i : Nat) : List α := v.take i ++ v.drop (i + 1)

/-- `v.erase(begin()+i, begin()+j)`; precondition `i ≤ j ≤ size()`; returns `begin()+i` -/
def eraseRange (v : List α) (i j : Nat) : List α := v.take i ++ v.drop j

/-- `v.insert(begin()+i, xs.begin(), xs.end())`; precondition `i ≤ size()`;
    returns `begin()+i`.  `insert(pos, x)` is `xs = [x]`, `insert(pos, n, x)`
    is `xs = replicate n x`. -/
def insertAt (v : List α) (i : Nat) (xs : List α) : List α := v.take i ++ xs ++ v.drop i

/-- `v.resize(n, x)` (`resize(n)` is `x = T()`) -/
def resize (v : List α) (n : Nat) (x : α) : List α := v.take n ++ List.replicate (n - v.length) x

/-- `v.assign(n, x)` -/
def assignN (n : Nat) (x : α) : List α := List.replicate n x

/-- length of a NUL-terminated string whose bytes (followed by a terminator) are `s` -/
def cstr (s : List Nat) : List Nat := s.takeWhile (· ≠ 0)

/-- one container operation (values are bytes, positions are indices) -/
inductive Op
  | pushBack (v : Nat)
  | popBack
  | clear
  | erase (i : Nat)
  | eraseRange (i j : Nat)
  | insert (i v : Nat)
  | insertN (i n v : Nat)
  /-- `insert(pos, first, last)` with forward (or stronger) iterators -/
  | insertRange (i : Nat) (xs : List Nat)
  /-- `insert(pos, first, last)` with input iterators -/
  | insertInput (i : Nat) (xs : List Nat)
  /-- `insert(pos, {x…})` -/
  | insertList (i : Nat) (xs : List Nat)
  /-- `resize(n)` (new elements value-initialised) -/
  | resize (n : Nat)
  | resizeV (n v : Nat)
  /-- `resize(n, default_init)`: new elements have indeterminate values -/
  | resizeDI (n : Nat)
  | assignN (n v : Nat)
  /-- `assign(first, last)` -/
  | assignRange (xs : List Nat)
  /-- `assign({x…})` -/
  | assignList (xs : List Nat)
  /-- `assign_string(s)`: `std::string`-like `assign(const char*)` -/
  | assignString (s : List Nat)
  /-- `assign_range(r)` -/
  | assignRangeR (xs : List Nat)
  deriving Repr, DecidableEq

namespace Op

/-- the precondition the C++ standard puts on the operation for a vector of
    `n` elements (valid iterators / non-empty) -/
def pre (n : Nat) : Op → Prop
  | .popBack => 0 < n
  | .erase i => i < n
  | .eraseRange i j => i ≤ j ∧ j ≤ n
  | .insert i _ | .insertN i _ _ | .insertRange i _ | .insertInput i _ | .insertList i _ => i ≤ n
  | _ => True

instance (n : Nat) (op : Op) : Decidable (pre n op) := by
  cases op <;> unfold pre <;> infer_instance

/-- size of the vector after the operation -/
def newLen (n : Nat) : Op → Nat
  | .pushBack _ => n + 1
  | .popBack => n - 1
  | .clear => 0
  | .erase _ => n - 1
  | .eraseRange i j => n - (j - i)
  | .insert _ _ => n + 1
  | .insertN _ k _ => n + k
  | .insertRange _ xs | .insertInput _ xs | .insertList _ xs => n + xs.length
  | .resize k | .resizeV k _ | .resizeDI k => k
  | .assignN k _ => k
  | .assignRange xs | .assignList xs | .assignRangeR xs => xs.length
  | .assignString s => (cstr s).length

/-- the returned iterator as an index from `begin()` (`none` for `void`) -/
def ret : Op → Option Nat
  | .erase i | .eraseRange i _ | .insert i _ | .insertN i _ _ | .insertRange i _
  | .insertInput i _ | .insertList i _ => some i
  | _ => none

/-- contents after the operation; `fill` stands for the indeterminate values
    `resize(n, default_init)` exposes (see `post`) -/
def apply (fill : Nat) (v : List Nat) : Op → List Nat
  | .pushBack x => Vec.pushBack v x
  | .popBack => Vec.popBack v
  | .clear => Vec.clear v
  | .erase i => Vec.erase v i
  | .eraseRange i j => Vec.eraseRange v i j
  | .insert i x => Vec.insertAt v i [x]
  | .insertN i k x => Vec.insertAt v i (List.replicate k x)
  | .insertRange i xs | .insertInput i xs | .insertList i xs => Vec.insertAt v i xs
  | .resize k => Vec.resize v k 0
  | .resizeV k x => Vec.resize v k x
  | .resizeDI k => Vec.resize v k fill
  | .assignN k x => Vec.assignN k x
  | .assignRange xs | .assignList xs | .assignRangeR xs => xs
  | .assignString s => cstr s

/-- `v'` is an allowed result of the operation on `v`: deterministic except for
    `resize(n, default_init)`, where only the length and the kept prefix are
    specified -/
def post (v : List Nat) (op : Op) (v' : List Nat) : Prop :=
  match op with
  | .resizeDI k => v'.length = k ∧ v'.take (min k v.length) = v.take (min k v.length)
  | op => v' = apply 0 v op

end Op

/-- a whole history is valid for a vector whose length type holds values
    `< maxLen` and whose storage holds `cap` elements: depends on lengths only -/
def ValidSeq (cap maxLen : Nat) : Nat → List Op → Prop
  | _, [] => True
  | n, op :: rest => op.pre n ∧ op.newLen n ≤ cap ∧ op.newLen n < maxLen
      ∧ ValidSeq cap maxLen (op.newLen n) rest

def ValidSeq.dec (cap maxLen : Nat) : (n : Nat) → (ops : List Op) → Decidable (ValidSeq cap maxLen n ops)
  | _, [] => isTrue trivial
  | n, op :: rest =>
    have : Decidable (ValidSeq cap maxLen (op.newLen n) rest) := ValidSeq.dec cap maxLen _ rest
    by unfold ValidSeq; exact inferInstance

instance (cap maxLen n : Nat) (ops : List Op) : Decidable (ValidSeq cap maxLen n ops) :=
  ValidSeq.dec cap maxLen n ops

/-- the largest size reached along a history -/
def peak : Nat → List Op → Nat
  | n, [] => n
  | n, op :: rest => max n (peak (op.newLen n) rest)

/-- `Steps v ops v' rets`: running `ops` on a vector with contents `v` may end
    with contents `v'`, having returned the iterators `rets` -/
inductive Steps : List Nat → List Op → List Nat → List (Option Nat) → Prop
  | nil (v) : Steps v [] v []
  | cons {v op v1 rest v' rets} : op.post v v1 → Steps v1 rest v' rets →
      Steps v (op :: rest) v' (op.ret :: rets)

theorem length_apply (fill : Nat) (v : List Nat) (op : Op) (h : op.pre v.length) :
    (op.apply fill v).length = op.newLen v.length := by
  cases op <;>
    simp only [Op.apply, Op.newLen, Op.pre, pushBack, popBack, clear, erase, eraseRange, insertAt,
      resize, assignN, List.length_append, List.length_take, List.length_drop,
      List.length_replicate, List.length_cons, List.length_nil] at * <;> omega

/-- the executable specification satisfies the relational one -/
theorem apply_post (fill : Nat) (v : List Nat) (op : Op) : op.post v (op.apply fill v) := by
  cases op <;> try rfl
  case resizeDI k =>
    refine ⟨?_, ?_⟩
    · simp only [Op.apply, resize, List.length_append, List.length_take, List.length_replicate]; omega
    · simp only [Op.apply, resize]
      rw [List.take_append_of_le_length (by simp only [List.length_take]; omega),
        List.take_take]
      congr 1
      omega

end Sbepp.Spec.Vec
