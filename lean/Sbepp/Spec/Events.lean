/-
  C19 specification: the callbacks a complete, recursing visit must produce.

  One record per callback, in order.  A record names the callback kind, the
  member (by the name its own tag's traits report) and the value:
    F:<field>=<hex>            on_field, scalar          F:<field>=[hex]   array
    F:<field>=<hex>/<name>     enum field (value tag name or `unknown`)
    F:<field>=<hex>/{a=1,b=0}  set field (every known choice with its bit)
    F:<field>{}                on_field for a composite; its children follow as
    T:/N:/S:/C:<path>…         on_type / on_enum / on_set / on_composite
    G:<group>:n=<k>            on_group      E:<group>[i]   on_entry
    D:<data>=<hex>             on_data
  Constants are never reported.
-/
import Sbepp.Schema.Resolve
import Sbepp.Spec.Observe

namespace Sbepp.Spec.Events
open Sbepp Sbepp.Schema Sbepp.Observe

/-- the raw (unsigned) wire value of an enum valid value: `char` encodings use the character code, a negative
    number of a signed encoding is its two's-complement representation in the encoding's width -/
def validValueNum (prim : String) (v : String) : Option Nat :=
  if prim = "char" then v.toList.head?.map Char.toNat
  else match v.toInt? with
    | some (.ofNat n) => some n
    | some (.negSucc n) =>
      match primSize? prim with
      | some w => if n + 1 ≤ 2 ^ (8 * w) then some (2 ^ (8 * w) - (n + 1)) else none
      | none => none
    | none => none

/-- follow refs to the encoding itself -/
def derefElem (types : List Elem) : Nat → Elem → Elem
  | 0, e => e
  | fuel + 1, e =>
    match e with
    | .ref _ ty _ _ =>
      match lookup types ty with
      | some t => derefElem types fuel t
      | none => e
    | _ => e

/-- the schema element a leaf path designates, starting from the field's type -/
def elemAt (types : List Elem) : Elem → List String → Option Elem
  | e, [] => some (derefElem types 16 e)
  | e, n :: rest =>
    match derefElem types 16 e with
    | .composite _ _ elems _ =>
      match elems.find? (fun x => x.name = n) with
      | some x => elemAt types x rest
      | none => none
    | _ => none

def enumSuffix (e : Elem) (prim : String) (v : Nat) : String :=
  match e with
  | .enum _ _ _ values _ =>
    match values.find? (fun x => validValueNum prim x.value = some v) with
    | some x => "/" ++ x.name
    | none => "/unknown"
  | _ => "/?"

def setSuffix (e : Elem) (v : Nat) : String :=
  match e with
  | .set _ _ _ choices _ =>
    "/{" ++ ",".intercalate (choices.map (fun c => c.name ++ "=" ++ (if v.testBit c.index then "1" else "0"))) ++ "}"
  | _ => "/?"

def isPrefixOf (p l : List String) : Bool := p.length ≤ l.length && l.take p.length == p

/-- `on_field`/`on_composite` records for the composites that open between two
    consecutive leaves: proper prefixes of `cur` that are not prefixes of `prev` -/
def openRecords (pfx : String) (prev cur : List String) : List String :=
  ((List.range cur.length).drop 1).filterMap (fun k =>
    let p := cur.take k
    if isPrefixOf p prev then none
    else some ((if k = 1 then "F:" else "C:") ++ pfx ++ pathStr p ++ "{}"))

def leafRecord (bo : ByteOrder) (types : List Elem) (ftype : String) (pfx : String) (l : NLeaf) (bytes : List Nat) :
    String :=
  let top := l.path.length = 1
  let v := get bo bytes
  let el := (lookup types ftype).bind (fun e => elemAt types e (l.path.drop 1))
  match l.kind with
  | "array" => (if top then "F:" else "T:") ++ pfx ++ pathStr l.path ++ "=[" ++ SExp.hex bytes ++ "]"
  | "enum" =>
    (if top then "F:" else "N:") ++ pfx ++ pathStr l.path ++ "=" ++ hexNum v ++
      (match el with | some e => enumSuffix e l.prim v | none => "/?")
  | "set" =>
    (if top then "F:" else "S:") ++ pfx ++ pathStr l.path ++ "=" ++ hexNum v ++
      (match el with | some e => setSuffix e v | none => "/?")
  | _ => (if top then "F:" else "T:") ++ pfx ++ pathStr l.path ++ "=" ++ hexNum v

/-- records of the fields of one block -/
def fieldRecords (bo : ByteOrder) (types : List Elem) (ftypes : List (String × String)) (pfx : String)
    (block : List Nat) : List String → List NLeaf → List String
  | _, [] => []
  | prev, l :: rest =>
    let ftype := ((ftypes.find? (fun x => some x.1 = l.path.head?)).map (·.2)).getD ""
    openRecords pfx prev l.path ++ [leafRecord bo types ftype pfx l (slice block l.off l.size)]
      ++ fieldRecords bo types ftypes pfx block l.path rest

def dataRecords (pfx : String) : List NData → List (List Nat) → List String
  | d :: ds, p :: ps => ("D:" ++ pfx ++ d.name ++ "=<" ++ SExp.hex p ++ ">") :: dataRecords pfx ds ps
  | _, _ => []

def ftypesOf (fields : List FieldDef) : List (String × String) := fields.map (fun f => (f.name, f.type))

mutual
  def eventsL (bo : ByteOrder) (types : List Elem) (pfx : String) :
      List FieldDef → List GroupDef → NLevel → LVal → List String
    | fds, gds, .mk _ lv gs ds, .mk block gvs dvs =>
      fieldRecords bo types (ftypesOf fds) pfx block [] lv
        ++ eventsGs bo types pfx gds gs gvs ++ dataRecords pfx ds dvs
  def eventsGs (bo : ByteOrder) (types : List Elem) (pfx : String) :
      List GroupDef → List NGroup → List GVal → List String
    | (.mk _ _ _ _ fds gds _ _) :: grest, (.mk name _ l) :: gs, (.mk _ es) :: vs =>
      ("G:" ++ pfx ++ name ++ ":n=" ++ toString es.length)
        :: eventsEs bo types (pfx ++ name) 0 fds gds l es ++ eventsGs bo types pfx grest gs vs
    | _, _, _ => []
  def eventsEs (bo : ByteOrder) (types : List Elem) (gp : String) (i : Nat) :
      List FieldDef → List GroupDef → NLevel → List LVal → List String
    | _, _, _, [] => []
    | fds, gds, l, e :: es =>
      ("E:" ++ gp ++ "[" ++ toString i ++ "]") :: eventsL bo types (entryPfx gp i) fds gds l e
        ++ eventsEs bo types gp (i + 1) fds gds l es
end

end Sbepp.Spec.Events
