/-
  C13 — `<data>` views (`dynamic_array_ref`) behave like a `std::vector` bounded
  by their buffer.

  Implementation model: `Sbepp.Rt.DynArray` (statement-by-statement
  transliteration of the checked build, all length types and byte orders:
  `Params.w`, `Params.be`; correspondence with /repo is checked on every run by
  `harness/c13_dyn.cpp` ↔ `Drive/C13.lean`).
  Specification: `Sbepp.Spec.Vec` (plain list operations, `Op.pre`, `Op.post`,
  `Op.newLen`, `Op.ret`, `Steps`, `ValidSeq`, `peak`).

  Abstraction: `abs P buf = (buf.drop w).take (len P buf)` where
  `len P buf` decodes the length prefix.  `WF P buf`: prefix + payload fit the
  view, the view lies in the memory block, the prefix holds a value of the
  length type.  `Frame P buf buf' k`: the block keeps its size and no byte at
  or after payload index `k` changed.

  Sizes, capacities, lengths of histories and the width of the length type are
  unbounded (`w = 1, 2, 4, 8` are instances).
-/
import Sbepp.Lemmas.DynArray
import Sbepp.Lemmas.DynArrayTie

namespace Sbepp.Properties.C13
open Sbepp.Rt.DynArray Sbepp.Spec.Vec

variable {P : Params}

/-- `size()` returns the size of the vector the memory represents, without
    asserting and without modifying anything -/
theorem size_spec {buf : List Nat} (hwf : WF P buf) :
    size P buf = .ok (abs P buf).length buf := by
  obtain ⟨hH, hsplit, _⟩ := canon hwf
  have h := size_exec (body := buf.drop P.w) hH hwf.fit
  rw [← hsplit] at h
  rw [h, length_abs hwf]

/-- `operator()(size_bytes_tag)` is prefix width + vector size -/
theorem size_bytes_spec {buf : List Nat} (hwf : WF P buf) (h64 : P.avail < 2 ^ 64) :
    sizeBytes P buf = .ok (P.w + (abs P buf).length) buf := by
  have hfit := hwf.fit
  have e : sizeT (P.w + len P buf) = P.w + len P buf := Nat.mod_eq_of_lt (by omega)
  unfold sizeBytes
  simp only [bind_apply, size_spec hwf, andThen_ok, pure_apply, length_abs hwf, e]

/-- **C13, one operation.**  Every operation whose vector precondition holds
    and whose result fits the length type and the view: does not assert, has
    no undefined behaviour, returns the iterator the vector operation returns
    (`Op.ret`), leaves a well-formed image whose abstraction is the vector
    operation applied to the old abstraction (`Op.post`; for
    `resize(n, default_init)` the new elements are unspecified), whose length
    prefix encodes the new size, and changes no byte at or beyond the payload
    area in use before/after the operation. -/
theorem op_refine {buf : List Nat} (hwf : WF P buf) (op : Op) (hpre : op.pre (abs P buf).length)
    (hcap : P.w + op.newLen (abs P buf).length ≤ P.avail)
    (hmax : op.newLen (abs P buf).length < 256 ^ P.w) :
    ∃ buf', step P op buf = .ok op.ret buf' ∧ WF P buf'
      ∧ op.post (abs P buf) (abs P buf')
      ∧ len P buf' = op.newLen (abs P buf).length
      ∧ (abs P buf').length = op.newLen (abs P buf).length
      ∧ Frame P buf buf' (max (abs P buf).length (op.newLen (abs P buf).length)) := by
  obtain ⟨buf', h1, h2, h3, h4, h5⟩ := step_refines_wf hwf op hpre hcap hmax
  exact ⟨buf', h1, h2, h3, by rw [← length_abs h2]; exact h4, h4, h5⟩

/-- frame, byte by byte: whatever the operation returned, every byte outside
    the length prefix and the payload area in use (before or after) is unchanged -/
theorem op_frame {buf : List Nat} (hwf : WF P buf) (op : Op) (hpre : op.pre (abs P buf).length)
    (hcap : P.w + op.newLen (abs P buf).length ≤ P.avail)
    (hmax : op.newLen (abs P buf).length < 256 ^ P.w) (r : Option Nat) (buf' : List Nat)
    (hrun : step P op buf = .ok r buf') :
    buf'.length = buf.length ∧
    ∀ i, P.w + max (abs P buf).length (op.newLen (abs P buf).length) ≤ i → buf'[i]? = buf[i]? := by
  obtain ⟨b, h1, _, _, _, _, h5⟩ := op_refine hwf op hpre hcap hmax
  rw [hrun] at h1
  injection h1 with _ hb
  subst hb
  exact ⟨h5.1, fun i hi => h5.getElem? i hi⟩

/-- operations valid for a vector are valid here: no assertion fires, nothing
    is undefined -/
theorem valid_for_vector_valid_here {buf : List Nat} (hwf : WF P buf) (op : Op)
    (hpre : op.pre (abs P buf).length) (hcap : P.w + op.newLen (abs P buf).length ≤ P.avail)
    (hmax : op.newLen (abs P buf).length < 256 ^ P.w) :
    ∃ buf', step P op buf = .ok op.ret buf' := by
  obtain ⟨b, h1, _⟩ := op_refine hwf op hpre hcap hmax
  exact ⟨b, h1⟩

/-- in particular `erase(first, end())` (the case the original code asserted
    on) for every `first`, including `erase(end(), end())` and `erase(begin(), end())` -/
theorem erase_to_end_valid {buf : List Nat} (hwf : WF P buf) (i : Nat) (hi : i ≤ (abs P buf).length) :
    ∃ buf', step P (.eraseRange i (abs P buf).length) buf = .ok (some i) buf'
      ∧ abs P buf' = (abs P buf).take i := by
  have hl := length_abs hwf
  have hfit := hwf.fit
  have hlen := hwf.lenOk
  obtain ⟨b, h1, _, h3, _⟩ := op_refine hwf (.eraseRange i (abs P buf).length) ⟨hi, Nat.le_refl _⟩
    (by simp only [Op.newLen]; omega) (by simp only [Op.newLen]; omega)
  refine ⟨b, h1, ?_⟩
  have h3' : abs P b = Sbepp.Spec.Vec.eraseRange (abs P buf) i (abs P buf).length := h3
  rw [h3']
  simp only [Sbepp.Spec.Vec.eraseRange, List.drop_length, List.append_nil]

/-- **C13, all histories.**  For every operation sequence that is valid for a
    vector with the view's capacity and the length type's range (`ValidSeq`
    depends on lengths only): the whole run completes without assertion,
    returns the vector's iterators, ends in the vector's contents (`Steps`),
    and changes no byte at or beyond the largest payload area used on the way. -/
theorem ops_refine (ops : List Op) {buf : List Nat} (hwf : WF P buf)
    (hv : ValidSeq (P.avail - P.w) (256 ^ P.w) (abs P buf).length ops) :
    ∃ rets buf', runOps P ops buf = .ok rets buf' ∧ WF P buf'
      ∧ Steps (abs P buf) ops (abs P buf') rets
      ∧ Frame P buf buf' (peak (abs P buf).length ops) :=
  runOps_refines ops hwf hv

/-- frame of a whole history, byte by byte -/
theorem ops_frame (ops : List Op) {buf : List Nat} (hwf : WF P buf)
    (hv : ValidSeq (P.avail - P.w) (256 ^ P.w) (abs P buf).length ops) (rets : List (Option Nat))
    (buf' : List Nat) (hrun : runOps P ops buf = .ok rets buf') :
    buf'.length = buf.length ∧ ∀ i, P.w + peak (abs P buf).length ops ≤ i → buf'[i]? = buf[i]? := by
  obtain ⟨r, b, h1, _, _, h4⟩ := ops_refine ops hwf hv
  rw [hrun] at h1
  injection h1 with _ hb
  subst hb
  exact ⟨h4.1, fun i hi => h4.getElem? i hi⟩

/-- the bound: `resize(count, default_init)` — the only place the length
    prefix is written — refuses a length that does not fit the view -/
theorem bounded_by_buffer (buf : List Nat) (m : Nat) (h : P.avail < P.w + m) (h64 : P.w + m < 2 ^ 64) :
    resizeDI P m buf = .assertFailed buf :=
  resizeDI_bounded buf m h h64

/-- `push_back` on a full view asserts and leaves the memory untouched -/
theorem push_back_bounded {buf : List Nat} (hwf : WF P buf) (v : Nat)
    (hmax : len P buf + 1 < 256 ^ P.w) (h : P.avail < P.w + (len P buf + 1))
    (h64 : P.w + (len P buf + 1) < 2 ^ 64) :
    step P (.pushBack v) buf = .assertFailed buf :=
  pushBack_bounded hwf v hmax h h64

/-! ### non-vacuity: the hypotheses are met by concrete instances and the
    statements compute -/

/-- uint16 big-endian length, view of 8 bytes, "abc" stored, 2 canary bytes -/
def exP : Params := ⟨2, true, 8⟩
def exBuf : List Nat := [0, 3, 0x61, 0x62, 0x63, 0xe0, 0xe1, 0xe2, 0xc0, 0xc1]

example : WF exP exBuf := ⟨by decide, by decide, by decide⟩
example : abs exP exBuf = [0x61, 0x62, 0x63] := by decide
example : (Op.eraseRange 1 3).pre (abs exP exBuf).length := by decide
example : ValidSeq (exP.avail - exP.w) (256 ^ exP.w) (abs exP exBuf).length
    [.insertN 1 2 0x7a, .eraseRange 0 3, .pushBack 0x61, .insertInput 0 [1, 2], .resizeDI 2] := by
  decide
example : step exP (.eraseRange 1 3) exBuf
    = .ok (some 1) [0, 1, 0x61, 0x62, 0x63, 0xe0, 0xe1, 0xe2, 0xc0, 0xc1] := by decide
example : step exP (.insertN 1 2 0x7a) exBuf
    = .ok (some 1) [0, 5, 0x61, 0x7a, 0x7a, 0x62, 0x63, 0xe2, 0xc0, 0xc1] := by decide
example : step exP (.insertN 1 4 0x7a) exBuf = .assertFailed exBuf := by decide
example : runOps exP [.insertN 1 2 0x7a, .eraseRange 0 3, .pushBack 0x61] exBuf
    = .ok [some 1, some 0, none] [0, 3, 0x62, 0x63, 0x61, 0x62, 0x63, 0xe2, 0xc0, 0xc1] := by decide
example : getN true (putN 4 true 0x01020304) = 0x01020304 ∧ putN 4 false 0x01020304 = [4, 3, 2, 1] := by
  decide

/-! ### the same statements about the definitions extracted from the C++ text

    `Sbepp.Extracted.DynArray.*` is regenerated from `sbepp.hpp` on every run
    (`extract/methods_dynarray.py`); `Sbepp.Tie.DynArray.*_tie` proves each generated member function
    equal to the hand model the theorems above are about.  `stepE` / `runOpsE` are `step` / `runOps` with
    every member function replaced by its extracted definition. -/

open Sbepp.Tie.DynArray (stepE runOpsE)

theorem size_spec_extracted {buf : List Nat} (hwf : WF P buf) :
    Extracted.DynArray.size P buf = .ok (abs P buf).length buf := by
  rw [Sbepp.Tie.DynArray.size_tie]; exact size_spec hwf

theorem size_bytes_spec_extracted {buf : List Nat} (hwf : WF P buf) (h64 : P.avail < 2 ^ 64) :
    Extracted.DynArray.operator_call_size_bytes P buf = .ok (P.w + (abs P buf).length) buf := by
  rw [Sbepp.Tie.DynArray.size_bytes_tie]; exact size_bytes_spec hwf h64

/-- **C13, one operation, for the extracted member functions** -/
theorem op_refine_extracted {buf : List Nat} (hwf : WF P buf) (op : Op)
    (hpre : op.pre (abs P buf).length)
    (hcap : P.w + op.newLen (abs P buf).length ≤ P.avail)
    (hmax : op.newLen (abs P buf).length < 256 ^ P.w) :
    ∃ buf', stepE P op buf = .ok op.ret buf' ∧ WF P buf'
      ∧ op.post (abs P buf) (abs P buf')
      ∧ len P buf' = op.newLen (abs P buf).length
      ∧ (abs P buf').length = op.newLen (abs P buf).length
      ∧ Frame P buf buf' (max (abs P buf).length (op.newLen (abs P buf).length)) := by
  rw [Sbepp.Tie.DynArray.stepE_tie]; exact op_refine hwf op hpre hcap hmax

theorem erase_to_end_valid_extracted {buf : List Nat} (hwf : WF P buf) (i : Nat)
    (hi : i ≤ (abs P buf).length) :
    ∃ buf', stepE P (.eraseRange i (abs P buf).length) buf = .ok (some i) buf'
      ∧ abs P buf' = (abs P buf).take i := by
  rw [Sbepp.Tie.DynArray.stepE_tie]; exact erase_to_end_valid hwf i hi

/-- **C13, all histories, for the extracted member functions** -/
theorem ops_refine_extracted (ops : List Op) {buf : List Nat} (hwf : WF P buf)
    (hv : ValidSeq (P.avail - P.w) (256 ^ P.w) (abs P buf).length ops) :
    ∃ rets buf', runOpsE P ops buf = .ok rets buf' ∧ WF P buf'
      ∧ Steps (abs P buf) ops (abs P buf') rets
      ∧ Frame P buf buf' (peak (abs P buf).length ops) := by
  rw [Sbepp.Tie.DynArray.runOpsE_tie]; exact ops_refine ops hwf hv

theorem bounded_by_buffer_extracted (buf : List Nat) (m : Nat) (h : P.avail < P.w + m)
    (h64 : P.w + m < 2 ^ 64) :
    Extracted.DynArray.resize_n_di P m buf = .assertFailed buf := by
  rw [Sbepp.Tie.DynArray.resize_n_di_tie]; exact bounded_by_buffer buf m h h64

theorem push_back_bounded_extracted {buf : List Nat} (hwf : WF P buf) (v : Nat)
    (hmax : len P buf + 1 < 256 ^ P.w) (h : P.avail < P.w + (len P buf + 1))
    (h64 : P.w + (len P buf + 1) < 2 ^ 64) :
    stepE P (.pushBack v) buf = .assertFailed buf := by
  rw [Sbepp.Tie.DynArray.stepE_tie]; exact push_back_bounded hwf v hmax h h64

example : stepE exP (.eraseRange 1 3) exBuf
    = .ok (some 1) [0, 1, 0x61, 0x62, 0x63, 0xe0, 0xe1, 0xe2, 0xc0, 0xc1] := by decide
example : runOpsE exP [.insertN 1 2 0x7a, .eraseRange 0 3, .pushBack 0x61] exBuf
    = .ok [some 1, some 0, none] [0, 3, 0x62, 0x63, 0x61, 0x62, 0x63, 0xe2, 0xc0, 0xc1] := by decide

end Sbepp.Properties.C13
