/-
  C11 — read-only views cannot mutate the buffer.

  Partial by nature (DESIGN §10): SFINAE, template instantiation and overload
  resolution are the compiler's.  What is proved here is about
  * the guard table `Extracted.guardRows`, regenerated on every run from
    `sbepp.hpp` and from the generator's `fmt` templates (whole table, `decide`);
  * the conversion relation `conv` and the accessor / conversion graph of
    `Rt/ConstGraph.lean`, whose mutators are enabled according to that table;
  * the Lean runtime models of the non-mutating calls (`Rt/Walk.lean`,
    `Spec/Observe.lean`): they return no buffer.
  The compile probes of `vlib/props/c11.py` observe that the compilers agree
  with `conv`, with `Guard.admits` (detection idiom / negative compilation on
  every generated class member) and that read-only traversals of the real
  generated code leave the buffer unchanged.
-/
import Sbepp.Rt.ConstGraph
import Sbepp.Extracted.Guards
import Sbepp.Rt.Walk
import Sbepp.Spec.Observe

namespace Sbepp.Properties.C11
open Sbepp Sbepp.Rt.ConstGraph Sbepp.Extracted

/-! ### byte types and `conv` -/

theorem Byte.mem_all (b : Byte) : b ∈ Byte.all := by
  obtain ⟨base, c⟩ := b
  cases base <;> cases c <;> simp [Byte.all]

/-- **conv_only_towards_const**: pointer conversion between the byte types
    never removes `const`, never changes the underlying byte type, is exactly
    "same type, const may be added", and is a preorder. -/
theorem conv_only_towards_const (f t : Byte) :
    (conv f t = true ↔ f.base = t.base ∧ (f.const = true → t.const = true)) ∧
    (conv f t = true → f.const = true → t.const = true) ∧
    (conv f t = true → conv t f = true → f = t) ∧
    conv f f = true ∧
    (∀ u, conv f t = true → conv t u = true → conv f u = true) := by
  obtain ⟨fb, fc⟩ := f
  obtain ⟨tb, tc⟩ := t
  refine ⟨?_, ?_, ?_, ?_, ?_⟩
  · cases fb <;> cases tb <;> cases fc <;> cases tc <;> simp [conv]
  · cases fb <;> cases tb <;> cases fc <;> cases tc <;> simp [conv]
  · cases fb <;> cases tb <;> cases fc <;> cases tc <;> simp [conv]
  · cases fb <;> cases fc <;> simp [conv]
  · intro u
    obtain ⟨ub, uc⟩ := u
    cases fb <;> cases tb <;> cases ub <;> cases fc <;> cases tc <;> cases uc <;> simp [conv]

/-- the whole relation, as the correspondence probes print it -/
theorem conv_table :
    Byte.all.map (fun f => Byte.all.map (fun t => conv f t)) =
      [[true, true, false, false, false, false], [false, true, false, false, false, false],
       [false, false, true, true, false, false], [false, false, false, true, false, false],
       [false, false, false, false, true, true], [false, false, false, false, false, true]] := by decide

/-! ### the extracted guard table -/

/-- check of one row, over all 36 (view byte, cursor byte) pairs -/
def rowGuarded (rows : List GuardRow) (fuel : Nat) (r : GuardRow) : Bool :=
  r.guard != .misdirected &&
  -- converting constructors / assignments / cursor-taking members are guarded by the pointer conversion
  (!r.takesOtherByte || r.guard == .convertible || r.guard == .cursorCompatible) &&
  (!r.writes ||
    (r.guard != .none &&
      -- generated mutators are rejected in the immediate context (SFINAE), so that detection idioms see it
      (r.origin != .generator || r.guard == .writable || r.guard == .cursorWriteable || r.guard == .forwarded) &&
      Byte.all.all (fun vb => Byte.all.all (fun cb =>
        -- nothing writes when both bytes are const (every row, internal helpers included)
        (!(vb.const && cb.const) || !canWrite rows fuel r vb cb) &&
        -- public surface: const view byte, or const cursor byte for cursor overloads
        (r.scope != .api || !(vb.const || (r.usesCursor && cb.const)) || !canWrite rows fuel r vb cb)))))

theorem table_guarded : guardRows.all (rowGuarded guardRows guardFuel) = true := by decide +kernel

/-- **mutators_guarded**: every extracted overload (runtime header and
    generator templates) whose body reaches a write primitive carries a rejection
    mechanism, and
    * if it belongs to the public surface it cannot perform a write when the
      view byte is const, nor — for overloads taking a cursor — when the cursor
      byte is const;
    * whatever its scope (undocumented cursor protocol, `detail::` helpers,
      private members) it cannot perform a write when both bytes are const. -/
theorem mutators_guarded (r : GuardRow) (hr : r ∈ guardRows) (hw : r.writes = true) :
    r.guard ≠ .none ∧
    (r.origin = .generator → r.guard = .writable ∨ r.guard = .cursorWriteable ∨ r.guard = .forwarded) ∧
    (∀ vb cb, vb.const = true → cb.const = true → canWrite guardRows guardFuel r vb cb = false) ∧
    (r.scope = .api → ∀ vb cb, (vb.const = true ∨ (r.usesCursor = true ∧ cb.const = true)) →
      canWrite guardRows guardFuel r vb cb = false) := by
  have h := List.all_eq_true.mp table_guarded r hr
  simp only [rowGuarded, hw, Bool.not_true, Bool.false_or, Bool.and_eq_true, List.all_eq_true] at h
  obtain ⟨_, ⟨hg, hgen⟩, hall⟩ := h
  refine ⟨by simpa using hg, ?_, ?_, ?_⟩
  · intro ho
    have : (r.guard = .writable ∨ r.guard = .cursorWriteable) ∨ r.guard = .forwarded := by simpa [ho] using hgen
    rcases this with (h1 | h2) | h3
    · exact Or.inl h1
    · exact Or.inr (Or.inl h2)
    · exact Or.inr (Or.inr h3)
  · intro vb cb hv hc
    have := (hall vb (Byte.mem_all vb) cb (Byte.mem_all cb)).1
    simpa [hv, hc] using this
  · intro hs vb cb hor
    have := (hall vb (Byte.mem_all vb) cb (Byte.mem_all cb)).2
    rcases hor with hv | ⟨hu, hc⟩
    · simpa [hs, hv] using this
    · simpa [hs, hu, hc] using this

/-- **conversions_guarded**: every member that takes another instantiation of
    its template (`byte_range<Byte2>`, `cursor<Byte2>`, `entry_base<Byte2, …>`:
    converting constructors, cursor assignment, cursor-taking members of the
    bases, the generated entry-from-cursor constructor) is guarded by
    `is_convertible<Byte2*, Byte*>` resp. `is_convertible<Byte*, CursorByte*>`
    in that direction; no guard of the table has its arguments reversed. -/
theorem conversions_guarded (r : GuardRow) (hr : r ∈ guardRows) :
    r.guard ≠ .misdirected ∧
    (r.takesOtherByte = true → r.guard = .convertible ∨ r.guard = .cursorCompatible) := by
  have h := List.all_eq_true.mp table_guarded r hr
  simp only [rowGuarded, Bool.and_eq_true] at h
  obtain ⟨⟨h1, h2⟩, _⟩ := h
  refine ⟨by simpa using h1, ?_⟩
  intro ht
  simpa [ht] using h2

/-- **guard_definitions**: the guard aliases and the element-handle types mean
    what `Guard.admits` / `Handle.mutable` say — `enable_if_writable_t` is
    `!is_const<Byte>`, `enable_if_convertible_t<From, To>` is
    `is_convertible<From*, To*>`, `enable_if_cursor_compatible_t<M, C>` converts
    the message byte to the cursor byte, `enable_if_cursor_writeable_t` adds that
    neither is const, `cursor_byte_type_t` is the cursor's `byte_type`, and an array
    element handle is `Value` with the constness of `Byte`
    (`std::conditional<is_const<From>, const To, To>`).  Compared as text
    (whitespace removed) with the current `sbepp.hpp`. -/
theorem guard_definitions :
    guardDefs =
      [("enable_if_t", "boolB,typenameT=void", "typenamestd::enable_if<B,T>::type"),
       ("enable_if_convertible_t", "typenameByteFrom,typenameByteTo",
        "enable_if_t<std::is_convertible<ByteFrom*,ByteTo*>::value>"),
       ("enable_if_writable_t", "typenameByte,typenameT=void", "enable_if_t<!std::is_const<Byte>::value,T>"),
       ("enable_if_cursor_compatible_t", "typenameMessageByte,typenameCursorByte",
        "enable_if_convertible_t<MessageByte,CursorByte>"),
       ("enable_if_cursor_writeable_t", "typenameMessageByte,typenameCursorByte",
        "enable_if_t<std::is_convertible<MessageByte*,CursorByte*>::value&&!std::is_const<MessageByte>::value&&!std::is_const<CursorByte>::value>"),
       ("apply_cv_qualifiers_t", "typenameFrom,typenameTo", "typenamecopy_cv_qualifiers<From,To>::type"),
       ("cursor_byte_type_t", "typenameCursor", "typenameremove_reference_t<Cursor>::byte_type"),
       ("copy_cv_qualifiers::copy_const_t", "", "typenamestd::conditional<std::is_const<From>::value,constTo,To>::type"),
       ("copy_cv_qualifiers::type", "",
        "typenamestd::conditional<std::is_volatile<From>::value,volatilecopy_const_t,copy_const_t>::type"),
       ("static_array_ref::element_type", "", "detail::apply_cv_qualifiers_t<Byte,Value>"),
       ("static_array_ref::reference", "", "element_type&"),
       ("static_array_ref::pointer", "", "element_type*"),
       ("static_array_ref::iterator", "", "pointer"),
       ("dynamic_array_ref::element_type", "", "detail::apply_cv_qualifiers_t<Byte,Value>"),
       ("dynamic_array_ref::reference", "", "element_type&"),
       ("dynamic_array_ref::pointer", "", "element_type*"),
       ("dynamic_array_ref::iterator", "", "pointer")] := by decide

/-- the extractor's own fixpoint ("reaches a write primitive") agrees with the
    model: a row is marked as writing iff it can write for mutable bytes -/
theorem writes_consistent :
    guardRows.all (fun r => r.writes == canWrite guardRows guardFuel r ⟨.char, false⟩ ⟨.char, false⟩) = true := by
  decide +kernel

/-- non-vacuity of the table: it has rows, writers of every guard category, and
    the mutators the property names are among them -/
theorem table_nonempty :
    (guardRows.filter (·.writes)).length ≥ 40 ∧
    [Guard.writable, .cursorWriteable, .constByteElement, .constBytePointer, .delegated, .forwarded].all
      (fun g => guardRows.any (fun r => r.writes && r.guard == g)) = true ∧
    ["gen.setter", "gen.cursorSetter", "gen.fillMessageHeader", "gen.fillGroupHeader", "gen.byTag[value]",
     "gen.byTag[value,cursor]", "sbepp::set_by_tag", "sbepp::fill_message_header", "sbepp::fill_group_header",
     "flat_group_base::resize", "flat_group_base::clear", "nested_group_base::resize", "nested_group_base::clear",
     "static_array_ref::assign_string", "static_array_ref::assign_range", "static_array_ref::fill",
     "static_array_ref::assign", "dynamic_array_ref::assign", "dynamic_array_ref::insert",
     "dynamic_array_ref::erase", "dynamic_array_ref::push_back", "dynamic_array_ref::pop_back",
     "dynamic_array_ref::resize", "dynamic_array_ref::clear", "dynamic_array_ref::assign_string",
     "dynamic_array_ref::assign_range", "Cursor::set_value", "Cursor::set_last_value"].all
      (fun k => guardRows.any (fun r => r.writes && r.keys.contains k)) = true := by
  decide +kernel

/-- non-vacuity: the converting members are in the table -/
theorem conversions_nonempty :
    ["byte_range::byte_range", "cursor::cursor", "cursor::operator=", "entry_base::entry_base",
     "gen.entryCursorCtor", "flat_group_base::cursor_range", "nested_group_base::cursor_range"].all
      (fun k => guardRows.any (fun r => r.takesOtherByte && r.keys.contains k)) = true := by decide +kernel

/-! ### the graph -/

abbrev enabled (m : Mut) (n : Node) : Bool := enabledAt guardRows guardFuel m n

/-- with a const view byte no mutator is enabled -/
theorem const_view_disabled (m : Mut) (n : Node) (h : n.vb.const = true) : enabled m n = false := by
  unfold enabled enabledAt
  apply Bool.and_eq_false_imp.mpr
  intro _
  cases m <;> simp only [Handle.mutable, h, Bool.not_true] <;>
    (apply List.any_eq_false.mpr
     intro r hr hsel
     simp only [Bool.and_eq_true, beq_iff_eq] at hsel
     obtain ⟨⟨⟨_, hs⟩, hw⟩, hc⟩ := hsel
     have := (mutators_guarded r hr hw).2.2.2 hs n.vb n.cb (Or.inl h)
     rw [this] at hc
     exact Bool.noConfusion hc)

/-- the generated cursor setters take a cursor (decided over the table) -/
theorem selected_cursor_setters_use_cursor (r : GuardRow) (hr : r ∈ guardRows)
    (hk : r.keys.contains "gen.cursorSetter" = true) : r.usesCursor = true := by
  have h : guardRows.all (fun r => !r.keys.contains "gen.cursorSetter" || r.usesCursor) = true := by decide +kernel
  have := List.all_eq_true.mp h r hr
  rw [hk] at this
  simpa using this

/-- with a const cursor byte no mutator that goes through the cursor is enabled -/
theorem const_cursor_disabled (m : Mut) (n : Node) (hm : m.viaCursor = true) (h : n.cb.const = true) :
    enabled m n = false := by
  unfold enabled enabledAt
  apply Bool.and_eq_false_imp.mpr
  intro _
  cases m <;> simp only [Mut.viaCursor] at hm <;> try exact Bool.noConfusion hm
  all_goals
    (apply List.any_eq_false.mpr
     intro r hr hsel
     simp only [Bool.and_eq_true, beq_iff_eq, Mut.selects] at hsel
     obtain ⟨⟨⟨hk, hs⟩, hw⟩, hc⟩ := hsel
     have hu : r.usesCursor = true := by
       first
       | exact hk.2
       | exact selected_cursor_setters_use_cursor r hr hk
     have := (mutators_guarded r hr hw).2.2.2 hs n.vb n.cb (Or.inr ⟨hu, h⟩)
     rw [this] at hc
     exact Bool.noConfusion hc)

/-- every step keeps a const view byte const -/
theorem step_preserves_const_view (s : Step) (n : Node) (hok : s.ok n = true) (h : n.vb.const = true) :
    (s.apply n).vb.const = true := by
  cases s <;> simp only [Step.apply, Byte.addConst] <;> try exact h
  -- cursor accessors: vb* converts to cb*, so the cursor byte is const as well
  · simp only [Step.ok, Bool.and_eq_true] at hok
    exact (conv_only_towards_const n.vb n.cb).2.1 hok.2 h
  · simp only [Step.ok, Bool.and_eq_true] at hok
    exact (conv_only_towards_const n.vb n.cb).2.1 hok.2 h
  · simp only [Step.ok] at hok
    exact (conv_only_towards_const n.vb _).2.1 hok h

/-- **no_path_to_mutator**: from a node whose view byte is const, whatever
    sequence of accessor calls (random access, cursor based, by tag), implicit
    conversions, cursor creations, cursor wrappers and `make_const_view` the
    program performs, every view it obtains is over const bytes and offers no
    enabled mutator. -/
theorem no_path_to_mutator (steps : List Step) (n n' : Node) (hrun : run steps n = some n')
    (h : n.vb.const = true) : n'.vb.const = true ∧ ∀ m, enabled m n' = false := by
  induction steps generalizing n with
  | nil =>
    simp only [run, Option.some.injEq] at hrun
    subst hrun
    exact ⟨h, fun m => const_view_disabled m n h⟩
  | cons s ss ih =>
    simp only [run] at hrun
    split at hrun
    · rename_i hok
      exact ih (s.apply n) hrun (step_preserves_const_view s n hok h)
    · cases hrun

/-- every step other than `init_cursor` keeps a const cursor byte const -/
theorem step_preserves_const_cursor (s : Step) (n : Node) (hs : s ≠ .initCursor) (hok : s.ok n = true)
    (h : n.cb.const = true) : (s.apply n).cb.const = true := by
  cases s <;> simp only [Step.apply, Byte.addConst] <;> try exact h
  · simp only [Step.ok] at hok
    exact (conv_only_towards_const n.cb _).2.1 hok h
  · exact absurd rfl hs

/-- a view obtained *through* a const cursor is over const bytes (hence, by
    `no_path_to_mutator`, nothing reachable from it is a mutator), also when
    the parent view is mutable -/
theorem cursor_children_const (s : Step) (n : Node) (ht : s.throughCursor = true) (h : n.cb.const = true) :
    (s.apply n).vb.const = true := by
  cases s <;> simp only [Step.throughCursor] at ht <;> first | exact Bool.noConfusion ht | exact h

/-- **more-const cursor on a mutable view**: as long as the program does not
    re-derive a cursor from a mutable view (`init_cursor`), a const cursor stays
    const under every conversion / wrapper, and no cursor setter (direct or
    through `set_by_tag`) is enabled with it. -/
theorem no_path_to_cursor_mutator (steps : List Step) (n n' : Node) (hrun : run steps n = some n')
    (hni : Step.initCursor ∉ steps) (h : n.cb.const = true) :
    n'.cb.const = true ∧ ∀ m, m.viaCursor = true → enabled m n' = false := by
  induction steps generalizing n with
  | nil =>
    simp only [run, Option.some.injEq] at hrun
    subst hrun
    exact ⟨h, fun m hm => const_cursor_disabled m n hm h⟩
  | cons s ss ih =>
    simp only [run] at hrun
    split at hrun
    · rename_i hok
      have hs : s ≠ .initCursor := fun e => hni (e ▸ List.mem_cons_self)
      exact ih (s.apply n) hrun (fun hm => hni (List.mem_cons_of_mem _ hm))
        (step_preserves_const_cursor s n hs hok h)
    · cases hrun

/-! non-vacuity: on mutable bytes every mutator is enabled at the kinds that
    offer it (so the selections above are not empty), a const cursor on a mutable
    view leaves the plain setters enabled, and the paths are real paths -/
example :
    Mut.all.all (fun m => m.kinds.all (fun k => enabled m ⟨k, ⟨.char, false⟩, ⟨.char, false⟩, .plain⟩)) = true := by
  decide +kernel
example : enabled .setter ⟨.message, ⟨.char, false⟩, ⟨.char, true⟩, .plain⟩ = true ∧
    enabled .cursorSetter ⟨.message, ⟨.char, false⟩, ⟨.char, true⟩, .plain⟩ = false ∧
    enabled .setByTagCursor ⟨.message, ⟨.char, false⟩, ⟨.char, true⟩, .plain⟩ = false := by
  decide +kernel
example :
    run [.makeConstView, .accessor .group, .accessor .entry, .initCursor, .wrap .dontMove, .cursorAccessor .composite,
         .byTag .staticArray, .accessor .elemHandle] ⟨.message, ⟨.uchar, false⟩, ⟨.uchar, false⟩, .plain⟩
      = some ⟨.elemHandle, ⟨.uchar, true⟩, ⟨.uchar, true⟩, .dontMove⟩ := by decide
/-- a mutable cursor cannot be used with a const view at all -/
example : run [.cursorAccessor .group] ⟨.message, ⟨.char, true⟩, ⟨.char, false⟩, .plain⟩ = none := by decide
/-- and a const view never converts back -/
example : run [.convertView ⟨.char, false⟩] ⟨.message, ⟨.char, true⟩, ⟨.char, true⟩, .plain⟩ = none := by decide

/-! ### non-mutating calls of the runtime models -/

/-- **readers_write_nothing**: in the Lean runtime models (`getLeaf`, `rd`,
    `endL`, `endG`, `groupPos`, `dataPos`, `entryPos`, `Observe.modelL`) a
    non-mutating call returns bytes, a number or printed observations — the
    buffer is not part of `ReadResult` — and any sequence of such calls, on any
    buffer, leaves the threaded buffer unchanged and answers every call on the
    original contents. -/
theorem readers_write_nothing (ops : List Op) (s : St) (h : ∀ o ∈ ops, o.isRead = true) :
    (runOps ops s).buf = s.buf ∧
    (runOps ops s).log = s.log ++ ops.filterMap (fun o => match o with
      | .read r => some (r.eval s.buf)
      | .setLeaf .. => none) := by
  induction ops generalizing s with
  | nil => simp [runOps]
  | cons o os ih =>
    have ho := h o List.mem_cons_self
    have hos : ∀ o' ∈ os, o'.isRead = true := fun o' hm => h o' (List.mem_cons_of_mem _ hm)
    cases o with
    | setLeaf pos lf bytes => simp [Op.isRead] at ho
    | read r =>
      obtain ⟨h1, h2⟩ := ih (Op.step (.read r) s) hos
      simp only [runOps]
      refine ⟨by rw [h1]; rfl, ?_⟩
      rw [h2]
      simp [Op.step]

/-! non-vacuity: the machine can express a write, and a read after it sees it -/
example :
    (runOps [.read (.getLeaf 0 ⟨1, 2⟩), .setLeaf 0 ⟨1, 2⟩ [7, 8], .read (.getLeaf 0 ⟨1, 2⟩)] ⟨[1, 2, 3, 4], []⟩)
      = ⟨[1, 7, 8, 4], [.bytes [2, 3], .bytes [7, 8]]⟩ := by decide
example :
    (runOps [.read (.getLeaf 0 ⟨1, 2⟩), .read (.rd .little 0 2), .read (.entryPos .little (.mk { size := 2, blOff := 0, blSize := 1, numOff := 1, numSize := 1 } (.mk 1 [] [] [])) 0 2)]
        ⟨[1, 2, 3, 4], []⟩).buf = [1, 2, 3, 4] := by decide

end Sbepp.Properties.C11
