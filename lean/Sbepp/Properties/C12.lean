/-
  C12 — group views obey iterator and container laws for every dimension type.

  Obligations are about the model of `Sbepp/Rt/Iter.lean`, every arithmetic
  step of which is a kernel translated from `flat_group_base`,
  `random_access_iterator`, `nested_group_base`, `forward_iterator` of /repo on
  this run.  All theorems hold for each of the 16 typings (`DimTy NT`,
  `DimTy BT`), for every header content and every step, and each of them says
  `= .ok …`: no undefined behaviour and no assertion under the stated
  hypotheses.

  Two hypotheses appear explicitly and are not artefacts of the model:

  * `Group.WF`: the group extent `[addr, addr + hdr + num·bl]` lies in the
    address space `[0, 2^63)` and `InSpace`: an entry address that is computed
    lies there too — a buffer holding those entries cannot exist otherwise;
  * `Representable w k`: a step or a distance is a value of
    `difference_type = make_signed<size_type>`.  C++ cannot even *say*
    `begin() + n` for `n ≥ 2^(w-1)`: the argument is converted before
    `operator+` sees it.  `*_full_false` below are the kernel-checked witnesses
    that the statements are false without it on the current code.
-/
import Sbepp.Lemmas.Iter

namespace Sbepp.Properties.C12
open Sbepp Sbepp.Rt Sbepp.Extracted Sbepp.CVal
open Sbepp.Spec.Group (entryAddr Representable chain)

/-- the hand-transliterated compositions of `Rt/Iter.lean` still have the source
    text they were transliterated from -/
theorem model_shapes_current : group_shapes_ok = true := by decide

/-- the model iterator that denotes position `p` of group `g` -/
def iterAt (g : Group) (p : Nat) : Iter := ⟨entryAddr g.dataStart g.bl p, g.bl, p, g.end_⟩

/-- the entry address at position `p` is an address -/
def InSpace (g : Group) (p : Nat) : Prop :=
  0 ≤ entryAddr g.dataStart g.bl p ∧ entryAddr g.dataStart g.bl p < (2 ^ 63 : Int)

theorem representable_iff (NT : CTy) (hNT : DimTy NT) (k : Int) :
    Representable NT.bits k ↔ inRange (diffTy NT) k = true := by
  rw [inRange_signed _ hNT.diff_signed, hNT.diff_bits]
  rfl

theorem iterAt_wf (NT BT : CTy) (g : Group) (wf : g.WF NT BT) (p : Nat) (hp : p < 2 ^ NT.bits)
    (hs : InSpace g p) : (iterAt g p).WF NT BT :=
  ⟨wf.bl_lt, hp, by
    show inRange .ptr (entryAddr g.dataStart g.bl p) = true
    exact inRange_ptr _ (by have := hs.1; have := hs.2; omega)⟩

/-- every position of the group is in the address space -/
theorem inSpace_of_le (NT BT : CTy) (g : Group) (wf : g.WF NT BT) (p : Nat) (hp : p ≤ g.num) : InSpace g p := by
  have h1 := wf.fits
  have h2 := wf.addr_nonneg
  have hmul : p * g.bl ≤ g.num * g.bl := Nat.mul_le_mul_right _ hp
  have hmul' : ((p * g.bl : Nat) : Int) ≤ ((g.num * g.bl : Nat) : Int) := by exact_mod_cast hmul
  have h0 : (0 : Int) ≤ ((p * g.bl : Nat) : Int) := Int.natCast_nonneg _
  have hh : (0 : Int) ≤ (g.hdr : Int) := Int.natCast_nonneg _
  unfold InSpace entryAddr Group.dataStart
  simp only [Int.natCast_add, Int.natCast_mul] at *
  omega

/-! ### begin / end -/

theorem begin_spec (NT BT : CTy) (hNT : DimTy NT) (hBT : DimTy BT) (g : Group) (wf : g.WF NT BT) :
    flatBegin NT BT false g = .ok (iterAt g 0) := by
  rw [flatBegin_eval NT BT hNT hBT g wf]
  simp [iterAt, entryAddr]

theorem end_spec (NT BT : CTy) (hNT : DimTy NT) (hBT : DimTy BT) (g : Group) (wf : g.WF NT BT) :
    flatEnd NT BT false g = .ok (iterAt g g.num) := by
  rw [flatEnd_eval NT BT hNT hBT g wf]
  simp [iterAt, entryAddr]

/-! ### it + n, it - n, it[n] -/

/-- **index algebra of `+`**: stepping the iterator at position `p` by a
    representable `k` gives the iterator at position `p + k` (positive and
    negative `k`; block length 0 included). -/
theorem plus_spec (NT BT : CTy) (hNT : DimTy NT) (hBT : DimTy BT) (g : Group) (wf : g.WF NT BT)
    (p q : Nat) (k : Int) (a : CVal) (hconv : conv (diffTy NT) a = wrap (diffTy NT) k)
    (hk : Representable NT.bits k) (hpq : (q : Int) = (p : Int) + k)
    (hp : p < 2 ^ NT.bits) (hq : q < 2 ^ NT.bits) (sp : InSpace g p) (sq : InSpace g q) :
    plus NT BT (iterAt g p) a = .ok (iterAt g q) := by
  have hk' := (representable_iff NT hNT k).mp hk
  have haddr : entryAddr g.dataStart g.bl p + k * (g.bl : Int) = entryAddr g.dataStart g.bl q := by
    simp only [entryAddr, hpq, Int.add_mul]; omega
  have h := plus_eval NT BT hNT hBT (iterAt g p) (iterAt_wf NT BT g wf p hp sp) a k hconv hk'
    (by show -(2 ^ 63 : Int) < k * (g.bl : Int) ∧ k * (g.bl : Int) < (2 ^ 63 : Int)
        have := sp.1; have := sp.2; have := sq.1; have := sq.2; omega)
    (by show inRange .ptr (entryAddr g.dataStart g.bl p + k * (g.bl : Int)) = true
        rw [haddr]; exact inRange_ptr _ (by have := sq.1; have := sq.2; omega))
  rw [h]
  show Outcome.ok (Iter.mk (entryAddr g.dataStart g.bl p + k * (g.bl : Int)) g.bl
    (wrap NT ((p : Int) + k)).bits g.end_) = _
  rw [haddr, ← hpq, wrap_bits_nat NT q hq]
  rfl

theorem minus_spec (NT BT : CTy) (hNT : DimTy NT) (hBT : DimTy BT) (g : Group) (wf : g.WF NT BT)
    (p q : Nat) (k : Int) (a : CVal) (hconv : conv (diffTy NT) a = wrap (diffTy NT) k)
    (hk : Representable NT.bits k) (hnk : Representable NT.bits (-k)) (hpq : (q : Int) = (p : Int) - k)
    (hp : p < 2 ^ NT.bits) (hq : q < 2 ^ NT.bits) (sp : InSpace g p) (sq : InSpace g q) :
    minus NT BT (iterAt g p) a = .ok (iterAt g q) := by
  have hk' := (representable_iff NT hNT k).mp hk
  have hnk' := (representable_iff NT hNT (-k)).mp hnk
  have haddr : entryAddr g.dataStart g.bl p - k * (g.bl : Int) = entryAddr g.dataStart g.bl q := by
    simp only [entryAddr, hpq, Int.sub_mul]; omega
  have h := minus_eval NT BT hNT hBT (iterAt g p) (iterAt_wf NT BT g wf p hp sp) a k hconv hk' hnk'
    (by show -(2 ^ 63 : Int) < k * (g.bl : Int) ∧ k * (g.bl : Int) < (2 ^ 63 : Int)
        have := sp.1; have := sp.2; have := sq.1; have := sq.2; omega)
    (by show inRange .ptr (entryAddr g.dataStart g.bl p - k * (g.bl : Int)) = true
        rw [haddr]; exact inRange_ptr _ (by have := sq.1; have := sq.2; omega))
  rw [h]
  show Outcome.ok (Iter.mk (entryAddr g.dataStart g.bl p - k * (g.bl : Int)) g.bl
    (wrap NT ((p : Int) - k)).bits g.end_) = _
  rw [haddr, ← hpq, wrap_bits_nat NT q hq]
  rfl

/-- an argument that already has type `difference_type` is passed unchanged -/
theorem conv_diff_self (NT : CTy) (hNT : DimTy NT) (k : Int) (hk : Representable NT.bits k) :
    conv (diffTy NT) (wrap (diffTy NT) k) = wrap (diffTy NT) k :=
  conv_wrap _ _ k ((representable_iff NT hNT k).mp hk) hNT.diff_not_bool

/-- `size()` passed where a `difference_type` is expected -/
theorem conv_size (NT : CTy) (hNT : DimTy NT) (g : Group) (hn : g.num < 2 ^ NT.bits) :
    conv (diffTy NT) (groupSize NT g) = wrap (diffTy NT) (g.num : Int) := by
  unfold groupSize
  rw [mk_mod_eq_wrap]
  exact conv_wrap NT _ _ (inRange_nat NT hNT.unsigned g.num hn) hNT.diff_not_bool

/-- **`begin() + size() == end()`** (same position *and* same address), for
    sizes that are values of `difference_type`. -/
theorem begin_plus_size_eq_end_partial (NT BT : CTy) (hNT : DimTy NT) (hBT : DimTy BT) (g : Group)
    (wf : g.WF NT BT) (hrep : Representable NT.bits (g.num : Int)) :
    (flatBegin NT BT false g >>= fun b => plus NT BT b (groupSize NT g)) = flatEnd NT BT false g := by
  rw [begin_spec NT BT hNT hBT g wf, end_spec NT BT hNT hBT g wf, Outcome.bind_ok]
  exact plus_spec NT BT hNT hBT g wf 0 g.num g.num _ (conv_size NT hNT g wf.num_lt) hrep (by simp)
    (Nat.two_pow_pos _) wf.num_lt (inSpace_of_le NT BT g wf 0 (Nat.zero_le _))
    (inSpace_of_le NT BT g wf g.num (Nat.le_refl _))

/-- the same law for every well-formed group, without the representability hypothesis -/
def begin_plus_size_eq_end_full : Prop :=
  ∀ (NT BT : CTy), DimTy NT → DimTy BT → ∀ g : Group, g.WF NT BT →
    (flatBegin NT BT false g >>= fun b => plus NT BT b (groupSize NT g)) = flatEnd NT BT false g

/-- false on the current code: a `uint8` dimension with 200 entries of 1 byte;
    `begin() + size()` has index 200 but points 56 bytes *before* the data -/
theorem begin_plus_size_eq_end_full_false : ¬ begin_plus_size_eq_end_full := by
  intro h
  have := h .u8 .u8 (Or.inl rfl) (Or.inl rfl) ⟨1048576, 2, 200, 1, 0⟩
    ⟨by decide, by decide, by decide, by decide, by decide⟩
  revert this
  decide

/-- **`it[n]` is `*(it + n)`**, and it is the entry at position `p + k` -/
theorem subscript_is_deref_plus (NT BT : CTy) (hNT : DimTy NT) (hBT : DimTy BT) (g : Group) (wf : g.WF NT BT)
    (p q : Nat) (k : Int) (a : CVal) (hconv : conv (diffTy NT) a = wrap (diffTy NT) k)
    (hk : Representable NT.bits k) (hpq : (q : Int) = (p : Int) + k)
    (hp : p < 2 ^ NT.bits) (hq : q < 2 ^ NT.bits) (sp : InSpace g p) (sq : InSpace g q) :
    subscriptIt NT BT (iterAt g p) a = (plus NT BT (iterAt g p) a >>= fun j => .ok (deref j))
    ∧ subscriptIt NT BT (iterAt g p) a = .ok (entryAddr g.dataStart g.bl q) := by
  refine ⟨rfl, ?_⟩
  unfold subscriptIt
  rw [plus_spec NT BT hNT hBT g wf p q k a hconv hk hpq hp hq sp sq]
  rfl

/-- **`(it + n) - n == it`** for positive and negative `n` (`n` and `-n` being
    values of `difference_type`) -/
theorem add_sub_cancel (NT BT : CTy) (hNT : DimTy NT) (hBT : DimTy BT) (g : Group) (wf : g.WF NT BT)
    (p q : Nat) (k : Int) (a : CVal) (hconv : conv (diffTy NT) a = wrap (diffTy NT) k)
    (hk : Representable NT.bits k) (hnk : Representable NT.bits (-k)) (hpq : (q : Int) = (p : Int) + k)
    (hp : p < 2 ^ NT.bits) (hq : q < 2 ^ NT.bits) (sp : InSpace g p) (sq : InSpace g q) :
    (plus NT BT (iterAt g p) a >>= fun j => minus NT BT j a) = .ok (iterAt g p)
    ∧ (minus NT BT (iterAt g q) a >>= fun j => plus NT BT j a) = .ok (iterAt g q) := by
  constructor
  · rw [plus_spec NT BT hNT hBT g wf p q k a hconv hk hpq hp hq sp sq, Outcome.bind_ok]
    exact minus_spec NT BT hNT hBT g wf q p k a hconv hk hnk (by omega) hq hp sq sp
  · rw [minus_spec NT BT hNT hBT g wf q p k a hconv hk hnk (by omega) hq hp sq sp, Outcome.bind_ok]
    exact plus_spec NT BT hNT hBT g wf p q k a hconv hk hpq hp hq sp sq

/-- the same law for every `n` of type `difference_type` -/
def add_sub_cancel_full : Prop :=
  ∀ (NT BT : CTy), DimTy NT → DimTy BT → ∀ g : Group, g.WF NT BT → ∀ (p q : Nat) (k : Int),
    inRange (diffTy NT) k = true → (q : Int) = (p : Int) + k → p ≤ g.num → q ≤ g.num →
    (plus NT BT (iterAt g p) (wrap (diffTy NT) k) >>= fun j => minus NT BT j (wrap (diffTy NT) k))
      = .ok (iterAt g p)

/-- false for the most negative step: `-n` is not a `difference_type` value.
    `uint8` dimension, 200 one-byte entries, `(it₁₂₈ + (-128)) - (-128)` ends 256
    bytes before `it₁₂₈` (for 32/64-bit dimensions the negation is undefined) -/
theorem add_sub_cancel_full_false : ¬ add_sub_cancel_full := by
  intro h
  have := h .u8 .u8 (Or.inl rfl) (Or.inl rfl) ⟨1048576, 2, 200, 1, 0⟩
    ⟨by decide, by decide, by decide, by decide, by decide⟩ 128 0 (-128) (by decide) (by decide)
    (by decide) (by decide)
  revert this
  decide

/-! ### distances and order -/

/-- **`it₂ - it₁` is the index difference** when that is a value of
    `difference_type` -/
theorem distance_matches_index_partial (NT : CTy) (hNT : DimTy NT) (g : Group)
    (p q : Nat) (hp : p < 2 ^ NT.bits) (hq : q < 2 ^ NT.bits)
    (hrep : Representable NT.bits ((q : Int) - (p : Int))) :
    ∃ d, diff NT (iterAt g q) (iterAt g p) = .ok d ∧ d.ty = diffTy NT ∧ d.toInt = (q : Int) - (p : Int) := by
  refine ⟨_, diff_eval NT hNT (iterAt g q) (iterAt g p) hq hp, rfl, ?_⟩
  exact toInt_wrap _ _ ((representable_iff NT hNT _).mp hrep)

def distance_matches_index_full : Prop :=
  ∀ (NT : CTy), DimTy NT → ∀ (g : Group) (p q : Nat), p < 2 ^ NT.bits → q < 2 ^ NT.bits →
    ∃ d, diff NT (iterAt g q) (iterAt g p) = .ok d ∧ d.toInt = (q : Int) - (p : Int)

/-- false on the current code: `end() - begin()` of a `uint8` group with 200
    entries is -56 -/
theorem distance_matches_index_full_false : ¬ distance_matches_index_full := by
  intro h
  obtain ⟨d, h1, h2⟩ := h .u8 (Or.inl rfl) ⟨1048576, 2, 200, 1, 0⟩ 0 200 (by decide) (by decide)
  have h3 : diff .u8 (iterAt ⟨1048576, 2, 200, 1, 0⟩ 200) (iterAt ⟨1048576, 2, 200, 1, 0⟩ 0)
      = .ok ⟨.i8, 200⟩ := by decide
  rw [h3] at h1
  injection h1 with h1
  subst h1
  revert h2
  decide

/-- the six comparison operators: protocol name and C++ operator -/
def cmpOps : List (String × BinOp) :=
  [("lt", BinOp.lt), ("le", .le), ("gt", .gt), ("ge", .ge), ("eq", .eq), ("ne", .ne)]

/-- **iterators are ordered like their positions**: all six operators, every
    pair of positions of the index type (full strength); the second conjunct
    says that the value is the specification's comparison of the positions -/
theorem order_matches_index (NT : CTy) (hNT : DimTy NT) (g : Group) (op : String) (bop : BinOp)
    (hop : (op, bop) ∈ cmpOps) (p q : Nat) (hp : p < 2 ^ NT.bits) (hq : q < 2 ^ NT.bits) :
    compare NT op (iterAt g p) (iterAt g q) = .ok (cmp bop (p : Int) (q : Int))
    ∧ Spec.Group.cmpInt op (p : Int) (q : Int) = some (cmp bop (p : Int) (q : Int)) := by
  refine ⟨compare_eval NT hNT op bop hop _ _ hp hq, ?_⟩
  simp only [cmpOps, List.mem_cons, Prod.mk.injEq, List.not_mem_nil, or_false] at hop
  rcases hop with ⟨h1, h2⟩ | ⟨h1, h2⟩ | ⟨h1, h2⟩ | ⟨h1, h2⟩ | ⟨h1, h2⟩ | ⟨h1, h2⟩ <;> subst h1 <;> subst h2 <;> rfl

/-! ### entry addresses -/

/-- **`g[i]`** starts at `dataStart + i·blockLength` for every `i < size()`
    (every value of `size_type`, the upper half included) -/
theorem entry_address_subscript (NT BT : CTy) (hNT : DimTy NT) (hBT : DimTy BT) (g : Group) (wf : g.WF NT BT)
    (i : Nat) (hi : i < g.num) (a : CVal) (hconv : conv NT a = wrap NT (i : Int)) :
    flatSubscript NT BT false g a = .ok (entryAddr g.dataStart g.bl i) := by
  have hs := inSpace_of_le NT BT g wf i (by omega)
  have h := flatSubscript_eval NT BT hNT hBT g wf a i hconv (by have := wf.num_lt; omega)
    (by have := hs.2; simpa [entryAddr] using this)
  rw [h]; simp [entryAddr]

theorem entry_address_front (NT BT : CTy) (hNT : DimTy NT) (hBT : DimTy BT) (g : Group) (wf : g.WF NT BT) :
    flatFront NT BT false g = .ok (entryAddr g.dataStart g.bl 0) := by
  rw [flatFront_eval NT BT hNT hBT g wf]; simp [entryAddr]

theorem entry_address_back (NT BT : CTy) (hNT : DimTy NT) (hBT : DimTy BT) (g : Group) (wf : g.WF NT BT)
    (hne : 0 < g.num) :
    flatBack NT BT false g = .ok (entryAddr g.dataStart g.bl ((g.num - 1 : Nat) : Int)) := by
  rw [flatBack_eval NT BT hNT hBT g wf hne]; simp [entryAddr]

/-- **iteration**: `k` increments from `begin()` reach position `k` (for every
    `k ≤ size()`; the last one is `end()`) -/
theorem entry_address_iteration (NT BT : CTy) (hNT : DimTy NT) (hBT : DimTy BT) (g : Group) (wf : g.WF NT BT)
    (k : Nat) (hk : k ≤ g.num) :
    (flatBegin NT BT false g >>= fun b => incN NT BT false k b) = .ok (iterAt g k) := by
  rw [begin_spec NT BT hNT hBT g wf, Outcome.bind_ok]
  have hs0 := inSpace_of_le NT BT g wf 0 (Nat.zero_le _)
  have hsk := inSpace_of_le NT BT g wf k hk
  have h := incN_eval NT BT hNT hBT k (iterAt g 0) (iterAt_wf NT BT g wf 0 (Nat.two_pow_pos _) hs0)
    (by show 0 + k < _; have := wf.num_lt; omega) hs0.1
    (by show entryAddr g.dataStart g.bl ((0 : Nat) : Int) + ((k * g.bl : Nat) : Int) < _
        have := hsk.2; simp only [entryAddr, Int.natCast_mul] at *; omega)
  rw [h]
  simp [iterAt, entryAddr]

/-! ### nested groups -/

/-- **forward iteration**: entry `i` starts where entry `i-1` ends -/
theorem forward_entry_chain (NT BT : CTy) (hNT : DimTy NT) (hBT : DimTy BT) (g : Group) (wf : g.WF NT BT)
    (esize : Int → Nat) (hfit : ChainFits g.dataStart esize g.num) (fuel : Nat) (hfuel : g.num ≤ fuel) :
    nestedEntries NT BT false g esize fuel = .ok (Spec.Group.starts g.dataStart esize g.num) :=
  nestedEntries_eval NT BT hNT hBT g wf esize hfit fuel hfuel

theorem nested_size_bytes_spec (NT BT : CTy) (hNT : DimTy NT) (hBT : DimTy BT) (g : Group) (wf : g.WF NT BT)
    (esize : Int → Nat) (hfit : ChainFits g.dataStart esize g.num) (fuel : Nat) (hfuel : g.num ≤ fuel) :
    nestedSizeBytes NT BT false g esize fuel = .ok (Spec.Group.nestedSize g.addr g.hdr esize g.num).toNat :=
  nestedSizeBytes_eval NT BT hNT hBT g wf esize hfit fuel hfuel

/-! ### resize / clear -/

/-- **`resize` writes the `numInGroup` field and nothing else**, and afterwards
    the field holds `count` in the header's byte order -/
theorem resize_writes_only_numInGroup (NT : CTy) (lay : DimLayout) (buf : List Nat) (hoff : Nat) (count : CVal)
    (hin : hoff + lay.numOff + NT.bits / 8 ≤ buf.length) :
    ∃ buf', resize NT lay buf hoff count = some buf'
      ∧ Spec.Group.FrameOutside buf buf' (hoff + lay.numOff) (NT.bits / 8)
      ∧ Spec.Group.slice buf' (hoff + lay.numOff) (NT.bits / 8)
          = Spec.Group.putBytes lay.bigEndian (NT.bits / 8) (conv NT count).bits := by
  have hl := valueBytes_length lay.bigEndian (NT.bits / 8) (conv NT count).bits
  obtain ⟨b, h1, h2, h3⟩ := writeAt_frame buf (hoff + lay.numOff)
    (valueBytes lay.bigEndian (NT.bits / 8) (conv NT count).bits) (by rw [hl]; exact hin)
  rw [hl] at h2 h3
  exact ⟨b, h1, h2, by rw [h3, valueBytes_eq_putBytes]⟩

theorem clear_writes_only_numInGroup (NT : CTy) (hNT : DimTy NT) (lay : DimLayout) (buf : List Nat) (hoff : Nat)
    (hin : hoff + lay.numOff + NT.bits / 8 ≤ buf.length) :
    ∃ buf', clear NT lay buf hoff = some buf'
      ∧ Spec.Group.FrameOutside buf buf' (hoff + lay.numOff) (NT.bits / 8)
      ∧ Spec.Group.slice buf' (hoff + lay.numOff) (NT.bits / 8)
          = Spec.Group.putBytes lay.bigEndian (NT.bits / 8) 0 := by
  obtain ⟨b, h1, h2, h3⟩ := resize_writes_only_numInGroup NT lay buf hoff ⟨.i32, 0⟩ hin
  refine ⟨b, h1, h2, ?_⟩
  rw [h3]
  have : conv NT ⟨.i32, 0⟩ = wrap NT 0 := by
    have : (⟨.i32, 0⟩ : CVal) = wrap .i32 0 := rfl
    rw [this]; exact conv_wrap .i32 NT 0 (by decide) hNT.not_bool
  rw [this, wrap_zero_bits]

/-! ### non-vacuity: the hypotheses are met by concrete non-trivial instances
    and the statements compute -/

/-- a `uint8`/`uint32` dimension, 200 entries of 2 bytes, 5-byte header at address 2^20 -/
def gEx : Group := ⟨1048576, 5, 200, 2, 0⟩

example : gEx.WF .u8 .u32 := ⟨by decide, by decide, by decide, by decide, by decide⟩
example : DimTy .u8 ∧ DimTy .u32 := ⟨Or.inl rfl, Or.inr (Or.inr (Or.inl rfl))⟩
example : InSpace gEx 200 ∧ InSpace gEx 0 := by unfold InSpace; decide
example : Representable CTy.u8.bits (-100) ∧ Representable CTy.u8.bits 100 ∧ ¬ Representable CTy.u8.bits 200 := by
  decide
-- the upper half of size_type is addressable through operator[] …
example : flatSubscript .u8 .u32 false gEx ⟨.i64, 150⟩ = .ok (gEx.dataStart + 300) := by decide
example : conv .u8 ⟨.i64, 150⟩ = wrap .u8 ((150 : Nat) : Int) := by decide
-- … and through iterator steps that are representable
example : plus .u8 .u32 (iterAt gEx 30) (wrap .i8 100) = .ok (iterAt gEx 130) := by decide
example : minus .u8 .u32 (iterAt gEx 130) (wrap .i8 100) = .ok (iterAt gEx 30) := by decide
example : plus .u8 .u32 (iterAt gEx 130) (wrap .i8 (-100)) = .ok (iterAt gEx 30) := by decide
example : diff .u8 (iterAt gEx 30) (iterAt gEx 130) = .ok (wrap .i8 (-100)) := by decide
example : compare .u8 "lt" (iterAt gEx 130) (iterAt gEx 200) = .ok true := by decide
example : flatBack .u8 .u32 false gEx = .ok (gEx.dataStart + 398) := by decide
example : (flatBegin .u8 .u32 false gEx >>= fun b => incN .u8 .u32 false 3 b) = .ok (iterAt gEx 3) := by decide
-- zero-length blocks: all entries at the data start, still 200 distinct positions
example : flatSubscript .u8 .u32 false ⟨1048576, 5, 200, 0, 0⟩ ⟨.i64, 150⟩ = .ok (1048576 + 5) := by decide
example : (flatEnd .u8 .u32 false ⟨1048576, 5, 200, 0, 0⟩) = .ok ⟨1048576 + 5, 0, 200, 0⟩ := by decide
-- a group of 100 entries: begin() + size() == end()
example : Representable CTy.u8.bits ((100 : Nat) : Int) := by decide
example : (flatBegin .u8 .u32 false ⟨1048576, 5, 100, 2, 0⟩ >>= fun b =>
    plus .u8 .u32 b (groupSize .u8 ⟨1048576, 5, 100, 2, 0⟩)) = flatEnd .u8 .u32 false ⟨1048576, 5, 100, 2, 0⟩ := by
  decide
-- 64-bit dimensions with a product beyond 32 bits
example : plus .u64 .u64 (iterAt ⟨1048576, 16, 5000000000, 70000, 0⟩ 0) (wrap .i64 4000000000)
    = .ok (iterAt ⟨1048576, 16, 5000000000, 70000, 0⟩ 4000000000) := by decide
-- nested: entries of sizes 3, 6, 4 (by address)
example : nestedEntries .u16 .u16 false ⟨1048576, 4, 3, 2, 0⟩
    (fun a => if a = 1048580 then 3 else if a = 1048583 then 6 else 4) 3 = .ok [1048580, 1048583, 1048589] := by
  decide
example : ChainFits 1048580 (fun a => if a = 1048580 then 3 else if a = 1048583 then 6 else 4) 3 := by
  intro i hi
  have : i = 0 ∨ i = 1 ∨ i = 2 ∨ i = 3 := by omega
  rcases this with h | h | h | h <;> subst h <;> decide
example : resize .u16 ⟨4, false⟩ [9, 9, 1, 1, 1, 1, 7, 7, 9] 2 ⟨.u64, 258⟩ = some [9, 9, 1, 1, 1, 1, 2, 1, 9] := by
  decide

end Sbepp.Properties.C12
