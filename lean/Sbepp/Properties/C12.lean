/-
  C12 — group views obey iterator and container laws for every dimension type.

  Obligations are about the model of `Sbepp/Rt/Iter.lean`, every arithmetic
  step of which is a kernel translated from `flat_group_base`,
  `random_access_iterator`, `nested_group_base`, `forward_iterator` of /repo on
  this run.  All theorems hold for each of the 16 typings (`DimTy NT`,
  `DimTy BT`), for every header content and every step, and each of them says
  `= .ok …`: no undefined behaviour and no assertion under the stated
  hypotheses.

  Two hypotheses appear explicitly and are not artefacts of the model:

  * `Group.WF`: the group extent `[addr, addr + hdr + num·bl]` lies in the
    address space `[0, 2^63)` and `InSpace`: an entry address that is computed
    lies there too — a buffer holding those entries cannot exist otherwise;
  * `Representable w k`: a step or a distance is a value of
    `difference_type = make_signed<size_type>`.  C++ cannot even *say*
    `begin() + n` for `n ≥ 2^(w-1)`: the argument is converted before
    `operator+` sees it.  `*_full_false` below are the kernel-checked witnesses
    that the statements are false without it on the current code.
-/
import Sbepp.Lemmas.Iter
import Sbepp.Lemmas.GroupTie

namespace Sbepp.Properties.C12
open Sbepp Sbepp.Rt Sbepp.Extracted Sbepp.CVal
open Sbepp.Spec.Group (entryAddr Representable chain)

/-- the hand-transliterated compositions of `Rt/Iter.lean` still have the source
    text they were transliterated from -/
theorem model_shapes_current : group_shapes_ok = true := by decide

/-- the model iterator that denotes position `p` of group `g` -/
def iterAt (g : Group) (p : Nat) : Iter := ⟨entryAddr g.dataStart g.bl p, g.bl, p, g.end_⟩

/-- the entry address at position `p` is an address -/
def InSpace (g : Group) (p : Nat) : Prop :=
  0 ≤ entryAddr g.dataStart g.bl p ∧ entryAddr g.dataStart g.bl p < (2 ^ 63 : Int)

theorem representable_iff (NT : CTy) (hNT : DimTy NT) (k : Int) :
    Representable NT.bits k ↔ inRange (diffTy NT) k = true := by
  rw [inRange_signed _ hNT.diff_signed, hNT.diff_bits]
  rfl

theorem iterAt_wf (NT BT : CTy) (g : Group) (wf : g.WF NT BT) (p : Nat) (hp : p < 2 ^ NT.bits)
    (hs : InSpace g p) : (iterAt g p).WF NT BT :=
  ⟨wf.bl_lt, hp, by
    show inRange .ptr (entryAddr g.dataStart g.bl p) = true
    exact inRange_ptr _ (by have := hs.1; have := hs.2; omega)⟩

/-- every position of the group is in the address space -/
theorem inSpace_of_le (NT BT : CTy) (g : Group) (wf : g.WF NT BT) (p : Nat) (hp : p ≤ g.num) : InSpace g p := by
  have h1 := wf.fits
  have h2 := wf.addr_nonneg
  have hmul : p * g.bl ≤ g.num * g.bl := Nat.mul_le_mul_right _ hp
  have hmul' : ((p * g.bl : Nat) : Int) ≤ ((g.num * g.bl : Nat) : Int) := by exact_mod_cast hmul
  have h0 : (0 : Int) ≤ ((p * g.bl : Nat) : Int) := Int.natCast_nonneg _
  have hh : (0 : Int) ≤ (g.hdr : Int) := Int.natCast_nonneg _
  unfold InSpace entryAddr Group.dataStart
  simp only [Int.natCast_add, Int.natCast_mul] at *
  omega

/-! ### begin / end -/

theorem begin_spec (NT BT : CTy) (hNT : DimTy NT) (hBT : DimTy BT) (g : Group) (wf : g.WF NT BT) :
    flatBegin NT BT false g = .ok (iterAt g 0) := by
  rw [flatBegin_eval NT BT hNT hBT g wf]
  simp [iterAt, entryAddr]

theorem end_spec (NT BT : CTy) (hNT : DimTy NT) (hBT : DimTy BT) (g : Group) (wf : g.WF NT BT) :
    flatEnd NT BT false g = .ok (iterAt g g.num) := by
  rw [flatEnd_eval NT BT hNT hBT g wf]
  simp [iterAt, entryAddr]

/-! ### it + n, it - n, it[n] -/

/-- **index algebra of `+`**: stepping the iterator at position `p` by a
    representable `k` gives the iterator at position `p + k` (positive and
    negative `k`; block length 0 included). -/
theorem plus_spec (NT BT : CTy) (hNT : DimTy NT) (hBT : DimTy BT) (g : Group) (wf : g.WF NT BT)
    (p q : Nat) (k : Int) (a : CVal) (hconv : conv (diffTy NT) a = wrap (diffTy NT) k)
    (hk : Representable NT.bits k) (hpq : (q : Int) = (p : Int) + k)
    (hp : p < 2 ^ NT.bits) (hq : q < 2 ^ NT.bits) (sp : InSpace g p) (sq : InSpace g q) :
    plus NT BT (iterAt g p) a = .ok (iterAt g q) := by
  have hk' := (representable_iff NT hNT k).mp hk
  have haddr : entryAddr g.dataStart g.bl p + k * (g.bl : Int) = entryAddr g.dataStart g.bl q := by
    simp only [entryAddr, hpq, Int.add_mul]; omega
  have h := plus_eval NT BT hNT hBT (iterAt g p) (iterAt_wf NT BT g wf p hp sp) a k hconv hk'
    (by show -(2 ^ 63 : Int) < k * (g.bl : Int) ∧ k * (g.bl : Int) < (2 ^ 63 : Int)
        have := sp.1; have := sp.2; have := sq.1; have := sq.2; omega)
    (by show inRange .ptr (entryAddr g.dataStart g.bl p + k * (g.bl : Int)) = true
        rw [haddr]; exact inRange_ptr _ (by have := sq.1; have := sq.2; omega))
  rw [h]
  show Outcome.ok (Iter.mk (entryAddr g.dataStart g.bl p + k * (g.bl : Int)) g.bl
    (wrap NT ((p : Int) + k)).bits g.end_) = _
  rw [haddr, ← hpq, wrap_bits_nat NT q hq]
  rfl

theorem minus_spec (NT BT : CTy) (hNT : DimTy NT) (hBT : DimTy BT) (g : Group) (wf : g.WF NT BT)
    (p q : Nat) (k : Int) (a : CVal) (hconv : conv (diffTy NT) a = wrap (diffTy NT) k)
    (hk : Representable NT.bits k) (hnk : Representable NT.bits (-k)) (hpq : (q : Int) = (p : Int) - k)
    (hp : p < 2 ^ NT.bits) (hq : q < 2 ^ NT.bits) (sp : InSpace g p) (sq : InSpace g q) :
    minus NT BT (iterAt g p) a = .ok (iterAt g q) := by
  have hk' := (representable_iff NT hNT k).mp hk
  have hnk' := (representable_iff NT hNT (-k)).mp hnk
  have haddr : entryAddr g.dataStart g.bl p - k * (g.bl : Int) = entryAddr g.dataStart g.bl q := by
    simp only [entryAddr, hpq, Int.sub_mul]; omega
  have h := minus_eval NT BT hNT hBT (iterAt g p) (iterAt_wf NT BT g wf p hp sp) a k hconv hk' hnk'
    (by show -(2 ^ 63 : Int) < k * (g.bl : Int) ∧ k * (g.bl : Int) < (2 ^ 63 : Int)
        have := sp.1; have := sp.2; have := sq.1; have := sq.2; omega)
    (by show inRange .ptr (entryAddr g.dataStart g.bl p - k * (g.bl : Int)) = true
        rw [haddr]; exact inRange_ptr _ (by have := sq.1; have := sq.2; omega))
  rw [h]
  show Outcome.ok (Iter.mk (entryAddr g.dataStart g.bl p - k * (g.bl : Int)) g.bl
    (wrap NT ((p : Int) - k)).bits g.end_) = _
  rw [haddr, ← hpq, wrap_bits_nat NT q hq]
  rfl

/-- an argument that already has type `difference_type` is passed unchanged -/
theorem conv_diff_self (NT : CTy) (hNT : DimTy NT) (k : Int) (hk : Representable NT.bits k) :
    conv (diffTy NT) (wrap (diffTy NT) k) = wrap (diffTy NT) k :=
  conv_wrap _ _ k ((representable_iff NT hNT k).mp hk) hNT.diff_not_bool

/-- `size()` passed where a `difference_type` is expected -/
theorem conv_size (NT : CTy) (hNT : DimTy NT) (g : Group) (hn : g.num < 2 ^ NT.bits) :
    conv (diffTy NT) (groupSize NT g) = wrap (diffTy NT) (g.num : Int) := by
  unfold groupSize
  rw [mk_mod_eq_wrap]
  exact conv_wrap NT _ _ (inRange_nat NT hNT.unsigned g.num hn) hNT.diff_not_bool

/-- **`begin() + size() == end()`** (same position *and* same address), for
    sizes that are values of `difference_type`. -/
theorem begin_plus_size_eq_end_partial (NT BT : CTy) (hNT : DimTy NT) (hBT : DimTy BT) (g : Group)
    (wf : g.WF NT BT) (hrep : Representable NT.bits (g.num : Int)) :
    (flatBegin NT BT false g >>= fun b => plus NT BT b (groupSize NT g)) = flatEnd NT BT false g := by
  rw [begin_spec NT BT hNT hBT g wf, end_spec NT BT hNT hBT g wf, Outcome.bind_ok]
  exact plus_spec NT BT hNT hBT g wf 0 g.num g.num _ (conv_size NT hNT g wf.num_lt) hrep (by simp)
    (Nat.two_pow_pos _) wf.num_lt (inSpace_of_le NT BT g wf 0 (Nat.zero_le _))
    (inSpace_of_le NT BT g wf g.num (Nat.le_refl _))

/-- the same law for every well-formed group, without the representability hypothesis -/
def begin_plus_size_eq_end_full : Prop :=
  ∀ (NT BT : CTy), DimTy NT → DimTy BT → ∀ g : Group, g.WF NT BT →
    (flatBegin NT BT false g >>= fun b => plus NT BT b (groupSize NT g)) = flatEnd NT BT false g

/-- false on the current code: a `uint8` dimension with 200 entries of 1 byte;
    `begin() + size()` has index 200 but points 56 bytes *before* the data -/
theorem begin_plus_size_eq_end_full_false : ¬ begin_plus_size_eq_end_full := by
  intro h
  have := h .u8 .u8 (Or.inl rfl) (Or.inl rfl) ⟨1048576, 2, 200, 1, 0⟩
    ⟨by decide, by decide, by decide, by decide, by decide⟩
  revert this
  decide

/-- **`it[n]` is `*(it + n)`**, and it is the entry at position `p + k` -/
theorem subscript_is_deref_plus (NT BT : CTy) (hNT : DimTy NT) (hBT : DimTy BT) (g : Group) (wf : g.WF NT BT)
    (p q : Nat) (k : Int) (a : CVal) (hconv : conv (diffTy NT) a = wrap (diffTy NT) k)
    (hk : Representable NT.bits k) (hpq : (q : Int) = (p : Int) + k)
    (hp : p < 2 ^ NT.bits) (hq : q < 2 ^ NT.bits) (sp : InSpace g p) (sq : InSpace g q) :
    subscriptIt NT BT (iterAt g p) a = (plus NT BT (iterAt g p) a >>= fun j => .ok (deref j))
    ∧ subscriptIt NT BT (iterAt g p) a = .ok (entryAddr g.dataStart g.bl q) := by
  refine ⟨rfl, ?_⟩
  unfold subscriptIt
  rw [plus_spec NT BT hNT hBT g wf p q k a hconv hk hpq hp hq sp sq]
  rfl

/-- **`(it + n) - n == it`** for positive and negative `n` (`n` and `-n` being
    values of `difference_type`) -/
theorem add_sub_cancel (NT BT : CTy) (hNT : DimTy NT) (hBT : DimTy BT) (g : Group) (wf : g.WF NT BT)
    (p q : Nat) (k : Int) (a : CVal) (hconv : conv (diffTy NT) a = wrap (diffTy NT) k)
    (hk : Representable NT.bits k) (hnk : Representable NT.bits (-k)) (hpq : (q : Int) = (p : Int) + k)
    (hp : p < 2 ^ NT.bits) (hq : q < 2 ^ NT.bits) (sp : InSpace g p) (sq : InSpace g q) :
    (plus NT BT (iterAt g p) a >>= fun j => minus NT BT j a) = .ok (iterAt g p)
    ∧ (minus NT BT (iterAt g q) a >>= fun j => plus NT BT j a) = .ok (iterAt g q) := by
  constructor
  · rw [plus_spec NT BT hNT hBT g wf p q k a hconv hk hpq hp hq sp sq, Outcome.bind_ok]
    exact minus_spec NT BT hNT hBT g wf q p k a hconv hk hnk (by omega) hq hp sq sp
  · rw [minus_spec NT BT hNT hBT g wf q p k a hconv hk hnk (by omega) hq hp sq sp, Outcome.bind_ok]
    exact plus_spec NT BT hNT hBT g wf p q k a hconv hk hpq hp hq sp sq

/-- the same law for every `n` of type `difference_type` -/
def add_sub_cancel_full : Prop :=
  ∀ (NT BT : CTy), DimTy NT → DimTy BT → ∀ g : Group, g.WF NT BT → ∀ (p q : Nat) (k : Int),
    inRange (diffTy NT) k = true → (q : Int) = (p : Int) + k → p ≤ g.num → q ≤ g.num →
    (plus NT BT (iterAt g p) (wrap (diffTy NT) k) >>= fun j => minus NT BT j (wrap (diffTy NT) k))
      = .ok (iterAt g p)

/-- false for the most negative step: `-n` is not a `difference_type` value.
    `uint8` dimension, 200 one-byte entries, `(it₁₂₈ + (-128)) - (-128)` ends 256
    bytes before `it₁₂₈` (for 32/64-bit dimensions the negation is undefined) -/
theorem add_sub_cancel_full_false : ¬ add_sub_cancel_full := by
  intro h
  have := h .u8 .u8 (Or.inl rfl) (Or.inl rfl) ⟨1048576, 2, 200, 1, 0⟩
    ⟨by decide, by decide, by decide, by decide, by decide⟩ 128 0 (-128) (by decide) (by decide)
    (by decide) (by decide)
  revert this
  decide

/-! ### distances and order -/

/-- **`it₂ - it₁` is the index difference** when that is a value of
    `difference_type` -/
theorem distance_matches_index_partial (NT : CTy) (hNT : DimTy NT) (g : Group)
    (p q : Nat) (hp : p < 2 ^ NT.bits) (hq : q < 2 ^ NT.bits)
    (hrep : Representable NT.bits ((q : Int) - (p : Int))) :
    ∃ d, diff NT (iterAt g q) (iterAt g p) = .ok d ∧ d.ty = diffTy NT ∧ d.toInt = (q : Int) - (p : Int) := by
  refine ⟨_, diff_eval NT hNT (iterAt g q) (iterAt g p) hq hp, rfl, ?_⟩
  exact toInt_wrap _ _ ((representable_iff NT hNT _).mp hrep)

def distance_matches_index_full : Prop :=
  ∀ (NT : CTy), DimTy NT → ∀ (g : Group) (p q : Nat), p < 2 ^ NT.bits → q < 2 ^ NT.bits →
    ∃ d, diff NT (iterAt g q) (iterAt g p) = .ok d ∧ d.toInt = (q : Int) - (p : Int)

/-- false on the current code: `end() - begin()` of a `uint8` group with 200
    entries is -56 -/
theorem distance_matches_index_full_false : ¬ distance_matches_index_full := by
  intro h
  obtain ⟨d, h1, h2⟩ := h .u8 (Or.inl rfl) ⟨1048576, 2, 200, 1, 0⟩ 0 200 (by decide) (by decide)
  have h3 : diff .u8 (iterAt ⟨1048576, 2, 200, 1, 0⟩ 200) (iterAt ⟨1048576, 2, 200, 1, 0⟩ 0)
      = .ok ⟨.i8, 200⟩ := by decide
  rw [h3] at h1
  injection h1 with h1
  subst h1
  revert h2
  decide

/-- the six comparison operators: protocol name and C++ operator -/
def cmpOps : List (String × BinOp) :=
  [("lt", BinOp.lt), ("le", .le), ("gt", .gt), ("ge", .ge), ("eq", .eq), ("ne", .ne)]

/-- **iterators are ordered like their positions**: all six operators, every
    pair of positions of the index type (full strength); the second conjunct
    says that the value is the specification's comparison of the positions -/
theorem order_matches_index (NT : CTy) (hNT : DimTy NT) (g : Group) (op : String) (bop : BinOp)
    (hop : (op, bop) ∈ cmpOps) (p q : Nat) (hp : p < 2 ^ NT.bits) (hq : q < 2 ^ NT.bits) :
    compare NT op (iterAt g p) (iterAt g q) = .ok (cmp bop (p : Int) (q : Int))
    ∧ Spec.Group.cmpInt op (p : Int) (q : Int) = some (cmp bop (p : Int) (q : Int)) := by
  refine ⟨compare_eval NT hNT op bop hop _ _ hp hq, ?_⟩
  simp only [cmpOps, List.mem_cons, Prod.mk.injEq, List.not_mem_nil, or_false] at hop
  rcases hop with ⟨h1, h2⟩ | ⟨h1, h2⟩ | ⟨h1, h2⟩ | ⟨h1, h2⟩ | ⟨h1, h2⟩ | ⟨h1, h2⟩ <;> subst h1 <;> subst h2 <;> rfl

/-! ### entry addresses -/

/-- **`g[i]`** starts at `dataStart + i·blockLength` for every `i < size()`
    (every value of `size_type`, the upper half included) -/
theorem entry_address_subscript (NT BT : CTy) (hNT : DimTy NT) (hBT : DimTy BT) (g : Group) (wf : g.WF NT BT)
    (i : Nat) (hi : i < g.num) (a : CVal) (hconv : conv NT a = wrap NT (i : Int)) :
    flatSubscript NT BT false g a = .ok (entryAddr g.dataStart g.bl i) := by
  have hs := inSpace_of_le NT BT g wf i (by omega)
  have h := flatSubscript_eval NT BT hNT hBT g wf a i hconv (by have := wf.num_lt; omega)
    (by have := hs.2; simpa [entryAddr] using this)
  rw [h]; simp [entryAddr]

theorem entry_address_front (NT BT : CTy) (hNT : DimTy NT) (hBT : DimTy BT) (g : Group) (wf : g.WF NT BT) :
    flatFront NT BT false g = .ok (entryAddr g.dataStart g.bl 0) := by
  rw [flatFront_eval NT BT hNT hBT g wf]; simp [entryAddr]

theorem entry_address_back (NT BT : CTy) (hNT : DimTy NT) (hBT : DimTy BT) (g : Group) (wf : g.WF NT BT)
    (hne : 0 < g.num) :
    flatBack NT BT false g = .ok (entryAddr g.dataStart g.bl ((g.num - 1 : Nat) : Int)) := by
  rw [flatBack_eval NT BT hNT hBT g wf hne]; simp [entryAddr]

/-- **iteration**: `k` increments from `begin()` reach position `k` (for every
    `k ≤ size()`; the last one is `end()`) -/
theorem entry_address_iteration (NT BT : CTy) (hNT : DimTy NT) (hBT : DimTy BT) (g : Group) (wf : g.WF NT BT)
    (k : Nat) (hk : k ≤ g.num) :
    (flatBegin NT BT false g >>= fun b => incN NT BT false k b) = .ok (iterAt g k) := by
  rw [begin_spec NT BT hNT hBT g wf, Outcome.bind_ok]
  have hs0 := inSpace_of_le NT BT g wf 0 (Nat.zero_le _)
  have hsk := inSpace_of_le NT BT g wf k hk
  have h := incN_eval NT BT hNT hBT k (iterAt g 0) (iterAt_wf NT BT g wf 0 (Nat.two_pow_pos _) hs0)
    (by show 0 + k < _; have := wf.num_lt; omega) hs0.1
    (by show entryAddr g.dataStart g.bl ((0 : Nat) : Int) + ((k * g.bl : Nat) : Int) < _
        have := hsk.2; simp only [entryAddr, Int.natCast_mul] at *; omega)
  rw [h]
  simp [iterAt, entryAddr]

/-! ### nested groups -/

/-- **forward iteration**: entry `i` starts where entry `i-1` ends -/
theorem forward_entry_chain (NT BT : CTy) (hNT : DimTy NT) (hBT : DimTy BT) (g : Group) (wf : g.WF NT BT)
    (esize : Int → Nat) (hfit : ChainFits g.dataStart esize g.num) (fuel : Nat) (hfuel : g.num ≤ fuel) :
    nestedEntries NT BT false g esize fuel = .ok (Spec.Group.starts g.dataStart esize g.num) :=
  nestedEntries_eval NT BT hNT hBT g wf esize hfit fuel hfuel

theorem nested_size_bytes_spec (NT BT : CTy) (hNT : DimTy NT) (hBT : DimTy BT) (g : Group) (wf : g.WF NT BT)
    (esize : Int → Nat) (hfit : ChainFits g.dataStart esize g.num) (fuel : Nat) (hfuel : g.num ≤ fuel) :
    nestedSizeBytes NT BT false g esize fuel = .ok (Spec.Group.nestedSize g.addr g.hdr esize g.num).toNat :=
  nestedSizeBytes_eval NT BT hNT hBT g wf esize hfit fuel hfuel

/-! ### resize / clear -/

/-- **`resize` writes the `numInGroup` field and nothing else**, and afterwards
    the field holds `count` in the header's byte order -/
theorem resize_writes_only_numInGroup (NT : CTy) (lay : DimLayout) (buf : List Nat) (hoff : Nat) (count : CVal)
    (hin : hoff + lay.numOff + NT.bits / 8 ≤ buf.length) :
    ∃ buf', resize NT lay buf hoff count = some buf'
      ∧ Spec.Group.FrameOutside buf buf' (hoff + lay.numOff) (NT.bits / 8)
      ∧ Spec.Group.slice buf' (hoff + lay.numOff) (NT.bits / 8)
          = Spec.Group.putBytes lay.bigEndian (NT.bits / 8) (conv NT count).bits := by
  have hl := valueBytes_length lay.bigEndian (NT.bits / 8) (conv NT count).bits
  obtain ⟨b, h1, h2, h3⟩ := writeAt_frame buf (hoff + lay.numOff)
    (valueBytes lay.bigEndian (NT.bits / 8) (conv NT count).bits) (by rw [hl]; exact hin)
  rw [hl] at h2 h3
  exact ⟨b, h1, h2, by rw [h3, valueBytes_eq_putBytes]⟩

theorem clear_writes_only_numInGroup (NT : CTy) (hNT : DimTy NT) (lay : DimLayout) (buf : List Nat) (hoff : Nat)
    (hin : hoff + lay.numOff + NT.bits / 8 ≤ buf.length) :
    ∃ buf', clear NT lay buf hoff = some buf'
      ∧ Spec.Group.FrameOutside buf buf' (hoff + lay.numOff) (NT.bits / 8)
      ∧ Spec.Group.slice buf' (hoff + lay.numOff) (NT.bits / 8)
          = Spec.Group.putBytes lay.bigEndian (NT.bits / 8) 0 := by
  obtain ⟨b, h1, h2, h3⟩ := resize_writes_only_numInGroup NT lay buf hoff ⟨.i32, 0⟩ hin
  refine ⟨b, h1, h2, ?_⟩
  rw [h3]
  have : conv NT ⟨.i32, 0⟩ = wrap NT 0 := by
    have : (⟨.i32, 0⟩ : CVal) = wrap .i32 0 := rfl
    rw [this]; exact conv_wrap .i32 NT 0 (by decide) hNT.not_bool
  rw [this, wrap_zero_bits]

/-! ### non-vacuity: the hypotheses are met by concrete non-trivial instances
    and the statements compute -/

/-- a `uint8`/`uint32` dimension, 200 entries of 2 bytes, 5-byte header at address 2^20 -/
def gEx : Group := ⟨1048576, 5, 200, 2, 0⟩

example : gEx.WF .u8 .u32 := ⟨by decide, by decide, by decide, by decide, by decide⟩
example : DimTy .u8 ∧ DimTy .u32 := ⟨Or.inl rfl, Or.inr (Or.inr (Or.inl rfl))⟩
example : InSpace gEx 200 ∧ InSpace gEx 0 := by unfold InSpace; decide
example : Representable CTy.u8.bits (-100) ∧ Representable CTy.u8.bits 100 ∧ ¬ Representable CTy.u8.bits 200 := by
  decide
-- the upper half of size_type is addressable through operator[] …
example : flatSubscript .u8 .u32 false gEx ⟨.i64, 150⟩ = .ok (gEx.dataStart + 300) := by decide
example : conv .u8 ⟨.i64, 150⟩ = wrap .u8 ((150 : Nat) : Int) := by decide
-- … and through iterator steps that are representable
example : plus .u8 .u32 (iterAt gEx 30) (wrap .i8 100) = .ok (iterAt gEx 130) := by decide
example : minus .u8 .u32 (iterAt gEx 130) (wrap .i8 100) = .ok (iterAt gEx 30) := by decide
example : plus .u8 .u32 (iterAt gEx 130) (wrap .i8 (-100)) = .ok (iterAt gEx 30) := by decide
example : diff .u8 (iterAt gEx 30) (iterAt gEx 130) = .ok (wrap .i8 (-100)) := by decide
example : compare .u8 "lt" (iterAt gEx 130) (iterAt gEx 200) = .ok true := by decide
example : flatBack .u8 .u32 false gEx = .ok (gEx.dataStart + 398) := by decide
example : (flatBegin .u8 .u32 false gEx >>= fun b => incN .u8 .u32 false 3 b) = .ok (iterAt gEx 3) := by decide
-- zero-length blocks: all entries at the data start, still 200 distinct positions
example : flatSubscript .u8 .u32 false ⟨1048576, 5, 200, 0, 0⟩ ⟨.i64, 150⟩ = .ok (1048576 + 5) := by decide
example : (flatEnd .u8 .u32 false ⟨1048576, 5, 200, 0, 0⟩) = .ok ⟨1048576 + 5, 0, 200, 0⟩ := by decide
-- a group of 100 entries: begin() + size() == end()
example : Representable CTy.u8.bits ((100 : Nat) : Int) := by decide
example : (flatBegin .u8 .u32 false ⟨1048576, 5, 100, 2, 0⟩ >>= fun b =>
    plus .u8 .u32 b (groupSize .u8 ⟨1048576, 5, 100, 2, 0⟩)) = flatEnd .u8 .u32 false ⟨1048576, 5, 100, 2, 0⟩ := by
  decide
-- 64-bit dimensions with a product beyond 32 bits
example : plus .u64 .u64 (iterAt ⟨1048576, 16, 5000000000, 70000, 0⟩ 0) (wrap .i64 4000000000)
    = .ok (iterAt ⟨1048576, 16, 5000000000, 70000, 0⟩ 4000000000) := by decide
-- nested: entries of sizes 3, 6, 4 (by address)
example : nestedEntries .u16 .u16 false ⟨1048576, 4, 3, 2, 0⟩
    (fun a => if a = 1048580 then 3 else if a = 1048583 then 6 else 4) 3 = .ok [1048580, 1048583, 1048589] := by
  decide
example : ChainFits 1048580 (fun a => if a = 1048580 then 3 else if a = 1048583 then 6 else 4) 3 := by
  intro i hi
  have : i = 0 ∨ i = 1 ∨ i = 2 ∨ i = 3 := by omega
  rcases this with h | h | h | h <;> subst h <;> decide
example : resize .u16 ⟨4, false⟩ [9, 9, 1, 1, 1, 1, 7, 7, 9] 2 ⟨.u64, 258⟩ = some [9, 9, 1, 1, 1, 1, 2, 1, 9] := by
  decide

/-! ### laws of the one-line members whose hand definitions were added with the translator tie
    (`size`, `empty`, the `!empty()` precondition of `front` / `back`, `front` of a nested group) -/

/-- **`size()`** is the header's `numInGroup` -/
theorem size_spec (NT : CTy) (g : Group) (hn : g.num < 2 ^ NT.bits) :
    flatSize NT false g = .ok ⟨NT, g.num⟩ ∧ nestedSize NT false g = .ok ⟨NT, g.num⟩ := by
  simp only [flatSize, nestedSize, Sbepp.Lemmas.GroupTie.headerCheck_false,
    Sbepp.Lemmas.GroupTie.nestedHeaderCheck_false, Outcome.bind_ok, Outcome.pure_eq, groupSize, Nat.mod_eq_of_lt hn,
    and_self]

/-- **`empty()`** iff `size() == 0` -/
theorem empty_spec (NT : CTy) (g : Group) (hn : g.num < 2 ^ NT.bits) :
    flatEmpty NT false g = .ok (g.num == 0) ∧ nestedEmpty NT false g = .ok (g.num == 0) := by
  have h := size_spec NT g hn
  simp only [flatEmpty, nestedEmpty, h.1, h.2, Outcome.bind_ok, Outcome.pure_eq, and_self]

/-- **`front()` / `back()` assert `!empty()`** in a checked build (the header being inside the view) -/
theorem front_back_require_nonempty (NT BT : CTy) (g : Group) (hh : headerCheck g true = .ok ())
    (h0 : g.num % 2 ^ NT.bits = 0) :
    flatFront NT BT true g = .assertFailed 0 ∧ flatBack NT BT true g = .assertFailed 0 := by
  simp only [flatFront, flatBack, hh, Outcome.bind_ok, assertNotEmpty, groupSize, h0, Bool.true_and, beq_self_eq_true,
    if_true, Outcome.bind_assert, and_self]

/-- **`front()` of a nested group** is the entry behind the header -/
theorem nested_front_spec (NT BT : CTy) (hNT : DimTy NT) (hBT : DimTy BT) (g : Group) (wf : g.WF NT BT) :
    nestedFront NT BT false g = .ok g.dataStart := by
  simp only [nestedFront, nestedHeader_unchecked, assertNotEmpty, Bool.false_and, Bool.false_eq_true, if_false,
    Outcome.bind_ok, nestedBegin_eval NT BT hNT hBT g wf, Outcome.pure_eq]

example : flatEmpty .u8 false ⟨1048576, 5, 0, 2, 0⟩ = .ok true ∧ flatEmpty .u8 false gEx = .ok false := by decide
example : flatFront .u8 .u32 true ⟨1048576, 5, 0, 2, 1048600⟩ = .assertFailed 0 := by decide
example : headerCheck ⟨1048576, 5, 0, 2, 1048600⟩ true = .ok () := by decide

/-! ### the same statements about the member functions as translated from the current `sbepp.hpp`

  `Sbepp.Extracted.Group.{Flat, Nested, Fwd, Ra}.*` are regenerated from the C++ text of
  `flat_group_base`, `nested_group_base`, `forward_iterator` and `random_access_iterator`
  (constructor, `operator*`) on every check run (`extract/methods_group.py`);
  `Lemmas/GroupTie.lean` proves each translated member function equal to the hand model
  (`Flat.begin_tie` …).  So the theorems above are theorems about what the code says now; a
  semantic edit of a member function breaks its tie and with it this module.  The remaining
  operators of `random_access_iterator` are the extracted kernels the hand model already runs. -/

section Extracted
open Sbepp.Lemmas.GroupTie
open Sbepp.Extracted.Group
open Sbepp.Rt.GroupDsl (rangeFor)

theorem begin_spec_extracted (NT BT : CTy) (hNT : DimTy NT) (hBT : DimTy BT) (g : Group) (wf : g.WF NT BT) :
    Flat.begin NT BT false g = .ok (iterAt g 0) := by
  rw [Flat.begin_tie]; exact begin_spec NT BT hNT hBT g wf

theorem end_spec_extracted (NT BT : CTy) (hNT : DimTy NT) (hBT : DimTy BT) (g : Group) (wf : g.WF NT BT) :
    Flat.end_ NT BT false g = .ok (iterAt g g.num) := by
  rw [Flat.end_tie]; exact end_spec NT BT hNT hBT g wf

/-- `begin() + size() == end()` with `begin`, `size`, `end` as translated -/
theorem begin_plus_size_eq_end_partial_extracted (NT BT : CTy) (hNT : DimTy NT) (hBT : DimTy BT) (g : Group)
    (wf : g.WF NT BT) (hrep : Representable NT.bits (g.num : Int)) :
    (Flat.size NT BT false g >>= fun n => Flat.begin NT BT false g >>= fun b => plus NT BT b n)
      = Flat.end_ NT BT false g := by
  rw [Flat.size_tie, Flat.end_tie]
  simp only [Flat.begin_tie, flatSize, headerCheck_false, Outcome.bind_ok, Outcome.pure_eq]
  exact begin_plus_size_eq_end_partial NT BT hNT hBT g wf hrep

theorem entry_address_subscript_extracted (NT BT : CTy) (hNT : DimTy NT) (hBT : DimTy BT) (g : Group)
    (wf : g.WF NT BT) (i : Nat) (hi : i < g.num) (a : CVal) (hconv : conv NT a = wrap NT (i : Int)) :
    Flat.subscript NT BT false g a = .ok (entryAddr g.dataStart g.bl i) := by
  rw [Flat.subscript_tie]; exact entry_address_subscript NT BT hNT hBT g wf i hi a hconv

theorem entry_address_front_extracted (NT BT : CTy) (hNT : DimTy NT) (hBT : DimTy BT) (g : Group) (wf : g.WF NT BT) :
    Flat.front NT BT false g = .ok (entryAddr g.dataStart g.bl 0) := by
  rw [Flat.front_tie]; exact entry_address_front NT BT hNT hBT g wf

theorem entry_address_back_extracted (NT BT : CTy) (hNT : DimTy NT) (hBT : DimTy BT) (g : Group) (wf : g.WF NT BT)
    (hne : 0 < g.num) :
    Flat.back NT BT false g = .ok (entryAddr g.dataStart g.bl ((g.num - 1 : Nat) : Int)) := by
  rw [Flat.back_tie]; exact entry_address_back NT BT hNT hBT g wf hne

theorem entry_address_iteration_extracted (NT BT : CTy) (hNT : DimTy NT) (hBT : DimTy BT) (g : Group)
    (wf : g.WF NT BT) (k : Nat) (hk : k ≤ g.num) :
    (Flat.begin NT BT false g >>= fun b => incN NT BT false k b) = .ok (iterAt g k) := by
  rw [Flat.begin_tie]; exact entry_address_iteration NT BT hNT hBT g wf k hk

/-- the container laws of the one-line members, as translated -/
theorem size_empty_extracted (NT BT : CTy) (g : Group) (hn : g.num < 2 ^ NT.bits) :
    Flat.size NT BT false g = .ok ⟨NT, g.num⟩ ∧ Nested.size NT BT false g = .ok ⟨NT, g.num⟩
    ∧ Flat.empty NT BT false g = .ok (g.num == 0) ∧ Nested.empty NT BT false g = .ok (g.num == 0) := by
  rw [Flat.size_tie, Nested.size_tie, Flat.empty_tie, Nested.empty_tie]
  exact ⟨(size_spec NT g hn).1, (size_spec NT g hn).2, (empty_spec NT g hn).1, (empty_spec NT g hn).2⟩

theorem front_back_require_nonempty_extracted (NT BT : CTy) (g : Group)
    (hh : Flat.get_header NT BT true g = .ok ()) (h0 : g.num % 2 ^ NT.bits = 0) :
    Flat.front NT BT true g = .assertFailed 0 ∧ Flat.back NT BT true g = .assertFailed 0 := by
  rw [Flat.get_header_tie] at hh
  rw [Flat.front_tie, Flat.back_tie]
  exact front_back_require_nonempty NT BT g hh h0

theorem nested_front_extracted (NT BT : CTy) (hNT : DimTy NT) (hBT : DimTy BT) (g : Group) (wf : g.WF NT BT) :
    Nested.front NT BT false g = .ok g.dataStart := by
  rw [Nested.front_tie]; exact nested_front_spec NT BT hNT hBT g wf

/-- forward iteration with the translated `begin` / `end` / `!=` / `*` / `++`: the range-`for` loop that
    collects the entries visits exactly the specification's entry starts -/
theorem forward_entry_chain_extracted (NT BT : CTy) (hNT : DimTy NT) (hBT : DimTy BT) (g : Group) (wf : g.WF NT BT)
    (esize : Int → Nat) (hfit : ChainFits g.dataStart esize g.num) (fuel : Nat) (hfuel : g.num ≤ fuel) :
    (do let b ← Nested.begin NT BT false g
        let e ← Nested.end_ NT BT false g
        rangeFor (Fwd.ne NT) (Fwd.deref false) (Fwd.inc NT BT false esize) e
          (fun entry (acc : List Int) => pure (acc ++ [entry])) fuel b [])
      = .ok (Spec.Group.starts g.dataStart esize g.num) := by
  have hinc : (Fwd.inc NT BT false esize) = (fun it => fwdInc NT false it (esize it.ptr)) := by
    funext it; exact Fwd.inc_tie NT BT false esize it
  have hne : Fwd.ne NT = fwdNe NT := by funext a b; exact Fwd.ne_tie NT a b
  have hd : Fwd.deref false = fwdDeref := by funext it; exact Fwd.deref_tie false it
  have hfold : ∀ (l acc : List Int),
      l.foldlM (fun (acc : List Int) (a : Int) => (Outcome.ok (acc ++ [a]) : Outcome (List Int))) acc = .ok (acc ++ l) := by
    intro l
    induction l with
    | nil => intro acc; simp
    | cons x xs ih => intro acc; simp only [List.foldlM_cons, Outcome.bind_ok, ih]; simp
  have h := forward_entry_chain NT BT hNT hBT g wf esize hfit fuel hfuel
  simp only [nestedEntries] at h
  rw [Nested.begin_tie, Nested.end_tie, hinc, hne, hd]
  cases hb : nestedBegin NT BT false g with
  | ub => rw [hb] at h; exact h
  | assertFailed i => rw [hb] at h; exact h
  | ok b =>
    rw [hb] at h
    cases he : nestedEnd NT BT false g with
    | ub => rw [he] at h; exact h
    | assertFailed i => rw [he] at h; exact h
    | ok e =>
      rw [he] at h
      simp only [Outcome.bind_ok] at h ⊢
      have hf := walk_fold_fusion NT false esize e
        (fun (acc : List Int) (a : Int) => (Outcome.ok (acc ++ [a]) : Outcome (List Int)))
        (fun s a => ⟨_, rfl⟩) [] fuel b [] [] rfl
      simp only [Outcome.pure_eq]
      rw [← hf]
      cases hw : fwdWalk NT false esize e fuel b [] with
      | ub => rw [hw] at h; exact h
      | assertFailed i => rw [hw] at h; exact h
      | ok r =>
        rw [hw] at h
        simp only [Outcome.bind_ok, Outcome.pure_eq, Outcome.ok.injEq] at h ⊢
        rw [hfold, h]; simp

theorem nested_size_bytes_spec_extracted (NT BT : CTy) (hNT : DimTy NT) (hBT : DimTy BT) (g : Group)
    (wf : g.WF NT BT) (esize : Int → Nat) (hfit : ChainFits g.dataStart esize g.num) (fuel : Nat)
    (hfuel : g.num ≤ fuel) :
    Nested.size_bytes NT BT false g esize fuel = .ok (Spec.Group.nestedSize g.addr g.hdr esize g.num).toNat := by
  rw [Nested.size_bytes_tie]; exact nested_size_bytes_spec NT BT hNT hBT g wf esize hfit fuel hfuel

/-- **`resize` / `clear` as translated write the `numInGroup` field and nothing else** (both group classes) -/
theorem resize_writes_only_numInGroup_extracted (NT BT : CTy) (lay : DimLayout) (g : Group) (buf : List Nat)
    (hoff : Nat) (count : CVal) (hin : hoff + lay.numOff + NT.bits / 8 ≤ buf.length) :
    ∃ buf', Flat.resize NT BT false lay g buf hoff count = .ok (some buf')
      ∧ Nested.resize NT BT false lay g buf hoff count = .ok (some buf')
      ∧ Spec.Group.FrameOutside buf buf' (hoff + lay.numOff) (NT.bits / 8)
      ∧ Spec.Group.slice buf' (hoff + lay.numOff) (NT.bits / 8)
          = Spec.Group.putBytes lay.bigEndian (NT.bits / 8) (conv NT count).bits := by
  obtain ⟨b, h1, h2, h3⟩ := resize_writes_only_numInGroup NT lay buf hoff count hin
  refine ⟨b, ?_, ?_, h2, h3⟩
  · rw [Flat.resize_tie]; simp only [flatResize, headerCheck_false, Outcome.bind_ok, Outcome.pure_eq, h1]
  · rw [Nested.resize_tie]; simp only [nestedResize, nestedHeaderCheck_false, Outcome.bind_ok, Outcome.pure_eq, h1]

theorem clear_writes_only_numInGroup_extracted (NT BT : CTy) (hNT : DimTy NT) (lay : DimLayout) (g : Group)
    (buf : List Nat) (hoff : Nat) (hin : hoff + lay.numOff + NT.bits / 8 ≤ buf.length) :
    ∃ buf', Flat.clear NT BT false lay g buf hoff = .ok (some buf')
      ∧ Nested.clear NT BT false lay g buf hoff = .ok (some buf')
      ∧ Spec.Group.FrameOutside buf buf' (hoff + lay.numOff) (NT.bits / 8)
      ∧ Spec.Group.slice buf' (hoff + lay.numOff) (NT.bits / 8)
          = Spec.Group.putBytes lay.bigEndian (NT.bits / 8) 0 := by
  obtain ⟨b, h1, h2, h3⟩ := clear_writes_only_numInGroup NT hNT lay buf hoff hin
  refine ⟨b, ?_, ?_, h2, h3⟩
  · rw [Flat.clear_tie]
    simp only [flatClear, flatResize, headerCheck_false, Outcome.bind_ok, Outcome.pure_eq]
    exact congrArg Outcome.ok h1
  · rw [Nested.clear_tie]
    simp only [nestedClear, nestedResize, nestedHeaderCheck_false, Outcome.bind_ok, Outcome.pure_eq]
    exact congrArg Outcome.ok h1

/-- non-vacuity on the translated member functions -/
example : Flat.subscript .u8 .u32 false gEx ⟨.i64, 150⟩ = .ok (gEx.dataStart + 300) := by decide
example : Flat.back .u8 .u32 false gEx = .ok (gEx.dataStart + 398) := by decide
example : Flat.front .u8 .u32 true ⟨1048576, 5, 0, 2, 1048600⟩ = .assertFailed 0 := by decide
example : Nested.size_bytes .u16 .u16 false ⟨1048576, 4, 3, 2, 0⟩
    (fun a => if a = 1048580 then 3 else if a = 1048583 then 6 else 4) 3 = .ok 17 := by decide
example : Flat.resize .u16 .u16 false ⟨4, false⟩ gEx [9, 9, 1, 1, 1, 1, 7, 7, 9] 2 ⟨.u64, 258⟩
    = .ok (some [9, 9, 1, 1, 1, 1, 2, 1, 9]) := by decide

end Extracted

end Sbepp.Properties.C12
