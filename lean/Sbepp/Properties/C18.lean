/-
  C18 — traits and tags mirror the schema.

  `Gen.Traits.traitRows s` is the model of what `traits_generator.hpp` /
  `tags_generator.hpp` emit for schema `s`: one row per tag, keyed by the tag
  path, listing (trait, canonical value).  `Spec.Traits` says independently
  which entities a schema has (`EntityAt`, a declarative enumeration of the
  schema tree), what the XML states for each (`xmlAttrs`, `ownDeprecated`),
  what SBE derives (`specPresence`, `childLists`, `specKind`; layout =
  `Schema.Resolve`, the validator model whose layouts the wire theorems
  C01–C03 are proved against; default ranges = `Spec.Scalar.sbeDefault`).

  All theorems are for every schema the model accepts (`traitRows s = .ok rows`),
  any nesting depth, any number of members; the real generator is tied to the
  model table by the correspondence check (per-schema generated trait dumper).
-/
import Sbepp.Lemmas.TraitsDerived
import Sbepp.Lemmas.TraitsEntities
import Sbepp.Lemmas.TraitsDistinct
import Sbepp.Lemmas.TraitsLiterals

namespace Sbepp.Properties.C18
open Sbepp Sbepp.Schema Sbepp.Spec.Traits Sbepp.Gen.Traits

/-- **entities_complete**: every entity of the schema (public and inline types, refs,
    enum values, choices, messages, fields, groups at any depth, data) has a row under its tag path -/
theorem entities_complete (s : SchemaDef) (rows : List Row) (h : traitRows s = .ok rows) (p : Path) (ent : Entity)
    (he : EntityAt s p ent) : ∃ kvs, (p, kvs) ∈ rows ∧ rowKVs s p ent = .ok kvs :=
  (rowsOf_ok s _ _ h).2.1 p ent ((entities_iff s p ent).mpr he)

/-- **entities_sound**: every row is the row of an entity of the schema -/
theorem entities_sound (s : SchemaDef) (rows : List Row) (h : traitRows s = .ok rows) (p : Path) (kvs : List KV)
    (hm : (p, kvs) ∈ rows) : ∃ ent, EntityAt s p ent ∧ rowKVs s p ent = .ok kvs := by
  obtain ⟨ent, h1, h2⟩ := (rowsOf_ok s _ _ h).2.2 p kvs hm
  exact ⟨ent, (entities_iff s p ent).mp h1, h2⟩

/-- **traits_copy_attributes**: for every entity that is not a ref, every descriptive
    trait (name, id, description, sinceVersion, semanticType, characterEncoding, package,
    schema id/version, semantic version, byte order, presence/length/primitive type of a
    `<type>`, choice index) is the XML value, and `deprecated` is present exactly when the
    XML has it, with its value -/
theorem traits_copy_attributes (s : SchemaDef) (rows : List Row) (h : traitRows s = .ok rows) (p : Path) (ent : Entity)
    (he : EntityAt s p ent) (hr : isRef ent = false) :
    ∃ kvs, (p, kvs) ∈ rows ∧ (∀ kv ∈ xmlAttrs s ent, kv ∈ kvs) ∧
      (∀ v, ("deprecated", v) ∈ kvs ↔ (ownDeprecated ent).map num = some v) := by
  obtain ⟨kvs, d, hk, hd, rfl⟩ := row_of_entity s rows h p ent ((entities_iff s p ent).mpr he)
  refine ⟨_, hk, ?_, ?_⟩
  · intro kv hkv
    exact List.mem_append.mpr (Or.inl (List.mem_append.mpr (Or.inr (attr_mem s p ent kv hkv hr))))
  · intro v
    simp only [List.mem_append, List.mem_cons, Prod.mk.injEq, List.not_mem_nil, or_false]
    constructor
    · rintro ((h1 | h2) | h3)
      · rcases h1 with ⟨h1, _⟩ | ⟨h1, _⟩ <;> simp at h1
      · exact (attr_deprecated s p ent v hr).mp h2
      · exact absurd h3 (derived_no_deprecated s ent d hd v)
    · intro hv
      exact Or.inl (Or.inr ((attr_deprecated s p ent v hr).mpr hv))

/-- **ref_attributes**: a ref's traits are those of the encoding it refers to (which
    exists and is not a ref), with the ref's own name and sinceVersion; the traits class is
    the referred encoding's -/
theorem ref_attributes (s : SchemaDef) (rows : List Row) (h : traitRows s = .ok rows) (p : Path)
    (n ty : String) (o : Option Nat) (a : Attrs) (ctx : Option (List Elem))
    (he : EntityAt s p (.elem (.ref n ty o a) ctx)) :
    ∃ kvs target, (p, kvs) ∈ rows ∧ lookup s.types ty = some target ∧ (∀ n ty o a, target ≠ .ref n ty o a) ∧
      ("name", txt n) ∈ kvs ∧ ("since_version", num a.since) ∈ kvs ∧
      (∀ kv ∈ refInherited target, kv ∈ kvs) ∧
      (∀ v, ("deprecated", v) ∈ kvs ↔ a.deprecated.map num = some v) ∧
      ("kind", elemKind s.types target) ∈ kvs := by
  obtain ⟨kvs, d, hk, hd, rfl⟩ := row_of_entity s rows h p _ ((entities_iff s p _).mpr he)
  obtain ⟨target, ic, base, hl, ht, _, _, _⟩ := ref_target s.types ctx n ty o a d hd
  have hattr : ∀ kv, kv ∈ elemAttrKVs s.types p (.ref n ty o a) →
      kv ∈ [("kind", kindOf s.types (.elem (.ref n ty o a) ctx)),
            ("predicates", predicateText (kindOf s.types (.elem (.ref n ty o a) ctx)))] ++
          attrKVs s p (.elem (.ref n ty o a) ctx) ++ d :=
    fun kv hkv => List.mem_append.mpr (Or.inl (List.mem_append.mpr (Or.inr hkv)))
  refine ⟨_, target, hk, hl, ht, ?_, ?_, ?_, ?_, ?_⟩
  · exact hattr _ (refAttr_own s.types p n ty o a target hl _ (by simp [xmlEncAttrs]))
  · exact hattr _ (refAttr_own s.types p n ty o a target hl _ (by simp [xmlEncAttrs]))
  · intro kv hkv
    exact hattr _ (refAttr_inherited s.types p n ty o a target hl ht kv hkv)
  · intro v
    have := refAttr_deprecated s.types p n ty o a target hl v
    simp only [List.mem_append, List.mem_cons, Prod.mk.injEq, List.not_mem_nil, or_false, attrKVs]
    constructor
    · rintro ((h1 | h2) | h3)
      · rcases h1 with ⟨h1, _⟩ | ⟨h1, _⟩ <;> simp at h1
      · exact this.mp h2
      · exact absurd h3 (derived_no_deprecated s _ d hd v)
    · intro hv
      exact Or.inl (Or.inr (this.mpr hv))
  · have hkind : kindOf s.types (.elem (.ref n ty o a) ctx) = elemKind s.types target := by
      simp only [kindOf, elemKind, hl]
      cases target with
      | ref n' ty' o' a' => exact absurd rfl (ht n' ty' o' a')
      | _ => rfl
    rw [hkind]
    simp

/-- **ref_deprecated_full**: for every encoding - inline or public, ref or not - the
    `deprecated` trait is present only if the element's own XML has the attribute, and then
    equals it.  (Before the repair of `make_traits(sbe::ref)` a ref without the attribute
    exposed the referred encoding's `deprecated()` through the base class; the generator now
    declares the member deleted, which the model renders as erasing the key.) -/
theorem ref_deprecated_full (types : List Elem) (self : Path) (e : Elem) (v : String)
    (h : ("deprecated", v) ∈ elemAttrKVs types self e) : (elemAttrs e).deprecated.map num = some v := by
  by_cases hr : ∃ n ty o a, e = .ref n ty o a
  · obtain ⟨n, ty, o, a, rfl⟩ := hr
    cases hlk : lookup types ty with
    | some target => exact (refAttr_deprecated types self n ty o a target hlk v).mp h
    | none => simp [elemAttrKVs, hlk] at h
  · have hr' : ∀ n ty o a, e ≠ .ref n ty o a := fun n ty o a he => hr ⟨n, ty, o, a, he⟩
    rw [elemAttrKVs_nonref types self e hr'] at h
    exact (encAttr_deprecated self e v hr').mp h

/-- **traits_deprecated_own**: in the table, for every entity including refs, `deprecated`
    is present exactly when the entity's own XML element has the attribute, with its value -/
theorem traits_deprecated_own (s : SchemaDef) (rows : List Row) (h : traitRows s = .ok rows) (p : Path) (ent : Entity)
    (he : EntityAt s p ent) :
    ∃ kvs, (p, kvs) ∈ rows ∧ ∀ v, ("deprecated", v) ∈ kvs ↔ (ownDeprecated ent).map num = some v := by
  by_cases hr : isRef ent = false
  · obtain ⟨kvs, hk, _, hd⟩ := traits_copy_attributes s rows h p ent he hr
    exact ⟨kvs, hk, hd⟩
  · cases ent with
    | elem e ctx =>
      cases e with
      | ref n ty o a =>
        obtain ⟨kvs, target, hk, _, _, _, _, _, hd, _⟩ := ref_attributes s rows h p n ty o a ctx he
        exact ⟨kvs, hk, by simpa [ownDeprecated, elemAttrs] using hd⟩
      | _ => simp [isRef] at hr
    | _ => simp [isRef] at hr

/-- **traits_derived (presence)**: a field's `presence` trait is the actual presence SBE
    derives (the type's for `<type>` fields, required for sets and non-constant enums, …) -/
theorem traits_derived_presence (s : SchemaDef) (rows : List Row) (h : traitRows s = .ok rows) (p : Path)
    (f : FieldDef) (before : List FieldDef) (he : EntityAt s p (.field f before)) :
    ∃ kvs pres, (p, kvs) ∈ rows ∧ specPresence s.types f = some pres ∧ ("presence", presText pres) ∈ kvs := by
  obtain ⟨kvs, d, hk, hd, rfl⟩ := row_of_entity s rows h p _ ((entities_iff s p _).mpr he)
  simp only [derivedKVs] at hd
  split at hd
  · simp at hd
  · rename_i pres hp
    split at hd
    · simp at hd
    · simp only [Except.ok.injEq] at hd
      subst hd
      exact ⟨_, pres, hk, actualPresence_spec s.types f pres hp, by simp⟩

/-- **traits_derived (block lengths)**: `block_length` of a message / group is the
    explicit `blockLength` when given, else the end of the last non-constant field of the
    validator layout; never below that end; every leaf of the level lies inside the block -/
theorem traits_derived_block_length (s : SchemaDef) (rows : List Row) (h : traitRows s = .ok rows) (p : Path) (ent : Entity)
    (custom : Option Nat) (fields : List FieldDef) (he : EntityAt s p ent)
    (hent : (∃ m, ent = .message m ∧ custom = m.blockLength ∧ fields = m.fields) ∨
            (∃ g, ent = .group g ∧ custom = gBlockLength g ∧ fields = gFields g)) :
    ∃ kvs b computed lv, (p, kvs) ∈ rows ∧ ("block_length", num b) ∈ kvs ∧
      fieldLeaves s.types 0 fields = .ok (computed, lv) ∧
      ((custom = some b ∧ computed ≤ b) ∨ (custom = none ∧ b = computed)) ∧ (∀ l ∈ lv, l.off + l.size ≤ b) := by
  obtain ⟨kvs, d, hk, hd, rfl⟩ := row_of_entity s rows h p _ ((entities_iff s p _).mpr he)
  rcases hent with ⟨m, rfl, rfl, rfl⟩ | ⟨g, rfl, rfl, rfl⟩
  · simp only [derivedKVs] at hd
    split at hd
    · simp at hd
    · rename_i b hb
      simp only [Except.ok.injEq] at hd
      subst hd
      obtain ⟨computed, lv, h1, h2, h3, _⟩ := levelBlockLength_spec s.types _ _ b hb
      exact ⟨_, b, computed, lv, hk, by simp, h1, h2, h3⟩
  · simp only [derivedKVs] at hd
    split at hd
    · simp at hd
    · rename_i b hb
      split at hd
      · simp only [Except.ok.injEq] at hd
        subst hd
        obtain ⟨computed, lv, h1, h2, h3, _⟩ := levelBlockLength_spec s.types _ _ b hb
        exact ⟨_, b, computed, lv, hk, by simp, h1, h2, h3⟩
      · simp at hd

/-- **traits_derived (composite sizes)**: `size_bytes` of a composite is the validator
    model's size of the encoding, and every leaf of the composite lies inside it -/
theorem traits_derived_composite_size (s : SchemaDef) (rows : List Row) (h : traitRows s = .ok rows) (p : Path)
    (n : String) (o : Option Nat) (elems : List Elem) (a : Attrs) (ctx : Option (List Elem))
    (he : EntityAt s p (.elem (.composite n o elems a) ctx)) :
    ∃ kvs sz lv, (p, kvs) ∈ rows ∧ ("size_bytes", num sz) ∈ kvs ∧
      elemLeaves s.types FUEL [] 0 (.composite n o elems a) = .ok (sz, lv) ∧ Within lv 0 sz ∧ SortedN lv := by
  obtain ⟨kvs, d, hk, hd, rfl⟩ := row_of_entity s rows h p _ ((entities_iff s p _).mpr he)
  obtain ⟨ic, _, hd'⟩ := elemDerived_nonref s.types ctx _ d (by intro _ _ _ _ h; cases h) hd
  simp only [encDerivedKVs] at hd'
  split at hd'
  · simp at hd'
  · rename_i sz hsz
    simp only [Except.ok.injEq] at hd'
    subst hd'
    obtain ⟨lv, hlv⟩ := encSize_eq s.types _ sz hsz
    have := (elem_comp_ok s.types FUEL).1 _ _ _ _ _ hlv
    exact ⟨_, sz, lv, hk, by simp, hlv, by simpa using this.1, this.2⟩

/-- **traits_derived (element offsets)**: the `offset` trait of a non-constant composite
    element (inline type/enum/set/composite or ref) is its validator offset: in every
    layout the validator model computes for the enclosing element list, the element's own
    leaves are placed at `base + offset` -/
theorem traits_derived_element_offset (s : SchemaDef) (rows : List Row) (h : traitRows s = .ok rows) (p : Path)
    (e : Elem) (before : List Elem) (he : EntityAt s p (.elem e (some before)))
    (hc : isConstElem s.types e = false) :
    ∃ kvs off, (p, kvs) ∈ rows ∧ ("offset", num off) ∈ kvs ∧
      ∀ fuel path base after total lv,
        compLeaves s.types fuel path base 0 (before ++ e :: after) = .ok (total, lv) →
        ∃ fuel' sz lvb lve lva,
          elemLeaves s.types fuel' (path ++ [e.name]) (base + off) e = .ok (sz, lve) ∧ lv = lvb ++ lve ++ lva := by
  obtain ⟨kvs, d, hk, hd, rfl⟩ := row_of_entity s rows h p _ ((entities_iff s p _).mpr he)
  obtain ⟨cur, off, hrun, hplace, hoff⟩ := elem_offset_trait s.types before e d hd hc
  refine ⟨_, off, hk, List.mem_append.mpr (Or.inr hoff), ?_⟩
  intro fuel path base after total lv hl
  exact comp_offset_layout s.types before fuel path base 0 e after total lv cur off hl hc hrun hplace

/-- **traits_derived (field offsets)**: the `offset` trait of a non-constant field is its
    validator offset: in the layout of the enclosing level the field's own leaves are
    placed at that offset -/
theorem traits_derived_field_offset (s : SchemaDef) (rows : List Row) (h : traitRows s = .ok rows) (p : Path)
    (f : FieldDef) (before : List FieldDef) (he : EntityAt s p (.field f before))
    (hc : specPresence s.types f ≠ some .constant) :
    ∃ kvs off, (p, kvs) ∈ rows ∧ ("offset", num off) ∈ kvs ∧
      ∀ after total lv, fieldLeaves s.types 0 (before ++ f :: after) = .ok (total, lv) →
        ∃ sz lvb lve lva, FieldLeavesAt s.types f off sz lve ∧ lv = lvb ++ lve ++ lva := by
  obtain ⟨kvs, d, hk, hd, rfl⟩ := row_of_entity s rows h p _ ((entities_iff s p _).mpr he)
  simp only [derivedKVs] at hd
  split at hd
  · simp at hd
  · rename_i pres hp
    have hpc : (pres == Presence.constant) = false := by
      have := actualPresence_spec s.types f pres hp
      rw [this] at hc
      cases pres <;> simp at hc ⊢
    split at hd
    · simp at hd
    · rename_i off hoff
      simp only [Except.ok.injEq] at hd
      subst hd
      simp only [fieldOffset, hp, hpc, Bool.false_eq_true, if_false] at hoff
      split at hoff
      · simp at hoff
      · rename_i cur hcur
        refine ⟨_, off, hk, by simp, ?_⟩
        intro after total lv hl
        exact field_offset_layout s.types before 0 f after total lv pres cur off hl hp hpc hcur hoff

open Sbepp.Spec.Scalar in
/-- **traits_derived (default ranges)**: a `<type>` of length 1 that is not constant and
    gives no explicit `minValue` / `maxValue` (/ `nullValue` when optional) exposes the
    SBE default of its primitive type -/
theorem traits_derived_default_range (s : SchemaDef) (rows : List Row) (h : traitRows s = .ok rows) (p : Path)
    (t : TypeDef) (ctx : Option (List Elem)) (pr : Prim) (he : EntityAt s p (.elem (.type t) ctx))
    (hl : t.length = 1) (hpc : t.presence ≠ .constant) (hp : Prim.ofName? t.prim = some pr) :
    ∃ kvs, (p, kvs) ∈ rows ∧
      (t.minValue = none → ("min_value", num (sbeDefault pr .min)) ∈ kvs) ∧
      (t.maxValue = none → ("max_value", num (sbeDefault pr .max)) ∈ kvs) ∧
      (t.presence = .optional → t.nullValue = none → ("null_value", num (sbeDefault pr .null)) ∈ kvs) := by
  obtain ⟨kvs, d, hk, hd, rfl⟩ := row_of_entity s rows h p _ ((entities_iff s p _).mpr he)
  obtain ⟨ic, _, hd'⟩ := elemDerived_nonref s.types ctx _ d (by intro _ _ _ _ h; cases h) hd
  simp only [encDerivedKVs] at hd'
  split at hd'
  · simp at hd'
  · rename_i mm hmm
    simp only [Except.ok.injEq] at hd'
    subst hd'
    have hcond : (t.length == 1 && t.presence != .constant) = true := by
      simp only [hl, beq_self_eq_true, Bool.true_and, bne_iff_ne, ne_eq]
      exact hpc
    simp only [minMaxNull, hcond, if_true] at hmm
    split at hmm
    · simp at hmm
    · rename_i mn hmn
      split at hmm
      · simp at hmm
      · rename_i mx hmx
        have hmin : t.minValue = none → mn = num (sbeDefault pr .min) := by
          intro hn
          rw [hn, boundValue_default .min t.prim pr hp] at hmn
          simpa using hmn.symm
        have hmax : t.maxValue = none → mx = num (sbeDefault pr .max) := by
          intro hn
          rw [hn, boundValue_default .max t.prim pr hp] at hmx
          simpa using hmx.symm
        split at hmm
        · split at hmm
          · simp at hmm
          · rename_i nl hnl
            simp only [Except.ok.injEq] at hmm
            subst hmm
            refine ⟨_, hk, ?_, ?_, ?_⟩
            · intro hn; rw [hmin hn]; simp
            · intro hn; rw [hmax hn]; simp
            · intro _ hn
              rw [hn, boundValue_default .null t.prim pr hp] at hnl
              have : nl = num (sbeDefault pr .null) := by simpa using hnl.symm
              rw [this]; simp
        · rename_i hopt
          simp only [Except.ok.injEq] at hmm
          subst hmm
          refine ⟨_, hk, ?_, ?_, ?_⟩
          · intro hn; rw [hmin hn]; simp
          · intro hn; rw [hmax hn]; simp
          · intro ho; simp [ho] at hopt

/-- **leading_zeros_keep_value**: numeric schema texts denote their decimal value however
    many superfluous leading zeros they carry - the text the generator pastes
    (`strip_leading_zeros`) reads back as the same integer, for every text `from_chars` accepts -/
theorem leading_zeros_keep_value (s : String) (v : Int) (h : decInt? s = some v) :
    decInt? (stripLeadingZeros s) = some v := strip_preserves_value s v h

/-- boundary grid of explicit minValue / maxValue / nullValue texts: negative and positive
    leading-zero texts whose digits are all octal (`-010` would be −8 as a C++ literal) and ones
    with 8/9 (`-08` would not compile), for every signed width, type limits, zero -/
def literalGrid : List (Prim × String × Int) :=
  [(.int8, "-010", -10), (.int8, "-0100", -100), (.int8, "-08", -8), (.int8, "-019", -19), (.int8, "0127", 127),
   (.int8, "-00128", -128), (.int8, "-00", 0), (.int8, "000", 0),
   (.int16, "-010", -10), (.int16, "-0100", -100), (.int16, "-0777", -777), (.int16, "-0089", -89),
   (.int16, "-032768", -32768), (.int16, "0000032767", 32767),
   (.int32, "-010", -10), (.int32, "-0777", -777), (.int32, "-0098", -98), (.int32, "-02147483648", -2147483648),
   (.int64, "-010", -10), (.int64, "-0777", -777), (.int64, "-09", -9), (.int64, "-009223372036854775808", -9223372036854775808),
   (.int64, "-09223372036854775807", -9223372036854775807), (.int64, "009223372036854775807", 9223372036854775807),
   (.uint8, "010", 10), (.uint8, "0255", 255), (.uint16, "0000010", 10), (.uint32, "04294967295", 4294967295),
   (.uint64, "0018446744073709551615", 18446744073709551615), (.uint64, "09223372036854775808", 9223372036854775808),
   (.char, "065", 65)]

/-- **explicit_literal_grid**: on the grid the model's value of an explicit range text is the
    two's-complement object representation of its decimal value -/
theorem explicit_literal_grid : ∀ g ∈ literalGrid,
    (literalValue g.1 g.2.1).toOption = some (num (g.2.2 % (2 : Int) ^ g.1.bits).toNat) := by decide +kernel

/-- enumerator values of the grid read as their decimal value -/
theorem enum_value_grid : ∀ g ∈ literalGrid, g.1 ≠ .char →
    (enumValueText g.1.name g.2.1).toOption = some (toString g.2.2) := by decide +kernel

/-- **children_lists_in_schema_order**: every children list of an entity that is not a
    ref (`message_tags`; `field_tags`, `group_tags`, `data_tags` of every message and group;
    `element_tags`, `value_tags`, `choice_tags`) is exactly the list of the children's tags
    in schema order (`type_tags` is documented as unordered and not covered) -/
theorem children_lists_in_schema_order (s : SchemaDef) (rows : List Row) (h : traitRows s = .ok rows) (p : Path)
    (ent : Entity) (he : EntityAt s p ent) (hr : isRef ent = false) :
    ∃ kvs, (p, kvs) ∈ rows ∧
      ∀ kn ∈ childLists s ent, (kn.1, tagList (kn.2.map (fun n => childRoot p ent ++ [n]))) ∈ kvs := by
  obtain ⟨kvs, d, hk, _, rfl⟩ := row_of_entity s rows h p _ ((entities_iff s p _).mpr he)
  refine ⟨_, hk, ?_⟩
  intro kn hkn
  apply List.mem_append.mpr; left
  apply List.mem_append.mpr; right
  cases ent with
  | schema =>
    simp only [childLists, List.mem_singleton] at hkn
    subst hkn
    simp [attrKVs, childRoot, List.map_map, Function.comp_def]
  | elem e ctx =>
    cases e with
    | type t => simp [childLists] at hkn
    | ref n ty o a => simp [isRef] at hr
    | enum n enc o vs a =>
      simp only [childLists, List.mem_singleton] at hkn
      subst hkn
      simp [attrKVs, elemAttrKVs, encAttrKVs, childRoot, List.map_map, Function.comp_def]
    | set n enc o cs a =>
      simp only [childLists, List.mem_singleton] at hkn
      subst hkn
      simp [attrKVs, elemAttrKVs, encAttrKVs, childRoot, List.map_map, Function.comp_def]
    | composite n o elems a =>
      simp only [childLists, List.mem_singleton] at hkn
      subst hkn
      simp [attrKVs, elemAttrKVs, encAttrKVs, childRoot, List.map_map, Function.comp_def]
  | value enc v => simp [childLists] at hkn
  | choice c => simp [childLists] at hkn
  | message m =>
    simp only [childLists, List.mem_cons, List.not_mem_nil, or_false] at hkn
    rcases hkn with rfl | rfl | rfl <;>
      simp [attrKVs, levelTagKVs, childRoot, List.map_map, Function.comp_def]
  | group g =>
    simp only [childLists, List.mem_cons, List.not_mem_nil, or_false] at hkn
    rcases hkn with rfl | rfl | rfl <;>
      simp [attrKVs, levelTagKVs, childRoot, List.map_map, Function.comp_def]
  | field f b => simp [childLists] at hkn
  | data dd => simp [childLists] at hkn

/-- **tags_distinct**: if sibling names are unique (type names, element names of every
    composite, value names of every enum, choice names of every set, message names, member
    names of every level — what sbeppc's parser enforces), distinct entities get distinct
    tag paths: no tag path occurs twice in the table -/
theorem tags_distinct (s : SchemaDef) (rows : List Row) (h : traitRows s = .ok rows) (hu : UniqueNames s) :
    (rows.map (·.1)).Nodup := by
  rw [(rowsOf_ok s _ _ h).1]
  exact entities_paths_nodup s hu

/-- **predicates_classify**: every tag belongs to exactly one traits class, the one of its
    entity kind (a ref: the class of the encoding it refers to); exactly the predicate of
    that class (`is_<kind>_tag`, which tests `<kind>_traits<Tag>`) is true for it -/
theorem predicates_classify (s : SchemaDef) (rows : List Row) (h : traitRows s = .ok rows) (p : Path) (ent : Entity)
    (he : EntityAt s p ent) :
    ∃ kvs k, (p, kvs) ∈ rows ∧ specKind s.types ent = some k ∧ k ∈ tagKinds ∧
      ("kind", k) ∈ kvs ∧ ("predicates", predicateText k) ∈ kvs ∧
      (predicateVector k).count true = 1 ∧ ∀ i : Nat, (predicateVector k)[i]? = some true ↔ tagKinds[i]? = some k := by
  obtain ⟨kvs, d, hk, hd, rfl⟩ := row_of_entity s rows h p _ ((entities_iff s p _).mpr he)
  have key : ∃ k, specKind s.types ent = some k ∧ kindOf s.types ent = k ∧ k ∈ tagKinds := by
    cases ent with
    | elem e ctx =>
      cases e with
      | ref n ty o a =>
        obtain ⟨target, _, _, hl, ht, _, _, _⟩ := ref_target s.types ctx n ty o a d hd
        cases target with
        | ref n' ty' o' a' => exact absurd rfl (ht n' ty' o' a')
        | type t => exact ⟨"type", by simp [specKind, hl], by simp [kindOf, elemKind, hl], by simp [tagKinds]⟩
        | enum _ _ _ _ _ => exact ⟨"enum", by simp [specKind, hl], by simp [kindOf, elemKind, hl], by simp [tagKinds]⟩
        | set _ _ _ _ _ => exact ⟨"set", by simp [specKind, hl], by simp [kindOf, elemKind, hl], by simp [tagKinds]⟩
        | composite _ _ _ _ =>
          exact ⟨"composite", by simp [specKind, hl], by simp [kindOf, elemKind, hl], by simp [tagKinds]⟩
      | type t => exact ⟨"type", rfl, rfl, by simp [tagKinds]⟩
      | enum _ _ _ _ _ => exact ⟨"enum", rfl, rfl, by simp [tagKinds]⟩
      | set _ _ _ _ _ => exact ⟨"set", rfl, rfl, by simp [tagKinds]⟩
      | composite _ _ _ _ => exact ⟨"composite", rfl, rfl, by simp [tagKinds]⟩
    | schema => exact ⟨"schema", rfl, rfl, by simp [tagKinds]⟩
    | value _ _ => exact ⟨"enum_value", rfl, rfl, by simp [tagKinds]⟩
    | choice _ => exact ⟨"set_choice", rfl, rfl, by simp [tagKinds]⟩
    | message _ => exact ⟨"message", rfl, rfl, by simp [tagKinds]⟩
    | group _ => exact ⟨"group", rfl, rfl, by simp [tagKinds]⟩
    | field _ _ => exact ⟨"field", rfl, rfl, by simp [tagKinds]⟩
    | data _ => exact ⟨"data", rfl, rfl, by simp [tagKinds]⟩
  obtain ⟨k, hs, hkk, hmem⟩ := key
  refine ⟨_, k, hk, hs, hmem, ?_, ?_, predicateVector_one k hmem, predicateVector_at k hmem⟩
  · rw [hkk]; simp
  · rw [hkk]; simp

/-- **traits_derived**: all derived traits at once - presence = actual presence; offsets =
    validator offsets (composite elements and fields); block lengths; composite sizes;
    default min/max/null = the SBE defaults of the primitive type -/
theorem traits_derived (s : SchemaDef) (rows : List Row) (h : traitRows s = .ok rows) :
    (∀ p f before, EntityAt s p (.field f before) →
      ∃ kvs pres, (p, kvs) ∈ rows ∧ specPresence s.types f = some pres ∧ ("presence", presText pres) ∈ kvs) ∧
    (∀ p e before, EntityAt s p (.elem e (some before)) → isConstElem s.types e = false →
      ∃ kvs off, (p, kvs) ∈ rows ∧ ("offset", num off) ∈ kvs ∧
        ∀ fuel path base after total lv,
          compLeaves s.types fuel path base 0 (before ++ e :: after) = .ok (total, lv) →
          ∃ fuel' sz lvb lve lva,
            elemLeaves s.types fuel' (path ++ [e.name]) (base + off) e = .ok (sz, lve) ∧ lv = lvb ++ lve ++ lva) ∧
    (∀ p f before, EntityAt s p (.field f before) → specPresence s.types f ≠ some .constant →
      ∃ kvs off, (p, kvs) ∈ rows ∧ ("offset", num off) ∈ kvs ∧
        ∀ after total lv, fieldLeaves s.types 0 (before ++ f :: after) = .ok (total, lv) →
          ∃ sz lvb lve lva, FieldLeavesAt s.types f off sz lve ∧ lv = lvb ++ lve ++ lva) ∧
    (∀ p ent custom fields, EntityAt s p ent →
      ((∃ m, ent = .message m ∧ custom = m.blockLength ∧ fields = m.fields) ∨
       (∃ g, ent = .group g ∧ custom = gBlockLength g ∧ fields = gFields g)) →
      ∃ kvs b computed lv, (p, kvs) ∈ rows ∧ ("block_length", num b) ∈ kvs ∧
        fieldLeaves s.types 0 fields = .ok (computed, lv) ∧
        ((custom = some b ∧ computed ≤ b) ∨ (custom = none ∧ b = computed)) ∧ (∀ l ∈ lv, l.off + l.size ≤ b)) ∧
    (∀ p n o elems a ctx, EntityAt s p (.elem (.composite n o elems a) ctx) →
      ∃ kvs sz lv, (p, kvs) ∈ rows ∧ ("size_bytes", num sz) ∈ kvs ∧
        elemLeaves s.types FUEL [] 0 (.composite n o elems a) = .ok (sz, lv) ∧ Within lv 0 sz ∧ SortedN lv) :=
  ⟨fun p f before he => traits_derived_presence s rows h p f before he,
   fun p e before he hc => traits_derived_element_offset s rows h p e before he hc,
   fun p f before he hc => traits_derived_field_offset s rows h p f before he hc,
   fun p ent custom fields he hent => traits_derived_block_length s rows h p ent custom fields he hent,
   fun p n o elems a ctx he => traits_derived_composite_size s rows h p n o elems a ctx he⟩

/-! non-vacuity: a schema with a ref to a deprecated type, an inline enum, a message with a
    group; the table exists, has a row for a nested field, and the hypotheses of
    `tags_distinct` hold -/

def demoT : Elem :=
  .type { name := "T", prim := "uint8", length := 1, presence := .optional, offset := none,
          attrs := { description := "d", since := 1, deprecated := some 2 } }
def demoBL : Elem := .type { name := "blockLength", prim := "uint16", length := 1, presence := .required, offset := none }
def demoR : Elem := .ref "r" "T" (some 4) {}
def demoE : Elem := .enum "e" "uint8" none [{ name := "A", value := "1" }] {}
def demoH : Elem := .composite "H" none [demoBL, demoR, demoE] {}
def demoX : FieldDef := { name := "x", id := 4, type := "uint32", offset := none, presence := .required }
def demoG : GroupDef := .mk "g" 3 "H" none [demoX] [] [] {}
def demoM : MessageDef :=
  { name := "M", id := 1, blockLength := none,
    fields := [{ name := "f", id := 2, type := "T", offset := some 3, presence := .required }],
    groups := [demoG], datas := [] }

def demo : SchemaDef :=
  { package := "vs", id := 7, version := 2, byteOrder := .little, headerType := "H",
    types := [demoT, demoH], messages := [demoM] }

example : (traitTable demo).toOption.map (fun t => t.map (·.1)) =
    some ["schema", "types.T", "types.H", "types.H.blockLength", "types.H.r", "types.H.e", "types.H.e.A",
          "messages.M", "messages.M.f", "messages.M.g", "messages.M.g.x"] := by decide +kernel

example : ((traitTable demo).toOption.bind (fun t => t.lookup "types.H.r")).map
      (fun kvs => (kvs.lookup "kind", kvs.lookup "offset", kvs.lookup "deprecated", kvs.lookup "presence")) =
    some (some "type", some "4", none, some "optional") := by decide +kernel

example : ((traitTable demo).toOption.bind (fun t => t.lookup "messages.M.f")).map
      (fun kvs => (kvs.lookup "presence", kvs.lookup "offset")) = some (some "optional", some "3") := by decide +kernel

example : ((traitTable demo).toOption.bind (fun t => t.lookup "messages.M")).bind (·.lookup "block_length") = some "4" := by
  decide +kernel

/-- the table of `demo` exists (hypothesis `traitRows s = .ok rows` of every theorem) -/
example : (traitRows demo).toOption.isSome = true := by decide +kernel

/-- an entity three levels down: field `x` of group `g` of message `M` -/
example : EntityAt demo ["messages", "M", "g", "x"] (.field demoX []) := by
  refine EntityAt.member demoM _ _ (by simp [demo]) ?_
  refine LevelAt.nested ["messages", "M"] demoM.fields demoM.groups demoM.datas demoG _ _ (by simp [demoM]) ?_
  exact LevelAt.field (["messages", "M"] ++ [gName demoG]) (gFields demoG) (gGroups demoG) (gDatas demoG) [] demoX ⟨[], rfl⟩

/-- a composite element that is a ref, with its preceding sibling as context; it is not constant -/
example : EntityAt demo ["types", "H", "r"] (.elem demoR (some [demoBL])) ∧ isConstElem demo.types demoR = false := by
  refine ⟨EntityAt.type demoH _ _ (by simp [demo]) ?_, by decide +kernel⟩
  exact ElemAt.nested ["types"] none "H" none [demoBL, demoR, demoE] {} [demoBL] demoR _ _ ⟨[demoE], rfl⟩
    (ElemAt.self (["types"] ++ ["H"]) (some [demoBL]) demoR)

/-- `ref_deprecated_full` is not vacuous: a ref with its own `deprecated` has the trait,
    with the ref's value and not the referred type's -/
example : ("deprecated", "1") ∈ elemAttrKVs demo.types ["types", "H", "r"] (.ref "r" "T" none { deprecated := some 1 }) ∧
    ("deprecated", "2") ∉ elemAttrKVs demo.types ["types", "H", "r"] (.ref "r" "T" none {}) := by decide +kernel

example : UniqueNames demo := by
  simp [UniqueNames, UniqueElems, UniqueElem, UniqueMessages, UniqueGroups, UniqueGroup, levelNames, demo, demoT, demoH,
    demoBL, demoR, demoE, demoM, demoG, demoX, Elem.name, gName]

end Sbepp.Properties.C18
