/-
  C01/C02/C03 (positions): the arithmetic by which `Rt/Walk.lean` locates the
  members of a level is the arithmetic of the position helpers of sbepp.hpp,
  re-extracted on every run.  Statements only; proofs in `Lemmas/WalkKernels.lean`.
-/
import Sbepp.Lemmas.WalkKernels
import Sbepp.Rt.Walk

namespace Sbepp.Properties.C02Walk
open Sbepp Sbepp.Extracted

/-- `get_first_dynamic_field_view`: level start + wire block length, for every block-length type
    (= the `pos + wbl` of `endL`, `groupPos`, `dataPos`) -/
theorem first_dynamic_pos_spec (BT : CTy) (hBT : DimTy BT) (level bl : Nat)
    (hbl : bl < 2 ^ BT.bits) (hq : level + bl < 2 ^ 63) :
    (first_dynamic_pos BT).retBits [level, bl] = some (level + bl) :=
  first_dynamic_pos_eval BT hBT level bl hbl hq

/-- `get_dynamic_field_view`: previous member's address + its `size_bytes` (the step of `endGs` / `endDs`) -/
theorem next_dynamic_pos_spec (prev size : Nat) (hs : size < 2 ^ 64) (hq : prev + size < 2 ^ 63) :
    next_dynamic_pos.retBits [prev, size] = some (prev + size) :=
  next_dynamic_pos_eval prev size hs hq

/-- `message_base::operator()(get_level_tag)`: header address + header size -/
theorem message_level_pos_spec (addr hsize : Nat) (hs : hsize < 2 ^ 64) (hq : addr + hsize < 2 ^ 63) :
    message_level_pos.retBits [addr, hsize] = some (addr + hsize) :=
  message_level_pos_eval addr hsize hs hq

/-- `size_bytes(m, c)`: cursor position − message address -/
theorem message_cursor_size_spec (cur addr : Nat) (hle : addr ≤ cur) (hc : cur < 2 ^ 63) :
    message_cursor_size.retBits [cur, addr] = some (cur - addr) :=
  message_cursor_size_eval cur addr hle hc

/-- the walk model's first group / first data position is the kernel's result -/
theorem groupPos_zero_is_kernel (bo : ByteOrder) (buf : List Nat) (gs : List Group) (BT : CTy) (hBT : DimTy BT)
    (pos wbl : Nat) (hbl : wbl < 2 ^ BT.bits) (hq : pos + wbl < 2 ^ 63) :
    (first_dynamic_pos BT).retBits [pos, wbl] = some (groupPos bo buf gs pos wbl 0) := by
  rw [first_dynamic_pos_spec BT hBT pos wbl hbl hq]
  simp [groupPos, endGs]

/-- one data step of the walk model is the kernels' result: next = prev + (prefix size + length) -/
theorem endDs_step_is_kernel (bo : ByteOrder) (buf : List Nat) (d : DataL) (ds : List DataL) (p : Nat)
    (hs : d.lenSize + rd bo buf p d.lenSize < 2 ^ 64) (hq : p + (d.lenSize + rd bo buf p d.lenSize) < 2 ^ 63) :
    (next_dynamic_pos.retBits [p, d.lenSize + rd bo buf p d.lenSize]).map (endDs bo buf ds)
      = some (endDs bo buf (d :: ds) p) := by
  rw [next_dynamic_pos_spec p _ hs hq]
  simp [endDs, Nat.add_assoc]

/-! non-vacuity (tests) -/
example : (first_dynamic_pos .u16).retBits [1048576, 65535] = some 1114111 := by decide
example : next_dynamic_pos.retBits [4096, 300] = some 4396 := by decide
example : message_cursor_size.retBits [5000, 4096] = some 904 := by decide

end Sbepp.Properties.C02Walk
