/-
  C06 — `size_bytes_checked` is safe and exact on untrusted buffers.

  Model: `Rt.Checked.runMsg` / `runGroup` (the visitor, the generated
  `visit_children` chains and the cursor accessors, with an access log and a
  callback counter).  Specification: `Spec.CheckedSize.parseMsg` / `parseGroup`
  (the structure the header values in `buf[0..n)` describe, if all of it lies
  below `n`).

  The property has three clauses.  On the current code the first holds at full
  strength, the other two do not:

  * verdict/size (`checked_valid_iff`, `checked_group_valid_iff`): TRUE for every
    layout, every buffer and every `n` a `std::size_t` can hold (`n < 2^64`).
    Until /repo 3b08414 it was false for a `<data>` member with a 64-bit length
    prefix: `on_data` validated `size_bytes(d)` = `sizeof(length) + length`, which
    wraps in `std::size_t` (`wideMsg`/`wideBuf` below: `{valid = true, size = 9}`
    for a payload of 2^64-1 bytes); the theorem then carried the hypothesis "no
    `<data>` member has a 64-bit length prefix" (then `NarrowL`).  `on_data` now
    validates the prefix and the payload one after the other; the witness is kept
    as a regression example (`valid = false`).  The bound `n < 2^64` is the type
    of `n`; in the model, whose offsets are unbounded naturals, it is needed
    (`checked_valid_iff_needs_size_t`): the cursor accessor still advances by the
    `std::size_t` sum, which for an accepted member is exact only below 2^64.
  * no read at an offset ≥ n (`checked_reads_below_n`): FALSE - the generated
    `visit_children` evaluates `this->d(c)` (which reads the length prefix) before
    `on_data` validates it, and `on_message`/`on_entry` validate the WIRE block
    length but the accessors read at the COMPILED offsets; TRUE on buffers that
    contain a complete structure whose wire block lengths are at least the compiled
    ones (`checked_reads_below_n_partial`; `n < 2^64`, no restriction on the length
    prefixes any more).
    Unconditionally the over-read is bounded by a constant of the schema
    (`checked_reads_slack`).
  * work bounded by a function of n (`checked_work_bounded`): FALSE - entries of
    wire block length 0 cost a callback each and consume nothing, `numInGroup`
    of them are visited; TRUE with the zero-length entries accounted for
    (`checked_work_accounted`, `checked_work_bounded_partial`).
-/
import Sbepp.Lemmas.CheckedReads
import Sbepp.Lemmas.CheckedTie

namespace Sbepp.Properties.C06
open Sbepp Sbepp.Checked Sbepp.Spec.CheckedSize

/-! ### the tie to the source and the executable specification -/

/-- the model's `vas` is the extracted `validate_and_subtract` kernel on all
    `size_t` arguments (final `size`, final `valid`, returned value) -/
theorem vas_eq_extracted (size k : Nat) (valid : Bool) (hs : size < 2 ^ 64) (hk : k < 2 ^ 64) :
    Extracted.validate_and_subtract.varBits [size, k, valid.toNat] "size" = some (vas size k valid).1 ∧
    Extracted.validate_and_subtract.varBits [size, k, valid.toNat] "valid" = some (vas size k valid).2.toNat ∧
    Extracted.validate_and_subtract.retBits [size, k, valid.toNat] = some (vas size k valid).2.toNat :=
  vas_kernel size k valid hs hk

example : vas 10 4 true = (6, true) ∧ vas 3 4 true = (3, false) ∧ vas 10 4 false = (6, false) := by decide

/-- the variant of the specification the driver executes (work bounded by `n`)
    computes the specification -/
theorem spec_executable (bo : ByteOrder) (buf : List Nat) (n hdrSize blOff blSize : Nat) (l : Level) (g : Group) :
    fparseMsg bo buf n hdrSize blOff blSize l = parseMsg bo buf n hdrSize blOff blSize l ∧
    fparseGroup bo buf n g = parseGroup bo buf n g :=
  ⟨fparseMsg_eq bo buf n hdrSize blOff blSize l, fparseGroup_eq bo buf n g⟩

/-! ### clause 1: verdict and size -/

/-- `valid = true` exactly when the specification is defined, and then the reported
    size is the specified one -/
def ValidIff (r : Result) (o : Option Nat) : Prop :=
  (r.valid = true ↔ o.isSome = true) ∧ (r.valid = true → o = some r.size) ∧ (r.valid = false → r.size = 0)

instance (r : Result) (o : Option Nat) : Decidable (ValidIff r o) := by unfold ValidIff; infer_instance

theorem validIff_of_reports {r : Result} {o : Option Nat} (h : Reports r o) : ValidIff r o := by
  cases o with
  | none => obtain ⟨h1, h2⟩ := h; simp [ValidIff, h1, h2]
  | some sz => obtain ⟨h1, h2⟩ := h; simp [ValidIff, h1, h2]

/-- full strength: for every message layout, every buffer of bytes and every `n`
    (a `std::size_t`) -/
def C06_valid_iff_full : Prop :=
  ∀ (bo : ByteOrder) (m : CMsg) (buf : List Nat) (n : Nat), IsBytes buf → n < 2 ^ 64 →
    ValidIff (runMsg bo buf none m n) (parseMsg bo buf n m.hdrSize m.blOff m.blSize m.level.erase)

/-- **checked_valid_iff**: for every layout, every buffer and every `n < 2^64`:
    `size_bytes_checked(message, n)` reports `valid` iff the structure described by
    the buffer fits in `n` bytes, and then reports exactly its size; otherwise it
    reports size 0.  (The buffer need not even consist of bytes.) -/
theorem checked_valid_iff (bo : ByteOrder) (m : CMsg) (buf : List Nat) (n : Nat) (hn : n < 2 ^ 64) :
    ValidIff (runMsg bo buf none m n) (parseMsg bo buf n m.hdrSize m.blOff m.blSize m.level.erase) :=
  validIff_of_reports (runMsg_exact bo buf n hn m)

/-- the same for the group-view overload -/
theorem checked_group_valid_iff (bo : ByteOrder) (g : CGroup) (buf : List Nat) (n : Nat) (hn : n < 2 ^ 64) :
    ValidIff (runGroup bo buf none g n) (parseGroup bo buf n g.erase) :=
  validIff_of_reports (runGroup_exact bo buf n hn g)

/-- the full-strength statement holds -/
theorem checked_valid_iff_full : C06_valid_iff_full :=
  fun bo m buf n _ hn => checked_valid_iff bo m buf n hn

/-- regression witness (the defect repaired by /repo 3b08414): header (`blockLength : uint16` = 0), one
    `<data>` member with a `uint64` length prefix holding 2^64-1, 10 bytes in all.  `size_bytes(d)` wraps to
    7; the earlier `on_data` validated those 7 against the remaining 8 bytes and reported
    `{valid = true, size = 9}` although the payload cannot fit.  Now: 8 bytes of prefix validated, then
    2^64-1 bytes of payload refused. -/
def wideMsg : CMsg := { hdrSize := 2, blOff := 0, blSize := 2, level := .mk 0 [] [] [⟨8⟩] }
def wideBuf : List Nat := [0, 0, 255, 255, 255, 255, 255, 255, 255, 255]

example : (runMsg .little wideBuf none wideMsg 10).valid = false ∧ (runMsg .little wideBuf none wideMsg 10).size = 0 ∧
    parseMsg .little wideBuf 10 2 0 2 wideMsg.level.erase = none := by decide

/-- a second wrap: length 2^64-8, `size_bytes(d)` = 0 (the earlier code reported `{valid = true, size = 2}`) -/
def wideBuf0 : List Nat := [0, 0, 248, 255, 255, 255, 255, 255, 255, 255]

example : (runMsg .little wideBuf0 none wideMsg 10).valid = false ∧
    parseMsg .little wideBuf0 10 2 0 2 wideMsg.level.erase = none := by decide

/-- a 64-bit length prefix that does fit: 3 bytes of payload, 13 bytes in all; and its truncations -/
def wideOkBuf : List Nat := [0, 0, 3, 0, 0, 0, 0, 0, 0, 0, 0x61, 0x62, 0x63]

example : (runMsg .little wideOkBuf none wideMsg 13).valid = true ∧ (runMsg .little wideOkBuf none wideMsg 13).size = 13 ∧
    parseMsg .little wideOkBuf 13 2 0 2 wideMsg.level.erase = some 13 ∧
    (runMsg .little wideOkBuf none wideMsg 12).valid = false ∧ (runMsg .little wideOkBuf none wideMsg 9).valid = false ∧
    (runMsg .little wideOkBuf none wideMsg 40).size = 13 := by decide

/-- why `n < 2^64` is a hypothesis of the MODEL theorem (it is no restriction of the C++ function, whose `n` is a
    `std::size_t`): offsets are unbounded naturals in the model, and the cursor accessor of a `<data>` member
    advances by `sizeof(length) + length` computed in `std::size_t`.  For an imaginary `n = 2^64 + 20` a payload
    of 2^64-1 bytes "fits", the advance wraps to 7 and the second member is looked for at offset 9 instead of
    2^64+9. -/
def twoDataMsg : CMsg := { hdrSize := 2, blOff := 0, blSize := 2, level := .mk 0 [] [] [⟨8⟩, ⟨1⟩] }

theorem checked_valid_iff_needs_size_t :
    ¬ ∀ (bo : ByteOrder) (m : CMsg) (buf : List Nat) (n : Nat), IsBytes buf →
      ValidIff (runMsg bo buf none m n) (parseMsg bo buf n m.hdrSize m.blOff m.blSize m.level.erase) := by
  intro h
  have := h .little twoDataMsg wideBuf (2 ^ 64 + 20) (by unfold IsBytes wideBuf; decide)
  revert this
  decide

/-! non-vacuity: a message with a field, a group with a nested data member and a
    trailing data member; the complete image, a truncation and an inflated
    `numInGroup` -/
def exMsg : CMsg :=
  { hdrSize := 4, blOff := 0, blSize := 2,
    level := .mk 2 [⟨0, 2, true⟩]
      [.mk ⟨3, 0, 2, 2, 1, []⟩ (.mk 1 [⟨0, 1, true⟩] [] [⟨1⟩])]
      [⟨2⟩] }
/-- hdr(bl=2,..) | block | dim(bl=1,n=2) | e0: x, d=<61> | e1: x, d=<> | data e=<62 63> -/
def exBuf : List Nat := [2, 0, 9, 9, 7, 7, 1, 0, 2, 5, 1, 0x61, 6, 0, 2, 0, 0x62, 0x63]

example : IsBytes exBuf := by unfold IsBytes exBuf; decide
example : parseMsg .little exBuf 18 4 0 2 exMsg.level.erase = some 18 := by decide
example : (runMsg .little exBuf none exMsg 18).valid = true ∧ (runMsg .little exBuf none exMsg 18).size = 18 := by decide
example : (runMsg .little exBuf none exMsg 17).valid = false ∧ parseMsg .little exBuf 17 4 0 2 exMsg.level.erase = none := by
  decide
example : (runMsg .little exBuf none exMsg 30).size = 18 := by decide

/-! ### clause 2: no read at an offset ≥ n -/

/-- full strength: for every well-formed layout, every buffer of exactly `n` bytes -/
def C06_reads_below_n_full : Prop :=
  ∀ (bo : ByteOrder) (m : CMsg) (buf : List Nat) (n : Nat), IsBytes buf → buf.length = n → n < 2 ^ 64 →
    InsideL m.level → m.blOff + m.blSize ≤ m.hdrSize →
    ∀ a ∈ (runMsg bo buf none m n).reads, a.stop ≤ n

/-- **checked_reads_below_n_partial**: if the buffer contains a complete message
    (`sparseMsg = some _`: every header, block and payload lies below `n`) whose
    wire block lengths are at least the compiled ones, then every read
    `size_bytes_checked(message, n)` performs stops at or below `n`.
    (Until /repo 3b08414 this carried the hypothesis "no 64-bit length prefix" as well: the proof follows the
    cursor with the exactness lemmas, which needed it.  What remains is `n < 2^64`, the type of `n`.) -/
theorem checked_reads_below_n_partial (bo : ByteOrder) (m : CMsg) (buf : List Nat) (n : Nat) (hn : n < 2 ^ 64)
    (hi : InsideL m.level) (hh : m.blOff + m.blSize ≤ m.hdrSize) (sz : Nat)
    (hfit : sparseMsg bo buf n m.hdrSize m.blOff m.blSize m.level.erase = some sz) :
    ∀ a ∈ (runMsg bo buf none m n).reads, a.stop ≤ n :=
  runMsg_reads_strict bo buf n hn m hi hh sz hfit

/-- the same for the group-view overload -/
theorem checked_group_reads_below_n_partial (bo : ByteOrder) (g : CGroup) (buf : List Nat) (n : Nat) (hn : n < 2 ^ 64)
    (hi : InsideG g) (sz : Nat) (hfit : sparseG bo buf n g.erase 0 = some sz) :
    ∀ a ∈ (runGroup bo buf none g n).reads, a.stop ≤ n :=
  runGroup_reads_strict bo buf n hn g hi sz hfit

/-- a strict success is a success of the plain specification -/
theorem strict_implies_fits (bo : ByteOrder) (buf : List Nat) (n hdrSize blOff blSize : Nat) (l : Level) (sz : Nat)
    (h : sparseMsg bo buf n hdrSize blOff blSize l = some sz) : parseMsg bo buf n hdrSize blOff blSize l = some sz := by
  unfold sparseMsg at h; unfold parseMsg
  split at h
  · rename_i hc; simp only [hc, if_true]; exact sparseL_parse bo buf n l _ _ sz h
  · simp at h

example : InsideL exMsg.level := by simp [exMsg, InsideL, InsideGs, InsideG, WFDim]
example : sparseMsg .little exBuf 18 4 0 2 exMsg.level.erase = some 18 := by decide
example : (runMsg .little exBuf none exMsg 18).maxRead = 16 := by decide
/-- with a 64-bit length prefix -/
example : sparseMsg .little wideOkBuf 13 2 0 2 wideMsg.level.erase = some 13 ∧
    (runMsg .little wideOkBuf none wideMsg 13).maxRead = 10 := by decide

/-- **checked_reads_slack** (unconditional): whatever the buffer holds, no read of
    `size_bytes_checked(message, n)` goes further than `slack` bytes beyond `n`,
    where `slack` is a constant of the schema: the largest compiled field end,
    length-prefix width or dimension member end (and the header's `blockLength` end) -/
theorem checked_reads_slack (bo : ByteOrder) (m : CMsg) (buf : List Nat) (n : Nat) :
    ∀ a ∈ (runMsg bo buf none m n).reads, a.stop ≤ n + m.slack :=
  runMsg_reads_slack bo buf n m

theorem checked_group_reads_slack (bo : ByteOrder) (g : CGroup) (buf : List Nat) (n : Nat) :
    ∀ a ∈ (runGroup bo buf none g n).reads, a.stop ≤ n + g.slack :=
  runGroup_reads_slack bo buf n g

example : exMsg.slack = 3 := by decide

/-- witness (i): header, no fields, one `<data>` member with a `uint8` length
    prefix, and a buffer that ends right after the header (`n = 4`): the accessor
    `this->d(c)` reads the length prefix at offset 4 before `on_data` rejects it -/
def dataMsg : CMsg := { hdrSize := 4, blOff := 0, blSize := 2, level := .mk 0 [] [] [⟨1⟩] }
def dataBuf : List Nat := [0, 0, 1, 0]

example : (runMsg .little dataBuf none dataMsg 4).valid = false ∧
    (runMsg .little dataBuf none dataMsg 4).firstOver 4 = some ⟨.dataLength, 4, 1, 1⟩ := by decide

/-- the slack bound is attained by witness (i): `slack = 2`, the read stops at `n + 1` -/
example : dataMsg.slack = 2 ∧ (runMsg .little dataBuf none dataMsg 4).maxRead = 5 := by decide

theorem checked_reads_below_n_full_false : ¬ C06_reads_below_n_full := by
  intro h
  have := h .little dataMsg dataBuf 4 (by unfold IsBytes dataBuf; decide) rfl (by decide)
    (by simp [dataMsg, InsideL, InsideGs]) (by decide)
  revert this
  decide

/-- witness (ii): one `uint32` field (compiled block length 4), wire
    `blockLength` = 0 and `n = 4` = the header size: both `validate_and_subtract`
    calls succeed (0 bytes of block), `this->f(c)` then reads offsets 4..8; the
    verdict is `valid = true, size = 4` -/
def shortMsg : CMsg := { hdrSize := 4, blOff := 0, blSize := 2, level := .mk 4 [⟨0, 4, true⟩] [] [] }
def shortBuf : List Nat := [0, 0, 1, 0]

theorem checked_reads_short_block_witness :
    (runMsg .little shortBuf none shortMsg 4).valid = true ∧ (runMsg .little shortBuf none shortMsg 4).size = 4 ∧
    (runMsg .little shortBuf none shortMsg 4).firstOver 4 = some ⟨.field, 4, 4, 1⟩ ∧
    InsideL shortMsg.level := by
  refine ⟨by decide, by decide, by decide, by simp [shortMsg, InsideL, InsideGs]⟩

/-! ### clause 3: work bounded by a function of `n` -/

/-- full strength: at most `wmax · (n + 2)` callbacks (`wmax` = the largest number
    of members of a level, plus one: a constant of the schema) -/
def C06_work_bounded_full : Prop :=
  ∀ (bo : ByteOrder) (m : CMsg) (buf : List Nat) (n : Nat),
    (runMsg bo buf none m n).steps ≤ m.level.wmax * (n + 2)

/-- **checked_work_accounted**: the number of callbacks is at most
    `wmax · (n + 2 + z)` where `z` is the number of `on_entry` callbacks that
    validated a wire block length of zero - the only steps that consume no byte -/
theorem checked_work_accounted (bo : ByteOrder) (m : CMsg) (buf : List Nat) (n : Nat) :
    (runMsg bo buf none m n).steps ≤ m.level.wmax * (n + 2 + (runMsg bo buf none m n).zeroEntries) :=
  runMsg_work bo buf m n

theorem checked_group_work_accounted (bo : ByteOrder) (g : CGroup) (buf : List Nat) (n : Nat) :
    (runGroup bo buf none g n).steps ≤ g.wmax * (n + 2 + (runGroup bo buf none g n).zeroEntries) :=
  runGroup_work bo buf g n

/-- **checked_work_bounded_partial**: runs that meet no zero-length entry are
    linear in `n` -/
theorem checked_work_bounded_partial (bo : ByteOrder) (m : CMsg) (buf : List Nat) (n : Nat)
    (hz : (runMsg bo buf none m n).zeroEntries = 0) :
    (runMsg bo buf none m n).steps ≤ m.level.wmax * (n + 2) := by
  have := runMsg_work bo buf m n
  rw [hz] at this
  exact this

example : (runMsg .little exBuf none exMsg 18).zeroEntries = 0 ∧ (runMsg .little exBuf none exMsg 18).steps = 10 ∧
    exMsg.level.wmax = 4 := by decide

/-- witness (iii): a group without members (`blockLength`/`numInGroup` both
    `uint8`), wire `blockLength = 0`, `numInGroup = 255`, `n = 4`: 255 `on_entry`
    callbacks on a 4-byte buffer (2^k - 1 for a k-bit `numInGroup`) -/
def loopMsg : CMsg := { hdrSize := 2, blOff := 0, blSize := 2, level := .mk 0 [] [.mk ⟨2, 0, 1, 1, 1, []⟩ (.mk 0 [] [] [])] [] }
def loopBuf : List Nat := [0, 0, 0, 255]

example : (runMsg .little loopBuf none loopMsg 4).steps = 257 ∧ (runMsg .little loopBuf none loopMsg 4).valid = true ∧
    (runMsg .little loopBuf none loopMsg 4).zeroEntries = 255 ∧ loopMsg.level.wmax * (4 + 2) = 12 := by decide +kernel

/- 255 loop iterations are beyond the elaborator's `whnf` budget; `decide +kernel`
   lets the kernel alone evaluate the instance (no axiom is added, see the audit) -/
theorem checked_work_bounded_full_false : ¬ C06_work_bounded_full := by
  intro h
  have := h .little loopMsg loopBuf 4
  revert this
  decide +kernel

/-! ### the same theorems about the member functions as sbepp.hpp states them now

`Sbepp.Extracted.Checked` is regenerated from the text of
`sbepp::detail::size_bytes_checked_visitor` and `sbepp::size_bytes_checked` on
every run (`extract/methods_checked.py`); `Lemmas/CheckedTie.lean` proves each
generated definition equal to the hand-written member function and the model
`runMsg` / `runGroup` equal to the hand model of the generated code and the cursor
(`Skel`) around those member functions.  `checkedMsg` / `checkedGroup` below are
that skeleton around the EXTRACTED visitor; the theorems above are restated for
them.  (The generated `visit_children`, the cursor accessors and `cursor_range`
remain hand-modelled and tied by the differential runs of the check.) -/

/-- `sbepp::size_bytes_checked(message_view, n)` with the extracted visitor -/
def checkedMsg (bo : ByteOrder) (buf : List Nat) (m : CMsg) (n : Nat) : Result :=
  Skel.runMsg Tie.extractedOps bo buf none m n

/-- `sbepp::size_bytes_checked(group_view, n)` with the extracted visitor -/
def checkedGroup (bo : ByteOrder) (buf : List Nat) (g : CGroup) (n : Nat) : Result :=
  Skel.runGroup Tie.extractedOps bo buf none g n

/-- the extracted code is the model the theorems of this file are about -/
theorem checked_model_is_extracted (bo : ByteOrder) (buf : List Nat) (m : CMsg) (g : CGroup) (n : Nat) :
    checkedMsg bo buf m n = runMsg bo buf none m n ∧ checkedGroup bo buf g n = runGroup bo buf none g n :=
  ⟨Tie.runMsg_extracted bo buf none m n, Tie.runGroup_extracted bo buf none g n⟩

theorem checked_valid_iff_extracted (bo : ByteOrder) (m : CMsg) (buf : List Nat) (n : Nat) (hn : n < 2 ^ 64) :
    ValidIff (checkedMsg bo buf m n) (parseMsg bo buf n m.hdrSize m.blOff m.blSize m.level.erase) := by
  unfold checkedMsg; rw [Tie.runMsg_extracted]; exact checked_valid_iff bo m buf n hn

theorem checked_group_valid_iff_extracted (bo : ByteOrder) (g : CGroup) (buf : List Nat) (n : Nat) (hn : n < 2 ^ 64) :
    ValidIff (checkedGroup bo buf g n) (parseGroup bo buf n g.erase) := by
  unfold checkedGroup; rw [Tie.runGroup_extracted]; exact checked_group_valid_iff bo g buf n hn

theorem checked_reads_below_n_partial_extracted (bo : ByteOrder) (m : CMsg) (buf : List Nat) (n : Nat) (hn : n < 2 ^ 64)
    (hi : InsideL m.level) (hh : m.blOff + m.blSize ≤ m.hdrSize) (sz : Nat)
    (hfit : sparseMsg bo buf n m.hdrSize m.blOff m.blSize m.level.erase = some sz) :
    ∀ a ∈ (checkedMsg bo buf m n).reads, a.stop ≤ n := by
  unfold checkedMsg; rw [Tie.runMsg_extracted]; exact checked_reads_below_n_partial bo m buf n hn hi hh sz hfit

theorem checked_group_reads_below_n_partial_extracted (bo : ByteOrder) (g : CGroup) (buf : List Nat) (n : Nat)
    (hn : n < 2 ^ 64) (hi : InsideG g) (sz : Nat) (hfit : sparseG bo buf n g.erase 0 = some sz) :
    ∀ a ∈ (checkedGroup bo buf g n).reads, a.stop ≤ n := by
  unfold checkedGroup; rw [Tie.runGroup_extracted]; exact checked_group_reads_below_n_partial bo g buf n hn hi sz hfit

theorem checked_reads_slack_extracted (bo : ByteOrder) (m : CMsg) (buf : List Nat) (n : Nat) :
    ∀ a ∈ (checkedMsg bo buf m n).reads, a.stop ≤ n + m.slack := by
  unfold checkedMsg; rw [Tie.runMsg_extracted]; exact checked_reads_slack bo m buf n

theorem checked_group_reads_slack_extracted (bo : ByteOrder) (g : CGroup) (buf : List Nat) (n : Nat) :
    ∀ a ∈ (checkedGroup bo buf g n).reads, a.stop ≤ n + g.slack := by
  unfold checkedGroup; rw [Tie.runGroup_extracted]; exact checked_group_reads_slack bo g buf n

theorem checked_work_accounted_extracted (bo : ByteOrder) (m : CMsg) (buf : List Nat) (n : Nat) :
    (checkedMsg bo buf m n).steps ≤ m.level.wmax * (n + 2 + (checkedMsg bo buf m n).zeroEntries) := by
  unfold checkedMsg; rw [Tie.runMsg_extracted]; exact checked_work_accounted bo m buf n

theorem checked_group_work_accounted_extracted (bo : ByteOrder) (g : CGroup) (buf : List Nat) (n : Nat) :
    (checkedGroup bo buf g n).steps ≤ g.wmax * (n + 2 + (checkedGroup bo buf g n).zeroEntries) := by
  unfold checkedGroup; rw [Tie.runGroup_extracted]; exact checked_group_work_accounted bo g buf n

/-- the extracted definitions compute (non-vacuity: the complete image, a truncation, the regression witness of
    the repaired wrap, a fitting 64-bit length, and the two over-read witnesses, evaluated through the generated
    member functions) -/
example : (checkedMsg .little exBuf exMsg 18).valid = true ∧ (checkedMsg .little exBuf exMsg 18).size = 18 ∧
    (checkedMsg .little exBuf exMsg 18).steps = 10 ∧ (checkedMsg .little exBuf exMsg 17).valid = false := by decide
example : (checkedMsg .little wideBuf wideMsg 10).valid = false ∧ (checkedMsg .little wideBuf wideMsg 10).size = 0 ∧
    (checkedMsg .little wideOkBuf wideMsg 13).valid = true ∧ (checkedMsg .little wideOkBuf wideMsg 13).size = 13 := by decide
example : (checkedMsg .little dataBuf dataMsg 4).firstOver 4 = some ⟨.dataLength, 4, 1, 1⟩ := by decide
example : (checkedMsg .little shortBuf shortMsg 4).firstOver 4 = some ⟨.field, 4, 4, 1⟩ := by decide

end Sbepp.Properties.C06
