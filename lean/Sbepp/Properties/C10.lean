/-
  C10 — checked builds never touch memory outside the view silently, and never assert on
  boundary-valid calls.

  Model:  `Sbepp.Rt.Guards` (events of every accessor kind; the value of every check is obtained by
          evaluating the expressions of `Sbepp.Extracted.SizeChecks`, regenerated from /repo).
  Spec:   plain arithmetic on byte ranges: `inside n lo len`, `b + off + size ≤ n`.

  Since fix 7262f97 the macro also requires `begin <= end` (pointers compared as addresses), so a
  check on a view that begins past the end pointer FAILS (`sizeCheck_past_end_rejected`,
  `sizeCheck_sound_full_proved`).  What remains false at full strength is kept as refuted
  `def … : Prop` with kernel-checked witnesses (each replayed on the real code by the check):
    * `offset + size` is computed in `std::size_t` and wraps (`sizeCheck_wrap_full_false`: reachable
      through a 64-bit `length`: `sizeof(size_type) + size()`), and positions derived from 64-bit
      header values leave the pointer range (`guard_sound_full_false`, `no_silent_access_full_false`,
      `guard_sound_cursor_full_false`);
    * `dynamic_array_ref::assign_range` / `assign(first, last)` copy into the buffer BEFORE the only
      check that covers the copied bytes (`write_before_check_false`).
  The `_partial` theorems state exactly what holds: every pointer a check is based on is
  representable (`PtrsRepresentable`: no overflow in the pointer arithmetic of the call), no
  wrap-around of `offset + size` (`NoWrap`) — both can only fail with 64-bit header members — and for
  the "no access before the failing check" form only accessor kinds that check first.  No
  hypothesis on WHERE derived views begin is needed any more.
-/
import Sbepp.Lemmas.C10

namespace Sbepp.Properties.C10
open Sbepp Sbepp.CVal Sbepp.Rt.Guards Sbepp.Extracted.SizeChecks

/-! ### the extracted macro -/

/-- value of `SBEPP_SIZE_CHECK(begin, end, offset, size)` for `std::size_t` offset and size -/
def sizeCheck (b e off size : Nat) : Option Bool :=
  (sizeCheckMacro.eval (macroEnv ⟨.ptr, b⟩ ⟨.ptr, e⟩ ⟨.u64, off⟩ ⟨.u64, size⟩)).map CVal.isTrue

theorem sizeCheck_eq (b e off size : Nat) (hb : b < 2^63) (he : e < 2^63) (ho : off < 2^64) (hs : size < 2^64) :
    sizeCheck b e off size = some (stdOk b e ((off + size) % 2^64)) :=
  macro_eval _ _ _ _ .u64 _ hb he (add_u64_left .u64 off size ho (nn_u64 size hs)) (nn_u64 _ (Nat.mod_lt _ (by decide)))

/-- no wrap: a passing check means begin ≤ end and the guarded bytes end at or before `end` — for ANY
    order of the two pointers -/
theorem sizeCheck_sound (b e off size : Nat) (hb : b < 2^63) (he : e < 2^63) (hnw : off + size < 2^64)
    (h : sizeCheck b e off size = some true) : b ≤ e ∧ b + off + size ≤ e := by
  rw [sizeCheck_eq b e off size hb he (by omega) (by omega), Nat.mod_eq_of_lt hnw] at h
  injection h with h
  have := stdOk_sound b e (off + size) (by omega) h
  omega

/-- non-null begin ≤ end: guarded bytes inside ⇒ the check passes (no spurious assertion) -/
theorem sizeCheck_complete (b e off size : Nat) (h0 : 0 < b) (hbe : b ≤ e) (he : e < 2^63)
    (h : b + off + size ≤ e) : sizeCheck b e off size = some true := by
  rw [sizeCheck_eq b e off size (by omega) he (by omega) (by omega), Nat.mod_eq_of_lt (by omega)]
  rw [stdOk_complete b e (off + size) h0 hbe (by omega) (by omega)]

/-- a view that begins past the end pointer is rejected whatever is asked of it -/
theorem sizeCheck_past_end_rejected (b e off size : Nat) (hb : b < 2^63) (heb : e < b) (ho : off < 2^64)
    (hs : size < 2^64) : sizeCheck b e off size = some false := by
  rw [sizeCheck_eq b e off size hb (by omega) ho hs, stdOk_past_end b e _ heb]

example : sizeCheck 4096 4104 0 8 = some true := by decide
example : sizeCheck 4096 4104 1 8 = some false := by decide
example : sizeCheck 4108 4104 0 4 = some false := by decide

/-- full strength: no hypothesis on the order of begin and end -/
def sizeCheck_sound_full : Prop :=
  ∀ b e off size : Nat, 0 < b → b < 2^63 → e < 2^63 → off + size < 2^64 →
    sizeCheck b e off size = some true → b + off + size ≤ e

/-- holds since the macro requires `begin <= end` (it was refuted by b = 4108, e = 4104 before) -/
theorem sizeCheck_sound_full_proved : sizeCheck_sound_full :=
  fun b e off size _ hb he hnw h => (sizeCheck_sound b e off size hb he hnw h).2

/-- full strength: offset and size are arbitrary `std::size_t` values -/
def sizeCheck_wrap_full : Prop :=
  ∀ b e off size : Nat, 0 < b → b ≤ e → e < 2^63 → off < 2^64 → size < 2^64 →
    sizeCheck b e off size = some true → b + off + size ≤ e

/-- witness: `sizeof(size_type) + size()` with an 8-byte length prefix holding 2^64 - 8 -/
theorem sizeCheck_wrap_full_false : ¬ sizeCheck_wrap_full := by
  intro h
  have := h 4096 4104 8 18446744073709551608 (by decide) (by decide) (by decide) (by decide) (by decide) (by decide)
  exact absurd this (by decide)

/-! ### the end pointer of derived views -/

/-- a checked view: begin and end pointer (offsets from the buffer start) -/
structure View where
  vbegin : Nat
  vend : Nat
  deriving Repr, DecidableEq

/-- the ways sbepp derives a view from a view (message → group/data → entry → composite → array …):
    every one of them hands over the parent's end pointer (`endArgs` below) -/
inductive Deriv
  /-- `get_static_field_view(view, off)` -/
  | static (off : Nat)
  /-- `get_first_dynamic_field_view(view)`: level start + block length -/
  | firstDyn (level blockLength : Nat)
  /-- `get_dynamic_field_view(view, prev)`: prev + size_bytes(prev) -/
  | nextDyn (prevBegin prevSize : Nat)
  /-- `*iterator` / `operator[]`: entry at an iterator position -/
  | entry (ptr : Nat)
  /-- `get_header`, `raw()`: same begin -/
  | same

def derive (v : View) : Deriv → View
  | .static off => { vbegin := v.vbegin + off, vend := v.vend }
  | .firstDyn level bl => { vbegin := level + bl, vend := v.vend }
  | .nextDyn p s => { vbegin := p + s, vend := v.vend }
  | .entry ptr => { vbegin := ptr, vend := v.vend }
  | .same => { vbegin := v.vbegin, vend := v.vend }

/-- by induction on the derivation: every derived view carries the end pointer of the view given
    to `make_view` -/
theorem end_propagates (v : View) (ds : List Deriv) : (ds.foldl derive v).vend = v.vend := by
  induction ds generalizing v with
  | nil => rfl
  | cons d ds ih => rw [List.foldl_cons, ih]; cases d <;> rfl

example : ([Deriv.firstDyn 8 4, .entry 16, .static 2].foldl derive ⟨0, 24⟩) = ⟨18, 24⟩ := by decide

/-- tie to the code: the end argument of EVERY construction of a derived view or iterator in
    sbepp.hpp (and of the generated empty-entry constructor) is the parent's end pointer -/
theorem end_args_extracted :
    endArgs.all (fun t => ["view(end_ptr_tag{})", "view(detail::end_ptr_tag{})", "(*this)(end_ptr_tag{})",
      "(*this)(detail::end_ptr_tag{})", "end", "end_ptr"].contains t.2.2) = true ∧ endArgs.length ≥ 40 := by
  decide

/-- tie to the code: the functions in which a memory access textually precedes a check -/
theorem checks_precede_access_extracted :
    (sites.filter (fun s => !s.checkBeforeAccess)).map (fun s => (s.cls, s.fn, s.params)) =
      [("static_array_ref", "assign_range", "R&&r"),
       ("static_array_ref", "assign", "InputIt first,InputIt last"),
       ("static_array_ref", "pad", "const eos_null mode,iterator eos_pos")] ∧
    sites.all (fun s => !s.failed) = true := by
  decide

/-! ### soundness: guard ⇒ touched bytes inside -/

/-- per accessor kind (`State` = machine context, view, accessor): if the conjunction of its checks
    holds, every byte it touches lies in `[p, p+n)` — wherever the view begins — provided the pointers
    it checks are representable and `offset + size` does not wrap -/
theorem guard_sound_partial (s : State) (hwf : s.ctx.WF) (hb : IsBytes s.ctx.buf)
    (hpos : PosWF s.pos) (hpre : Op.preB s.ctx s.pos s.op = true) (hcf : s.op.checkedFirst = true)
    (hv : PtrsRepresentable s.ctx s.events) (hnw : NoWrap s.events) (hg : s.guard = true) :
    allInside s.ctx.n s.touches = true := by
  have hn : s.ctx.base + s.ctx.n < 2^63 := by have := hwf.2; omega
  unfold State.guard at hg
  unfold State.touches
  match hs : step s.ctx s.pos s.op with
  | none =>
    have : s.events = [] := by simp [State.events, hs]
    rw [this]; rfl
  | some (evs, pos') =>
    have he : s.events = evs := by simp [State.events, hs]
    rw [he] at hv hnw hg ⊢
    obtain ⟨hgood, _⟩ := step_good s.ctx hn (canon_of_isBytes _ hb) s.pos s.op evs pos' hpos hpre hcf hs
    exact covered_sound s.ctx hwf evs [] (by intro t ht; cases ht) hgood.2 hgood.1 hv hnw hg

/-- derived views, by induction on the chain of accessor calls from the message view (message →
    group → iterator → entry → composite/array/data …): same statement for the whole chain -/
theorem guard_sound_walk_partial (c : Ctx) (m : MsgL) (ops : List Op) (evs : List Ev)
    (hwf : c.WF) (hb : IsBytes c.buf) (hok : opsOk c (.msg m) ops = true)
    (hcf : ops.all Op.checkedFirst = true) (hw : walk c (.msg m) ops = some evs)
    (hv : PtrsRepresentable c evs) (hnw : NoWrap evs) (hg : guard evs = true) :
    allInside c.n (touches evs) = true := by
  have hn : c.base + c.n < 2^63 := by have := hwf.2; omega
  have hgood := walk_good c hn (canon_of_isBytes c hb) ops (.msg m) evs trivial hok hcf hw
  exact covered_sound c hwf evs [] (by intro t ht; cases ht) hgood.2 hgood.1 hv hnw hg

/-- the tiny schema of the replay: header 8 bytes (blockLength u16 at 0), block 4, one flat group
    (dimension: blockLength u16 at 0, numInGroup u16 at 2; entries of 2 bytes), one data member
    with a 4-byte length -/
def exMsg : MsgL :=
  { hdrSize := 8, blOff := 0, blSize := 2,
    level := .mk 4 [] [.mk { size := 4, blOff := 0, blSize := 2, numOff := 2, numSize := 2 } (.mk 2 [] [] [])] [⟨4⟩] }

def exImg : List Nat := [4,0,1,0,1,0,0,0, 9,9,9,9, 2,0,1,0, 7,7, 2,0,0,0, 5,6]

def exCtx (n : Nat) : Ctx := { base := 4096, n := n, bo := .little, buf := exImg }

/-- the hypotheses are satisfiable: the complete image, `m.g()[0].x()` -/
example : ∃ evs, walk (exCtx 24) (.msg exMsg) [.grp 0, .gIdx 0, .field 0 2 false] = some evs ∧
    opsOk (exCtx 24) (.msg exMsg) [.grp 0, .gIdx 0, .field 0 2 false] = true ∧
    guard evs = true ∧ touches evs = [(0, 2), (14, 2), (12, 2), (12, 2), (16, 2)] :=
  ⟨_, rfl, by decide, by decide, by decide⟩

/-- the 64-bit witness: header 8 bytes (blockLength u16), block 4, one data member with an 8-byte
    length prefix that holds 2^64 - 8 -/
def exMsg64 : MsgL := { hdrSize := 8, blOff := 0, blSize := 2, level := .mk 4 [] [] [⟨8⟩] }

def exCtx64 (n : Nat) : Ctx :=
  { base := 4096, n := n, bo := .little, buf := [4,0,3,0,1,0,0,0, 9,9,9,9, 248,255,255,255,255,255,255,255, 5,6] }

/-- full strength: no hypothesis on representability / wrap-around -/
def guard_sound_full : Prop :=
  ∀ (c : Ctx) (m : MsgL) (ops : List Op) (evs : List Ev), c.WF → IsBytes c.buf →
    opsOk c (.msg m) ops = true → ops.all Op.checkedFirst = true → walk c (.msg m) ops = some evs →
    guard evs = true → allInside c.n (touches evs) = true

/-- witness (the view-past-end witness `m.g().size()` at n = 8 no longer works: its header check now
    fails): the complete 22-byte buffer, `m.d()[5]` with `size() = 2^64 - 8`: `pos < size()` holds,
    `sizeof(size_type) + size()` wraps to 0, `data_checked` passes, the element read touches byte 25 -/
theorem guard_sound_full_false : ¬ guard_sound_full := by
  intro h
  have := h (exCtx64 22) exMsg64 [.data 0, .dElem 5 false] _ (by decide) (by decide) (by decide) (by decide) rfl
    (by decide)
  exact absurd this (by decide)

/-- the former witness is now rejected: on the header-only buffer `m.g().size()` asserts -/
example : ∃ evs, walk (exCtx 8) (.msg exMsg) [.grp 0, .gSize] = some evs ∧ run 8 evs 0 = .assertFailed 4 :=
  ⟨_, rfl, by decide⟩

/-! ### no access before the failing check -/

/-- whatever the outcome (also when a check fails), no byte at or beyond `n` is touched before the
    first failed check -/
theorem no_silent_access_partial (c : Ctx) (m : MsgL) (ops : List Op) (evs : List Ev)
    (hwf : c.WF) (hb : IsBytes c.buf) (hok : opsOk c (.msg m) ops = true)
    (hcf : ops.all Op.checkedFirst = true) (hw : walk c (.msg m) ops = some evs)
    (hv : PtrsRepresentable c evs) (hnw : NoWrap evs) : ∀ k, run c.n evs 0 ≠ .fault k := by
  have hn : c.base + c.n < 2^63 := by have := hwf.2; omega
  have hgood := walk_good c hn (canon_of_isBytes c hb) ops (.msg m) evs trivial hok hcf hw
  exact covered_no_fault c hwf evs [] 0 (by intro t ht; cases ht) hgood.2 hgood.1 hv hnw

def no_silent_access_full : Prop :=
  ∀ (c : Ctx) (m : MsgL) (ops : List Op) (evs : List Ev), c.WF → IsBytes c.buf →
    opsOk c (.msg m) ops = true → ops.all Op.checkedFirst = true → walk c (.msg m) ops = some evs →
    ∀ k, run c.n evs 0 ≠ .fault k

/-- same 64-bit witness: the model's outcome is a fault at event 11 (the element read) -/
theorem no_silent_access_full_false : ¬ no_silent_access_full := by
  intro h
  exact h (exCtx64 22) exMsg64 [.data 0, .dElem 5 false] _ (by decide) (by decide) (by decide) (by decide) rfl 11
    (by decide)

/-- accessor kinds that access before they check, even when nothing overflows or wraps -/
def write_before_check : Prop :=
  ∀ (c : Ctx) (m : MsgL) (ops : List Op) (evs : List Ev), c.WF → IsBytes c.buf →
    opsOk c (.msg m) ops = true → walk c (.msg m) ops = some evs → PtrsRepresentable c evs → NoWrap evs →
    ∀ k, run c.n evs 0 ≠ .fault k

/-- witness: the complete image (`n = 24`, every view inside); `m.d().assign_range(r)` with 3
    elements: `data_unchecked` checks the 4-byte prefix, the copy writes `[22, 25)`, only then
    `resize` checks `4 + 3` bytes and fails -/
theorem write_before_check_false : ¬ write_before_check := by
  intro h
  exact h (exCtx 24) exMsg [.data 0, .dAssign 3] _ (by decide) (by decide) (by decide) rfl (by decide) (by decide) 10
    (by decide)

/-! ### completed calls are clean: every accessor kind, whatever the order of checks and accesses -/

/-- tie to the code: `resize(count, default_init)` checks unconditionally.  `assign_range` and
    `assign(first, last)` rely on that check as the ONLY one covering what they have already copied. -/
theorem resize_check_unconditional :
    dynamic_array_ref_resize__count_default_init_t.checkCond? 0 = some none := resize_unconditional

/-- also for the kinds that access BEFORE they check (`assign_range`, `assign(first, last)`): if the
    call completes without a failed check, no byte outside `[p, p+n)` was touched — the copy is
    covered by the check of the `resize` that follows it -/
theorem completed_call_clean (c : Ctx) (m : MsgL) (ops : List Op) (evs : List Ev)
    (hwf : c.WF) (hb : IsBytes c.buf) (hok : opsOk c (.msg m) ops = true)
    (hw : walk c (.msg m) ops = some evs) (hv : PtrsRepresentable c evs) (hnw : NoWrap evs)
    (hg : guard evs = true) : allInside c.n (touches evs) = true := by
  have hn : c.base + c.n < 2^63 := by have := hwf.2; omega
  have hc := canon_of_isBytes c hb
  have hf := walk_faithful c hn hc ops (.msg m) evs trivial hok hw
  exact any_inside c.n _ (checks_bound c hwf evs hf hv hnw hg) evs (walk_any c hn hc ops (.msg m) evs trivial hok hw)

/-- the same in the form the canary buffers observe: with the view inside a larger allocation, a
    call that returns normally has not written behind the view -/
theorem no_silent_write (c : Ctx) (m : MsgL) (ops : List Op) (evs : List Ev) (slack : Nat) (dirty : Bool)
    (hwf : c.WF) (hb : IsBytes c.buf) (hok : opsOk c (.msg m) ops = true)
    (hw : walk c (.msg m) ops = some evs) (hv : PtrsRepresentable c evs) (hnw : NoWrap evs)
    (hr : runCanary c.n slack evs 0 false = (.ok, dirty)) : dirty = false := by
  have h := runCanary_ok c.n slack evs 0 false dirty hr
  exact h.2 (completed_call_clean c m ops evs hwf hb hok hw hv hnw h.1)

/-- `m.d().assign_range(r)` with 3 elements on the complete 24-byte view inside a larger allocation:
    the copy writes byte 24, THEN the handler is invoked (assert after write: the open finding) -/
example : ∃ evs, walk (exCtx 24) (.msg exMsg) [.data 0, .dAssign 3] = some evs ∧
    runCanary 24 64 evs 0 false = (.assertFailed 11, true) := ⟨_, rfl, by decide⟩

/-- `assign(3, v)`, `assign({a,b,c})` and `push_back` on the same view: handler first, nothing written -/
example : ∃ evs, walk (exCtx 24) (.msg exMsg) [.data 0, .dAssignN 3] = some evs ∧
    runCanary 24 64 evs 0 false = (.assertFailed 9, false) := ⟨_, rfl, by decide⟩
example : ∃ evs, walk (exCtx 24) (.msg exMsg) [.data 0, .dAssignIlist 3] = some evs ∧
    runCanary 24 64 evs 0 false = (.assertFailed 9, false) := ⟨_, rfl, by decide⟩
example : ∃ evs, walk (exCtx 24) (.msg exMsg) [.data 0, .dPush] = some evs ∧
    runCanary 24 64 evs 0 false = (.assertFailed 11, false) := ⟨_, rfl, by decide⟩

/-! ### cursor-based accessors -/

/-- a traversal with cursors (every member before the target through the plain cursor, entries
    through `cursor_range`, the target through any of the five wrappers — READ through the getter
    or, `tg.set`, WRITTEN through the wrapper's setter): same statement, wherever the views and the
    cursor are -/
theorem guard_sound_cursor_partial (c : Ctx) (m : CMsg) (tg : Target) (hwf : c.WF) (hb : IsBytes c.buf)
    (hv : PtrsRepresentable c (travMsg c m tg).evs) (hnw : NoWrap (travMsg c m tg).evs)
    (hg : guard (travMsg c m tg).evs = true) : allInside c.n (touches (travMsg c m tg).evs) = true := by
  have hn : c.base + c.n < 2^63 := by have := hwf.2; omega
  have hgood := travMsg_good c hn (canon_of_isBytes c hb) m tg
  exact covered_sound c hwf _ [] (by intro t ht; cases ht) hgood.2 hgood.1 hv hnw hg

theorem no_silent_access_cursor_partial (c : Ctx) (m : CMsg) (tg : Target) (hwf : c.WF) (hb : IsBytes c.buf)
    (hv : PtrsRepresentable c (travMsg c m tg).evs) (hnw : NoWrap (travMsg c m tg).evs) :
    ∀ k, run c.n (travMsg c m tg).evs 0 ≠ .fault k := by
  have hn : c.base + c.n < 2^63 := by have := hwf.2; omega
  have hgood := travMsg_good c hn (canon_of_isBytes c hb) m tg
  exact covered_no_fault c hwf _ [] 0 (by intro t ht; cases ht) hgood.2 hgood.1 hv hnw

/-- header 8 bytes, block of 6 bytes holding one 4-byte field `a`, a flat group with a 2-byte field -/
def exCMsg : CMsg :=
  { hdrSize := 8, blOff := 0, blSize := 2,
    level := .mk [{ rel := 0, abs := 8, size := 4, isView := false, last := true }]
      [.mk { size := 4, blOff := 0, blSize := 2, numOff := 2, numSize := 2 }
        (.mk [{ rel := 0, abs := 0, size := 2, isView := false, last := true }] [] [])] [] }

def exCCtx (n : Nat) : Ctx :=
  { base := 4096, n := n, bo := .little, buf := [6,0,1,0,1,0,0,0, 9,9,9,9, 0,0, 2,0,1,0, 7,7] }

/-- the hypotheses are satisfiable: complete image, all three members, the last one through `skip` -/
example : PtrsRepresentable (exCCtx 20) (travMsg (exCCtx 20) exCMsg { k := 2, var := .skip }).evs ∧
    NoWrap (travMsg (exCCtx 20) exCMsg { k := 2, var := .skip }).evs ∧
    guard (travMsg (exCCtx 20) exCMsg { k := 2, var := .skip }).evs = true ∧
    (travMsg (exCCtx 20) exCMsg { k := 2, var := .skip }).ptr = 20 := by decide

/-- … and with a setter run: the entry's field written through `dont_move` -/
example : PtrsRepresentable (exCCtx 20) (travMsg (exCCtx 20) exCMsg { k := 2, var := .dontMove, set := true }).evs ∧
    NoWrap (travMsg (exCCtx 20) exCMsg { k := 2, var := .dontMove, set := true }).evs ∧
    guard (travMsg (exCCtx 20) exCMsg { k := 2, var := .dontMove, set := true }).evs = true ∧
    touches (travMsg (exCCtx 20) exCMsg { k := 2, var := .dontMove, set := true }).evs =
      [(8, 4), (0, 2), (0, 2), (14, 2), (16, 2), (18, 2)] := by decide

def guard_sound_cursor_full : Prop :=
  ∀ (c : Ctx) (m : CMsg) (tg : Target), c.WF → IsBytes c.buf →
    ∀ k, run c.n (travMsg c m tg).evs 0 ≠ .fault k

/-- the former witness (cursor moved past the end by `blockLength`) now asserts -/
example : run 12 (travMsg (exCCtx 12) exCMsg { k := 2, var := .plain }).evs 0 = .assertFailed 12 := by decide

/-- header of 10 bytes whose 8-byte blockLength holds 2^64 - 10, one data member (2-byte length) -/
def exCMsg64 : CMsg := { hdrSize := 10, blOff := 0, blSize := 8, level := .mk [] [] [⟨2⟩] }

def exCCtx64 (n : Nat) : Ctx :=
  { base := 4096, n := n, bo := .little, buf := [246,255,255,255,255,255,255,255, 0,0, 1,0, 7] }

/-- witness: `m.d(c)`: the cursor is set to `10 + blockLength = 2^64` bytes behind the buffer start:
    the pointer arithmetic overflows (in C++ it wraps back to the buffer start), the check on that
    pointer passes and the length prefix is read through it -/
theorem guard_sound_cursor_full_false : ¬ guard_sound_cursor_full := by
  intro h
  exact h (exCCtx64 13) exCMsg64 { k := 0, var := .plain } (by decide) (by decide) 6 (by decide)

/-! ### cursor setters (`v.NAME(value, c)`, `cursor::set_value` / `set_last_value` and the wrappers) -/

/-- tie to the code: the `set_value` / `set_last_value` functions of sbepp.hpp are exactly those the
    model evaluates (`detail::set_value`; `plainSite`, `initSite`, `dontMoveSite`, `initDontMoveSite` with
    `w = true`; `skip_cursor_wrapper` has none), each with its size check LAST among its checks and
    textually before the write -/
theorem cursor_setter_sites_extracted :
    (sites.filter (fun s => s.fn == "set_value" || s.fn == "set_last_value")).map
        (fun s => (s.cls, s.fn, s.checks.length, s.checkBeforeAccess && !s.failed)) =
      [("detail", "set_value", 1, true),
       ("cursor", "set_value", 2, true), ("cursor", "set_last_value", 2, true),
       ("init_cursor_wrapper", "set_value", 1, true), ("init_cursor_wrapper", "set_last_value", 1, true),
       ("init_dont_move_cursor_wrapper", "set_value", 1, true),
       ("dont_move_cursor_wrapper", "set_value", 2, true), ("dont_move_cursor_wrapper", "set_last_value", 2, true)] ∧
    [plainSite false true, plainSite true true, initSite false true, initSite true true, dontMoveSite false true,
      dontMoveSite true true, initDontMoveSite true].map (fun s => (s.cls, s.fn)) =
      [("cursor", "set_value"), ("cursor", "set_last_value"), ("init_cursor_wrapper", "set_value"),
       ("init_cursor_wrapper", "set_last_value"), ("dont_move_cursor_wrapper", "set_value"),
       ("dont_move_cursor_wrapper", "set_last_value"), ("init_dont_move_cursor_wrapper", "set_value")] := by
  decide

/-- a cursor setter performs the assertion and the size check of the getter of the same wrapper (with
    the same value), writes exactly the bytes that getter reads and leaves the cursor where the
    getter leaves it — the specification of a setter run therefore is that of the getter run -/
theorem cursor_setter_as_getter (c : Ctx) (v : CView) (f : CField) (ptr : Nat) (var : CVar) :
    (curScalar c v f ptr true var).1.map Ev.asRead = (curScalar c v f ptr false var).1.map Ev.asRead ∧
    (curScalar c v f ptr true var).2 = (curScalar c v f ptr false var).2 :=
  curScalar_set_eq c v f ptr var

/-- the form the canary buffers observe: a traversal that returns normally — the target written
    through a setter or read — has not written behind the view -/
theorem no_silent_write_cursor (c : Ctx) (m : CMsg) (tg : Target) (slack : Nat) (dirty : Bool)
    (hwf : c.WF) (hb : IsBytes c.buf)
    (hv : PtrsRepresentable c (travMsg c m tg).evs) (hnw : NoWrap (travMsg c m tg).evs)
    (hr : runCanary c.n slack (travMsg c m tg).evs 0 false = (.ok, dirty)) : dirty = false := by
  have h := runCanary_ok c.n slack _ 0 false dirty hr
  exact h.2 (guard_sound_cursor_partial c m tg hwf hb hv hnw h.1)

/-- header 8 bytes (blockLength u16 at 0), block of 20 bytes: `a` u32 at 0, an 8-byte gap, `b` u32 at
    12 (cursor-relative offset 8), `c` u32 at 16 -/
def exGapMsg : CMsg :=
  { hdrSize := 8, blOff := 0, blSize := 2,
    level := .mk [{ rel := 0, abs := 8, size := 4, isView := false, last := false },
                  { rel := 8, abs := 20, size := 4, isView := false, last := false },
                  { rel := 0, abs := 24, size := 4, isView := false, last := true }] [] [] }

def exGapCtx (n : Nat) : Ctx :=
  { base := 4096, n := n, bo := .little, buf := [20,0,1,0,1,0,0,0, 1,1,1,1, 0,0,0,0,0,0,0,0, 2,2,2,2, 3,3,3,3] }

/-- `m.a(c); m.b(value, c)` on a view that ends inside the gap (n = 16) and everywhere up to the last
    byte of `b` (n = 23): the size check of `set_value` (event 4: header check, assertion and check
    and read of `a`, assertion of `b`) fails, nothing is written; from n = 24 on the write is inside -/
example : (List.range 29).map (fun n => run n (travMsg (exGapCtx n) exGapMsg { k := 1, var := .plain, set := true }).evs 0) =
    List.replicate 8 (.assertFailed 0) ++ List.replicate 4 (.assertFailed 2) ++ List.replicate 12 (.assertFailed 5)
      ++ List.replicate 5 .ok := by decide

example : touches (travMsg (exGapCtx 24) exGapMsg { k := 1, var := .plain, set := true }).evs = [(8, 4), (20, 4)] ∧
    runCanary 24 64 (travMsg (exGapCtx 24) exGapMsg { k := 1, var := .plain, set := true }).evs 0 false = (.ok, false) ∧
    runCanary 16 64 (travMsg (exGapCtx 16) exGapMsg { k := 1, var := .plain, set := true }).evs 0 false
      = (.assertFailed 5, false) := by decide

/-- why the ORDER matters: the same setter with its check evaluated at the cursor BEFORE the cursor is
    advanced over the gap (`SBEPP_SIZE_CHECK(ptr, end, 0, sizeof(T)); ptr += offset; write`) passes on
    n = 16 and writes `[20, 24)` behind the view: events that are not `Covered` -/
example : run 16 [.check 12 0 4 (sizeCheck (4096 + 12) (4096 + 16) 0 4), .touch 20 4 true] 0 = .fault 1 ∧
    runCanary 16 64 [.check 12 0 4 (sizeCheck (4096 + 12) (4096 + 16) 0 4), .touch 20 4 true] 0 false = (.ok, true) := by
  decide

/-! ### completeness: no spurious assertion -/

/-- if the bytes guarded by every check of the chain lie inside the buffer and the documented
    preconditions hold, no check fails -/
theorem guard_complete_partial (c : Ctx) (m : MsgL) (ops : List Op) (evs : List Ev)
    (hwf : c.WF) (hb : IsBytes c.buf) (hok : opsOk c (.msg m) ops = true)
    (hw : walk c (.msg m) ops = some evs) (hni : NeedsInside c evs) (ha : AssertsHold evs) :
    guard evs = true := by
  have hn : c.base + c.n < 2^63 := by have := hwf.2; omega
  exact complete_of_faithful c hwf evs
    (walk_faithful c hn (canon_of_isBytes c hb) ops (.msg m) evs trivial hok hw) hni ha

example : ∃ evs, walk (exCtx 24) (.msg exMsg) [.data 0, .dElem 1 false] = some evs ∧
    NeedsInside (exCtx 24) evs ∧ AssertsHold evs :=
  ⟨_, rfl, by decide, by decide⟩

/-- full strength: it is enough that the TOUCHED bytes lie inside -/
def guard_complete_touch_full : Prop :=
  ∀ (c : Ctx) (m : MsgL) (ops : List Op) (evs : List Ev), c.WF → IsBytes c.buf →
    opsOk c (.msg m) ops = true → walk c (.msg m) ops = some evs → AssertsHold evs →
    allInside c.n (touches evs) = true → guard evs = true

/-- witness: `n = 14`: `m.g()` then `get_header(g).blockLength()`: the call touches `[12, 14)` only
    but `get_header` checks the whole 4-byte dimension: the checks are conservative by design
    (a view requires its complete header / array / payload) -/
theorem guard_complete_touch_full_false : ¬ guard_complete_touch_full := by
  intro h
  have := h (exCtx 14) exMsg [.grp 0, .header, .field 0 2 false] _ (by decide) (by decide) (by decide) rfl
    (by decide) (by decide)
  exact absurd this (by decide)

end Sbepp.Properties.C10
