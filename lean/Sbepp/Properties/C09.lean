/-
  C09 — sbeppc is total: exit 0 or a diagnostic, never a crash; a rejected
  schema leaves no generated files.

  The theorems are about `Sbepp.Gen.Pipeline.run` (see that file for what is
  transliterated and what is abstract) and about the list of unchecked-access
  sites the translator extracts from the sbeppc sources on every run
  (`Sbepp.Extracted.uncheckedSites`).
-/
import Sbepp.Gen.Pipeline
import Sbepp.Lemmas.Pipeline
import Sbepp.Extracted.UncheckedSites

namespace Sbepp.Properties.C09
open Sbepp.Gen.Pipeline

/-! ## the tie to the sources: every extracted site is classified -/

def keyOf (s : Sbepp.Extracted.Site) : SiteKey := (s.1, s.2.1, s.2.2.1, s.2.2.2.2)

/-- **unchecked_sites_covered**: the guard table lists exactly the extracted
    sites, in extraction order.  A new `.at(`, `std::get<`, optional
    dereference, `assert(`, … in the sbeppc sources, a removed one, or a changed
    source line makes this fail until the table is revisited. -/
theorem unchecked_sites_covered : Sbepp.Extracted.uncheckedSites.map keyOf = guardTable.map (·.1) := by
  decide +kernel

/-- keys are unique, so `guardOf` finds the entry written for the site -/
theorem guard_table_nodup : (guardTable.map (·.1)).Nodup := by
  decide +kernel

/-- every extracted site has a guard classification -/
theorem every_site_classified : ∀ s ∈ Sbepp.Extracted.uncheckedSites, (guardOf (keyOf s)).isSome = true := by
  decide +kernel

/-- the six triggers are located at extracted sites that the table marks unguarded -/
theorem trigger_sites_unguarded : ∀ t : Trigger, guardOf (siteOf t) = some (.unguarded t) := by
  intro t; cases t <;> decide

/-! ## full-strength statements and their refutations on the current tree -/

/-- **run_no_crash** (full strength): whatever the command line, the file
    system and the abstract parts do, sbeppc does not crash. -/
def run_no_crash : Prop :=
  ∀ (env : Env) (fuel : Nat) (argv : List String) (fs : FS), Sound env →
    (run env fuel argv fs).outcome.isCrash = false

/-- an environment in which nothing abstract interferes: every check passes,
    no guarded site fails, three files are emitted, the OS never refuses -/
def envOk : Env :=
  { stackLimit := 1000, parseDiag := fun _ => none, validate := fun _ _ => none, siteFails := fun _ _ => false,
    dirs := fun _ _ => ["out/s/schema", "out/s/types", "out/s/messages"],
    files := fun _ _ => ["out/s/types/T.hpp", "out/s/schema/schema.hpp", "out/s/s.hpp"],
    mkdirFails := fun _ => false, openFails := fun _ => false }

theorem envOk_sound : Sound envOk := by
  intro e _ cfg p h
  simp [envOk] at h

def schemaNode : TNode := { attrs := [("package", "s"), ("id", "1"), ("version", "0")] }
def hdrType (name : String) : TNode := { kind := .type, attrs := [("name", name), ("primitiveType", "uint16")], depth := 1 }
def goodTypes : Item :=
  .types {} [{ kind := .composite, attrs := [("name", "messageHeader")] }, hdrType "blockLength", hdrType "templateId",
             hdrType "schemaId", hdrType "version"]
def goodDoc : Xml := .doc [.schema schemaNode [goodTypes, .message { kind := .message, attrs := [("name", "M"), ("id", "1")] } []]]
def argvOf (file : String) : List String := ["sbeppc", "--output-dir", "out", file]

/-- witness 1 (`main.cpp`: `reporter.error(e.what())`): `sbeppc -{}` — the text
    "unknown argument: `-{}`" is used as a {fmt} format string -/
theorem witness_brace_arg :
    (run envOk 1 ["sbeppc", "-{}"] []).outcome = .crash (siteOf .diagHasBrace) := by decide +kernel

/-- the same through a schema text: a file name with a brace that does not exist -/
theorem witness_brace_path :
    (run envOk 1 (argvOf "no{such}.xml") []).outcome = .crash (siteOf .diagHasBrace) := by decide +kernel

/-- witness 2 (`fs_provider::read_file`): FILE is a directory -/
theorem witness_directory :
    (run envOk 1 (argvOf "adir") [("adir", .dir)]).outcome = .crash (siteOf .inputIsDirectory) := by decide +kernel

/-- witness 3 (`parse_type_encoding`): `<type name="K" primitiveType="char" presence="constant"/>` -/
def constCharDoc : Xml :=
  .doc [.schema schemaNode [goodTypes, .types {} [
    { kind := .type, depth := 1, attrs := [("name", "K"), ("primitiveType", "char"), ("presence", "constant")] }]]]
theorem witness_const_char :
    (run envOk 1 (argvOf "s.xml") [("s.xml", .file constCharDoc)]).outcome = .crash (siteOf .constCharNoValue) := by
  decide +kernel

/-- the same access for a *valid* schema: a `char` constant given by `valueRef` -/
def constCharValueRefDoc : Xml :=
  .doc [.schema schemaNode [goodTypes, .types {} [
    { kind := .type, depth := 1,
      attrs := [("name", "K"), ("primitiveType", "char"), ("presence", "constant"), ("valueRef", "E.A")] }]]]
theorem witness_const_char_value_ref :
    (run envOk 1 (argvOf "s.xml") [("s.xml", .file constCharValueRefDoc)]).outcome = .crash (siteOf .constCharNoValue) := by
  decide +kernel

/-- witness 4 (`parse_include`): a document whose top level includes itself -/
def selfIncl : Xml := .doc [.incl { attrs := [("href", "self.xml")] }]
def cycFs : FS :=
  [("s.xml", .file (.doc [.schema schemaNode [.incl { attrs := [("href", "self.xml")] }, goodTypes]])),
   ("self.xml", .file selfIncl)]
theorem witness_include_cycle :
    (run envOk 50 (argvOf "s.xml") cycFs).outcome = .crash (siteOf .includeCycle) := by decide +kernel

/-- witness 5: element nesting deeper than the stack survives -/
def deepDoc : Xml :=
  .doc [.schema schemaNode [.types {} [{ kind := .composite, attrs := [("name", "c")], depth := 1001 }]]]
theorem witness_depth :
    (run envOk 1 (argvOf "s.xml") [("s.xml", .file deepDoc)]).outcome = .crash (siteOf .nestingTooDeep) := by
  decide +kernel

/-- witness 6 (`location_manager::find`): a parse error reported at an offset
    behind the file content (truncated / transcoded input) -/
theorem witness_offset :
    (run envOk 1 (argvOf "s.xml") [("s.xml", .file (.malformed "Error parsing start element tag" false))]).outcome
      = .crash (siteOf .offsetBeyondContent) := by decide +kernel

theorem run_no_crash_false : ¬ run_no_crash := by
  intro h
  have := h envOk 1 ["sbeppc", "-{}"] [] envOk_sound
  rw [witness_brace_arg] at this
  simp [Outcome.isCrash] at this

/-- a well-formed run, for contrast (non-vacuity of everything below) -/
theorem good_run :
    run envOk 1 (argvOf "s.xml") [("s.xml", .file goodDoc)] =
      ⟨.ok ["out/s/types/T.hpp", "out/s/schema/schema.hpp", "out/s/s.hpp"],
       ["out/s/types/T.hpp", "out/s/schema/schema.hpp", "out/s/s.hpp"]⟩ := by decide +kernel

/-! ## what is proved: crashes only at the unguarded sites; none without their triggers -/

/-- the diagnostic text that reaches `reporter.error(e.what())`, if any -/
def diagText (env : Env) (fuel : Nat) (argv : List String) (fs : FS) : Option String :=
  match front env fuel argv fs with
  | .error (.p (.diag m)) => some m
  | .error _ => none
  | .ok none => none
  | .ok (some (cfg, p)) => (emit env cfg p).1

/-- **crash_only_at_unguarded**: if the guard table's claims about the guarded
    sites hold, every crash of the model happens at a site the table marks
    `unguarded`. -/
theorem crash_only_at_unguarded (env : Env) (fuel : Nat) (argv : List String) (fs : FS) (hs : Sound env)
    (s : SiteKey) (h : (run env fuel argv fs).outcome = .crash s) : ∃ t, guardOf s = some (.unguarded t) := by
  have key : ∀ m, reportDiag m = .crash s → ∃ t, guardOf s = some (.unguarded t) := by
    intro m hm
    unfold reportDiag at hm
    split at hm
    · cases hm
    · cases hm; exact ⟨_, trigger_sites_unguarded _⟩
  unfold run at h
  split at h
  · rename_i e he
    cases e with
    | p ps =>
      cases ps with
      | diag m => exact key m h
      | crash t => simp only [report] at h; cases h; exact ⟨_, trigger_sites_unguarded _⟩
      | fuel => simp only [report] at h; cases h; exact ⟨_, trigger_sites_unguarded _⟩
    | guarded g => exact absurd he (sound_no_guarded hs)
  · cases h
  · split at h
    · cases h
    · exact key _ h

/-- the triggers excluded on the input side: no directory is read, parse errors
    and node offsets lie inside the file, nesting stays below the stack limit,
    no constant `char` type lacks both content and `length`, the include graph is
    acyclic (decreases `rank`) and the fuel exceeds it, and the diagnostic text —
    if there is one — has no unescaped brace -/
structure NoTrigger (env : Env) (fuel : Nat) (argv : List String) (fs : FS) (rank : String → Nat) : Prop where
  fsok : FsOk IsDiag env fs
  acyclic : Acyclic fs rank
  fuelOk : ∀ p, rank p ≤ fuel
  brace : ∀ m, diagText env fuel argv fs = some m → fmtSafe m = true

/-- **run_no_crash_partial**: the model never crashes on an input that has none
    of the six triggers. -/
theorem run_no_crash_partial (env : Env) (fuel : Nat) (argv : List String) (fs : FS) (rank : String → Nat)
    (hs : Sound env) (hn : NoTrigger env fuel argv fs rank) : (run env fuel argv fs).outcome.isCrash = false := by
  have hb := hn.brace
  unfold diagText at hb
  unfold run
  split
  · rename_i e he
    rw [he] at hb
    cases e with
    | p ps =>
      cases ps with
      | diag m =>
        have := hb m rfl
        simp [report, reportDiag, this, Outcome.isCrash]
      | crash t =>
        rcases front_error_p he with ⟨m, hm⟩ | ⟨cfg, _, hp⟩
        · cases hm
        · exact absurd (errs_parseMain diagOk_isDiag hn.fsok hn.acyclic fuel cfg.file (hn.fuelOk _) _ hp) (by simp [IsDiag])
      | fuel =>
        rcases front_error_p he with ⟨m, hm⟩ | ⟨cfg, _, hp⟩
        · cases hm
        · exact absurd (errs_parseMain diagOk_isDiag hn.fsok hn.acyclic fuel cfg.file (hn.fuelOk _) _ hp) (by simp [IsDiag])
    | guarded g => exact absurd he (sound_no_guarded hs)
  · rfl
  · rename_i cfg p hf
    rw [hf] at hb
    split
    · rfl
    · rename_i m w hm
      have := hb m (by simp [hm])
      simp [reportDiag, this, Outcome.isCrash]

/-- non-vacuity: the well-formed run satisfies every hypothesis -/
example : NoTrigger envOk 1 (argvOf "s.xml") [("s.xml", .file goodDoc)] (fun _ => 0) :=
  have h := fsOk_of_entries envOk [("s.xml", .file goodDoc)] (fun _ => 0) (by decide +kernel)
  { fsok := h.1, acyclic := h.2, fuelOk := fun _ => by omega,
    brace := by
      intro m hm
      have : diagText envOk 1 (argvOf "s.xml") [("s.xml", .file goodDoc)] = none := by decide +kernel
      rw [this] at hm; cases hm }

/-! ## termination: fuel bound from the include graph; a cycle exhausts every fuel -/

/-- **run_terminates**: for an acyclic include graph (one that decreases some
    `rank`) any fuel at least the largest rank suffices — the model never runs
    out of fuel, i.e. the nesting of `schema_parser` instances is bounded. -/
theorem run_terminates (env : Env) (fuel : Nat) (argv : List String) (fs : FS) (rank : String → Nat)
    (hac : Acyclic fs rank) (hf : ∀ p, rank p ≤ fuel) : front env fuel argv fs ≠ .error (.p .fuel) := by
  intro h
  rcases front_error_p h with ⟨m, hm⟩ | ⟨cfg, _, hp⟩
  · cases hm
  · exact errs_parseMain diagOk_notFuel (fsOk_notFuel env fs) hac fuel cfg.file (hf _) _ hp

/-- **run_fuel_stable**: beyond that bound more fuel changes nothing — the
    result is that of the unbounded recursion. -/
theorem run_fuel_stable (env : Env) (f1 f2 : Nat) (argv : List String) (fs : FS) (rank : String → Nat)
    (hac : Acyclic fs rank) (h1 : ∀ p, rank p ≤ f1) (h2 : ∀ p, rank p ≤ f2) :
    run env f1 argv fs = run env f2 argv fs := by
  have : front env f1 argv fs = front env f2 argv fs := by
    unfold front
    split
    · rfl
    · rfl
    · rename_i cfg _
      rw [parseMain_fuel_stable hac f1 f2 cfg.file (h1 _) (h2 _)]
  unfold run
  rw [this]

/-- non-vacuity: an include graph main → a → b with its rank -/
def chainFs : FS :=
  [("s.xml", .file (.doc [.schema schemaNode [.incl { attrs := [("href", "a.xml")] }]])),
   ("a.xml", .file (.doc [.incl { attrs := [("href", "b.xml")] }])),
   ("b.xml", .file (.doc [goodTypes]))]
def chainRank (p : String) : Nat := if p = "s.xml" then 2 else if p = "a.xml" then 1 else 0
example : Acyclic chainFs chainRank ∧ (∀ p, chainRank p ≤ 2) :=
  ⟨(fsOk_of_entries envOk chainFs chainRank (by decide +kernel)).2, fun p => by unfold chainRank; split <;> (try split) <;> omega⟩
example : (run envOk 2 (argvOf "s.xml") chainFs).outcome
    = .ok ["out/s/types/T.hpp", "out/s/schema/schema.hpp", "out/s/s.hpp"] := by decide +kernel
/-- with less fuel than the chain is long the bound is really needed -/
example : front envOk 1 (argvOf "s.xml") chainFs = .error (.p .fuel) := by rfl

theorem selfIncl_any_fuel : ∀ (fuel : Nat) (path : String) (acc : Parsed),
    parseIncl envOk cycFs path fuel { attrs := [("href", "self.xml")] } acc = .error .fuel
  | 0, path, acc => by
    unfold parseIncl
    have : requiredNonEmpty path { attrs := [("href", "self.xml")] } "href" = .ok "self.xml" := by rfl
    rw [this]; rfl
  | fuel + 1, path, acc => by
    unfold parseIncl
    have h1 : requiredNonEmpty path { attrs := [("href", "self.xml")] } "href" = .ok "self.xml" := by rfl
    have h2 : loadDoc cycFs "self.xml" = .ok [.incl { attrs := [("href", "self.xml")] }] := by rfl
    rw [h1]
    simp only [bind, Except.bind, h2]
    unfold parseItemsWith
    simp only [bind, Except.bind, selfIncl_any_fuel fuel "self.xml" acc]

/-- **include_cycle_exhausts_any_fuel**: for the self-including document no
    fuel suffices: the recursion `parse_include → schema_parser →
    parse_schema_content → parse_include` is unbounded in the C++ (which has no
    fuel): stack exhaustion. -/
theorem include_cycle_exhausts_any_fuel (fuel : Nat) :
    front envOk fuel (argvOf "s.xml") cycFs = .error (.p .fuel) := by
  have hp : parseMain envOk cycFs fuel "s.xml" = .error .fuel := by
    unfold parseMain
    have h1 : loadDoc cycFs "s.xml"
        = .ok [.schema schemaNode [.incl { attrs := [("href", "self.xml")] }, goodTypes]] := by rfl
    have h2 : findSchema "s.xml" [.schema schemaNode [.incl { attrs := [("href", "self.xml")] }, goodTypes]]
        = .ok (schemaNode, [.incl { attrs := [("href", "self.xml")] }, goodTypes]) := by rfl
    have h3 : parseSchemaAttrs "s.xml" schemaNode = .ok () := by rfl
    simp only [bind, Except.bind, h1, h2, h3]
    unfold parseItemsWith
    simp only [bind, Except.bind, selfIncl_any_fuel fuel "s.xml" _]
  have hc : parseCommandLine (argvOf "s.xml") = .go { file := "s.xml", outputDir := "out" } := by decide +kernel
  unfold front
  rw [hc]
  simp only [hp]

/-! ## a rejected schema leaves no generated files -/

/-- **rejected_leaves_no_files** (full strength): a diagnostic outcome implies
    that no generated file is on disk. -/
def rejected_leaves_no_files : Prop :=
  ∀ (env : Env) (fuel : Nat) (argv : List String) (fs : FS) (m : String), Sound env →
    (run env fuel argv fs).outcome = .diag m → (run env fuel argv fs).written = []

/-- the operating system refuses the second output file (for instance because
    the file name built from a schema/type/message name exceeds NAME_MAX) -/
def envOpenFails : Env := { envOk with openFails := fun f => f = "out/s/schema/schema.hpp" }

theorem envOpenFails_sound : Sound envOpenFails := by
  intro e _ cfg p h
  simp [envOpenFails, envOk] at h

theorem witness_files_after_reject :
    run envOpenFails 1 (argvOf "s.xml") [("s.xml", .file goodDoc)]
      = ⟨.diag "can't open file: `out/s/schema/schema.hpp`", ["out/s/types/T.hpp"]⟩ := by decide +kernel

theorem rejected_leaves_no_files_false : ¬ rejected_leaves_no_files := by
  intro h
  have := h envOpenFails 1 (argvOf "s.xml") [("s.xml", .file goodDoc)] _ envOpenFails_sound
    (by rw [witness_files_after_reject])
  rw [witness_files_after_reject] at this
  cases this

/-- **rejected_leaves_no_files_partial**: validation strictly precedes
    emission — every diagnostic of the parser, the validators and the names
    generator, and a failing `create_directories`, is raised before the first
    `write_file`.  The only diagnostic that can follow a write is `write_file`'s
    own "can't open file" for a later output file. -/
theorem rejected_leaves_no_files_partial (env : Env) (fuel : Nat) (argv : List String) (fs : FS) (m : String)
    (h : (run env fuel argv fs).outcome = .diag m) :
    (run env fuel argv fs).written = [] ∨ ∃ f, env.openFails f = true ∧ m = "can't open file: `" ++ f ++ "`" := by
  rcases run_cases env fuel argv fs with ⟨e, hr⟩ | hr | ⟨cfg, p, _, ⟨d, hr⟩ | hr | ⟨f, w, hf, hr⟩⟩
  · left; rw [hr]
  · left; rw [hr]
  · left; rw [hr]
  · rw [hr] at h; cases h
  · right
    rw [hr] at h
    exact ⟨f, hf, (reportDiag_diag h).symm⟩

/-- if the operating system never refuses an output file, a diagnostic leaves no file -/
theorem rejected_leaves_no_files_if_open_succeeds (env : Env) (fuel : Nat) (argv : List String) (fs : FS) (m : String)
    (ho : ∀ f, env.openFails f = false) (h : (run env fuel argv fs).outcome = .diag m) :
    (run env fuel argv fs).written = [] := by
  rcases rejected_leaves_no_files_partial env fuel argv fs m h with h' | ⟨f, hf, _⟩
  · exact h'
  · rw [ho f] at hf; cases hf

/-- **ok_writes_all_files**: exit 0 after a compilation means that every file
    of the emission was written, in order. -/
theorem ok_writes_all_files (env : Env) (fuel : Nat) (argv : List String) (fs : FS) (files : List String)
    (h : (run env fuel argv fs).outcome = .ok files) :
    (run env fuel argv fs).written = files ∧
      (files = [] ∨ ∃ cfg p, front env fuel argv fs = .ok (some (cfg, p)) ∧ files = env.files cfg p) := by
  rcases run_cases env fuel argv fs with ⟨e, hr⟩ | hr | ⟨cfg, p, hfr, ⟨d, hr⟩ | hr | ⟨f, w, hf, hr⟩⟩
  · rw [hr] at h
    exfalso
    cases e with
    | p ps =>
      cases ps with
      | diag m => exact reportDiag_not_ok h
      | crash t => cases h
      | fuel => cases h
    | guarded g => cases h
  · rw [hr] at h ⊢; cases h; exact ⟨rfl, Or.inl rfl⟩
  · rw [hr] at h; exact absurd h reportDiag_not_ok
  · rw [hr] at h ⊢; cases h; exact ⟨rfl, Or.inr ⟨cfg, p, hfr, rfl⟩⟩
  · rw [hr] at h; exact absurd h reportDiag_not_ok

/-! ## {fmt}: which diagnostics are safe -/

/-- a diagnostic assembled from brace-free pieces is a safe format string -/
theorem fmtSafe_of_no_brace (s : String) (h : braceFree s) : fmtSafe s = true := fmtSafe_of_braceFree s h

example : fmtSafe "missing filename" = true ∧ fmtSafe "x.xml:1:1: `a{b` is not a valid SBE name" = false ∧
    fmtSafe "doubled {{ and }} pass (and print single braces)" = true := by decide

end Sbepp.Properties.C09
