/-
  C09 — sbeppc is total: exit 0 or a diagnostic, never a crash; a rejected
  schema leaves no generated files.

  The theorems are about `Sbepp.Gen.Pipeline.run` (see that file for what is
  transliterated and what is abstract) and about the list of unchecked-access
  sites the translator extracts from the sbeppc sources on every run
  (`Sbepp.Extracted.uncheckedSites`).

  State of the tree this file describes: braces in diagnostics, a directory as
  input, the constant-`char` length deduction, include cycles, offsets past the
  content and the element nesting depth (limit 64) are fixed in `/repo`; their
  former refutations are positive theorems below and `run_no_crash` holds at
  full strength.  Still open: files left behind when an output file cannot be
  opened (`rejected_leaves_no_files` stays refuted by
  `witness_files_after_reject`).
-/
import Sbepp.Gen.Pipeline
import Sbepp.Lemmas.Pipeline
import Sbepp.Extracted.UncheckedSites

namespace Sbepp.Properties.C09
open Sbepp.Gen.Pipeline

/-! ## the tie to the sources: every extracted site is classified -/

def keyOf (s : Sbepp.Extracted.Site) : SiteKey := (s.1, s.2.1, s.2.2.1, s.2.2.2.2)

/-- **unchecked_sites_covered**: the guard table lists exactly the extracted
    sites, in extraction order.  A new `.at(`, `std::get<`, optional
    dereference, `assert(`, run-time format string, … in the sbeppc sources, a
    removed one, or a changed source line makes this fail until the table is
    revisited. -/
theorem unchecked_sites_covered : Sbepp.Extracted.uncheckedSites.map keyOf = guardTable.map (·.1) := by
  decide +kernel

/-- keys are unique, so `guardOf` finds the entry written for the site -/
theorem guard_table_nodup : (guardTable.map (·.1)).Nodup := by
  decide +kernel

/-- every extracted site has a guard classification -/
theorem every_site_classified : ∀ s ∈ Sbepp.Extracted.uncheckedSites, (guardOf (keyOf s)).isSome = true := by
  decide +kernel

/-- no extracted site is left unguarded -/
theorem no_unguarded_sites : guardTable.all (fun e => !e.2.isUnguarded) = true := by
  decide +kernel

/-- the sites of the former defects are extracted sites that are guarded now -/
theorem fixed_sites_guarded :
    (guardOf includeSite).map Guard.isUnguarded = some false ∧
    (guardOf ("schema_parser.hpp", "parse_composite_elements", "recursion", "calls parse_composite_encoding")).map
      Guard.isUnguarded = some false ∧
    (guardOf ("schema_parser.hpp", "parse_group_member", "recursion", "calls get_level_members")).map
      Guard.isUnguarded = some false ∧
    (guardOf ("schema_parser.hpp", "parse_type_encoding", "optderef", "t.length = t.constant_value->size();")).map
      Guard.isUnguarded = some false ∧
    (guardOf ("fs_provider.hpp", "read_file", "resize", "data.resize(static_cast<std::size_t>(file_size));")).map
      Guard.isUnguarded = some false ∧
    (guardOf ("location_manager.hpp", "find", "frontback", "const auto& last = ranges.back();")).map
      Guard.isUnguarded = some false ∧
    guardTable.all (fun e => e.1.2.2.1 != "rtfmt") = true := by
  decide +kernel

/-! ## the model's inputs used below -/

/-- an environment in which nothing abstract interferes: every check passes,
    no guarded site fails, three files are emitted, the OS never refuses -/
def envOk : Env :=
  { parseDiag := fun _ => none, validate := fun _ _ => none, siteFails := fun _ _ => false,
    dirs := fun _ _ => ["out/s/schema", "out/s/types", "out/s/messages"],
    files := fun _ _ => ["out/s/types/T.hpp", "out/s/schema/schema.hpp", "out/s/s.hpp"],
    mkdirFails := fun _ => false, openFails := fun _ => false }

theorem envOk_sound : Sound envOk := by
  intro e _ cfg p h
  simp [envOk] at h

def schemaNode : TNode := { attrs := [("package", "s"), ("id", "1"), ("version", "0")] }
def hdrType (name : String) : TNode := { kind := .type, attrs := [("name", name), ("primitiveType", "uint16")], depth := 1 }
def goodTypes : Item :=
  .types {} [{ kind := .composite, attrs := [("name", "messageHeader")] }, hdrType "blockLength", hdrType "templateId",
             hdrType "schemaId", hdrType "version"]
def goodDoc : Xml := .doc [.schema schemaNode [goodTypes, .message { kind := .message, attrs := [("name", "M"), ("id", "1")] } []]]
def argvOf (file : String) : List String := ["sbeppc", "--output-dir", "out", file]
def threeFiles : List String := ["out/s/types/T.hpp", "out/s/schema/schema.hpp", "out/s/s.hpp"]

/-- composites nested 65 deep are refused, 64 deep are parsed -/
def nestedDoc (depth : Nat) : Xml :=
  .doc [.schema schemaNode [goodTypes, .types {} [{ kind := .composite, attrs := [("name", "c")], depth := depth }]]]
theorem deep_nesting_is_diagnosed :
    run envOk 1 (argvOf "s.xml") [("s.xml", .file (nestedDoc 65))]
      = ⟨.diag "s.xml:L:C: nesting is too deep, at most 64 levels are supported", []⟩ ∧
    (run envOk 1 (argvOf "s.xml") [("s.xml", .file (nestedDoc 100000))]).outcome
      = .diag "s.xml:L:C: nesting is too deep, at most 64 levels are supported" ∧
    (run envOk 1 (argvOf "s.xml") [("s.xml", .file (nestedDoc 64))]).outcome = .ok threeFiles := by decide +kernel

/-- a well-formed run, for contrast (non-vacuity of everything below) -/
theorem good_run :
    run envOk 1 (argvOf "s.xml") [("s.xml", .file goodDoc)] = ⟨.ok threeFiles, threeFiles⟩ := by decide +kernel

/-! ## the former witnesses are handled now (each was a crash before its `fix:` commit) -/

/-- `sbeppc -{}`: the text with braces is printed as it is -/
theorem brace_arg_is_diagnosed :
    run envOk 1 ["sbeppc", "-{}"] [] = ⟨.diag "unknown argument: `-{}`", []⟩ := by decide +kernel

/-- a missing file whose name contains braces -/
theorem brace_path_is_diagnosed :
    run envOk 1 (argvOf "no{such}.xml") [] = ⟨.diag "can't open file: `no{such}.xml`", []⟩ := by decide +kernel

/-- every diagnostic text reaches the user unchanged -/
theorem diagnostic_text_is_data (m : String) : report (.p (.diag m)) = .diag m := rfl

/-- FILE is a directory -/
theorem directory_is_diagnosed :
    run envOk 1 (argvOf "adir") [("adir", .dir)] = ⟨.diag "can't read file: `adir` is a directory", []⟩ := by
  decide +kernel

/-- an included directory -/
theorem included_directory_is_diagnosed :
    (run envOk 2 (argvOf "s.xml")
      [("s.xml", .file (.doc [.schema schemaNode [.incl { attrs := [("href", "adir")] }]])), ("adir", .dir)]).outcome
      = .diag "can't read file: `adir` is a directory" := by decide +kernel

/-- `<type name="K" primitiveType="char" presence="constant"/>` reaches the
    validator (which rejects it: neither value nor valueRef — `env.validate`) -/
def constCharDoc : Xml :=
  .doc [.schema schemaNode [goodTypes, .types {} [
    { kind := .type, depth := 1, attrs := [("name", "K"), ("primitiveType", "char"), ("presence", "constant")] }]]]
theorem const_char_is_parsed :
    (run envOk 1 (argvOf "s.xml") [("s.xml", .file constCharDoc)]).outcome = .ok threeFiles ∧
    (run { envOk with validate := fun _ _ => some "either `valueRef` or value must be provided" } 1 (argvOf "s.xml")
      [("s.xml", .file constCharDoc)]).outcome = .diag "either `valueRef` or value must be provided" := by
  decide +kernel

/-- a document whose top level includes itself: the second visit is refused -/
def cycFs : FS :=
  [("s.xml", .file (.doc [.schema schemaNode [.incl { attrs := [("href", "self.xml")] }, goodTypes]])),
   ("self.xml", .file (.doc [.incl { attrs := [("href", "self.xml")] }]))]
theorem include_cycle_is_diagnosed :
    run envOk 2 (argvOf "s.xml") cycFs = ⟨.diag "self.xml:L:C: cyclic include of `self.xml`", []⟩ := by decide +kernel

/-- including the main file again is a cycle, too -/
theorem include_of_main_is_diagnosed :
    (run envOk 1 (argvOf "s.xml")
      [("s.xml", .file (.doc [.schema schemaNode [.incl { attrs := [("href", "s.xml")] }]]))]).outcome
      = .diag "s.xml:L:C: cyclic include of `s.xml`" := by decide +kernel

/-! ## what is proved: termination and no crash, for every input -/

/-- **run_terminates**: the include stack bounds the nesting of
    `schema_parser` instances by the number of files — for *every* file system
    (cyclic include graphs included) fuel `fs.length` is never exhausted. -/
theorem run_terminates (env : Env) (fuel : Nat) (argv : List String) (fs : FS) (hf : fs.length ≤ fuel) :
    front env fuel argv fs ≠ .error (.p .fuel) := by
  intro h
  rcases front_error_p h with ⟨m, hm⟩ | ⟨cfg, _, hp⟩
  · cases hm
  · exact errs_parseMain diagOk_notFuel fuel cfg.file hf _ hp

/-- **run_fuel_stable**: beyond that bound more fuel changes nothing — the
    result is that of the C++ recursion, which has no fuel. -/
theorem run_fuel_stable (env : Env) (f1 f2 : Nat) (argv : List String) (fs : FS)
    (h1 : fs.length ≤ f1) (h2 : fs.length ≤ f2) : run env f1 argv fs = run env f2 argv fs := by
  have : front env f1 argv fs = front env f2 argv fs := by
    unfold front
    split
    · rfl
    · rfl
    · rename_i cfg _
      rw [parseMain_fuel_stable f1 f2 cfg.file h1 h2]
  unfold run
  rw [this]

/-- non-vacuity: an include chain main → a → b needs (and gets by with) fuel 2 < 3 = fs.length -/
def chainFs : FS :=
  [("s.xml", .file (.doc [.schema schemaNode [.incl { attrs := [("href", "a.xml")] }]])),
   ("a.xml", .file (.doc [.incl { attrs := [("href", "b.xml")] }])),
   ("b.xml", .file (.doc [goodTypes]))]
example : (run envOk 3 (argvOf "s.xml") chainFs).outcome = .ok threeFiles := by decide +kernel
example : front envOk 1 (argvOf "s.xml") chainFs = .error (.p .fuel) := by rfl

/-- **run_no_crash** (full strength): whatever the command line, the file
    system (missing files, directories, malformed XML, cyclic includes, any
    nesting depth, any attribute text) and the abstract stages do, the model
    does not crash — given the guard table's claims about the guarded sites
    (`Sound`) and fuel as large as the file system (`run_terminates`). -/
theorem run_no_crash (env : Env) (fuel : Nat) (argv : List String) (fs : FS)
    (hs : Sound env) (hf : fs.length ≤ fuel) : (run env fuel argv fs).outcome.isCrash = false := by
  rcases run_cases env fuel argv fs with ⟨e, he, hr⟩ | hr | ⟨cfg, p, _, ⟨d, hr⟩ | hr | ⟨f, w, _, hr⟩⟩
  · rw [hr]
    cases e with
    | p ps =>
      cases ps with
      | diag m => rfl
      | fuel => exact absurd he (run_terminates env fuel argv fs hf)
    | guarded g => exact absurd he (sound_no_guarded hs)
  all_goals (rw [hr]; rfl)

/-- non-vacuity: `envOk` is sound, and the runs above satisfy the fuel bound -/
example : Sound envOk ∧ cycFs.length ≤ 2 := ⟨envOk_sound, by decide⟩

/-! ## a rejected schema leaves no generated files -/

/-- **rejected_leaves_no_files** (full strength): a diagnostic outcome implies
    that no generated file is on disk. -/
def rejected_leaves_no_files : Prop :=
  ∀ (env : Env) (fuel : Nat) (argv : List String) (fs : FS) (m : String), Sound env →
    (run env fuel argv fs).outcome = .diag m → (run env fuel argv fs).written = []

/-- the operating system refuses the second output file (for instance because
    the file name built from a schema/type/message name exceeds NAME_MAX) -/
def envOpenFails : Env := { envOk with openFails := fun f => f = "out/s/schema/schema.hpp" }

theorem envOpenFails_sound : Sound envOpenFails := by
  intro e _ cfg p h
  simp [envOpenFails, envOk] at h

theorem witness_files_after_reject :
    run envOpenFails 1 (argvOf "s.xml") [("s.xml", .file goodDoc)]
      = ⟨.diag "can't open file: `out/s/schema/schema.hpp`", ["out/s/types/T.hpp"]⟩ := by decide +kernel

theorem rejected_leaves_no_files_false : ¬ rejected_leaves_no_files := by
  intro h
  have := h envOpenFails 1 (argvOf "s.xml") [("s.xml", .file goodDoc)] _ envOpenFails_sound
    (by rw [witness_files_after_reject])
  rw [witness_files_after_reject] at this
  cases this

/-- **rejected_leaves_no_files_partial**: validation strictly precedes
    emission — every diagnostic of the parser, the validators and the names
    generator, and a failing `create_directories`, is raised before the first
    `write_file`.  The only diagnostic that can follow a write is `write_file`'s
    own failure for a later output file. -/
theorem rejected_leaves_no_files_partial (env : Env) (fuel : Nat) (argv : List String) (fs : FS) (m : String)
    (h : (run env fuel argv fs).outcome = .diag m) :
    (run env fuel argv fs).written = [] ∨ ∃ f, env.openFails f = true ∧ m = "can't open file: `" ++ f ++ "`" := by
  rcases run_cases env fuel argv fs with ⟨e, _, hr⟩ | hr | ⟨cfg, p, _, ⟨d, hr⟩ | hr | ⟨f, w, hf, hr⟩⟩
  · left; rw [hr]
  · left; rw [hr]
  · left; rw [hr]
  · rw [hr] at h; cases h
  · right
    rw [hr] at h
    cases h
    exact ⟨f, hf, rfl⟩

/-- if the operating system never refuses an output file, a diagnostic leaves no file -/
theorem rejected_leaves_no_files_if_open_succeeds (env : Env) (fuel : Nat) (argv : List String) (fs : FS) (m : String)
    (ho : ∀ f, env.openFails f = false) (h : (run env fuel argv fs).outcome = .diag m) :
    (run env fuel argv fs).written = [] := by
  rcases rejected_leaves_no_files_partial env fuel argv fs m h with h' | ⟨f, hf, _⟩
  · exact h'
  · rw [ho f] at hf; cases hf

/-- **ok_writes_all_files**: exit 0 after a compilation means that every file
    of the emission was written, in order. -/
theorem ok_writes_all_files (env : Env) (fuel : Nat) (argv : List String) (fs : FS) (files : List String)
    (h : (run env fuel argv fs).outcome = .ok files) :
    (run env fuel argv fs).written = files ∧
      (files = [] ∨ ∃ cfg p, front env fuel argv fs = .ok (some (cfg, p)) ∧ files = env.files cfg p) := by
  rcases run_cases env fuel argv fs with ⟨e, _, hr⟩ | hr | ⟨cfg, p, hfr, ⟨d, hr⟩ | hr | ⟨f, w, hf, hr⟩⟩
  · rw [hr] at h
    exfalso
    cases e with
    | p ps => cases ps <;> cases h
    | guarded g => cases h
  · rw [hr] at h ⊢; cases h; exact ⟨rfl, Or.inl rfl⟩
  · rw [hr] at h; cases h
  · rw [hr] at h ⊢; cases h; exact ⟨rfl, Or.inr ⟨cfg, p, hfr, rfl⟩⟩
  · rw [hr] at h; cases h

end Sbepp.Properties.C09
