/-
  C07 — accepted schemas yield compilable, name-preserving headers.

  PARTIAL BY NATURE (DESIGN §10): "compiles under ten configurations" is a fact
  about compilers.  What is proved here is the logic the generator is responsible
  for, over a model of the generator (`Gen.Literals`, `Gen.Scope`) driven by the
  tables `Extracted.Tables` / `Extracted.Templates` scraped from /repo on every
  run; the compile differential (vlib/props/c07.py) ties the model to the real
  sbeppc and observes the compilers.

  Full-strength statements that the current generator violates are kept as
  `def …_full : Prop`, refuted by a kernel-checked witness (`…_full_false`), and
  proved under the exact extra hypothesis (`…_partial`).
-/
import Sbepp.Gen.Accept
import Sbepp.Lemmas.C07Literals
import Sbepp.Lemmas.C07Accept
import Sbepp.Lemmas.C07Canon
import Sbepp.Lemmas.C07Scope
import Sbepp.Lemmas.C07Params
import Sbepp.Lemmas.C07Witness
import Sbepp.Lemmas.C07WitnessScope

namespace Sbepp.Properties.C07
open Sbepp Sbepp.Schema Sbepp.Gen Sbepp.Gen.Literals Sbepp.Gen.Scope
open Sbepp.Extracted

/-! ## 1. Literal sites -/

/-- every literal the generator emits for an accepted schema is well-formed at its site and denotes the
    schema value — FALSE on the current tree.  Since ceb9ad3 / bf3e3ae the header-filler constants are no
    counterexample any more (`header_fillers_fit`); what is left is exactly `literal_sites_fit_gap` -/
def literal_sites_fit_full : Prop :=
  ∀ (s : SchemaDef) (x : SchemaTexts), Accepted s → ∀ site ∈ literalSites s x, site.verdict = .ok

/-- witness: a `float` constant field whose `valueRef` enumerator is 16777217 -/
theorem literal_sites_fit_full_false : ¬ literal_sites_fit_full := by
  intro h
  have hb := wFloatRef_bad
  simp only [List.any_eq_true, beq_iff_eq] at hb
  obtain ⟨site, hs, hv⟩ := hb
  have := h wFloatRef pkg wFloatRef_accepted site hs
  rw [hv] at this
  cases this

/-- the rendering the theorems below are about is the one `Extracted.Templates` found in /repo on this run:
    numbers are normalised (`strip_leading_zeros`, `.0`), text goes through `escape_literal` at every site,
    `value_ref_to_enumerator` records its dependency.  A revert of one of those fixes flips the flag and these
    obligations stop building -/
theorem rendering_flags :
    Templates.stripsLeadingZeros = true ∧ Templates.floatDotZero = true ∧ Templates.escapesLiterals = true ∧
    Templates.valueRefRecordsDependency = true := by decide

/-- the former literal defect classes (quote in a description, `minValue="08"`, `minValue="16777217"` of a
    float type, the enumerator `'`, text with every special character): accepted, every site well-formed -/
theorem fixed_literal_classes :
    (Accepted wQuote ∧ (literalSites wQuote pkg).all (fun s => s.verdict == .ok) = true) ∧
    (Accepted wOctal ∧ (literalSites wOctal pkg).all (fun s => s.verdict == .ok) = true) ∧
    (Accepted wFloatInexact ∧ (literalSites wFloatInexact pkg).all (fun s => s.verdict == .ok) = true) ∧
    (Accepted wCharQuote ∧ (literalSites wCharQuote pkg).all (fun s => s.verdict == .ok) = true) ∧
    (Accepted wNasty ∧ (literalSites wNasty pkg).all (fun s => s.verdict == .ok) = true) :=
  ⟨fixed_literal_witnesses.1, fixed_literal_witnesses.2.1, fixed_literal_witnesses.2.2.1,
   fixed_literal_witnesses.2.2.2, wNasty_fact.1, wNasty_fact.2.1⟩

/-- **literal_sites_fit (partial)**: a site whose value passed the check sbeppc applies to it (`validated`:
    `value_fits_into_type`, the parser's integer widths) and whose input is outside the remaining defect
    classes (`plain`: a header-filler constant fits the header member it is braced into; an enumerator behind a
    `valueRef` converts exactly to a floating-point constant type) is a well-formed C++ literal of the schema
    value at its site -/
theorem literal_sites_fit_partial (s : SchemaDef) (x : SchemaTexts) :
    ∀ site ∈ literalSites s x, site.validated = true → site.plain = true → site.verdict = .ok :=
  fun site _ hv hp => site_fits site hv hp

/-- **header_fillers_fit**: in an accepted schema every constant a header filler writes — schema id, template
    id, version, the block length of every level, the numbers of groups and of data members where the header has
    those counters — is braced into an integer (or char) header member that can hold it: a well-formed constant
    expression of the schema value.  (Acceptance carries the validator rules of bf3e3ae and ceb9ad3, stated on the
    header member the generator resolves and the block length `Schema.Resolve` computes.) -/
theorem header_fillers_fit (s : SchemaDef) (x : SchemaTexts) (ha : Accepted s) :
    ∀ site ∈ literalSites s x, site.isFiller = true → site.verdict = .ok :=
  fun site hm hf =>
    site_fits_checked site rendering_flags.1 rendering_flags.2.1 rendering_flags.2.2.1
      (fillers_validated s x (acceptedB_parts s ha).2.2.2.2.2.2.1 site hm hf) (filler_not_unchecked site hf)

/-- the range rule of this model is the validator's `representable member_prim (toString value)` (the
    formulation `Spec.Rules.headerValueViols` uses and C08 proves equivalent to the validator model) -/
theorem filler_range_is_representable (p : Prim) (n : Nat) (hf : p.isFloat = false) :
    Spec.Rules.representable p.name (toString n) = inPrimRange p (n : Int) :=
  representable_toString p n hf

/-- **literal_sites_fit_checked**: every site that carries an explicit schema value or schema text — min / max /
    null, constants, enumerators, ids, versions, offsets, lengths, every description, semantic type, character
    encoding, package, semantic version, string and character constant, header-filler constant — is well-formed
    as soon as the value passed sbeppc's own check; only `valueRef` enumerators braced into a `float` / `double`
    constant type, which sbeppc checks as text with `strtof`, are left out -/
theorem literal_sites_fit_checked (s : SchemaDef) (x : SchemaTexts) :
    ∀ site ∈ literalSites s x, site.validated = true → site.unchecked = false → site.verdict = .ok :=
  fun site _ hv hu =>
    site_fits_checked site rendering_flags.1 rendering_flags.2.1 rendering_flags.2.2.1 hv hu

/-- **literal_sites_fit_gap**: the exact remaining gap of `literal_sites_fit_full`.  In an accepted schema a
    site that is a header-filler constant or passed sbeppc's check of its value, and is nevertheless not a
    well-formed literal of the schema value, is the enumerator of a `valueRef` braced into a floating-point
    constant type (or the model's placeholder for a `valueRef` that does not resolve) -/
theorem literal_sites_fit_gap (s : SchemaDef) (x : SchemaTexts) (ha : Accepted s) :
    ∀ site ∈ literalSites s x, (site.isFiller = true ∨ site.validated = true) → site.verdict ≠ .ok →
      ∃ p v, site.target = .prim p ∧ site.text = .enumRef v ∧ (p.isFloat = true ∨ v = none) := by
  intro site hm hv hbad
  have hval : site.validated = true := by
    rcases hv with hf | hv
    · exact fillers_validated s x (acceptedB_parts s ha).2.2.2.2.2.2.1 site hm hf
    · exact hv
  cases hu : site.unchecked with
  | true => exact unchecked_shape site hu
  | false => exact absurd (literal_sites_fit_checked s x site hm hval hu) hbad

/-- **float_header_free**: in an accepted schema no header member the generated code or the runtime does
    integer arithmetic with (block length, group size, data length) has a floating-point type -/
theorem float_header_free (s : SchemaDef) (ha : Accepted s) : headerTypeProblems s = [] :=
  headerTypeProblems_nil s (acceptedB_parts s ha).2.2.2.2.2.1

/-- **duplicate_case_free**: in an accepted schema the generated `switch` over an enum has no two `case` labels
    of the same value.  (Acceptance compares the enumerators as numbers / characters; `enum_rule_is_validators`
    shows that this is what the validator's comparison of canonical texts gives.) -/
theorem duplicate_case_free (s : SchemaDef) (ha : Accepted s) : duplicateCaseProblems s = [] :=
  duplicateCaseProblems_nil s (acceptedB_parts s ha).2.2.2.2.2.2.2

/-- **enum_rule_is_validators**: the rule of c7e26c2 in the validator's own formulation — no two valid values of
    an enum have the same key, `Spec.Rules.repeats (enumValueKey prim) [] vs = []`, the key being the character
    for `char` and otherwise the text without superfluous leading zeros, `-0` = `0` — implies for validated
    values (one character; a text `from_chars` accepts in range) that no two denote the same number / character:
    `canonInt` of a text is THE decimal representation of its value (`stripZeros_canonical`,
    `canonInt_of_value`) -/
theorem enum_rule_is_validators (pn : String) (p : Prim) (vs : List ValidValue)
    (hv : ∀ v ∈ vs, enumValidated pn p v = true)
    (hk : Spec.Rules.repeats (Spec.Rules.enumValueKey pn) [] vs = []) :
    dupInt (vs.filterMap (fun v => enumeratorValue (pn == "char") p v.value)) = false :=
  enum_values_distinct_of_keys rendering_flags.1 rendering_flags.2.2.1 pn p vs hv hk

example : Spec.Rules.canonInt "-000".toList = "0".toList ∧ Spec.Rules.canonInt "007".toList = "7".toList ∧
    Spec.Rules.canonInt "-010".toList = "-10".toList := by decide +kernel

/-- the former defect witnesses — template id 70000 with a `uint16` header member, a group counting in `float`,
    enumerators `1` and `01` — are still predicted ill-formed by the model and are rejected by the acceptance
    conditions -/
theorem fixed_header_classes :
    (¬ Accepted wWideId ∧ (literalSites wWideId pkg).any (fun site => site.verdict == .bad) = true) ∧
    (¬ Accepted wFloatHdr ∧ (headerTypeProblems wFloatHdr).isEmpty = false) ∧
    (¬ Accepted wDupEnum ∧ (duplicateCaseProblems wDupEnum).isEmpty = false) := fixed_header_witnesses

/-- non-vacuity: an accepted schema with explicit boundary values, a `"` enumerator, a padded string constant,
    nested groups: all of its sites are validated, plain, and (hence) well-formed -/
example : Accepted wGood ∧ (literalSites wGood pkg).length > 60 ∧
    (literalSites wGood pkg).all (fun s => s.validated && s.plain && s.verdict == .ok) = true := wGood_fact

theorem defaults_fit (a : Spec.Scalar.Attr) (p : Prim) :
    (Spec.Scalar.evalLit p (defaultText a p)).isSome = true := Literals.defaults_fit a p

/-- **integer_literal_value**: EVERY text `value_fits_into_type` accepts for an integer primitive (leading zeros
    included) is rendered by `to_integer_literal` as a C++ integer constant expression of the same value that
    list-initialises the primitive's C++ type without narrowing -/
theorem integer_literal_value (p : Prim) (cs : List Char) (v : Int) (h : parseIntFor p cs = some v) :
    (toIntegerLiteral p cs).value? = some v ∧ bracedInt p v = true :=
  Literals.integer_literal_value p cs v h (Or.inl rendering_flags.1)

/-- **strip_leading_zeros_value**: for every digit string, `strip_leading_zeros` yields digits that C++ reads
    as a decimal literal (never octal) of the same value -/
theorem strip_leading_zeros_value (ds : List Char) (n : Nat) (h : decimal ds = some n) :
    cxxDigits (stripZeros ds) = some n := stripZeros_spec h

/-- **float_literal_fits**: EVERY text `value_fits_into_type` accepts for `float` / `double` is pasted as a C++
    constant that list-initialises the type without narrowing and denotes the same value -/
theorem float_literal_fits (p : Prim) (cs : List Char) (h : fpAccepted p cs = true) :
    fitsFp p (renderFp cs) = .ok :=
  Literals.float_literal_fits p cs h (Or.inl rendering_flags.2.1)

/-- **escape_literal_denotes**: for EVERY string (and padding), the output of `escape_literal` between double
    quotes is one well-formed string literal — also under trigraph replacement — that denotes exactly the
    original characters; between single quotes, for every character -/
theorem escape_literal_denotes (cs : List Char) (pad : Nat) (c : Char) :
    stringLiteral cs pad = .ok ∧ charLiteral [c] = .ok :=
  ⟨string_literal_ok cs pad (Or.inl rendering_flags.2.2.1), char_literal_ok c (Or.inl rendering_flags.2.2.1)⟩

example : parseIntFor .int32 "-0008".toList = some (-8) ∧
    (toIntegerLiteral .int32 "-0008".toList).text = "-8".toList ∧
    parseIntFor .int64 "-9223372036854775808".toList = some (-9223372036854775808) := by decide +kernel

example : fpAccepted .float "016777217".toList = true ∧
    renderFp "016777217".toList = .pasted "016777217.0".toList := by decide +kernel

example : pastedText "say \"hi\" ??/\n".toList = "say \\\"hi\\\" \\?\\?/\\n".toList := by decide +kernel

/-! ## 2. Names and scopes -/

/-- **names_generator_shape**: the four naming decisions of names_generator.hpp have, on this run, the shape the
    theorems below are about (`Extracted.Templates.publicTypeSite`, `inlineTypeSite`, `messageSite`,
    `groupSite`): which sets each `if` looks the name (and `<name>_entry`) up in, which sets the mangling loop
    avoids, and which names each branch records in `mangled_type_names` / `mangled_message_names` — a mangled
    group records the MANGLED name and the MANGLED entry name, a plain group its own two names — and the bodies
    of `make_mangled_name` / `make_mangled_group_name` / `make_entry_name` are the modelled loops.  The model
    (`stepType`, `stepMessage`) follows the extracted sites, whatever they are; a change to one of the
    `insert` / lookup sites flips this obligation while the driver then predicts what the changed generator
    declares -/
theorem names_generator_shape : sitesExpected = true := by decide

/-- **mangled_fresh**: the mangling loops are the ones found in names_generator.hpp on this run, and a name they
    produce is `name_k` and is none of the reserved names (member names of the entity, names already used in the
    `detail` namespace, every public name) -/
theorem mangled_fresh (name : String) (reserved : List String) (m : String) (h : mangle name reserved = some m) :
    Templates.mangleLoopsOk = true ∧ m ∉ reserved ∧ ∃ k, m = suffixed name k := by
  refine ⟨?_, mangle_fresh name reserved m h, mangleFrom_shape _ _ _ _ _ h⟩
  have := names_generator_shape
  simp only [sitesExpected, Bool.and_eq_true] at this
  exact this.1.1.1.1

/-- the group variant: the mangled group name and its entry class name are both free -/
theorem mangled_group_fresh (name : String) (reserved : List String) (m : String)
    (h : mangleGroup name reserved = some m) : m ∉ reserved ∧ entryName m ∉ reserved :=
  mangleGroup_fresh name reserved m h

/-- **detail_types_distinct**: whatever the iteration order of `schema->types`, running the generator as the
    extracted sites describe it, the names recorded in `mangled_type_names` are pairwise distinct and so are the
    names of the classes and aliases it declares in `S::detail::types` (every type defined inside a composite,
    every mangled public type) and of the tag structs of `S::detail::schema::types` that carry those names -/
theorem detail_types_distinct (types : List Elem) (st : NState) (h : typeNames types = some st) :
    st.mangled.Nodup ∧ st.declared.Nodup :=
  runTypes_nodup names_generator_shape _ _ _ _ h List.nodup_nil List.nodup_nil (fun _ hx => by cases hx)

/-- **detail_messages_distinct**: the names of the group classes, entry classes and mangled message classes
    declared in `S::detail::messages` — under the names the site-driven generator chose, e.g. `legs_0` and
    `legs_0_entry` for a group `legs` that has a member `legs` — are pairwise distinct, whatever later groups or
    messages are called -/
theorem detail_messages_distinct (msgs : List MessageDef) (st : MState) (h : messageNames msgs = some st) :
    st.mangled.Nodup ∧ st.declared.Nodup :=
  runMessages_nodup names_generator_shape _ _ _ _ h List.nodup_nil List.nodup_nil (fun _ hx => by cases hx)

/-- **no_duplicate_declarations**: for EVERY schema the model predicts no class declared twice in a `detail`
    namespace -/
theorem no_duplicate_declarations (s : SchemaDef) : duplicateProblems s = [] :=
  duplicateProblems_nil names_generator_shape s

/-- **class_name_not_member**: the implementation name chosen for a type is not the name of one of its
    members (enumerator, choice, composite element, `min_value`…), so no generated class or tag struct has a
    member named like itself; when the name was mangled it is also new in `S::detail::types` and differs from
    every public type name -/
theorem class_name_not_member (nm : List String) (st st' : NState) (ev : TEvent)
    (h : stepType nm st ev = some st') :
    ∃ a, st'.out = st.out ++ [a] ∧ a.impl ∉ ev.members ∧
      (a.impl ≠ a.name → a.impl ∉ st.mangled ∧ a.impl ∉ nm ∧ ∃ k, a.impl = suffixed a.name k) :=
  stepType_decision names_generator_shape nm st st' ev h

/-- the same for message classes, group classes and entry classes against the members of their level -/
theorem level_class_name_not_member (nm : List String) (st st' : MState) (ev : MEvent)
    (h : stepMessage nm st ev = some st') :
    ∃ a, st'.out = st.out ++ [a] ∧ a.impl ∉ ev.members ∧ (a.isMessage = false → a.entry ∉ ev.members) :=
  stepMessage_decision names_generator_shape nm st st' ev h

/-- what a changed site does: were the mangled branch of the group decision to record `<group>_entry` instead
    of the entry name it chose (the shape `[.mangledName, .ownEntry]`), a group `legs` with a member `legs`
    followed by a group `legs_0_entry` would declare `legs_0_entry` twice — the generic step predicts it -/
example :
    let site : Templates.InsertSite :=
      ⟨[(.mangled, .own), (.mangled, .ownEntry), (.members, .ownEntry), (.members, .own)],
       [.members, .mangled, .nonMangled], [.mangledName, .ownEntry], [.own, .ownEntry]⟩
    let m1 := (mangleGroup "legs" (siteReserved site ["legs"] [] ["M"])).getD ""
    let taken := siteInsert site.insMangled "legs" m1 []
    m1 = "legs_0" ∧ siteCond site [] taken ["M"] "legs_0_entry" = false ∧
      siteCond Templates.groupSite [] (siteInsert Templates.groupSite.insMangled "legs" m1 []) ["M"] "legs_0_entry" = true := by
  decide +kernel

/-- C++ keywords and alternative tokens (C++23, [lex.key]), written down independently of sbeppc -/
def cxxKeywords : List String :=
  ["alignas", "alignof", "asm", "auto", "bool", "break", "case", "catch", "char", "char8_t", "char16_t", "char32_t",
   "class", "concept", "const", "consteval", "constexpr", "constinit", "const_cast", "continue", "co_await",
   "co_return", "co_yield", "decltype", "default", "delete", "do", "double", "dynamic_cast", "else", "enum",
   "explicit", "export", "extern", "false", "float", "for", "friend", "goto", "if", "inline", "int", "long",
   "mutable", "namespace", "new", "noexcept", "nullptr", "operator", "private", "protected", "public", "register",
   "reinterpret_cast", "requires", "return", "short", "signed", "sizeof", "static", "static_assert", "static_cast",
   "struct", "switch", "template", "this", "thread_local", "throw", "true", "try", "typedef", "typeid", "typename",
   "union", "unsigned", "using", "virtual", "void", "volatile", "wchar_t", "while",
   "and", "and_eq", "bitand", "bitor", "compl", "not", "not_eq", "or", "or_eq", "xor", "xor_eq"]

/-- **keywords_rejected**: no entity of an accepted schema is named like a C++ keyword (the validator's list,
    extracted on this run, contains every keyword) -/
theorem keywords_rejected (s : SchemaDef) (h : namesAccepted s = true) :
    ∀ n ∈ allNames s, n ∉ cxxKeywords := by
  have hsub : ∀ k ∈ cxxKeywords, k ∈ Templates.cppKeywords := by decide +kernel
  intro n hn hk
  have := List.all_eq_true.mp h n hn
  simp only [nameAccepted, Bool.and_eq_true, Bool.not_eq_true', List.contains_eq_mem,
    decide_eq_false_iff_not] at this
  exact this.2 (hsub n hk)

/-- the declarations of a schema's generated code are free of conflicts: the `detail` namespaces hold each name
    once, and the model predicts no name problem that some configuration certainly rejects -/
def ScopeConflictFree (s : SchemaDef) : Prop :=
  (∀ st, typeNames s.types = some st → st.mangled.Nodup) ∧
  (∀ st, messageNames s.messages = some st → st.mangled.Nodup) ∧
  (∀ n ∈ allNames s, n ∉ cxxKeywords) ∧
  (nameProblems s).all (fun p => p.on == "maybe") = true

/-- FALSE on the current tree -/
def scope_conflict_free_full : Prop := ∀ s : SchemaDef, Accepted s → ScopeConflictFree s

theorem scope_conflict_free_full_false : ¬ scope_conflict_free_full := by
  intro h
  have ha : Accepted wByte := wByte_fact.1
  have hp : (nameProblems wByte).all (fun p => p.on == "maybe") = false := wByte_fact.2
  have := (h wByte ha).2.2.2
  rw [hp] at this
  cases this

/-- further witnesses: an enum named `Visitor`, a type named `value_type`, a type named `tag_invoke` next to an
    enum -/
theorem scope_witnesses :
    (nameProblems (mkSchema (stdTypes ++ [.enum "Visitor" "uint8" none [{ name := "A", value := "1" }] {}]) [msg "M" 1])).any
      (fun p => p.cls == "type-hidden-by-template-parameter") = true ∧
    (nameProblems (mkSchema (stdTypes ++ [ty "value_type" "uint8"]) [msg "M" 1])).any
      (fun p => p.cls == "class-hides-inherited-member" && p.on == "all") = true ∧
    (nameProblems (mkSchema (stdTypes ++ [ty "tag_invoke" "uint8", .enum "E" "uint8" none [{ name := "A", value := "1" }] {}])
        [msg "M" 1])).any (fun p => p.cls == "type-hidden-by-function") = true := by
  refine ⟨?_, ?_, ?_⟩ <;> decide +kernel

/-- the former capture defects — a set choice `v`, a last data member `last`, fields `args` / `Args`, a type
    named `std` — are no problems any more: the templates extracted on this run call members through `this->`
    and say `::std::` -/
theorem fixed_scope_classes :
    nameProblems (mkSchema (stdTypes ++ [.set "S" "uint8" none [{ name := "v", index := 0 }] {}, ty "std" "uint8"])
      [{ msg "M" 1 [fld "args" "uint8", fld "Args" "S" 2] with
         datas := [{ name := "last", id := 3, type := "varDataEncoding" }] }]) = [] := by
  decide +kernel

/-- **scope_conflict_free (partial)**: when no declared name — schema names and the implementation names the
    names generator chose — is one of the identifiers the template tables list (`hazardNames`: template
    parameters, captured parameters and locals, identifiers used unqualified, runtime base members, generated
    free functions, platform macros, `std`), the declarations are conflict free and the model predicts no name
    problem at all -/
theorem scope_conflict_free_partial (s : SchemaDef) (ha : Accepted s) (ds : List NsDecl)
    (hds : nsDecls s = some ds) (h1 : ∀ d ∈ ds, hazardName d.name = false)
    (h2 : ∀ n ∈ allNames s, hazardName n = false) :
    ScopeConflictFree s ∧ nameProblems s = [] := by
  have hn : namesAccepted s = true := by
    exact (acceptedB_parts s ha).1
  have hnil := nameProblems_nil s ds hds h1 h2
  refine ⟨⟨fun st h => (detail_types_distinct _ st h).1, fun st h => (detail_messages_distinct _ st h).1,
    keywords_rejected s hn, ?_⟩, hnil⟩
  rw [hnil]; rfl

/-- non-vacuity: the well-formed witness schema meets the hypotheses -/
example : ∃ ds, nsDecls wGood = some ds ∧ (ds.all (fun d => !hazardName d.name)) = true ∧
    ((allNames wGood).all (fun n => !hazardName n)) = true ∧ ds.length > 12 := wGood_names

/-- **public_paths_resolve**: in the declarations generated for an accepted schema, `::S::types::N` denotes
    the public type `N` and `::S::messages::M` the message `M` — whether the class lives there or is an alias
    of a mangled class in `S::detail` — for every type and message of the schema -/
theorem public_paths_resolve (s : SchemaDef) (ha : Accepted s) (ds : List NsDecl) (hds : nsDecls s = some ds) :
    (∀ e ∈ s.types, resolvePublic ds "types" e.name = some ("types." ++ e.name)) ∧
    (∀ m ∈ s.messages, resolvePublic ds "messages" m.name = some ("messages." ++ m.name)) := by
  have hu : uniqueAccepted s = true := by
    exact (acceptedB_parts s ha).2.1
  unfold uniqueAccepted at hu
  simp only [Bool.and_eq_true] at hu
  have ht : (s.types.map Elem.name).Nodup := by
    have := nodupB_nodup _ hu.1.1.1
    have h2 : s.types.map (fun e => e.name.toLower) = (s.types.map Elem.name).map String.toLower := by
      simp [List.map_map, Function.comp_def]
    rw [h2] at this
    exact nodup_of_map _ _ this
  exact nsDecls_resolve s ds hds ht (nodupB_nodup _ hu.1.2)

/-- non-vacuity: a type and a message that are mangled (`X` has an enumerator `X`, message `X` has a field
    `X`): both public names still resolve to their entities -/
example :
    let s := mkSchema (stdTypes ++ [.enum "X" "uint8" none [{ name := "X", value := "1" }] {}]) [msg "X" 1 [fld "X" "X"]]
    Accepted s ∧ (∃ ds, nsDecls s = some ds ∧
      ds.any (fun d => d.ns == "detail.types" && d.name == "X_0") = true ∧
      ds.any (fun d => d.ns == "detail.messages" && d.name == "X_0") = true ∧
      resolvePublic ds "types" "X" = some "types.X" ∧ resolvePublic ds "messages" "X" = some "messages.X") := by
  refine ⟨by decide +kernel, _, rfl, by decide +kernel, by decide +kernel, by decide +kernel, by decide +kernel⟩

/-! ## 3. `size_bytes` parameter names -/

/-- **param_naming_shape**: on this run `traits_generator::make_unique_param_name` is the loop of fix 0030
    (`while` the name is among the existing ones, append `_<depth>`), and the functions that build the parameter
    and argument lists of the trait-level `size_bytes` have the text the model transliterates.  With the single
    `if` of the old generator the flag is `false`, this obligation fails, and the model (which keeps the old
    behaviour behind the flag) predicts the three-way clash again -/
theorem param_naming_shape : Templates.uniqueParamLoops = true ∧ Templates.sizeBytesShapeOk = true := by decide

/-- **unique_param_terminates**: the loop of `make_unique_param_name` ends after at most `existing.size() + 1`
    tests — every iteration lengthens the name, so each existing name can be met at most once — with a name that
    is not among the existing ones -/
theorem unique_param_terminates (existing : List String) (depth : Nat) (name : String) :
    ∃ r, uniqueLoop existing depth (existing.length + 1) name = some r ∧ r ∉ existing := by
  obtain ⟨r, h1, h2, _⟩ := uniqueLoop_terminates existing depth name
  exact ⟨r, h1, h2⟩

/-- **size_bytes_params_distinct** (full strength, EVERY schema): the parameter names of every generated
    `message_traits<M>::size_bytes` and `group_traits<G>::size_bytes` are pairwise distinct — each group
    parameter is new when it is appended, and `total_data_size` is none of them (they end in `num_in_group` or
    a digit) — so the model predicts no duplicate parameter -/
theorem size_bytes_params_distinct (s : SchemaDef) :
    (∀ ep ∈ paramLists s, ep.2.Nodup) ∧ paramProblems s = [] :=
  ⟨paramLists_nodup param_naming_shape.1 s, paramProblems_nil param_naming_shape.1 s⟩

/-- **size_bytes_call_args**: at every call `group_traits<G>::size_bytes(args)` inside
    `message_traits<M>::size_bytes` the arguments are exactly the parameter names that were appended for `G`, in
    order (`make_group_size_bytes_args` takes the last `params_added` names), followed by `0` when there is data
    below `G`; their number is the number of parameters `group_traits<G>::size_bytes` declares -/
theorem size_bytes_call_args (m : MessageDef) : ∀ c ∈ messageCalls [] m.groups,
    ∃ before added, msgGroupParams [] before c.1 = before ++ added ∧
      c.2 = added ++ (if groupHasData c.1 then ["0"] else []) ∧
      c.2.length = (groupSizeParams c.1).length :=
  messageCalls_spec m.groups []

/-- the former three-way clash, and the two-way clash (`a/b` against `a_b`) -/
example : Accepted wPaths ∧
    ("messages.M", ["a_num_in_group", "a_b_c_d_num_in_group", "a_b_num_in_group", "a_b_c_d_num_in_group_1",
      "a_b_c_num_in_group", "a_b_c_d_num_in_group_1_1"]) ∈ paramLists wPaths ∧ paramProblems wPaths = [] := wPaths_fact

example : messageSizeParams (wGood.messages.head!) = ["g_num_in_group", "g_h_num_in_group"] := by decide +kernel

example : messageSizeParams (msg "M" 1 [] [grp "a" 1 [] [grp "b" 2], grp "a_b" 3]) =
    ["a_num_in_group", "a_b_num_in_group", "a_b_num_in_group_0"] := by decide +kernel

example : (messageCalls [] [grp "a" 1 [] [grp "b" 2], grp "a_b" 3]).map (·.2) =
    [["a_num_in_group", "a_b_num_in_group"], ["a_b_num_in_group_0"]] := by decide +kernel

/-! ## 4. Includes -/

/-- **includes_closed**: every public type a message file refers to is provided by one of the files it
    includes (transitively) -/
def includes_closed_full : Prop :=
  ∀ s : SchemaDef, Accepted s → ∀ m ∈ s.messages, missingIncludes s m = []

/-- **includes_closed (partial)**: if every constant field has a non-primitive type, constant types carry a
    literal value (no `valueRef`) and enum-typed constants name an enumerator of their own enum, every public
    type the accessors of a message refer to is among the files the message header includes directly -/
theorem includes_closed_partial (s : SchemaDef) (m : MessageDef)
    (h : levelPlain s.types m.fields m.groups = true) :
    (∀ n ∈ messageNeeds s m, n ∈ messageIncludes s m) ∧ missingIncludes s m = [] := by
  have hsub : ∀ n ∈ messageNeeds s m, n ∈ messageIncludes s m := by
    intro n hn
    simp only [messageNeeds, List.mem_cons] at hn
    simp only [messageIncludes, List.mem_cons]
    rcases hn with hn | hn
    · exact Or.inl hn
    · exact Or.inr (levelNeeds_sub s.types m.fields m.datas m.groups h n hn)
  refine ⟨hsub, ?_⟩
  unfold missingIncludes
  have : (messageNeeds s m).filter (fun n =>
      !(reachable s.types (s.types.length + 1) (messageIncludes s m).eraseDups).contains n) = [] := by
    apply List.filter_eq_nil_iff.mpr
    intro n hn
    have h1 := hsub n hn
    have h2 : n ∈ (messageIncludes s m).eraseDups := List.mem_eraseDups.mpr h1
    have h3 := reachable_sup s.types (s.types.length + 1) _ n h2
    simp [h3]
  simp only [this]
  rfl

/-- `includes_closed_full` holds: `value_ref_to_enumerator` records the enum it spells out -/
theorem includes_closed : includes_closed_full := by
  intro s _ m _
  exact (includes_closed_partial s m (levelPlain_of_flag _ _ _ rendering_flags.2.2.2)).2

/-- the former defect: a constant field of primitive type whose value is an enumerator -/
example : Accepted wValueRef ∧ missingIncludes wValueRef wValueRef.messages.head! = [] ∧
    messageIncludes wValueRef wValueRef.messages.head! = ["messageHeader", "E"] := wValueRef_fact

/-- non-vacuity: a message with a constant enum field, a constant-type field and a composite field -/
example :
    let s := mkSchema (stdTypes ++ [.enum "E" "uint8" none [{ name := "A", value := "1" }] {},
                                     .type { tyDef "K" "uint8" with presence := .constant, constValue := some "7" }])
      [msg "M" 1 [{ fld "e" "E" with presence := .constant, valueRef := some "E.A" }, fld "k" "K" 2, fld "x" "uint8" 3]]
    Accepted s ∧ levelPlain s.types s.messages.head!.fields s.messages.head!.groups = true ∧
      messageNeeds s s.messages.head! = ["messageHeader", "E", "E", "K"] ∧
      messageIncludes s s.messages.head! = ["messageHeader", "E", "E", "K"] := by
  refine ⟨by decide +kernel, by decide +kernel, by decide +kernel, by decide +kernel⟩

end Sbepp.Properties.C07
