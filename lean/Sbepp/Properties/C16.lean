/-
  C16 — optional/required scalars: null, range, ordering and SBE defaults.

  Model: `Rt.Optional`/`Rt.Required` (transliteration of `optional_base` /
  `required_base`, both comparison configurations), `Rt.genDefault` /
  `Rt.builtInDefault` over the tables extracted from /repo on this run.
  Specification: `Spec.Scalar.isNull`, `Spec.Scalar.optRel`, `Spec.Scalar.reqRel`, `Spec.Scalar.valueOr`,
  `Spec.Scalar.inRange` on the exact denoted values, and `Spec.Scalar.sbeDefault`.

  All theorems quantify over every primitive type, every `min/max/null` triple
  and every bit pattern (no size hypothesis: patterns are reduced to the width
  of the type by the model and by the specification alike).

  Two statements are FALSE for the current code and are kept at full strength
  as `def … : Prop` with a kernel-checked refutation and a `_partial` theorem:
  * a NaN null (`float`/`double`, in particular the SBE default): `has_value()`
    is `val != NaN`, i.e. always true, and `null == null` is false;
  * with `operator<=>` (C++20) the four ordering operators of a `float`/`double`
    optional are ill-formed (`partial_ordering` → `strong_ordering`).
-/
import Sbepp.Lemmas.Optional
import Sbepp.Rt.Defaults

set_option linter.unusedSimpArgs false

namespace Sbepp.Properties.C16
open Sbepp Sbepp.Ieee Sbepp.Rt.Scalar Sbepp.Spec.Scalar Sbepp.Lemmas.Optional

/-! ## helpers: a null that is a number -/

theorem null_num (T : Ty) (h : T.nullIsNaN = false) : ∃ n, T.p.load T.null = .num n := by
  unfold Ty.nullIsNaN at h
  cases hl : T.p.load T.null with
  | nan => simp [hl] at h
  | num n => exact ⟨n, rfl⟩

/-- integers are never NaN -/
theorem load_int (p : Prim) (hp : p.isFloat = false) (v : Nat) : p.load v = .num (p.toInt v) := by
  cases p <;> simp [Prim.isFloat] at hp <;> rfl

theorem int_null_not_nan (T : Ty) (hp : T.p.isFloat = false) : T.nullIsNaN = false := by
  unfold Ty.nullIsNaN
  rw [load_int T.p hp]
  rfl

/-! ## has_value / operator bool -/

/-- full statement: `has_value()` is "not null" -/
def has_value_full : Prop :=
  ∀ (T : Ty) (v : Nat), Optional.hasValue T v = Spec.Scalar.hasValue T.p T.null v

/-- the SBE default `float` optional (min FLT_MIN, max FLT_MAX, null quiet NaN) -/
def floatDefaultTy : Ty := ⟨.float, 0x00800000, 0x7f7fffff, 0x7fc00000⟩

theorem has_value_full_false : ¬ has_value_full := by
  intro h
  have := h floatDefaultTy 0x7fc00000
  revert this
  decide +kernel

theorem has_value_partial (T : Ty) (h : T.nullIsNaN = false) (v : Nat) :
    Optional.hasValue T v = Spec.Scalar.hasValue T.p T.null v := by
  obtain ⟨n, hn⟩ := null_num T h
  unfold Optional.hasValue Spec.Scalar.hasValue uRel
  rw [isNull_eq, hn]
  cases T.p.load v with
  | nan => simp [frel, fne, feq, isNullC]
  | num x =>
    by_cases hx : x = n
    · subst hx; simp [frel, fne, feq, isNullC]
    · have hx' : ¬ n = x := fun e => hx e.symm
      have hxb : (x == n) = false := by simpa using hx
      have hxb' : (n == x) = false := by simpa using hx'
      simp [frel, fne, feq, isNullC, hxb, hxb']

/-- `explicit operator bool` is `has_value()` -/
theorem to_bool_is_has_value (T : Ty) (v : Nat) : Optional.toBool T v = Optional.hasValue T v := rfl

/-! ## default / nullopt construction -/

/-- full statement: a default-constructed and a `nullopt`-constructed optional
    hold the null value and report it (`has_value()`, `operator bool`) -/
def default_is_null_full : Prop :=
  ∀ T : Ty,
    Spec.Scalar.isNull T.p T.null (Optional.default T) = true ∧
    Spec.Scalar.isNull T.p T.null (Optional.fromNullopt T) = true ∧
    Optional.hasValue T (Optional.default T) = false ∧
    Optional.toBool T (Optional.default T) = false ∧
    Optional.hasValue T (Optional.fromNullopt T) = false ∧
    Optional.toBool T (Optional.fromNullopt T) = false

theorem default_is_null_full_false : ¬ default_is_null_full := by
  intro h
  have := (h floatDefaultTy).2.2.1
  revert this
  decide +kernel

/-- the stored value is the specification's null for EVERY type, NaN included -/
theorem default_holds_null (T : Ty) :
    Spec.Scalar.isNull T.p T.null (Optional.default T) = true ∧
    Spec.Scalar.isNull T.p T.null (Optional.fromNullopt T) = true := by
  have : Spec.Scalar.isNull T.p T.null T.null = true := by
    rw [isNull_eq]
    cases T.p.load T.null <;> simp [isNullC]
  exact ⟨this, this⟩

theorem default_is_null_partial (T : Ty) (h : T.nullIsNaN = false) :
    Spec.Scalar.isNull T.p T.null (Optional.default T) = true ∧
    Spec.Scalar.isNull T.p T.null (Optional.fromNullopt T) = true ∧
    Optional.hasValue T (Optional.default T) = false ∧
    Optional.toBool T (Optional.default T) = false ∧
    Optional.hasValue T (Optional.fromNullopt T) = false ∧
    Optional.toBool T (Optional.fromNullopt T) = false := by
  have hn := (default_holds_null T).1
  have hv : Optional.hasValue T T.null = false := by
    rw [has_value_partial T h, Spec.Scalar.hasValue]
    have : Spec.Scalar.isNull T.p T.null T.null = true := hn
    simp [this]
  exact ⟨hn, hn, hv, hv, hv, hv⟩

/-- `default_is_null` for the nine integer primitives, unconditionally -/
theorem default_is_null_int (T : Ty) (hp : T.p.isFloat = false) :
    Optional.hasValue T (Optional.default T) = false ∧
    Optional.toBool T (Optional.fromNullopt T) = false :=
  let h := default_is_null_partial T (int_null_not_nan T hp)
  ⟨h.2.2.1, h.2.2.2.2.2⟩

/-- `required_base() = default` value-initialises -/
theorem required_default_is_zero (T : Ty) : Required.default T = 0 := rfl

/-! ## comparison rules -/

/-- full statement: all six relations, both implementations, follow the
    documented rules (and are well-formed) -/
def cmp_rules_full : Prop :=
  ∀ (impl : Impl) (T : Ty) (r : Rel) (a b : Nat),
    Optional.rel impl T r a b = .val (Spec.Scalar.optRel T.p T.null r a b)

/-- null == null is false for a NaN null (pre-C++20 operators) -/
theorem cmp_rules_full_false : ¬ cmp_rules_full := by
  intro h
  have := h .ops floatDefaultTy .eq 0x7fc00000 0x7fc00000
  revert this
  decide +kernel

/-- the same statement restricted to types whose null is a number -/
def cmp_rules_numeric_null_full : Prop :=
  ∀ (impl : Impl) (T : Ty) (r : Rel) (a b : Nat), T.nullIsNaN = false →
    Optional.rel impl T r a b = .val (Spec.Scalar.optRel T.p T.null r a b)

/-- … is still false: with `operator<=>`, `a < b` on `float` optionals is ill-formed -/
theorem cmp_rules_numeric_null_full_false : ¬ cmp_rules_numeric_null_full := by
  intro h
  have := h .spaceship ⟨.float, 0x00800000, 0x7f7fffff, 0⟩ .lt 0x3f800000 0x40000000 (by decide +kernel)
  revert this
  decide +kernel

theorem ops_model_eq (T : Ty) (r : Rel) (a b : Nat) :
    Optional.rel .ops T r a b = .val (opsC (T.p.load T.null) r (T.p.load a) (T.p.load b)) := by
  cases r <;> rfl

/-- **cmp_rules, pre-C++20 operators**: for every type whose null is not a NaN,
    all six operators follow the documented rules on all values (NaN and
    infinities included) -/
theorem cmp_rules_ops_partial (T : Ty) (h : T.nullIsNaN = false) (r : Rel) (a b : Nat) :
    Optional.rel .ops T r a b = .val (Spec.Scalar.optRel T.p T.null r a b) := by
  obtain ⟨n, hn⟩ := null_num T h
  rw [ops_model_eq, optRel_eq, hn, ops_core]

/-- **cmp_rules, `operator<=>`**: `==` and `!=` for every type whose null is not
    a NaN; `<`, `<=`, `>`, `>=` for the nine integer primitives -/
theorem cmp_rules_spaceship_partial (T : Ty) (h : T.nullIsNaN = false) (r : Rel)
    (hw : T.p.isFloat = false ∨ r.isOrdering = false) (a b : Nat) :
    Optional.rel .spaceship T r a b = .val (Spec.Scalar.optRel T.p T.null r a b) := by
  obtain ⟨n, hn⟩ := null_num T h
  cases hr : r.isOrdering
  · -- == and != : same functions as the operators (`!(a == b)` is `a != b`)
    rw [← cmp_rules_ops_partial T h]
    cases r <;> simp [Rel.isOrdering] at hr <;> rfl
  · have hp : T.p.isFloat = false := by
      rcases hw with hp | hf
      · exact hp
      · rw [hr] at hf; cases hf
    rw [optRel_eq, hn, load_int T.p hp a, load_int T.p hp b, ← ship_core n r hr]
    have hship : Optional.rel .spaceship T r a b = .val (shipC n r (T.p.toInt a) (T.p.toInt b)) := by
      cases r <;> simp [Rel.isOrdering] at hr <;>
        simp [Optional.rel, Optional.spaceship, hp, shipC, Optional.toBool, Optional.hasValue, uRel, uCmp3,
          frel, hn, load_int T.p hp a, load_int T.p hp b]
    exact hship

/-- all six relations, both implementations, for the nine integer primitives -/
theorem cmp_rules_int (impl : Impl) (T : Ty) (hp : T.p.isFloat = false) (r : Rel) (a b : Nat) :
    Optional.rel impl T r a b = .val (Spec.Scalar.optRel T.p T.null r a b) := by
  cases impl
  · exact cmp_rules_ops_partial T (int_null_not_nan T hp) r a b
  · exact cmp_rules_spaceship_partial T (int_null_not_nan T hp) r (Or.inl hp) a b

/-- what the C++20 configuration does for floating-point optionals -/
theorem spaceship_float_ordering_ill_formed (T : Ty) (hp : T.p.isFloat = true) (r : Rel)
    (hr : r.isOrdering = true) (a b : Nat) : Optional.rel .spaceship T r a b = .illFormed := by
  cases r <;> simp [Rel.isOrdering] at hr <;> simp [Optional.rel, Optional.spaceship, hp]

/-! ## the two implementations agree -/

def spaceship_agrees_with_operators_full : Prop :=
  ∀ (T : Ty) (r : Rel) (a b : Nat), Optional.rel .spaceship T r a b = Optional.rel .ops T r a b

theorem spaceship_agrees_with_operators_full_false : ¬ spaceship_agrees_with_operators_full := by
  intro h
  have := h ⟨.float, 0x00800000, 0x7f7fffff, 0⟩ .lt 0x3f800000 0x40000000
  revert this
  decide +kernel

/-- the `<=>`-derived relations equal the hand-written operators: `==`/`!=` on
    every type (NaN null included), the ordering relations on integers -/
theorem spaceship_agrees_with_operators_partial (T : Ty) (r : Rel)
    (hw : T.p.isFloat = false ∨ r.isOrdering = false) (a b : Nat) :
    Optional.rel .spaceship T r a b = Optional.rel .ops T r a b := by
  cases hr : r.isOrdering
  · cases r <;> simp [Rel.isOrdering] at hr <;> rfl
  · have hp : T.p.isFloat = false := by
      rcases hw with hp | hf
      · exact hp
      · rw [hr] at hf; cases hf
    rw [cmp_rules_spaceship_partial T (int_null_not_nan T hp) r (Or.inl hp),
      cmp_rules_ops_partial T (int_null_not_nan T hp)]

/-! ## value_or -/

def value_or_spec_full : Prop :=
  ∀ (T : Ty) (v d : Nat), Optional.valueOr T v d = Spec.Scalar.valueOr T.p T.null v d

/-- a null (NaN) float optional returns its NaN instead of the default -/
theorem value_or_spec_full_false : ¬ value_or_spec_full := by
  intro h
  have := h floatDefaultTy 0x7fc00000 0x3f800000
  revert this
  decide +kernel

theorem value_or_spec_partial (T : Ty) (h : T.nullIsNaN = false) (v d : Nat) :
    Optional.valueOr T v d = Spec.Scalar.valueOr T.p T.null v d := by
  unfold Optional.valueOr Spec.Scalar.valueOr Optional.value
  rw [to_bool_is_has_value, has_value_partial T h, Spec.Scalar.hasValue]
  cases Spec.Scalar.isNull T.p T.null v <;> simp

/-! ## in_range (true at full strength) -/

theorem in_range_spec (T : Ty) (v : Nat) :
    Optional.inRange T v = Spec.Scalar.inRange T.p T.min T.max v ∧
    Required.inRange T v = Spec.Scalar.inRange T.p T.min T.max v := by
  unfold Optional.inRange Required.inRange Spec.Scalar.inRange
  rw [denote_rel, denote_rel]
  exact ⟨rfl, rfl⟩

/-! ## required types (true at full strength) -/

theorem required_cmp_rules (impl : Impl) (T : Ty) (r : Rel) (a b : Nat) :
    Required.rel impl T r a b = .val (Spec.Scalar.reqRel T.p r a b) := by
  unfold Spec.Scalar.reqRel
  rw [denote_rel]
  cases impl
  · rfl
  · have : Required.rel .spaceship T r a b = .val (reqShipC r (T.p.load a) (T.p.load b)) := by
      cases r <;> rfl
    rw [this, req_ship_core]
    rfl

theorem required_spaceship_agrees (T : Ty) (r : Rel) (a b : Nat) :
    Required.rel .spaceship T r a b = Required.rel .ops T r a b := by
  rw [required_cmp_rules, required_cmp_rules]

/-! ## SBE defaults: generator tables = built-in types = SBE table

  Statements over the WHOLE tables extracted from /repo on this run (11
  primitives × {min, max, null}); the literal texts themselves are evaluated in
  the kernel (lexer, parser, C++ integer typing, narrowing). -/

theorem tables_extracted : Extracted.tablesOk = true := by decide

/-- both tables have exactly one row per primitive type -/
theorem tables_shape (a : Attr) :
    (genTable a).length = 11 ∧ (builtInTable a).length = 11 ∧
    ∀ p : Prim, (genText a p).isSome = true ∧ (builtInText a p).isSome = true := by
  cases a <;> refine ⟨by decide, by decide, fun p => ?_⟩ <;> cases p <;> decide

/-- the `TYPE` argument of every built-in is the C++ type of its primitive -/
theorem builtin_types_ok (p : Prim) : builtInTypeOk p = true := by
  cases p <;> decide

/-- the Lean parser reads every table text as the extractor's parsed form -/
theorem parsed_form_agrees (a : Attr) :
    parsedAgrees (genTable a) (genTableParsed a) = true ∧
    parsedAgrees (builtInTable a) (builtInTableParsed a) = true := by
  cases a <;> exact ⟨by decide +kernel, by decide +kernel⟩

/-- **defaults_match_builtins**: a generated type without explicit attribute
    exposes a well-formed value, the same object representation the built-in
    type of its primitive exposes -/
theorem defaults_match_builtins (p : Prim) (a : Attr) :
    (genDefault a p).isSome = true ∧ genDefault a p = builtInDefault a p := by
  have h : (match genDefault a p, builtInDefault a p with
      | some x, some y => x == y
      | _, _ => false) = true := by
    cases p <;> cases a <;> decide +kernel
  cases hg : genDefault a p with
  | none => simp [hg] at h
  | some x =>
    cases hb : builtInDefault a p with
    | none => simp [hg, hb] at h
    | some y =>
      have : x = y := by simpa [hg, hb] using h
      exact ⟨rfl, by rw [this]⟩

/-- **builtins_match_sbe_table**: the built-in types expose the SBE defaults -/
theorem builtins_match_sbe_table (p : Prim) (a : Attr) :
    ∃ v, builtInDefault a p = some v ∧ sameValue p v (sbeDefault p a) = true := by
  have h : (builtInDefault a p).any (fun v => sameValue p v (sbeDefault p a)) = true := by
    cases p <;> cases a <;> decide +kernel
  cases hb : builtInDefault a p with
  | none => simp [hb] at h
  | some v => exact ⟨v, rfl, by simpa [hb] using h⟩

/-- corollary: generated defaults are the SBE defaults -/
theorem generated_match_sbe_table (p : Prim) (a : Attr) :
    ∃ v, genDefault a p = some v ∧ sameValue p v (sbeDefault p a) = true := by
  rw [(defaults_match_builtins p a).2]
  exact builtins_match_sbe_table p a

/-- the default types the generator emits, as model types -/
def sbeTy (p : Prim) : Ty := ⟨p, sbeDefault p .min, sbeDefault p .max, sbeDefault p .null⟩

/-- which default types are affected by the NaN-null defect: exactly float and double -/
theorem sbe_null_is_nan_iff (p : Prim) : (sbeTy p).nullIsNaN = p.isFloat := by
  cases p <;> decide +kernel

/-- the SBE default range is non-empty and excludes the null value -/
theorem sbe_defaults_consistent (p : Prim) :
    Spec.Scalar.inRange p (sbeDefault p .min) (sbeDefault p .max) (sbeDefault p .min) = true ∧
    Spec.Scalar.inRange p (sbeDefault p .min) (sbeDefault p .max) (sbeDefault p .max) = true ∧
    Spec.Scalar.inRange p (sbeDefault p .min) (sbeDefault p .max) (sbeDefault p .null) = false := by
  cases p <;> decide +kernel

/-! ## non-vacuity: the hypotheses are met by concrete non-trivial instances and
    the statements compute -/

-- a float optional whose null is a number (0.0): all partial theorems apply
example : (⟨.float, 0x00800000, 0x7f7fffff, 0⟩ : Ty).nullIsNaN = false := by decide +kernel
-- every integer default type has a numeric null
example : (sbeTy .int16).nullIsNaN = false := by decide +kernel
example : (sbeTy .int64).p.isFloat = false ∨ Rel.lt.isOrdering = false := Or.inl rfl
-- −0.0 is the null of that type too, NaN is a value and is unordered with 1.0
example : Spec.Scalar.isNull .float 0 0x80000000 = true := by decide +kernel
example : Optional.rel .ops ⟨.float, 0x00800000, 0x7f7fffff, 0⟩ .lt 0x7fc00000 0x3f800000 = .val false := by
  decide +kernel
example : Optional.rel .ops ⟨.float, 0x00800000, 0x7f7fffff, 0⟩ .ne 0x7fc00000 0x7fc00000 = .val true := by
  decide +kernel
-- null orders before INT16_MIN+1 in both implementations
example : Optional.rel .ops (sbeTy .int16) .lt 0x8000 0x8001 = .val true := by decide +kernel
example : Optional.rel .spaceship (sbeTy .int16) .lt 0x8000 0x8001 = .val true := by decide +kernel
example : Optional.rel .spaceship (sbeTy .uint64) .ge (2 ^ 64 - 1) 0 = .val false := by decide +kernel
-- the witnesses of the refutations, spelled out
example : Optional.hasValue floatDefaultTy (Optional.default floatDefaultTy) = true := by decide +kernel
example : Optional.rel .ops floatDefaultTy .eq 0x7fc00000 0x7fc00000 = .val false := by decide +kernel
example : Spec.Scalar.optRel .float 0x7fc00000 .eq 0x7fc00000 0x7fc00000 = true := by decide +kernel
example : Optional.valueOr floatDefaultTy 0x7fc00000 0x3f800000 = 0x7fc00000 := by decide +kernel
example : Spec.Scalar.valueOr .float 0x7fc00000 0x7fc00000 0x3f800000 = 0x3f800000 := by decide +kernel
example : Optional.rel .spaceship ⟨.double, 0, 0, 0⟩ .le 0 0 = .illFormed := by decide +kernel
-- the literal evaluator rejects what a C++ compiler rejects
example : evalLit .int16 "-327678" = none := by decide +kernel
example : evalLit .int64 "-9223372036854775808" = none := by decide +kernel
example : evalLit .int64 "-9223372036854775807 - 1" = some (2 ^ 63) := by decide +kernel
example : genDefault .null .int16 = some 0x8000 := by decide +kernel
example : builtInDefault .min .float = some 0x00800000 := by decide +kernel

end Sbepp.Properties.C16
