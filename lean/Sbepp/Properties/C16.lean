/-
  C16 — optional/required scalars: null, range, ordering and SBE defaults.

  Model: `Rt.Scalar.Optional`/`Rt.Scalar.Required` (transliteration of
  `optional_base` / `required_base`, both comparison configurations),
  `Rt.Scalar.genDefault` / `builtInDefault` over the tables extracted from
  /repo on this run.
  Specification: `Spec.Scalar.isNull`, `optRel`, `reqRel`, `valueOr`, `inRange`
  on the exact denoted values, and `sbeDefault`.

  All theorems quantify over every primitive type, every `min/max/null` triple
  (NaN nulls included) and every bit pattern (no size hypothesis: patterns are
  reduced to the width of the type by the model and by the specification
  alike), and hold at full strength.

  History: before the fixes `optional_base::has_value()` was `val != null`
  (always true for the SBE default NaN null of `float`/`double`), `==` compared
  raw values and `operator<=>` returned `std::strong_ordering` (ill-formed for
  floating point); the then-false full statements were refuted here with the
  witnesses that `vlib/props/c16.py` still replays (`WITNESSES`).
-/
import Sbepp.Lemmas.Optional
import Sbepp.Lemmas.OptionalTie
import Sbepp.Rt.Defaults

set_option linter.unusedSimpArgs false

namespace Sbepp.Properties.C16
open Sbepp Sbepp.Ieee Sbepp.Rt.Scalar Sbepp.Spec.Scalar Sbepp.Lemmas.Optional

/-- the SBE default `float` optional (min FLT_MIN, max FLT_MAX, null quiet NaN) -/
def floatDefaultTy : Ty := ⟨.float, 0x00800000, 0x7f7fffff, 0x7fc00000⟩

/-! ## has_value / operator bool -/

theorem has_value_model_eq (T : Ty) (v : Nat) :
    Optional.hasValue T v = hasC (T.p.load T.null) (T.p.load v) := rfl

/-- **has_value**: `has_value()` is "not null", for every null value (a NaN
    null makes exactly the NaNs null; a NaN *value* of a type with a numeric
    null is a value) -/
theorem has_value_spec (T : Ty) (v : Nat) :
    Optional.hasValue T v = Spec.Scalar.hasValue T.p T.null v := by
  rw [has_value_model_eq, hasC_eq, Spec.Scalar.hasValue, isNull_eq]

/-- `explicit operator bool` is `has_value()` -/
theorem to_bool_is_has_value (T : Ty) (v : Nat) : Optional.toBool T v = Optional.hasValue T v := rfl

/-! ## default / nullopt construction -/

/-- **default_is_null**: a default-constructed and a `nullopt`-constructed
    optional hold the null value and report it (`has_value()`, `operator bool`) -/
theorem default_is_null (T : Ty) :
    Spec.Scalar.isNull T.p T.null (Optional.default T) = true ∧
    Spec.Scalar.isNull T.p T.null (Optional.fromNullopt T) = true ∧
    Optional.hasValue T (Optional.default T) = false ∧
    Optional.toBool T (Optional.default T) = false ∧
    Optional.hasValue T (Optional.fromNullopt T) = false ∧
    Optional.toBool T (Optional.fromNullopt T) = false := by
  have hn : Spec.Scalar.isNull T.p T.null T.null = true := by
    rw [isNull_eq]
    cases T.p.load T.null <;> simp [isNullC]
  have hv : Optional.hasValue T T.null = false := by
    rw [has_value_spec, Spec.Scalar.hasValue, hn]
    rfl
  exact ⟨hn, hn, hv, hv, hv, hv⟩

/-- `required_base() = default` value-initialises -/
theorem required_default_is_zero (T : Ty) : Required.default T = 0 := rfl

/-! ## comparison rules -/

theorem ops_model_eq (T : Ty) (r : Rel) (a b : Nat) :
    Optional.rel .ops T r a b = .val (opsC (T.p.load T.null) r (T.p.load a) (T.p.load b)) := by
  cases r <;> rfl

/-- the declared return type of `operator<=>` accepts both `return` statements -/
theorem spaceship_well_formed (T : Ty) :
    (Cat.convertsTo (Cat.of T.p) (Optional.spaceshipRet T) &&
      Cat.convertsTo .strongOrdering (Optional.spaceshipRet T)) = true := by
  unfold Optional.spaceshipRet
  cases Cat.of T.p <;> rfl

theorem spaceship_model_eq (T : Ty) (r : Rel) (hr : r.isOrdering = true) (a b : Nat) :
    Optional.rel .spaceship T r a b = .val (shipC (T.p.load T.null) r (T.p.load a) (T.p.load b)) := by
  have hw := spaceship_well_formed T
  cases r <;> simp [Rel.isOrdering] at hr <;>
    simp only [Optional.rel, Optional.spaceship, hw, if_true] <;> rfl

/-- **cmp_rules**: all six relations, both implementations (the six pre-C++20
    operators; `==` and the `<=>`-derived `!=`, `<`, `<=`, `>`, `>=`), are
    well-formed and follow the documented rules — null equals only null and
    orders before every value, otherwise the underlying values compare — for
    every primitive type, every null value and all operands, NaN included -/
theorem cmp_rules (impl : Impl) (T : Ty) (r : Rel) (a b : Nat) :
    Optional.rel impl T r a b = .val (Spec.Scalar.optRel T.p T.null r a b) := by
  have hops : Optional.rel .ops T r a b = .val (Spec.Scalar.optRel T.p T.null r a b) := by
    rw [ops_model_eq, optRel_eq, ops_core]
  cases impl
  · exact hops
  · cases hr : r.isOrdering
    · -- == and != are the same functions in both configurations
      rw [← hops]
      cases r <;> simp [Rel.isOrdering] at hr <;> rfl
    · rw [spaceship_model_eq T r hr, optRel_eq, ship_core _ r hr]

/-- **spaceship_agrees_with_operators** -/
theorem spaceship_agrees_with_operators (T : Ty) (r : Rel) (a b : Nat) :
    Optional.rel .spaceship T r a b = Optional.rel .ops T r a b := by
  rw [cmp_rules, cmp_rules]

/-! ## value_or -/

/-- **value_or_spec** -/
theorem value_or_spec (T : Ty) (v d : Nat) :
    Optional.valueOr T v d = Spec.Scalar.valueOr T.p T.null v d := by
  unfold Optional.valueOr Spec.Scalar.valueOr Optional.value
  rw [to_bool_is_has_value, has_value_spec, Spec.Scalar.hasValue]
  cases Spec.Scalar.isNull T.p T.null v <;> simp

/-! ## in_range (true at full strength) -/

theorem in_range_spec (T : Ty) (v : Nat) :
    Optional.inRange T v = Spec.Scalar.inRange T.p T.min T.max v ∧
    Required.inRange T v = Spec.Scalar.inRange T.p T.min T.max v := by
  unfold Optional.inRange Required.inRange Spec.Scalar.inRange
  rw [denote_rel, denote_rel]
  exact ⟨rfl, rfl⟩

/-! ## required types (true at full strength) -/

theorem required_cmp_rules (impl : Impl) (T : Ty) (r : Rel) (a b : Nat) :
    Required.rel impl T r a b = .val (Spec.Scalar.reqRel T.p r a b) := by
  unfold Spec.Scalar.reqRel
  rw [denote_rel]
  cases impl
  · rfl
  · have : Required.rel .spaceship T r a b = .val (reqShipC r (T.p.load a) (T.p.load b)) := by
      cases r <;> rfl
    rw [this, req_ship_core]
    rfl

theorem required_spaceship_agrees (T : Ty) (r : Rel) (a b : Nat) :
    Required.rel .spaceship T r a b = Required.rel .ops T r a b := by
  rw [required_cmp_rules, required_cmp_rules]

/-! ## SBE defaults: generator tables = built-in types = SBE table

  Statements over the WHOLE tables extracted from /repo on this run (11
  primitives × {min, max, null}); the literal texts themselves are evaluated in
  the kernel (lexer, parser, C++ integer typing, narrowing). -/

theorem tables_extracted : Extracted.tablesOk = true := by decide

/-- both tables have exactly one row per primitive type -/
theorem tables_shape (a : Attr) :
    (genTable a).length = 11 ∧ (builtInTable a).length = 11 ∧
    ∀ p : Prim, (genText a p).isSome = true ∧ (builtInText a p).isSome = true := by
  cases a <;> refine ⟨by decide, by decide, fun p => ?_⟩ <;> cases p <;> decide

/-- the `TYPE` argument of every built-in is the C++ type of its primitive -/
theorem builtin_types_ok (p : Prim) : builtInTypeOk p = true := by
  cases p <;> decide

/-- the Lean parser reads every table text as the extractor's parsed form -/
theorem parsed_form_agrees (a : Attr) :
    parsedAgrees (genTable a) (genTableParsed a) = true ∧
    parsedAgrees (builtInTable a) (builtInTableParsed a) = true := by
  cases a <;> exact ⟨by decide +kernel, by decide +kernel⟩

/-- **defaults_match_builtins**: a generated type without explicit attribute
    exposes a well-formed value, the same object representation the built-in
    type of its primitive exposes -/
theorem defaults_match_builtins (p : Prim) (a : Attr) :
    (genDefault a p).isSome = true ∧ genDefault a p = builtInDefault a p := by
  have h : (match genDefault a p, builtInDefault a p with
      | some x, some y => x == y
      | _, _ => false) = true := by
    cases p <;> cases a <;> decide +kernel
  cases hg : genDefault a p with
  | none => simp [hg] at h
  | some x =>
    cases hb : builtInDefault a p with
    | none => simp [hg, hb] at h
    | some y =>
      have : x = y := by simpa [hg, hb] using h
      exact ⟨rfl, by rw [this]⟩

/-- **builtins_match_sbe_table**: the built-in types expose the SBE defaults -/
theorem builtins_match_sbe_table (p : Prim) (a : Attr) :
    ∃ v, builtInDefault a p = some v ∧ sameValue p v (sbeDefault p a) = true := by
  have h : (builtInDefault a p).any (fun v => sameValue p v (sbeDefault p a)) = true := by
    cases p <;> cases a <;> decide +kernel
  cases hb : builtInDefault a p with
  | none => simp [hb] at h
  | some v => exact ⟨v, rfl, by simpa [hb] using h⟩

/-- corollary: generated defaults are the SBE defaults -/
theorem generated_match_sbe_table (p : Prim) (a : Attr) :
    ∃ v, genDefault a p = some v ∧ sameValue p v (sbeDefault p a) = true := by
  rw [(defaults_match_builtins p a).2]
  exact builtins_match_sbe_table p a

/-- the default types the generator emits, as model types -/
def sbeTy (p : Prim) : Ty := ⟨p, sbeDefault p .min, sbeDefault p .max, sbeDefault p .null⟩

/-- which default types are affected by the NaN-null defect: exactly float and double -/
theorem sbe_null_is_nan_iff (p : Prim) : (sbeTy p).nullIsNaN = p.isFloat := by
  cases p <;> decide +kernel

/-- the SBE default range is non-empty and excludes the null value -/
theorem sbe_defaults_consistent (p : Prim) :
    Spec.Scalar.inRange p (sbeDefault p .min) (sbeDefault p .max) (sbeDefault p .min) = true ∧
    Spec.Scalar.inRange p (sbeDefault p .min) (sbeDefault p .max) (sbeDefault p .max) = true ∧
    Spec.Scalar.inRange p (sbeDefault p .min) (sbeDefault p .max) (sbeDefault p .null) = false := by
  cases p <;> decide +kernel

/-! ## non-vacuity: the statements compute on concrete non-trivial instances
    (the former counterexamples first) -/

-- NaN null: default-constructed is null, null == null, null < 1.0, value_or returns the default
example : Optional.hasValue floatDefaultTy (Optional.default floatDefaultTy) = false := by decide +kernel
example : Optional.rel .ops floatDefaultTy .eq 0x7fc00000 0x7fc00000 = .val true := by decide +kernel
example : Optional.rel .spaceship floatDefaultTy .le 0x7fc00000 0x7fc00000 = .val true := by decide +kernel
example : Optional.rel .spaceship floatDefaultTy .lt 0x7fc00000 0x3f800000 = .val true := by decide +kernel
example : Optional.valueOr floatDefaultTy 0x7fc00000 0x3f800000 = 0x3f800000 := by decide +kernel
-- every NaN (payload, sign, signalling) is that null
example : Optional.hasValue floatDefaultTy 0xff800001 = false := by decide +kernel
-- a float optional whose null is a number (0.0): −0.0 is null too, NaN is a value, unordered with 1.0
example : (⟨.float, 0x00800000, 0x7f7fffff, 0⟩ : Ty).nullIsNaN = false := by decide +kernel
example : Spec.Scalar.isNull .float 0 0x80000000 = true := by decide +kernel
example : Optional.hasValue ⟨.float, 0x00800000, 0x7f7fffff, 0⟩ 0x7fc00000 = true := by decide +kernel
example : Optional.rel .ops ⟨.float, 0x00800000, 0x7f7fffff, 0⟩ .lt 0x7fc00000 0x3f800000 = .val false := by
  decide +kernel
example : Optional.rel .spaceship ⟨.float, 0x00800000, 0x7f7fffff, 0⟩ .ge 0x7fc00000 0x3f800000 = .val false := by
  decide +kernel
example : Optional.rel .ops ⟨.float, 0x00800000, 0x7f7fffff, 0⟩ .ne 0x7fc00000 0x7fc00000 = .val true := by
  decide +kernel
-- C++20: ordering float optionals is well-formed and computes
example : Optional.rel .spaceship ⟨.double, 0, 0, 0⟩ .le 0 0 = .val true := by decide +kernel
example : Optional.rel .spaceship ⟨.float, 0x00800000, 0x7f7fffff, 0⟩ .lt 0x3f800000 0x40000000 = .val true := by
  decide +kernel
-- null orders before INT16_MIN+1 in both implementations
example : Optional.rel .ops (sbeTy .int16) .lt 0x8000 0x8001 = .val true := by decide +kernel
example : Optional.rel .spaceship (sbeTy .int16) .lt 0x8000 0x8001 = .val true := by decide +kernel
example : Optional.rel .spaceship (sbeTy .uint64) .ge (2 ^ 64 - 1) 0 = .val false := by decide +kernel
-- the literal evaluator rejects what a C++ compiler rejects
example : evalLit .int16 "-327678" = none := by decide +kernel
example : evalLit .int64 "-9223372036854775808" = none := by decide +kernel
example : evalLit .int64 "-9223372036854775807 - 1" = some (2 ^ 63) := by decide +kernel
example : genDefault .null .int16 = some 0x8000 := by decide +kernel
example : builtInDefault .min .float = some 0x00800000 := by decide +kernel

/-! ## the same statements about the definitions regenerated from `sbepp.hpp`

  `Sbepp.Extracted.Optional.RequiredBase` / `.OptionalBase` are written by
  `extract/methods_optional.py` from the text of `required_base` /
  `optional_base` on every check (one definition per constructor, member
  function and friend operator, both comparison configurations);
  `Lemmas/OptionalTie.lean` proves each equal to the hand model used above,
  without hypotheses.  The statements below are therefore about what the code
  says now. -/

section Extracted
open Sbepp.Extracted.Optional
open Sbepp.Lemmas

/-- **has_value**, regenerated `has_value()` and `explicit operator bool` -/
theorem has_value_spec_extracted (T : Ty) (v : Nat) :
    OptionalBase.hasValue T v = Spec.Scalar.hasValue T.p T.null v ∧
    OptionalBase.toBool T v = Spec.Scalar.hasValue T.p T.null v := by
  rw [OptionalTie.Optional.hasValue_tie, OptionalTie.Optional.toBool_tie, to_bool_is_has_value]
  exact ⟨has_value_spec T v, has_value_spec T v⟩

/-- **default_is_null**, regenerated default / `nullopt` constructors -/
theorem default_is_null_extracted (T : Ty) :
    Spec.Scalar.isNull T.p T.null (OptionalBase.ctorDefault T) = true ∧
    Spec.Scalar.isNull T.p T.null (OptionalBase.ctorNullopt T) = true ∧
    OptionalBase.hasValue T (OptionalBase.ctorDefault T) = false ∧
    OptionalBase.toBool T (OptionalBase.ctorDefault T) = false ∧
    OptionalBase.hasValue T (OptionalBase.ctorNullopt T) = false ∧
    OptionalBase.toBool T (OptionalBase.ctorNullopt T) = false := by
  rw [OptionalTie.Optional.ctorDefault_tie, OptionalTie.Optional.ctorNullopt_tie,
    OptionalTie.Optional.hasValue_tie, OptionalTie.Optional.toBool_tie]
  exact default_is_null T

/-- a value-constructed object holds the argument, `value()` and `*x` return it -/
theorem value_roundtrip_extracted (T : Ty) (v : Nat) :
    OptionalBase.value T (OptionalBase.ctorValue T v) = v ∧
    OptionalBase.deref T (OptionalBase.ctorValue T v) = v ∧
    OptionalBase.derefRef T (OptionalBase.ctorValue T v) = v ∧
    RequiredBase.value T (RequiredBase.ctorValue T v) = v ∧
    RequiredBase.deref T (RequiredBase.ctorValue T v) = v ∧
    RequiredBase.derefRef T (RequiredBase.ctorValue T v) = v := by
  rw [OptionalTie.Optional.value_tie, OptionalTie.Optional.deref_tie, OptionalTie.Optional.derefRef_tie,
    OptionalTie.Optional.ctorValue_tie, OptionalTie.Required.value_tie, OptionalTie.Required.deref_tie,
    OptionalTie.Required.derefRef_tie, OptionalTie.Required.ctorValue_tie]
  exact ⟨rfl, rfl, rfl, rfl, rfl, rfl⟩

theorem required_default_is_zero_extracted (T : Ty) : RequiredBase.ctorDefault T = 0 := by
  rw [OptionalTie.Required.ctorDefault_tie]
  exact required_default_is_zero T

/-- **cmp_rules**, regenerated operators and operator selection, both configurations -/
theorem cmp_rules_extracted (impl : Impl) (T : Ty) (r : Rel) (a b : Nat) :
    OptionalBase.rel impl T r a b = .val (Spec.Scalar.optRel T.p T.null r a b) := by
  rw [OptionalTie.Optional.rel_tie]
  exact cmp_rules impl T r a b

/-- each regenerated pre-C++20 operator follows the documented rule -/
theorem cmp_rules_operators_extracted (T : Ty) (a b : Nat) :
    OptionalBase.opEq T a b = Spec.Scalar.optRel T.p T.null .eq a b ∧
    OptionalBase.opNe T a b = Spec.Scalar.optRel T.p T.null .ne a b ∧
    OptionalBase.opLt T a b = Spec.Scalar.optRel T.p T.null .lt a b ∧
    OptionalBase.opLe T a b = Spec.Scalar.optRel T.p T.null .le a b ∧
    OptionalBase.opGt T a b = Spec.Scalar.optRel T.p T.null .gt a b ∧
    OptionalBase.opGe T a b = Spec.Scalar.optRel T.p T.null .ge a b := by
  have h : ∀ r x, Res.val x = Optional.rel .ops T r a b → x = Spec.Scalar.optRel T.p T.null r a b := by
    intro r x hx
    rw [cmp_rules] at hx
    exact Res.val.inj hx
  refine ⟨h .eq _ ?_, h .ne _ (OptionalTie.Optional.opNe_tie T a b), h .lt _ (OptionalTie.Optional.opLt_tie T a b),
    h .le _ (OptionalTie.Optional.opLe_tie T a b), h .gt _ (OptionalTie.Optional.opGt_tie T a b),
    h .ge _ (OptionalTie.Optional.opGe_tie T a b)⟩
  rw [OptionalTie.Optional.opEq_tie]
  rfl

/-- the regenerated `operator<=>` is well-formed for every primitive type and,
    compared with 0, follows the documented rule -/
theorem spaceship_extracted (T : Ty) (r : Rel) (hr : r.isOrdering = true) (a b : Nat) :
    ∃ o, OptionalBase.opCmp3 T a b = some o ∧ Ord3.test r o = Spec.Scalar.optRel T.p T.null r a b := by
  rw [OptionalTie.Optional.opCmp3_tie]
  have h := cmp_rules .spaceship T r a b
  cases hs : Optional.spaceship T a b with
  | none =>
    cases r <;> simp [Rel.isOrdering] at hr <;> simp [Optional.rel, hs] at h
  | some o =>
    refine ⟨o, rfl, ?_⟩
    cases r <;> simp [Rel.isOrdering] at hr <;> simpa [Optional.rel, hs] using h

theorem spaceship_agrees_with_operators_extracted (T : Ty) (r : Rel) (a b : Nat) :
    OptionalBase.rel .spaceship T r a b = OptionalBase.rel .ops T r a b := by
  rw [cmp_rules_extracted, cmp_rules_extracted]

theorem value_or_spec_extracted (T : Ty) (v d : Nat) :
    OptionalBase.valueOr T v d = Spec.Scalar.valueOr T.p T.null v d := by
  rw [OptionalTie.Optional.valueOr_tie]
  exact value_or_spec T v d

theorem in_range_spec_extracted (T : Ty) (v : Nat) :
    OptionalBase.inRange T v = Spec.Scalar.inRange T.p T.min T.max v ∧
    RequiredBase.inRange T v = Spec.Scalar.inRange T.p T.min T.max v := by
  rw [OptionalTie.Optional.inRange_tie, OptionalTie.Required.inRange_tie]
  exact in_range_spec T v

theorem required_cmp_rules_extracted (impl : Impl) (T : Ty) (r : Rel) (a b : Nat) :
    RequiredBase.rel impl T r a b = .val (Spec.Scalar.reqRel T.p r a b) := by
  rw [OptionalTie.Required.rel_tie]
  exact required_cmp_rules impl T r a b

theorem required_spaceship_agrees_extracted (T : Ty) (r : Rel) (a b : Nat) :
    RequiredBase.rel .spaceship T r a b = RequiredBase.rel .ops T r a b := by
  rw [required_cmp_rules_extracted, required_cmp_rules_extracted]

-- the regenerated definitions compute (former counterexamples of the NaN-null defect)
example : OptionalBase.hasValue floatDefaultTy (OptionalBase.ctorNullopt floatDefaultTy) = false := by decide +kernel
example : OptionalBase.opEq floatDefaultTy 0x7fc00000 0x7fc00000 = true := by decide +kernel
example : OptionalBase.rel .spaceship floatDefaultTy .lt 0x7fc00000 0x3f800000 = .val true := by decide +kernel
example : OptionalBase.valueOr floatDefaultTy 0xff800001 0x3f800000 = 0x3f800000 := by decide +kernel
example : OptionalBase.opLt (sbeTy .int16) 0x8000 0x8001 = true := by decide +kernel
example : RequiredBase.rel .spaceship (sbeTy .int8) .gt 0x01 0xff = .val true := by decide +kernel
example : RequiredBase.inRange (sbeTy .uint8) 0xff = false := by decide +kernel

end Extracted

end Sbepp.Properties.C16
