/-
  C03 — decoding honours the wire blockLength (schema extension).

  Geometry comes from the `blockLength`/`numInGroup` values in the buffer, never
  from the compiled schema: all statements quantify over every wire block length
  `wbl ≥` the compiled one, independently at every level and per group instance
  (that is what `ConfL` allows).
-/
import Sbepp.Lemmas.Decode

namespace Sbepp.Properties.C03
open Sbepp Sbepp.Schema Sbepp.Observe

/-- **decode_image_ext**: every compiled field, every entry, nested group and
    data member is found where the wire image puts it, whatever the extension
    amounts. -/
theorem decode_image_ext (bo : ByteOrder) (pfx : String) (l : NLevel) (v : LVal) (wbl : Nat) (pre post : List Nat)
    (hw : WFL l) (hc : ConfL bo l.erase v wbl) :
    modelL bo (pre ++ flattenL bo l.erase v ++ post) pfx l pre.length wbl = specL bo pfx l v :=
  decL bo pfx l v wbl _ pre post hw hc rfl

/-- **size_bytes_ext**: `size_bytes` reports the wire size. -/
theorem size_bytes_ext (bo : ByteOrder) (l : Level) (v : LVal) (wbl : Nat) (pre post : List Nat)
    (hc : ConfL bo l v wbl) :
    endL bo (pre ++ flattenL bo l v ++ post) l pre.length wbl - pre.length = (flattenL bo l v).length := by
  rw [endL_spec bo l v wbl _ pre post hc rfl]; omega

/-- the first variable-length member of a level starts at level start + *wire*
    block length (not the compiled one) -/
theorem first_dynamic_member_at_wire_block_end (bo : ByteOrder) (buf : List Nat) (gs : List Group) (pos wbl : Nat) :
    groupPos bo buf gs pos wbl 0 = pos + wbl := by
  simp [groupPos, endGs]

/-- **entry_stride** (flat group): entry `i` starts at header end + `i` × wire block length -/
theorem entry_stride (bo : ByteOrder) (buf : List Nat) (dim : Dim) (bl : Nat) (lv : List Leaf) (p i : Nat) :
    entryPos bo buf (.mk dim (.mk bl lv [] [])) p i
      = p + dim.size + i * rd bo buf (p + dim.blOff) dim.blSize := by
  simp only [entryPos, Group.level, Group.dim]
  generalize rd bo buf (p + dim.blOff) dim.blSize = w
  generalize p + dim.size = q
  have hf : (fun q => endL bo buf (Level.mk bl lv [] []) q w) = (fun q => q + w) := by
    funext q; simp [endL, endGs, endDs]
  rw [hf]
  induction i generalizing q with
  | zero => simp [iter]
  | succ i ih =>
    simp only [iter]
    rw [ih]; rw [Nat.succ_mul]; omega

/-- nested group: entry `i+1` starts where entry `i` ends -/
theorem entry_chain (bo : ByteOrder) (buf : List Nat) (g : Group) (p i : Nat) :
    entryPos bo buf g p (i + 1)
      = iter (fun q => endL bo buf g.level q (rd bo buf (p + g.dim.blOff) g.dim.blSize)) i
          (endL bo buf g.level (p + g.dim.size) (rd bo buf (p + g.dim.blOff) g.dim.blSize)) := rfl

/-! non-vacuity: see `C02.exLevel`/`exVal` (root block extended from 4 to 6
    bytes, entry blocks from 1 to 2) -/
example : (2 : Nat) ≥ 1 ∧ (6 : Nat) ≥ 4 := by decide

end Sbepp.Properties.C03
