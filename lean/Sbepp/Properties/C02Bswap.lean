/-
  C02 (byte order): the `byteswap` overloads of `sbepp::detail` that are plain C++
  (the portable mask/shift/or branch and the `__builtin_bswap32`-based 16-bit
  variant), re-extracted from sbepp.hpp on every run, reverse the object
  representation; a native little-endian load followed by `byteswap` is a
  big-endian load, and `byteswap` followed by a native store is a big-endian
  store.  Statements only; proofs in `Lemmas/Byteswap.lean`.
-/
import Sbepp.Lemmas.Byteswap

namespace Sbepp.Properties.C02Bswap
open Sbepp Sbepp.Extracted

/-- portable branch, every 64-bit value -/
theorem byteswap_portable_u64_spec (v : Nat) (hv : v < 2 ^ 64) :
    byteswap_portable_u64.retBits [v] = some (bswapSpec 8 v) := byteswap_portable_u64_eval v hv

theorem byteswap_portable_u32_spec (v : Nat) (hv : v < 2 ^ 32) :
    byteswap_portable_u32.retBits [v] = some (bswapSpec 4 v) := byteswap_portable_u32_eval v hv

/-- 16 bits: the arithmetic happens in `int` after integral promotion; no UB, no lost bits -/
theorem byteswap_portable_u16_spec (v : Nat) (hv : v < 2 ^ 16) :
    byteswap_portable_u16.retBits [v] = some (bswapSpec 2 v) := byteswap_portable_u16_eval v hv

/-- the variant for compilers with `__builtin_bswap32` but without `__builtin_bswap16`; the
    kernel input is the builtin's result for the zero-extended argument -/
theorem byteswap_u16_via_bswap32_spec (v : Nat) (hv : v < 2 ^ 16) :
    byteswap_u16_via_bswap32.retBits [bswapSpec 4 v] = some (bswapSpec 2 v) :=
  byteswap_u16_via_bswap32_eval v hv

/-- `get_primitive` for a foreign byte order: memcpy (native little-endian load) then `byteswap`
    is the big-endian reading of the same bytes -/
theorem swapped_load_is_big_endian (bs : List Nat) (h : IsBytes bs) :
    bswapSpec bs.length (getLE bs) = getBE bs := by
  simp [bswapSpec, putBE, putLE_getLE bs h, getBE]

/-- `set_primitive` for a foreign byte order: `byteswap` then memcpy writes the big-endian bytes -/
theorem swapped_store_is_big_endian (w v : Nat) :
    putLE w (bswapSpec w v) = putBE w v := by
  have hb : IsBytes (putBE w v) := fun b hb => putLE_isBytes w v b (by simpa [putBE] using hb)
  have := putLE_getLE (putBE w v) hb
  simpa [bswapSpec] using this

/-- swapping twice is the identity on `w`-byte values -/
theorem bswap_involutive (w v : Nat) (hv : v < 256 ^ w) : bswapSpec w (bswapSpec w v) = v := by
  have h1 := swapped_store_is_big_endian w v
  unfold bswapSpec at h1 ⊢
  rw [putBE, h1, putBE, List.reverse_reverse]
  exact getLE_putLE w v hv

/-! non-vacuity / sanity on concrete values (tests, labelled as tests) -/
example : byteswap_portable_u64.retBits [0x0102030405060708] = some 0x0807060504030201 := by decide
example : byteswap_portable_u32.retBits [0xfffefdfc] = some 0xfcfdfeff := by decide
example : byteswap_portable_u16.retBits [0xff80] = some 0x80ff := by decide
example : byteswap_u16_via_bswap32.retBits [bswapSpec 4 0xabcd] = some 0xcdab := by decide
example : bswapSpec 4 0xabcd = 0xcdab0000 := by decide

end Sbepp.Properties.C02Bswap
