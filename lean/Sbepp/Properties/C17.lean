/-
  C17 — header fillers write exactly the schema's identifying values.

  `Gen.messageHeaderFields` / `Gen.groupHeaderFields` are the (member, value)
  lists the generated `fill_message_header` / `fill_group_header` write through
  the header composite's own setters; the correspondence check compares the
  bytes produced by the real generated fillers (every header layout: member
  order, custom offsets, extra members, ref-typed members, all unsigned types,
  optional counters) with `Gen.fillMessageHeader` / `Spec.fillHdr`.
-/
import Sbepp.Lemmas.HeaderFill
import Sbepp.Lemmas.ResolveWF

namespace Sbepp.Properties.C17
open Sbepp Sbepp.Gen Sbepp.Spec Sbepp.Schema

/-- **fill_values**: after the filler ran, every member it writes holds the
    schema's value whenever the value fits the member's type (for any header
    layout whose written members do not overlap). -/
theorem fill_values (bo : ByteOrder) (hdr : List Nat) (fields : List (Leaf × Nat)) (x : Leaf × Nat)
    (hmem : x ∈ fields) (hd : PairwiseDisj fields) (hp : ∀ y ∈ fields, y.1.off + y.1.size ≤ hdr.length)
    (hfit : x.2 < 256 ^ x.1.size) :
    rd bo (writeExtras bo hdr 0 fields) x.1.off x.1.size = x.2 :=
  writeExtras_value bo hdr fields x hmem hd hp hfit

/-- **fill_frame**: no byte outside the written members changes — neither other
    members of the header, nor its padding, nor anything behind the header
    (`hdr` may be the whole buffer). -/
theorem fill_frame (bo : ByteOrder) (buf : List Nat) (fields : List (Leaf × Nat)) (i : Nat)
    (hp : ∀ y ∈ fields, y.1.off + y.1.size ≤ buf.length)
    (hout : ∀ y ∈ fields, i < y.1.off ∨ y.1.off + y.1.size ≤ i) :
    (writeExtras bo buf 0 fields)[i]? = buf[i]? ∧ (writeExtras bo buf 0 fields).length = buf.length :=
  ⟨writeExtras_frame bo buf fields i hp hout, writeExtras_len bo buf fields hp⟩

/-- the message filler is such a member-wise write of
    schemaId, templateId, version, blockLength (+ declared counters) -/
theorem message_filler_is_fields (bo : ByteOrder) (s : SchemaDef) (m : NMessage) (ng nd : Nat) (hdr : List Nat) :
    fillMessageHeader bo s m ng nd hdr = writeExtras bo hdr 0 (messageHeaderFields s m ng nd) := rfl

/-- the group filler writes blockLength, numInGroup (+ declared counters) -/
theorem group_filler_is_fields (bo : ByteOrder) (dim : Dim) (bl n : Nat) (old : List Nat) :
    fillHdr bo dim bl n old = writeExtras bo old 0 (groupHeaderFields dim bl n) := by
  simp [fillHdr, groupHeaderFields, writeExtras]

/-- what is written as `blockLength` is the level's actual block length: the
    explicit `blockLength` attribute when given (the validator guarantees it is
    not below the content size), the computed content size otherwise -/
theorem block_length_value (custom : Option Nat) (computed b : Nat) (h : blockLength custom computed = .ok b) :
    (custom = some b ∧ computed ≤ b) ∨ (custom = none ∧ b = computed) := by
  unfold blockLength at h
  split at h
  · rename_i c
    split at h
    · simp at h
    · simp only [Except.ok.injEq] at h; subst h; left; exact ⟨rfl, by omega⟩
  · simp only [Except.ok.injEq] at h; right; exact ⟨rfl, h.symm⟩

/-- members of an accepted composite that start at different offsets do not
    overlap (they come from a sorted leaf list) -/
theorem sorted_members_disjoint (lv : List Leaf) (hs : Sorted lv) (a b : Leaf) (ha : a ∈ lv) (hb : b ∈ lv)
    (hne : a.off ≠ b.off) : Disj a b := by
  induction lv with
  | nil => simp at ha
  | cons x rest ih =>
    obtain ⟨hx, hrest⟩ := hs
    rcases List.mem_cons.mp ha with rfl | ha'
    · rcases List.mem_cons.mp hb with rfl | hb'
      · exact absurd rfl hne
      · exact Or.inl (hx b hb')
    · rcases List.mem_cons.mp hb with rfl | hb'
      · exact Or.inr (hx a ha')
      · exact ih hrest ha' hb'

/-! non-vacuity: a reordered header with a gap and a counter -/
example :
    let fields : List (Leaf × Nat) := [(⟨4, 2⟩, 7), (⟨0, 2⟩, 300), (⟨7, 1⟩, 2)]
    PairwiseDisj fields ∧ writeExtras .big [9, 9, 9, 9, 9, 9, 9, 9] 0 fields = [1, 44, 9, 9, 0, 7, 9, 2] := by
  refine ⟨by simp [PairwiseDisj, Disj], by decide⟩

end Sbepp.Properties.C17
