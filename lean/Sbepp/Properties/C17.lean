/-
  C17 — header fillers write exactly the schema's identifying values.

  `Gen.messageHeaderFields` / `Gen.groupHeaderFields` are the (member, value)
  lists the generated `fill_message_header` / `fill_group_header` write through
  the header composite's own setters; the correspondence check compares the
  bytes produced by the real generated fillers (every header layout: member
  order, custom offsets, extra members, ref-typed members, all unsigned types,
  optional counters) with `Gen.fillMessageHeader` / `Spec.fillHdr`.
-/
import Sbepp.Lemmas.HeaderFill
import Sbepp.Lemmas.ResolveWF

namespace Sbepp.Properties.C17
open Sbepp Sbepp.Gen Sbepp.Spec Sbepp.Schema

/-- **fill_values**: after the filler ran, every member it writes holds the
    schema's value whenever the value fits the member's type (for any header
    layout whose written members do not overlap). -/
theorem fill_values (bo : ByteOrder) (hdr : List Nat) (fields : List (Leaf × Nat)) (x : Leaf × Nat)
    (hmem : x ∈ fields) (hd : PairwiseDisj fields) (hp : ∀ y ∈ fields, y.1.off + y.1.size ≤ hdr.length)
    (hfit : x.2 < 256 ^ x.1.size) :
    rd bo (writeExtras bo hdr 0 fields) x.1.off x.1.size = x.2 :=
  writeExtras_value bo hdr fields x hmem hd hp hfit

/-- **fill_frame**: no byte outside the written members changes — neither other
    members of the header, nor its padding, nor anything behind the header
    (`hdr` may be the whole buffer). -/
theorem fill_frame (bo : ByteOrder) (buf : List Nat) (fields : List (Leaf × Nat)) (i : Nat)
    (hp : ∀ y ∈ fields, y.1.off + y.1.size ≤ buf.length)
    (hout : ∀ y ∈ fields, i < y.1.off ∨ y.1.off + y.1.size ≤ i) :
    (writeExtras bo buf 0 fields)[i]? = buf[i]? ∧ (writeExtras bo buf 0 fields).length = buf.length :=
  ⟨writeExtras_frame bo buf fields i hp hout, writeExtras_len bo buf fields hp⟩

/-- **fill_determined**: what the filler leaves in the written members does not
    depend on what was there before — two buffers of the same length that
    agree outside the written members are equal after the filler ran. -/
theorem fill_determined (bo : ByteOrder) (b1 b2 : List Nat) (fields : List (Leaf × Nat))
    (hd : PairwiseDisj fields) (hlen : b1.length = b2.length)
    (hp : ∀ y ∈ fields, y.1.off + y.1.size ≤ b1.length)
    (hout : ∀ i, (∀ y ∈ fields, i < y.1.off ∨ y.1.off + y.1.size ≤ i) → b1[i]? = b2[i]?) :
    writeExtras bo b1 0 fields = writeExtras bo b2 0 fields := by
  have hp2 : ∀ y ∈ fields, y.1.off + y.1.size ≤ b2.length := fun y hy => hlen ▸ hp y hy
  apply List.ext_getElem?
  intro i
  by_cases hin : ∃ y ∈ fields, y.1.off ≤ i ∧ i < y.1.off + y.1.size
  · obtain ⟨y, hy, hlo, hhi⟩ := hin
    have h1 := writeExtras_readback bo b1 fields y hy hd hp
    have h2 := writeExtras_readback bo b2 fields y hy hd hp2
    have e1 := slice_getElem? (writeExtras bo b1 0 fields) y.1.off y.1.size (i - y.1.off)
    have e2 := slice_getElem? (writeExtras bo b2 0 fields) y.1.off y.1.size (i - y.1.off)
    rw [h1] at e1; rw [h2] at e2
    have hlt : i - y.1.off < y.1.size := by omega
    have hidx : y.1.off + (i - y.1.off) = i := by omega
    rw [if_pos hlt, hidx] at e1 e2
    rw [← e1, ← e2]
  · have hout' : ∀ y ∈ fields, i < y.1.off ∨ y.1.off + y.1.size ≤ i := by
      intro y hy
      by_cases h : i < y.1.off
      · exact Or.inl h
      · right
        apply Nat.le_of_not_lt
        intro h2
        exact hin ⟨y, hy, Nat.le_of_not_lt h, h2⟩
    rw [writeExtras_frame bo b1 fields i hp hout', writeExtras_frame bo b2 fields i hp2 hout']
    exact hout i hout'

/-- **fill_idempotent**: running the filler again changes nothing. -/
theorem fill_idempotent (bo : ByteOrder) (buf : List Nat) (fields : List (Leaf × Nat))
    (hd : PairwiseDisj fields) (hp : ∀ y ∈ fields, y.1.off + y.1.size ≤ buf.length) :
    writeExtras bo (writeExtras bo buf 0 fields) 0 fields = writeExtras bo buf 0 fields := by
  have hl := writeExtras_len bo buf fields hp
  have hp' : ∀ y ∈ fields, y.1.off + y.1.size ≤ (writeExtras bo buf 0 fields).length :=
    fun y hy => by rw [hl]; exact hp y hy
  have h := fill_determined bo (writeExtras bo buf 0 fields) buf fields hd hl hp'
    (fun i ho => writeExtras_frame bo buf fields i hp ho)
  rw [h]

/-- the message filler is such a member-wise write of
    schemaId, templateId, version, blockLength (+ declared counters) -/
theorem message_filler_is_fields (bo : ByteOrder) (s : SchemaDef) (m : NMessage) (ng nd : Nat) (hdr : List Nat) :
    fillMessageHeader bo s m ng nd hdr = writeExtras bo hdr 0 (messageHeaderFields s m ng nd) := rfl

/-- the group filler writes blockLength, numInGroup (+ declared counters) -/
theorem group_filler_is_fields (bo : ByteOrder) (dim : Dim) (bl n : Nat) (old : List Nat) :
    fillHdr bo dim bl n old = writeExtras bo old 0 (groupHeaderFields dim bl n) := by
  simp [fillHdr, groupHeaderFields, writeExtras]

/-- what is written as `blockLength` is the level's actual block length: the
    explicit `blockLength` attribute when given (the validator guarantees it is
    not below the content size), the computed content size otherwise -/
theorem block_length_value (custom : Option Nat) (computed b : Nat) (h : blockLength custom computed = .ok b) :
    (custom = some b ∧ computed ≤ b) ∨ (custom = none ∧ b = computed) := by
  unfold blockLength at h
  split at h
  · rename_i c
    split at h
    · simp at h
    · simp only [Except.ok.injEq] at h; subst h; left; exact ⟨rfl, by omega⟩
  · simp only [Except.ok.injEq] at h; right; exact ⟨rfl, h.symm⟩

/-- members of an accepted composite that start at different offsets do not
    overlap (they come from a sorted leaf list) -/
theorem sorted_members_disjoint (lv : List Leaf) (hs : Sorted lv) (a b : Leaf) (ha : a ∈ lv) (hb : b ∈ lv)
    (hne : a.off ≠ b.off) : Disj a b := by
  induction lv with
  | nil => simp at ha
  | cons x rest ih =>
    obtain ⟨hx, hrest⟩ := hs
    rcases List.mem_cons.mp ha with rfl | ha'
    · rcases List.mem_cons.mp hb with rfl | hb'
      · exact absurd rfl hne
      · exact Or.inl (hx b hb')
    · rcases List.mem_cons.mp hb with rfl | hb'
      · exact Or.inr (hx a ha')
      · exact ih hrest ha' hb'

/-! non-vacuity: a reordered header with a gap and a counter -/
example :
    let fields : List (Leaf × Nat) := [(⟨4, 2⟩, 7), (⟨0, 2⟩, 300), (⟨7, 1⟩, 2)]
    PairwiseDisj fields ∧ writeExtras .big [9, 9, 9, 9, 9, 9, 9, 9] 0 fields = [1, 44, 9, 9, 0, 7, 9, 2] := by
  refine ⟨by simp [PairwiseDisj, Disj], by decide⟩
example :
    let fields : List (Leaf × Nat) := [(⟨4, 2⟩, 7), (⟨0, 2⟩, 300), (⟨7, 1⟩, 2)]
    writeExtras .big [1, 2, 9, 9, 3, 4, 9, 5] 0 fields = writeExtras .big [9, 9, 9, 9, 9, 9, 9, 9] 0 fields := by
  decide

end Sbepp.Properties.C17
