/-
  C08 — sbeppc rejects exactly the schemas that break its layout rules.

  Model     `Schema.Rules.check`     (transliteration of schema_parser / sbe_schema_validator /
                                      sbe_schema_cpp_validator, first diagnostic = class + entity)
  Spec      `Spec.Rules.violations`  (every broken rule with its entity, entity by entity, no order)
  Tie       vlib/props/c08.py        (real sbeppc vs model vs spec on generated schemas and on every
                                      single-rule edit of them at every applicable position)

  What is proved here, for ALL schemas (no bound on sizes, nesting, number of types):

  * `rejects_every_broken_schema`   a schema that breaks any rule sbeppc has a diagnostic for is
                                    rejected by the model (offsets, blockLength, literals, choice
                                    indices, unknown / wrong-kind / cyclic references, arrays, level
                                    headers, names, keywords, duplicates, numeric attributes) —
                                    under `FpAgree` (floating-point literal acceptance, differential
                                    only) and `CharEnumsPlain` (finding C08-char-enum-valueRef);
  * `cycle_detection_complete`      the in-progress set rejects every reference cycle, reports
                                    `cyclicReference` only at an encoding that really is on a cycle,
                                    and never runs out of fuel;
  * `accepted_no_overlap`, `accepted_members_in_block`
                                    what acceptance buys (from `Schema.resolve_wf`);
  * `parseNum_spec`                 `from_chars` = the decimal-literal specification;
  * `C08_full_false`                the full-strength statement is FALSE on the current code, with
                                    two kernel-checked witnesses (findings (a) and (b)).

  * `check_ok_iff_rules_partial`    accepted ⇔ no enforced rule broken (both directions), and
    `check_ok_iff_rules_partial_data` accepted ⇔ `Rules s` for schemas whose data headers have the
                                    layout the runtime assumes;
  * `check_error_sound`             the class and the entity of the reported diagnostic are a rule of the
                                    specification broken at that entity (all classes, all phases), and
    `check_error_sound_hash_order`  so is every member of the set the `unordered_map` order picks from.

  Hypotheses that remain, by name: `FpAgree` (acceptance of floating-point literals: model =
  specification; checked differentially on a boundary grid only), `CharEnumsPlain` (excludes
  finding (a)), `NoTopLevelRef` (shape of the AST the parser produces), and for `Rules` instead of
  `enforcedViolations` the absence of `dataHeaderLayout` violations (finding (b)).
-/
import Sbepp.Lemmas.Rules
import Sbepp.Lemmas.RulesAccept
import Sbepp.Lemmas.RulesSound2

namespace Sbepp.Properties.C08
open Sbepp Sbepp.Schema Sbepp.Schema.Rules
open Sbepp.Spec.Rules (DiagClass Path Rules violations enforcedViolations)

/-- **parseNum_spec**: the model of `std::from_chars` (base 10) returns `v` exactly when
    the string is a decimal literal of `v` — an optional `-` (signed types only), one or
    more digits, nothing else: no `+`, no blanks, full consumption — and `v` is in the
    range of the `bits`-wide type. -/
theorem parseNum_spec (cs : List Char) (bits : Nat) (signed : Bool) (v : Int) :
    parseNumL cs bits signed = some v ↔ Spec.Rules.IsIntLiteral signed cs v ∧ InRange bits signed v :=
  parseNumL_spec cs bits signed v

/-- **rejects_every_broken_schema**: if a schema breaks any rule that sbeppc has a
    diagnostic for, the model rejects it. -/
theorem rejects_every_broken_schema (hfp : FpAgree) (s : SchemaDef) (hpl : CharEnumsPlain s.types)
    (hv : enforcedViolations s ≠ []) : ∃ d, check s = .error d := by
  cases h : check s with
  | error d => exact ⟨d, rfl⟩
  | ok u => cases u; exact absurd (check_ok_no_violation hfp s hpl h) hv

/-- the same, read forwards: an accepted schema breaks no enforced rule -/
theorem check_ok_rules_partial (hfp : FpAgree) (s : SchemaDef) (hpl : CharEnumsPlain s.types)
    (h : check s = .ok ()) : enforcedViolations s = [] :=
  check_ok_no_violation hfp s hpl h

/-- … and if in addition its data headers have the layout the runtime assumes, it breaks no rule at all -/
theorem check_ok_rules_partial_data (hfp : FpAgree) (s : SchemaDef) (hpl : CharEnumsPlain s.types)
    (hdata : (Spec.Rules.allLevels s).flatMap (Spec.Rules.dataLayoutViols s.types) = [])
    (h : check s = .ok ()) : Rules s := by
  unfold Rules violations
  rw [check_ok_no_violation hfp s hpl h, hdata]
  rfl

/-- **accepts_every_rule_abiding_schema**: a schema (as the parser produces it: `<ref>` only
    inside composites) that breaks no enforced rule is accepted -/
theorem accepts_every_rule_abiding_schema (hfp : FpAgree) (s : SchemaDef) (hpl : CharEnumsPlain s.types)
    (hnr : NoTopLevelRef s.types) (h : enforcedViolations s = []) : check s = .ok () :=
  no_violation_check_ok hfp s hpl hnr h

/-- **check_ok_iff_rules_partial**: accepted ⇔ no rule that sbeppc has a diagnostic for is broken.
    Hypotheses: `FpAgree` (floating-point literal acceptance of model and specification agree —
    differential only), `CharEnumsPlain` (excludes finding (a)), `NoTopLevelRef` (AST shape). -/
theorem check_ok_iff_rules_partial (hfp : FpAgree) (s : SchemaDef) (hpl : CharEnumsPlain s.types)
    (hnr : NoTopLevelRef s.types) : check s = .ok () ↔ enforcedViolations s = [] :=
  check_ok_iff_enforced hfp s hpl hnr

/-- … and ⇔ `Rules s` when in addition the data headers have the layout the runtime assumes
    (excludes finding (b)) -/
theorem check_ok_iff_rules_partial_data (hfp : FpAgree) (s : SchemaDef) (hpl : CharEnumsPlain s.types)
    (hnr : NoTopLevelRef s.types)
    (hdata : (Spec.Rules.allLevels s).flatMap (Spec.Rules.dataLayoutViols s.types) = []) :
    check s = .ok () ↔ Rules s := by
  rw [check_ok_iff_enforced hfp s hpl hnr]
  unfold Rules violations
  rw [hdata]
  simp

/-- **check_error_sound**: the reported class is a rule that is actually broken, at the entity
    where the model locates it -/
theorem check_error_sound (hfp : FpAgree) (s : SchemaDef) (hpl : CharEnumsPlain s.types)
    (hnr : NoTopLevelRef s.types) (d : Diag) (h : check s = .error d) : (d.cls, d.loc) ∈ enforcedViolations s :=
  check_error_sound_all hfp s hpl hnr d h

/-- … and when `validate_types` (which iterates an `unordered_map`) fails, every diagnostic of the
    set the model names is such a broken rule -/
theorem check_error_sound_hash_order (hfp : FpAgree) (s : SchemaDef) (hpl : CharEnumsPlain s.types)
    (hp : parsePhase s = .ok ()) (d : Diag) (h : typesPhase s = .error d) :
    ∀ w ∈ d.alts, w ∈ enforcedViolations s :=
  check_error_sound_alts hfp s hpl hp d h

/-- **check_error_sound_partial**: a rejection means that some enforced rule really is broken -/
theorem check_error_sound_partial (hfp : FpAgree) (s : SchemaDef) (hpl : CharEnumsPlain s.types)
    (hnr : NoTopLevelRef s.types) (d : Diag) (h : check s = .error d) : enforcedViolations s ≠ [] := by
  intro hv
  rw [no_violation_check_ok hfp s hpl hnr hv] at h
  cases h

/-! ### the full-strength statement and its refutation on the current code -/

/-- the property at full strength: accepted ⇔ no rule of the specification is broken -/
def C08_full : Prop := ∀ s : SchemaDef, check s = .ok () ↔ Rules s

def ty (n p : String) (len : Nat := 1) : Elem :=
  .type { name := n, prim := p, length := len, presence := .required, offset := none }

def msgHeader : Elem :=
  .composite "messageHeader" none
    [ty "blockLength" "uint16", ty "templateId" "uint16", ty "schemaId" "uint16", ty "version" "uint16"]

/-- finding (b): a data header with a member in front of `length` — accepted, although the
    generated code reads the length at offset 0 -/
def witnessDataHeader : SchemaDef :=
  { package := "w", id := 1, version := 0, byteOrder := .little, headerType := "messageHeader",
    types := [msgHeader, .composite "Var" none [ty "pad" "uint16", ty "length" "uint8", ty "varData" "uint8" 0]],
    messages := [{ name := "M", id := 1, blockLength := none, fields := [], groups := [],
                   datas := [{ name := "d", id := 1, type := "Var" }] }] }

/-- finding (a): a `char` constant given by `valueRef` to an enum whose encodingType is a
    *named* `char` type — breaks no rule, rejected (`valueRef … cannot be represented`) -/
def witnessCharEnum : SchemaDef :=
  { package := "w", id := 1, version := 0, byteOrder := .little, headerType := "messageHeader",
    types := [msgHeader, ty "CharT" "char",
              .enum "E" "CharT" none [{ name := "A", value := "A" }, { name := "B", value := "B" }],
              .type { name := "K", prim := "char", length := 1, presence := .constant, offset := none,
                      valueRef := some "E.B" }],
    messages := [] }

set_option maxRecDepth 100000 in
theorem witnessDataHeader_accepted : accepts witnessDataHeader = true := by decide +kernel
set_option maxRecDepth 100000 in
theorem witnessDataHeader_breaks_rule :
    violations witnessDataHeader = [(.dataHeaderLayout, ["types", "Var"])] := by decide +kernel
set_option maxRecDepth 100000 in
theorem witnessCharEnum_rejected : accepts witnessCharEnum = false := by decide +kernel
set_option maxRecDepth 100000 in
theorem witnessCharEnum_valid : violations witnessCharEnum = [] := by decide +kernel

/-- **C08_full_false**: on the current code the full-strength property does not hold -/
theorem C08_full_false : ¬ C08_full := by
  intro h
  have h1 := (h witnessDataHeader).mp ((accepts_iff _).mp witnessDataHeader_accepted)
  unfold Rules at h1
  rw [witnessDataHeader_breaks_rule] at h1
  cases h1

/-- the second, independent refutation: a rule-abiding schema that is rejected -/
theorem C08_full_false_rejects_valid : ¬ C08_full := by
  intro h
  have h1 := (h witnessCharEnum).mpr witnessCharEnum_valid
  have h2 := (accepts_iff _).mpr h1
  rw [witnessCharEnum_rejected] at h2
  cases h2

/-- the hypotheses of the partial theorems are satisfiable and non-trivial: a schema with a
    group, data, an enum, a set, a composite with a custom offset, a message with a custom
    block length — accepted, no violation, `CharEnumsPlain` -/
def sampleX : TypeDef :=
  { name := "x", prim := "int32", length := 1, presence := .required, offset := some 4,
    minValue := some "-2147483648" }

def sampleMsg : MessageDef :=
  { name := "M", id := 1, blockLength := some 16,
    fields := [{ name := "c", id := 1, type := "C", offset := none, presence := .required },
               { name := "s", id := 2, type := "S", offset := some 10, presence := .required }],
    groups := [.mk "g" 3 "Dim" none [{ name := "e", id := 4, type := "E", offset := none, presence := .required }] [] []],
    datas := [{ name := "d", id := 5, type := "Var" }] }

def sample : SchemaDef :=
  { package := "s", id := 7, version := 1, byteOrder := .big, headerType := "messageHeader",
    types := [msgHeader,
              .composite "Dim" none [ty "blockLength" "uint16", ty "numInGroup" "uint8"],
              .composite "Var" none [ty "length" "uint32", ty "varData" "uint8" 0],
              .enum "E" "uint8" none [{ name := "One", value := "1" }, { name := "Max", value := "255" }],
              .set "S" "uint16" none [{ name := "a", index := 0 }, { name := "z", index := 15 }],
              .composite "C" none [.ref "e" "E" none, .type sampleX]],
    messages := [sampleMsg] }

set_option maxRecDepth 100000 in
example : accepts sample = true ∧ violations sample = [] := by decide +kernel

example : NoTopLevelRef sample.types := by
  intro n r o a hm
  simp [sample, msgHeader, ty] at hm

example : CharEnumsPlain sample.types := by
  intro n enc o vs a hm
  simp only [sample, msgHeader, ty, List.mem_cons, reduceCtorEq, Elem.enum.injEq, or_false,
    false_or, List.not_mem_nil] at hm
  obtain ⟨_, rfl, _⟩ := hm
  decide +kernel

/-- `FpAgree` holds on the boundary literals (kernel-evaluated; the full grid is checked
    against real sbeppc by the correspondence check) -/
def fpBoundary : List String :=
  ["3.4028235e38", "3.4028235677e38", "3.4028235678e38", "-3.4028235e38", "1e39", "1e-46", "1e-40",
   "1.17549435e-38", "1.1754942106924411e-38", "16777217", "1.7976931348623157e308", "1.797693134862315807e308",
   "1.797693134862315808e308", "1e309", "4.9e-324", "2.2250738585072014e-308", "NaN", "INF", "-INF", "+INF",
   "+NaN", "nan", "inf", "INFINITY", "1.", ".5", ".", "1e", "1E+5", "0x1p3", "1.5f", " 1.5", "1.5 ", "", "-0", "+1.5", "e5"]

set_option maxRecDepth 100000 in
example : fpBoundary.all (fun lit =>
    canBeParsedAsFp false lit == Spec.Rules.fpRepresentable Spec.Rules.fpFloat lit &&
    canBeParsedAsFp true lit == Spec.Rules.fpRepresentable Spec.Rules.fpDouble lit) = true := by decide +kernel

/-! ### what acceptance buys: no overlap, members inside their block -/

/-- **accepted_no_overlap**: in an accepted schema the fields (flattened to leaves) of every
    level of every message are in ascending order and pairwise disjoint -/
theorem accepted_no_overlap (s : SchemaDef) (_h : check s = .ok ()) (m : MessageDef) (_hm : m ∈ s.messages)
    (r : NMessage) (hr : resolveMessage s m = .ok r) : SortedL r.level :=
  (resolve_wf s m r hr).2

/-- **accepted_members_in_block**: … and every one of them ends inside the block of its level -/
theorem accepted_members_in_block (s : SchemaDef) (_h : check s = .ok ()) (m : MessageDef) (_hm : m ∈ s.messages)
    (r : NMessage) (hr : resolveMessage s m = .ok r) : Observe.WFL r.level :=
  (resolve_wf s m r hr).1

set_option maxRecDepth 100000 in
/-- non-vacuity: the layout of the sample's message resolves -/
example : (match resolveMessage sample sampleMsg with | .ok _ => true | .error _ => false) = true := by
  decide +kernel

/-! ### cycle detection -/

/-- **cycle_detection_complete**: for a schema whose public names are unique (what the parser
    guarantees), started from any public encoding `t` the walk with the in-progress set
    (1) never succeeds when `t` reaches a `<ref>` to itself,
    (2) reports `cyclicReference` only at a public encoding that reaches a `<ref>` to itself,
    (3) never exhausts its fuel. -/
theorem cycle_detection_complete (types : List Elem) (hnd : (lowerNames types).Nodup) (t : Elem) (ht : t ∈ types) :
    (∀ ty, ReachTy types t ty → Spec.Rules.findType types ty = some t → ∀ n, vRoot types t ≠ .ok n) ∧
    (∀ d, vRoot types t = .error d → d.cls = .cyclicReference → OnCycleAt types d.loc) ∧
    (∀ d, vRoot types t = .error d → d.cls ≠ .fuelExhausted) :=
  ⟨fun ty hr hf n => cycle_rejected types t ty hr hf _ _ n,
   fun d h hc => cyclic_diag_sound types hnd t ht d h hc,
   fun d h => fuel_never_exhausted types t ht d h⟩

/-- a cycle anywhere makes the whole schema rejected -/
theorem cyclic_schema_rejected (s : SchemaDef) (t : Elem) (ht : t ∈ s.types) (ty : String)
    (hr : ReachTy s.types t ty) (hf : Spec.Rules.findType s.types ty = some t) : check s ≠ .ok () := by
  intro h
  obtain ⟨_, htp, _, _⟩ := (check_phases s).mp h
  unfold typesPhase at htp
  rw [anyOrder_ok, firstErrors_nil] at htp
  obtain ⟨n, hn⟩ := htp t ht
  exact cycle_rejected s.types t ty hr hf _ _ n hn

/-- **check_error_sound** (cyclic class): when `validate_types` fails and every candidate
    first diagnostic is `cyclicReference`, each names an encoding on a cycle — in
    particular the one the model reports -/
theorem check_error_sound_cyclic (s : SchemaDef) (hnd : (lowerNames s.types).Nodup) (t : Elem) (ht : t ∈ s.types)
    (d : Diag) (h : vRoot s.types t = .error d) (hc : d.cls = .cyclicReference) :
    ∃ x ty, x ∈ s.types ∧ d.loc = ["types", x.name] ∧ ReachTy s.types x ty ∧ Spec.Rules.findType s.types ty = some x :=
  cyclic_diag_sound s.types hnd t ht d h hc

/-- the keyword list of the model (order of `sbe_schema_cpp_validator.hpp`) and the one of
    the specification (ISO C++ [lex.key]) have the same members -/
theorem keyword_lists_agree (k : String) : isCppKeyword k = Spec.Rules.isKeyword k := keyword_eq k

end Sbepp.Properties.C08
