/-
  C08 — sbeppc rejects exactly the schemas that break its layout rules.

  Model     `Schema.Rules.check`     (transliteration of schema_parser / sbe_schema_validator /
                                      sbe_schema_cpp_validator, first diagnostic = class + entity)
  Spec      `Spec.Rules.violations`  (every broken rule with its entity, entity by entity, no order;
                                      `Rules s` = there is none)
  Tie       vlib/props/c08.py        (real sbeppc vs model vs spec on generated schemas and on every
                                      single-rule edit of them at every applicable position)

  Proved for ALL schemas (no bound on sizes, nesting, number of types):

  * `C08_full`                      accepted ⇔ `Rules s` — both directions, every rule family: offsets,
                                    blockLength, literals, choice indices, unknown / wrong-kind / cyclic
                                    references, arrays, level headers incl. the `<data>` header layout,
                                    integer header members, the values written into header members
                                    (schema id/version, message ids, block lengths, member counts),
                                    distinct enum values, names, keywords, duplicates, numeric attributes;
    `rejects_every_broken_schema`, `accepts_every_rule_abiding_schema`   its two halves;
  * `check_error_sound`             the class and the entity of the reported diagnostic are a rule of the
                                    specification broken at that entity (all classes, all phases);
    `check_error_sound_hash_order`  so is every member of the set the `unordered_map` order picks from;
  * `cycle_detection_complete`      the in-progress set rejects every reference cycle, reports
                                    `cyclicReference` only at an encoding that really is on a cycle,
                                    and never runs out of fuel;
  * `accepted_no_overlap`, `accepted_members_in_block`   what acceptance buys (from `Schema.resolve_wf`);
  * `parseNum_spec`                 `from_chars` = the decimal-literal specification;
  * `symbolic_name_per_character`   the naming rule of the specification quantifies over every character of the
                                    name (a slip in the bounds of the validator's scan is impl≠spec, not mirrored).

  Hypotheses that remain, by name: `FpAgree` (acceptance of floating-point literals: model =
  specification; kernel-checked on a boundary grid, otherwise differential) and `NoTopLevelRef`
  (shape of the AST the parser produces: `<ref>` only inside composites).

  History: until /repo commits d749b7f, 57db3e7, 5d34b3a the full statement was false (kept then as
  `C08_full_false` with two kernel-checked witnesses); the witnesses are kept below as regression
  examples of the fixed behaviour.  The three families "header member must be an integer",
  "value written into a header member must fit it" and "enum values are pairwise distinct" follow
  /verif/fixes/c08-float-header-member.patch, c08-header-value-range.patch, c08-duplicate-enum-value.patch.
-/
import Sbepp.Lemmas.Rules
import Sbepp.Lemmas.RulesAccept
import Sbepp.Lemmas.RulesSound2

namespace Sbepp.Properties.C08
open Sbepp Sbepp.Schema Sbepp.Schema.Rules
open Sbepp.Spec.Rules (DiagClass Path Rules violations)

/-- **parseNum_spec**: the model of `std::from_chars` (base 10) returns `v` exactly when
    the string is a decimal literal of `v` — an optional `-` (signed types only), one or
    more digits, nothing else: no `+`, no blanks, full consumption — and `v` is in the
    range of the `bits`-wide type. -/
theorem parseNum_spec (cs : List Char) (bits : Nat) (signed : Bool) (v : Int) :
    parseNumL cs bits signed = some v ↔ Spec.Rules.IsIntLiteral signed cs v ∧ InRange bits signed v :=
  parseNumL_spec cs bits signed v

/-- **C08_full** (= `check_ok_iff_rules`): a schema is accepted exactly when it breaks no rule -/
theorem C08_full (hfp : FpAgree) (s : SchemaDef) (hnr : NoTopLevelRef s.types) : check s = .ok () ↔ Rules s :=
  check_ok_iff_enforced hfp s hnr

/-- **rejects_every_broken_schema**: a schema that breaks any rule is rejected -/
theorem rejects_every_broken_schema (hfp : FpAgree) (s : SchemaDef) (hv : ¬ Rules s) : ∃ d, check s = .error d := by
  cases h : check s with
  | error d => exact ⟨d, rfl⟩
  | ok u => cases u; exact absurd (check_ok_no_violation hfp s h) hv

/-- **accepts_every_rule_abiding_schema**: a schema (as the parser produces it: `<ref>` only
    inside composites) that breaks no rule is accepted -/
theorem accepts_every_rule_abiding_schema (hfp : FpAgree) (s : SchemaDef) (hnr : NoTopLevelRef s.types)
    (h : Rules s) : check s = .ok () :=
  no_violation_check_ok hfp s hnr h

/-- **check_error_sound**: the reported class is a rule that is actually broken, at the entity
    where the model locates it -/
theorem check_error_sound (hfp : FpAgree) (s : SchemaDef) (hnr : NoTopLevelRef s.types) (d : Diag)
    (h : check s = .error d) : (d.cls, d.loc) ∈ violations s :=
  check_error_sound_all hfp s hnr d h

/-- … and when `validate_types` (which iterates an `unordered_map`) fails, every diagnostic of the
    set the model names is such a broken rule -/
theorem check_error_sound_hash_order (hfp : FpAgree) (s : SchemaDef) (hp : parsePhase s = .ok ()) (d : Diag)
    (h : typesPhase s = .error d) : ∀ w ∈ d.alts, w ∈ violations s :=
  check_error_sound_alts hfp s hp d h

/-- **symbolic_name_per_character**: the naming rule of the specification is a statement about every
    character of the name, not about the bounds of a scan: non-empty, every character a letter, a digit
    or `_`, and the first one not a digit.  (`Schema.Rules.isSbeSymbolicName`, the transliteration of the
    validator's `find_if_not` over `[begin, end)`, is proved equal to it: `symbolic_eq`.) -/
theorem symbolic_name_per_character (n : String) :
    Spec.Rules.symbolicName n = true ↔
      n.toList ≠ [] ∧ (∀ c ∈ n.toList, c.isAlphanum = true ∨ c = '_') ∧
      (∀ c, n.toList.head? = some c → c.isDigit = false) := by
  unfold Spec.Rules.symbolicName
  cases h : n.toList with
  | nil => simp
  | cons c cs =>
    simp only [Bool.and_eq_true, Bool.not_eq_eq_eq_not, Bool.not_true, List.all_eq_true, Bool.or_eq_true, beq_iff_eq,
      ne_eq, reduceCtorEq, not_false_eq_true, List.head?_cons, Option.some.injEq, true_and]
    constructor
    · rintro ⟨h1, h2⟩
      exact ⟨h2, fun c' hc => hc ▸ h1⟩
    · rintro ⟨h2, h1⟩
      exact ⟨h1 c rfl, h2⟩

/-- names that are wrong in exactly one character, wherever it is, and the forms that are fine -/
example : ["-qty", ".qty", "$qty", "@qty", " qty", "+qty", ":qty", "#qty", "~qty", "éqty", "7qty", "qty-", "q-ty",
           "qtyé", "-", "9", ""].all (fun n => !Spec.Rules.symbolicName n && !isSbeSymbolicName n) = true := by decide +kernel
example : ["qty", "_", "a", "qty7", "q7ty", "_qty", "qty_", "__reserved", "_Upper", "final", "override", "import", "module"].all
    (fun n => Spec.Rules.symbolicName n && isSbeSymbolicName n && !Spec.Rules.isKeyword n) = true := by decide +kernel
example : ["and", "not_eq", "xor_eq", "alignas", "char8_t", "co_await", "concept", "requires"].all
    (fun n => Spec.Rules.isKeyword n && isCppKeyword n) = true := by decide +kernel

/-! ### concrete instances (kernel-evaluated) -/

def ty (n p : String) (len : Nat := 1) : Elem :=
  .type { name := n, prim := p, length := len, presence := .required, offset := none }

def msgHeader : Elem :=
  .composite "messageHeader" none
    [ty "blockLength" "uint16", ty "templateId" "uint16", ty "schemaId" "uint16", ty "version" "uint16"]

/-- a data header with a member in front of `length`: rejected since 5d34b3a, at the `length` member -/
def witnessDataHeader : SchemaDef :=
  { package := "w", id := 1, version := 0, byteOrder := .little, headerType := "messageHeader",
    types := [msgHeader, .composite "Var" none [ty "pad" "uint16", ty "length" "uint8", ty "varData" "uint8" 0]],
    messages := [{ name := "M", id := 1, blockLength := none, fields := [], groups := [],
                   datas := [{ name := "d", id := 1, type := "Var" }] }] }

/-- a `char` constant given by `valueRef` to an enum over a *named* `char` type: accepted since 57db3e7 -/
def witnessCharEnum : SchemaDef :=
  { package := "w", id := 1, version := 0, byteOrder := .little, headerType := "messageHeader",
    types := [msgHeader, ty "CharT" "char",
              .enum "E" "CharT" none [{ name := "A", value := "A" }, { name := "B", value := "B" }],
              .type { name := "K", prim := "char", length := 1, presence := .constant, offset := none,
                      valueRef := some "E.B" }],
    messages := [] }

set_option maxRecDepth 100000 in
example : (match check witnessDataHeader with
           | .error d => d.cls == .dataHeaderLayout && d.loc == ["types", "Var", "length"]
           | .ok _ => false) = true := by decide +kernel
set_option maxRecDepth 100000 in
example : violations witnessDataHeader = [(.dataHeaderLayout, ["types", "Var", "length"])] := by decide +kernel
set_option maxRecDepth 100000 in
example : accepts witnessCharEnum = true ∧ violations witnessCharEnum = [] := by decide +kernel

/-- a header member used as an integer must have an integer type (c08-float-header-member) -/
def witnessFloatHeader : SchemaDef :=
  { package := "w", id := 1, version := 0, byteOrder := .little, headerType := "messageHeader",
    types := [.composite "messageHeader" none
      [ty "blockLength" "uint16", ty "templateId" "float", ty "schemaId" "uint16", ty "version" "uint16"]],
    messages := [] }

/-- message id 70000 does not fit a `uint16` templateId (c08-header-value-range) -/
def witnessWideId : SchemaDef :=
  { package := "w", id := 1, version := 0, byteOrder := .little, headerType := "messageHeader",
    types := [msgHeader],
    messages := [{ name := "M", id := 70000, blockLength := none, fields := [], groups := [], datas := [] }] }

/-- `1` and `01` are the same enum value (c08-duplicate-enum-value) -/
def witnessDupValue : SchemaDef :=
  { package := "w", id := 1, version := 0, byteOrder := .little, headerType := "messageHeader",
    types := [msgHeader, .enum "E" "uint8" none [{ name := "A", value := "1" }, { name := "B", value := "01" }]],
    messages := [] }

set_option maxRecDepth 100000 in
example : (match check witnessFloatHeader with
           | .error d => d.cls == .headerElementNotInteger && d.loc == ["types", "messageHeader", "templateId"]
           | .ok _ => false) = true ∧
    violations witnessFloatHeader = [(.headerElementNotInteger, ["types", "messageHeader", "templateId"])] := by
  decide +kernel
set_option maxRecDepth 100000 in
example : (match check witnessWideId with
           | .error d => d.cls == .headerValueOutOfRange && d.loc == ["messages", "M"]
           | .ok _ => false) = true ∧
    violations witnessWideId = [(.headerValueOutOfRange, ["messages", "M"])] := by decide +kernel
set_option maxRecDepth 100000 in
example : (match check witnessDupValue with
           | .error d => d.cls == .duplicateEnumValue && d.loc == ["types", "E", "B"]
           | .ok _ => false) = true ∧
    violations witnessDupValue = [(.duplicateEnumValue, ["types", "E", "B"])] := by decide +kernel

/-- the hypotheses of the partial theorems are satisfiable and non-trivial: a schema with a
    group, data, an enum, a set, a composite with a custom offset, a message with a custom
    block length — accepted, no violation -/
def sampleX : TypeDef :=
  { name := "x", prim := "int32", length := 1, presence := .required, offset := some 4,
    minValue := some "-2147483648" }

def sampleMsg : MessageDef :=
  { name := "M", id := 1, blockLength := some 16,
    fields := [{ name := "c", id := 1, type := "C", offset := none, presence := .required },
               { name := "s", id := 2, type := "S", offset := some 10, presence := .required }],
    groups := [.mk "g" 3 "Dim" none [{ name := "e", id := 4, type := "E", offset := none, presence := .required }] [] []],
    datas := [{ name := "d", id := 5, type := "Var" }] }

def sample : SchemaDef :=
  { package := "s", id := 7, version := 1, byteOrder := .big, headerType := "messageHeader",
    types := [msgHeader,
              .composite "Dim" none [ty "blockLength" "uint16", ty "numInGroup" "uint8"],
              .composite "Var" none [ty "length" "uint32", ty "varData" "uint8" 0],
              .enum "E" "uint8" none [{ name := "One", value := "1" }, { name := "Max", value := "255" }],
              .set "S" "uint16" none [{ name := "a", index := 0 }, { name := "z", index := 15 }],
              .composite "C" none [.ref "e" "E" none, .type sampleX]],
    messages := [sampleMsg] }

set_option maxRecDepth 100000 in
example : accepts sample = true ∧ violations sample = [] := by decide +kernel

example : NoTopLevelRef sample.types := by
  intro n r o a hm
  simp [sample, msgHeader, ty] at hm

/-- `FpAgree` holds on the boundary literals (kernel-evaluated; the full grid is checked
    against real sbeppc by the correspondence check) -/
def fpBoundary : List String :=
  ["3.4028235e38", "3.4028235677e38", "3.4028235678e38", "-3.4028235e38", "1e39", "1e-46", "1e-40",
   "1.17549435e-38", "1.1754942106924411e-38", "16777217", "1.7976931348623157e308", "1.797693134862315807e308",
   "1.797693134862315808e308", "1e309", "4.9e-324", "2.2250738585072014e-308", "NaN", "INF", "-INF", "+INF",
   "+NaN", "nan", "inf", "INFINITY", "1.", ".5", ".", "1e", "1E+5", "0x1p3", "1.5f", " 1.5", "1.5 ", "", "-0", "+1.5", "e5"]

set_option maxRecDepth 100000 in
example : fpBoundary.all (fun lit =>
    canBeParsedAsFp false lit == Spec.Rules.fpRepresentable Spec.Rules.fpFloat lit &&
    canBeParsedAsFp true lit == Spec.Rules.fpRepresentable Spec.Rules.fpDouble lit) = true := by decide +kernel

/-! ### what acceptance buys: no overlap, members inside their block -/

/-- **accepted_no_overlap**: in an accepted schema the fields (flattened to leaves) of every
    level of every message are in ascending order and pairwise disjoint -/
theorem accepted_no_overlap (s : SchemaDef) (_h : check s = .ok ()) (m : MessageDef) (_hm : m ∈ s.messages)
    (r : NMessage) (hr : resolveMessage s m = .ok r) : SortedL r.level :=
  (resolve_wf s m r hr).2

/-- **accepted_members_in_block**: … and every one of them ends inside the block of its level -/
theorem accepted_members_in_block (s : SchemaDef) (_h : check s = .ok ()) (m : MessageDef) (_hm : m ∈ s.messages)
    (r : NMessage) (hr : resolveMessage s m = .ok r) : Observe.WFL r.level :=
  (resolve_wf s m r hr).1

set_option maxRecDepth 100000 in
/-- non-vacuity: the layout of the sample's message resolves -/
example : (match resolveMessage sample sampleMsg with | .ok _ => true | .error _ => false) = true := by
  decide +kernel

/-! ### cycle detection -/

/-- **cycle_detection_complete**: for a schema whose public names are unique (what the parser
    guarantees), started from any public encoding `t` the walk with the in-progress set
    (1) never succeeds when `t` reaches a `<ref>` to itself,
    (2) reports `cyclicReference` only at a public encoding that reaches a `<ref>` to itself,
    (3) never exhausts its fuel. -/
theorem cycle_detection_complete (types : List Elem) (hnd : (lowerNames types).Nodup) (t : Elem) (ht : t ∈ types) :
    (∀ ty, ReachTy types t ty → Spec.Rules.findType types ty = some t → ∀ n, vRoot types t ≠ .ok n) ∧
    (∀ d, vRoot types t = .error d → d.cls = .cyclicReference → OnCycleAt types d.loc) ∧
    (∀ d, vRoot types t = .error d → d.cls ≠ .fuelExhausted) :=
  ⟨fun ty hr hf n => cycle_rejected types t ty hr hf _ _ n,
   fun d h hc => cyclic_diag_sound types hnd t ht d h hc,
   fun d h => fuel_never_exhausted types t ht d h⟩

/-- a cycle anywhere makes the whole schema rejected -/
theorem cyclic_schema_rejected (s : SchemaDef) (t : Elem) (ht : t ∈ s.types) (ty : String)
    (hr : ReachTy s.types t ty) (hf : Spec.Rules.findType s.types ty = some t) : check s ≠ .ok () := by
  intro h
  obtain ⟨_, htp, _, _⟩ := (check_phases s).mp h
  unfold typesPhase at htp
  rw [anyOrder_ok, firstErrors_nil] at htp
  obtain ⟨n, hn⟩ := htp t ht
  exact cycle_rejected s.types t ty hr hf _ _ n hn

/-- **check_error_sound** (cyclic class): when `validate_types` fails and every candidate
    first diagnostic is `cyclicReference`, each names an encoding on a cycle — in
    particular the one the model reports -/
theorem check_error_sound_cyclic (s : SchemaDef) (hnd : (lowerNames s.types).Nodup) (t : Elem) (ht : t ∈ s.types)
    (d : Diag) (h : vRoot s.types t = .error d) (hc : d.cls = .cyclicReference) :
    ∃ x ty, x ∈ s.types ∧ d.loc = ["types", x.name] ∧ ReachTy s.types x ty ∧ Spec.Rules.findType s.types ty = some x :=
  cyclic_diag_sound s.types hnd t ht d h hc

/-- the keyword list of the model (order of `sbe_schema_cpp_validator.hpp`) and the one of
    the specification (ISO C++ [lex.key]) have the same members -/
theorem keyword_lists_agree (k : String) : isCppKeyword k = Spec.Rules.isKeyword k := keyword_eq k

end Sbepp.Properties.C08
