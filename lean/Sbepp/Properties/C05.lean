/-
  C05 — all size computations agree with the encoded size.

  Run-time sizes: the model of `size_bytes` for messages, entries and groups
  (`endL`/`endG`: header + entries, each entry a level with the group's wire
  block length), data members (length prefix + length) and the cursor position
  after a full traversal all equal the length of the corresponding part of the
  image.  The trait-level formula is modelled in `Gen.SizeFormula` and confronted
  with the real generated `message_traits<>::size_bytes` and the image length by
  the correspondence check; the per-type-pair arithmetic of
  `flat_group_base::size_bytes` is in `Properties/C05Flat.lean`.
-/
import Sbepp.Lemmas.Walk
import Sbepp.Lemmas.Encode
import Sbepp.Gen.SizeFormula
import Sbepp.Lemmas.SizeFormula

namespace Sbepp.Properties.C05
open Sbepp

/-- message / entry `size_bytes` = image length -/
theorem level_size (bo : ByteOrder) (l : Level) (v : LVal) (wbl : Nat) (pre post : List Nat)
    (hc : ConfL bo l v wbl) :
    endL bo (pre ++ flattenL bo l v ++ post) l pre.length wbl - pre.length = (flattenL bo l v).length := by
  rw [endL_spec bo l v wbl _ pre post hc rfl]; omega

/-- group `size_bytes` = dimension header + all entries -/
theorem group_size (bo : ByteOrder) (g : Group) (v : GVal) (pre post : List Nat) (hc : ConfG bo g v) :
    endG bo (pre ++ flattenG bo g v ++ post) g pre.length - pre.length = (flattenG bo g v).length := by
  rw [endG_spec bo g v _ pre post hc rfl]; omega

/-- data `size_bytes` = length prefix + payload -/
theorem data_size (bo : ByteOrder) (d : DataL) (p : List Nat) (pre post : List Nat)
    (h : p.length < 256 ^ d.lenSize) :
    d.lenSize + rd bo (pre ++ flattenD bo d p ++ post) pre.length d.lenSize = (flattenD bo d p).length := by
  have : pre ++ flattenD bo d p ++ post = pre ++ put bo d.lenSize p.length ++ (p ++ post) := by
    simp [flattenD, List.append_assoc]
  rw [this, rd_put bo pre _ d.lenSize p.length h]
  simp [flattenD]

/-- the cursor-based size after a complete in-order encode equals the image
    length (the encoder's end position) -/
theorem cursor_size_after_encode (bo : ByteOrder) (l : Level) (v : LVal) (pre mid post : List Nat)
    (he : Spec.EncL bo l v) (hlen : mid.length = (flattenL bo l v).length) :
    (Spec.encL bo l v (pre ++ mid ++ post) pre.length).2 - pre.length = (flattenL bo l v).length := by
  rw [(Spec.encL_spec bo l v pre mid post he hlen).1, hlen]; simp

/-- flat level: the generated `size_bytes` is `header + block_length`; the model
    agrees for levels without groups and data -/
theorem flat_level_size (bo : ByteOrder) (buf : List Nat) (bl : Nat) (lv : List Leaf) (pos wbl : Nat) :
    endL bo buf (.mk bl lv [] []) pos wbl = pos + wbl := by
  simp [endL, endGs, endDs]

/-- **trait_size_eq**: the trait-level `message_traits<M>::size_bytes(counts…,
    total_data_size)` — one `numInGroup` parameter per group of the tree in
    pre-order holding the TOTAL number of entries of that group, plus the total
    payload size — equals header + image length, for every group tree and every
    value whose blocks have their compiled lengths. -/
theorem trait_size_eq (bo : ByteOrder) (m : Schema.NMessage) (root : LVal) (h : Gen.ShapeL m.level root) :
    Gen.messageSize m (Gen.countsGs m.level.gs root.groups) (Gen.totalData root)
      = m.hdrSize + (flattenL bo m.level.erase root).length :=
  Gen.messageSize_eq bo m root h

/-! non-vacuity: the trait formula on a concrete layout and value -/
open Sbepp.Schema Sbepp.Gen in
example :
    let g : NGroup := .mk "g" ⟨"dim", ⟨3, 0, 2, 2, 1, []⟩, "uint16", "uint8", []⟩
        (.mk 1 [] [] [⟨"d", 1, "uint8", 0, 1, "uint8"⟩])
    let m : NMessage := { name := "m", id := 1, hdrSize := 8, hdrLeaves := [], level := .mk 4 [] [g] [⟨"e", 2, "uint16", 0, 2, "char"⟩] }
    messageSize m [2] 3 = 8 + 4 + (3 + 2 * (1 + 1)) + 2 + 3 := by decide

end Sbepp.Properties.C05
