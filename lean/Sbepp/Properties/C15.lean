/-
  C15 — set choices are independent bits for every encoding width.

  Obligations are about `Extracted.bitset_get_bit` / `bitset_set_bit`, the
  kernels translated from `bitset_base<T>::operator()(get_bit_tag, n)` and
  `operator()(set_bit_tag, n, b)` of /repo on this run.
-/
import Sbepp.Lemmas.Bits
import Sbepp.Spec.Bits
import Sbepp.Rt.BitsSeq

namespace Sbepp.Properties.C15
open Sbepp Sbepp.Extracted

theorem and_two_pow_ne_zero (v n : Nat) : ((v &&& 2 ^ n) != 0) = v.testBit n := by
  cases h : v.testBit n
  · have : v &&& 2 ^ n = 0 := by
      apply Nat.eq_of_testBit_eq
      intro i
      simp only [Nat.testBit_and, Nat.testBit_two_pow, Nat.zero_testBit]
      by_cases hi : n = i
      · subst hi; simp [h]
      · simp [hi]
    simp [this]
  · have hb : (v &&& 2 ^ n).testBit n = true := by
      simp [Nat.testBit_and, Nat.testBit_two_pow, h]
    have : v &&& 2 ^ n ≠ 0 := by
      intro h0; rw [h0] at hb; simp at hb
    simp [this]

/-- bit-level meaning of the value the setter computes -/
theorem set_value_bits (W w v n : Nat) (b : Bool) (hW : w ≤ W) (hv : v < 2 ^ w) (hn : n < w) :
    Spec.IsSetBit w v n b ((v &&& (2 ^ W - 1 - 2 ^ n)) ||| ((if b then 1 else 0) * 2 ^ n)) := by
  have h2w : 2 ^ n < 2 ^ w := Nat.pow_lt_pow_right (by decide) hn
  have h2W : 2 ^ n < 2 ^ W := Nat.lt_of_lt_of_le h2w (Nat.pow_le_pow_right (by decide) hW)
  have hb : (if b then 1 else 0) * 2 ^ n < 2 ^ w := by cases b <;> simp <;> omega
  constructor
  · exact Nat.or_lt_two_pow (Nat.lt_of_le_of_lt Nat.and_le_left hv) hb
  · intro i hi
    have hmask : 2 ^ W - 1 - 2 ^ n = 2 ^ W - (2 ^ n + 1) := by omega
    rw [Nat.testBit_or, Nat.testBit_and, hmask, Nat.testBit_two_pow_sub_succ h2W, Nat.testBit_two_pow]
    have hiW : i < W := by omega
    by_cases h : i = n
    · subst h
      cases b <;> simp [Nat.testBit_two_pow]
    · have hne : ¬ n = i := fun e => h e.symm
      cases b <;> simp [h, hne, hiW, Nat.testBit_two_pow]

/-- **C15 (getter)**: for every set width and every index inside the width the
    choice getter returns exactly that bit of the underlying value. -/
theorem get_bit_spec (T : CTy) (hT : SetTy T) (v n : Nat) (hv : v < 2 ^ T.bits) (hn : n < T.bits) :
    (bitset_get_bit T).retBits [v, n] = some (if Spec.getBit v n then 1 else 0) := by
  rw [get_bit_eval T hT v n hv hn, and_two_pow_ne_zero]
  rfl

/-- **C15 (setter)**: the setter changes exactly bit `n` and no other; no
    undefined behaviour, no assertion. -/
theorem set_bit_spec (T : CTy) (hT : SetTy T) (v n : Nat) (b : Bool) (hv : v < 2 ^ T.bits)
    (hn : n < T.bits) :
    ∃ r, (bitset_set_bit T).varBits [v, n, if b then 1 else 0] "bits" = some r
      ∧ Spec.IsSetBit T.bits v n b r :=
  ⟨_, set_bit_eval T hT v n b hv hn, set_value_bits _ _ v n b (maskTy_bits_ge T hT) hv hn⟩

/-- setter followed by getter of the same choice returns what was set; any
    other choice is unaffected (independence). -/
theorem set_then_get (T : CTy) (hT : SetTy T) (v n m : Nat) (b : Bool) (hv : v < 2 ^ T.bits)
    (hn : n < T.bits) (hm : m < T.bits) :
    ∃ r, (bitset_set_bit T).varBits [v, n, if b then 1 else 0] "bits" = some r ∧
      (bitset_get_bit T).retBits [r, m]
        = some (if (if m = n then b else Spec.getBit v m) then 1 else 0) := by
  obtain ⟨r, hr, hlt, hbits⟩ := set_bit_spec T hT v n b hv hn
  refine ⟨r, hr, ?_⟩
  rw [get_bit_spec T hT r m hlt hm]
  simp only [Spec.getBit, hbits m hm]
  by_cases h : m = n <;> simp [h]

/-- the model's setter agrees with the executable specification used by the
    correspondence driver (uniqueness of the `IsSetBit` value) -/
theorem set_bit_eq_spec (T : CTy) (hT : SetTy T) (v n : Nat) (b : Bool) (hv : v < 2 ^ T.bits)
    (hn : n < T.bits) :
    (bitset_set_bit T).varBits [v, n, if b then 1 else 0] "bits" = some (Spec.setBit v n b) := by
  obtain ⟨r, hr, hlt, hbits⟩ := set_bit_spec T hT v n b hv hn
  obtain ⟨hlt', hbits'⟩ := Spec.setBit_spec T.bits v n b hv hn
  rw [hr]
  congr 1
  apply Nat.eq_of_testBit_eq
  intro i
  by_cases hi : i < T.bits
  · rw [hbits i hi, hbits' i hi]
  · have hge : T.bits ≤ i := Nat.le_of_not_lt hi
    have h1 : 2 ^ T.bits ≤ 2 ^ i := Nat.pow_le_pow_right (by decide) hge
    rw [Nat.testBit_lt_two_pow (Nat.lt_of_lt_of_le hlt h1),
        Nat.testBit_lt_two_pow (Nat.lt_of_lt_of_le hlt' h1)]

/-! ### every history of setter calls

  `runSets` (`Rt/BitsSeq.lean`) replays any sequence of `(choice, value)` setter calls through the
  extracted setter kernel.  `lastWrite` is the abstract specification: a map
  from choice index to the last value written to it. -/

/-- the last value written to choice `i` by `ops`, if any -/
def lastWrite (i : Nat) : List (Nat × Bool) → Option Bool
  | [] => none
  | (n, b) :: ops => (lastWrite i ops).or (if i = n then some b else none)

/-- **C15 (histories)**: after *any* sequence of setter calls with indices
    inside the width, no call is undefined, the value stays inside the width,
    and every choice holds the last value written to it — or its original bit
    if it was never written (independence of the choices over whole
    histories, not only over one call). -/
theorem set_sequence (T : CTy) (hT : SetTy T) (ops : List (Nat × Bool)) :
    ∀ (v : Nat), v < 2 ^ T.bits → (∀ p ∈ ops, p.1 < T.bits) →
    ∃ r, runSets T v ops = some r ∧ r < 2 ^ T.bits ∧
      ∀ i, i < T.bits → r.testBit i = ((lastWrite i ops).getD (v.testBit i)) := by
  induction ops with
  | nil => intro v hv _; exact ⟨v, rfl, hv, fun i _ => rfl⟩
  | cons p ops ih =>
    intro v hv hops
    obtain ⟨n, b⟩ := p
    have hn : n < T.bits := hops (n, b) (List.mem_cons_self ..)
    obtain ⟨r1, hr1, hlt1, hbits1⟩ := set_bit_spec T hT v n b hv hn
    obtain ⟨r, hr, hlt, hbits⟩ :=
      ih r1 hlt1 (fun q hq => hops q (List.mem_cons_of_mem _ hq))
    refine ⟨r, ?_, hlt, ?_⟩
    · simp only [runSets, hr1, hr]
    · intro i hi
      rw [hbits i hi, hbits1 i hi]
      simp only [lastWrite]
      cases lastWrite i ops <;> by_cases h : i = n <;> simp [h]

/-- setting a choice to the value it already has changes nothing (idempotence) -/
theorem set_same_noop (T : CTy) (hT : SetTy T) (v n : Nat) (hv : v < 2 ^ T.bits) (hn : n < T.bits) :
    (bitset_set_bit T).varBits [v, n, if v.testBit n then 1 else 0] "bits" = some v := by
  obtain ⟨r, hr, hlt, hbits⟩ := set_bit_spec T hT v n (v.testBit n) hv hn
  rw [hr]
  congr 1
  apply Nat.eq_of_testBit_eq
  intro i
  by_cases hi : i < T.bits
  · rw [hbits i hi]; by_cases h : i = n <;> simp [h]
  · have h1 : 2 ^ T.bits ≤ 2 ^ i := Nat.pow_le_pow_right (by decide) (Nat.le_of_not_lt hi)
    rw [Nat.testBit_lt_two_pow (Nat.lt_of_lt_of_le hlt h1),
        Nat.testBit_lt_two_pow (Nat.lt_of_lt_of_le hv h1)]

/-- setters of two different choices commute: the order of the calls is not
    observable in the underlying value -/
theorem set_commute (T : CTy) (hT : SetTy T) (v n m : Nat) (b c : Bool) (hv : v < 2 ^ T.bits)
    (hn : n < T.bits) (hm : m < T.bits) (hne : n ≠ m) :
    runSets T v [(n, b), (m, c)] = runSets T v [(m, c), (n, b)] := by
  obtain ⟨r, hr, hlt, hbits⟩ := set_sequence T hT [(n, b), (m, c)] v hv
    (by intro p hp; simp at hp; rcases hp with rfl | rfl <;> assumption)
  obtain ⟨r', hr', hlt', hbits'⟩ := set_sequence T hT [(m, c), (n, b)] v hv
    (by intro p hp; simp at hp; rcases hp with rfl | rfl <;> assumption)
  rw [hr, hr']
  congr 1
  apply Nat.eq_of_testBit_eq
  intro i
  by_cases hi : i < T.bits
  · rw [hbits i hi, hbits' i hi]
    simp only [lastWrite]
    have hne' : ¬ m = n := fun e => hne e.symm
    by_cases h1 : i = n
    · subst h1; simp [hne, hne']
    · by_cases h2 : i = m
      · subst h2; simp [hne, hne']
      · simp [h1, h2]
  · have h1 : 2 ^ T.bits ≤ 2 ^ i := Nat.pow_le_pow_right (by decide) (Nat.le_of_not_lt hi)
    rw [Nat.testBit_lt_two_pow (Nat.lt_of_lt_of_le hlt h1),
        Nat.testBit_lt_two_pow (Nat.lt_of_lt_of_le hlt' h1)]


/-! non-vacuity: the hypotheses are met by concrete non-trivial instances, and
    the statements compute -/
example : SetTy .u64 ∧ (2 ^ 63 + 5 : Nat) < 2 ^ CTy.bits .u64 ∧ 40 < CTy.bits .u64 := by
  refine ⟨Or.inr (Or.inr (Or.inr rfl)), by decide, by decide⟩
example : (bitset_get_bit .u64).retBits [2 ^ 63, 63] = some 1 := by decide
example : (bitset_get_bit .u64).retBits [2 ^ 63, 31] = some 0 := by decide
example : (bitset_set_bit .u64).varBits [0, 40, 1] "bits" = some (2 ^ 40) := by decide
example : (bitset_set_bit .u64).varBits [2 ^ 64 - 1, 31, 0] "bits" = some (2 ^ 64 - 1 - 2 ^ 31) := by decide
example : runSets .u64 5 [(63, true), (0, false), (63, false), (40, true)] = some (4 + 2 ^ 40) := by decide
example : lastWrite 63 [(63, true), (0, false), (63, false), (40, true)] = some false := by decide

end Sbepp.Properties.C15
