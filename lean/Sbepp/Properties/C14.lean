/-
  C14 — fixed-length arrays: assignment, padding and string length are exact.

  Obligations relate `Rt.StaticArray` (the transliteration of
  `sbepp::detail::static_array_ref`) to `Spec.StaticArray` on a buffer framed as
  `pre ++ arr ++ post` with the view at `|pre|`, `N = |arr|`: bytes written,
  returned iterator and frame in one equation per overload; the assertion fires
  exactly when the documented precondition is violated; `strlen`/`strlen_r`.
  No bound on `N`, on the contents or on the surrounding memory.
-/
import Sbepp.Lemmas.StaticArray
import Sbepp.Lemmas.StaticArrayTie

namespace Sbepp.Properties.C14
open Sbepp Sbepp.Rt.StaticArray Sbepp.Lemmas.StaticArray
open Sbepp.Spec.StaticArray (Eos assignString assignPrefix)

/-! ### assignment within the documented precondition: bytes, iterator, frame -/

/-- `assign_string(const char*, mode)`: `str` points at `s`, a NUL, anything -/
theorem assign_string_raw_spec (pre arr post s rest : List Nat) (m : Eos) (avail : Nat)
    (hs : ∀ c ∈ s, c ≠ 0) (hav : arr.length ≤ avail) (hlen : s.length ≤ arr.length) :
    assignStringRaw ⟨pre.length, arr.length, avail⟩ (pre ++ arr ++ post)
        (some (s ++ 0 :: rest)) (rtMode m)
      = .ok (pre ++ assignString arr s m ++ post) (some (pre.length + s.length)) := by
  have hsc : View.sizeCheck ⟨pre.length, arr.length, avail⟩ = true := by simp [View.sizeCheck, hav]
  simp only [assignStringRaw, scanNul_prefix s rest hs, hlen, decide_true, hsc, Bool.not_true,
    Bool.false_eq_true, if_false, List.take_left', copyLoop_array pre arr post s hlen]
  rw [pad_framed pre s (arr.drop s.length) post arr.length avail m
    (by simp only [List.length_drop]; omega) hav]
  rfl

/-- `assign_range(r)` -/
theorem assign_range_spec (pre arr post r : List Nat) (avail : Nat)
    (hav : arr.length ≤ avail) (hlen : r.length ≤ arr.length) :
    assignRange ⟨pre.length, arr.length, avail⟩ (pre ++ arr ++ post) r
      = .ok (pre ++ assignPrefix arr r ++ post) (some (pre.length + r.length)) := by
  have hsc : View.sizeCheck ⟨pre.length, arr.length, avail⟩ = true := by simp [View.sizeCheck, hav]
  have hle : pre.length + r.length ≤ pre.length + arr.length := by omega
  simp only [assignRange, hsc, View.endPos, Bool.not_true, Bool.false_eq_true, if_false]
  rw [copyLoop_array pre arr post r hlen]
  simp [hle, assignPrefix]

/-- `assign_string(range, mode)` -/
theorem assign_string_range_spec (pre arr post r : List Nat) (m : Eos) (avail : Nat)
    (hav : arr.length ≤ avail) (hlen : r.length ≤ arr.length) :
    assignStringRange ⟨pre.length, arr.length, avail⟩ (pre ++ arr ++ post) r (rtMode m)
      = .ok (pre ++ assignString arr r m ++ post) (some (pre.length + r.length)) := by
  simp only [assignStringRange, assign_range_spec pre arr post r avail hav hlen, assignPrefix]
  rw [pad_framed pre r (arr.drop r.length) post arr.length avail m
    (by simp only [List.length_drop]; omega) hav]
  rfl

/-- `assign(first, last)` -/
theorem assign_iter_spec (pre arr post r : List Nat) (avail : Nat)
    (hav : arr.length ≤ avail) (hlen : r.length ≤ arr.length) :
    assignIter ⟨pre.length, arr.length, avail⟩ (pre ++ arr ++ post) r
      = .ok (pre ++ assignPrefix arr r ++ post) (some (pre.length + r.length)) := by
  have hsc : View.sizeCheck ⟨pre.length, arr.length, avail⟩ = true := by simp [View.sizeCheck, hav]
  simp only [assignIter, hsc, Bool.not_true, Bool.false_eq_true, if_false]
  rw [copyLoop_array pre arr post r hlen]
  simp [hlen, assignPrefix]

/-- `assign({…})` -/
theorem assign_ilist_spec (pre arr post r : List Nat) (avail : Nat)
    (hav : arr.length ≤ avail) (hlen : r.length ≤ arr.length) :
    assignIlist ⟨pre.length, arr.length, avail⟩ (pre ++ arr ++ post) r
      = .ok (pre ++ assignPrefix arr r ++ post) (some (pre.length + r.length)) := by
  simp only [assignIlist, hlen, decide_true, Bool.not_true, Bool.false_eq_true, if_false]
  exact assign_iter_spec pre arr post r avail hav hlen

/-- `assign(count, value)` -/
theorem assign_count_spec (pre arr post : List Nat) (count value avail : Nat)
    (hav : arr.length ≤ avail) (hlen : count ≤ arr.length) :
    assignCount ⟨pre.length, arr.length, avail⟩ (pre ++ arr ++ post) count value
      = .ok (pre ++ assignPrefix arr (List.replicate count value) ++ post)
          (some (pre.length + count)) := by
  have hsc : View.sizeCheck ⟨pre.length, arr.length, avail⟩ = true := by simp [View.sizeCheck, hav]
  simp only [assignCount, hlen, hsc, fillLoop_eq_copyLoop, decide_true, Bool.not_true,
    Bool.false_eq_true, if_false]
  rw [copyLoop_array pre arr post (List.replicate count value) (by simpa using hlen)]
  simp [assignPrefix]

/-- `fill(value)` -/
theorem fill_spec (pre arr post : List Nat) (value avail : Nat) (hav : arr.length ≤ avail) :
    fill ⟨pre.length, arr.length, avail⟩ (pre ++ arr ++ post) value
      = .ok (pre ++ List.replicate arr.length value ++ post) none := by
  have hsc : View.sizeCheck ⟨pre.length, arr.length, avail⟩ = true := by simp [View.sizeCheck, hav]
  simp only [fill, hsc, fillLoop_eq_copyLoop, Bool.not_true, Bool.false_eq_true, if_false]
  rw [copyLoop_array pre arr post (List.replicate arr.length value) (by simp)]
  simp

/-! ### string length (run-time branch of `strlen()`, and `strlen_r()`) -/

theorem strlen_spec (pre arr post : List Nat) (avail : Nat) (hav : arr.length ≤ avail) :
    strlen ⟨pre.length, arr.length, avail⟩ (pre ++ arr ++ post)
      = .ok (pre ++ arr ++ post) (some (Spec.StaticArray.strlen arr)) := by
  have hsc : View.sizeCheck ⟨pre.length, arr.length, avail⟩ = true := by simp [View.sizeCheck, hav]
  simp only [strlen, hsc, memchrNul_framed, Bool.not_true, Bool.false_eq_true, if_false]
  have hle := (Spec.StaticArray.strlen_isStrlen arr).1
  by_cases h : Spec.StaticArray.strlen arr < arr.length
  · simp [h]
  · have : Spec.StaticArray.strlen arr = arr.length := by omega
    simp [this]

theorem strlen_r_spec (pre arr post : List Nat) (avail : Nat) (hav : arr.length ≤ avail) :
    strlenR ⟨pre.length, arr.length, avail⟩ (pre ++ arr ++ post)
      = .ok (pre ++ arr ++ post) (some (Spec.StaticArray.strlenR arr)) := by
  have hsc : View.sizeCheck ⟨pre.length, arr.length, avail⟩ = true := by simp [View.sizeCheck, hav]
  simp only [strlenR, hsc, rfindNonNul_framed, strlenR_eq, Bool.not_true, Bool.false_eq_true,
    if_false]

/-- `strlen()` in constant evaluation: the same value -/
theorem strlen_ce_spec (pre arr post : List Nat) (avail : Nat) (hav : arr.length ≤ avail) :
    strlenCE ⟨pre.length, arr.length, avail⟩ (pre ++ arr ++ post)
      = .ok (pre ++ arr ++ post) (some (Spec.StaticArray.strlen arr)) := by
  have hsc : View.sizeCheck ⟨pre.length, arr.length, avail⟩ = true := by simp [View.sizeCheck, hav]
  simp only [strlenCE, hsc, scanNulBounded_framed, Bool.not_true, Bool.false_eq_true, if_false]

/-! ### precondition violated -/

/-- copy-before-check overloads, precondition violated: the surplus is written
    into the memory after the array, then the handler is called -/
theorem assign_range_overflow (pre arr post r : List Nat) (avail : Nat)
    (hav : arr.length ≤ avail) (h1 : arr.length < r.length)
    (h2 : r.length ≤ arr.length + post.length) :
    assignRange ⟨pre.length, arr.length, avail⟩ (pre ++ arr ++ post) r
      = .assertFailed (pre ++ r ++ post.drop (r.length - arr.length)) := by
  have hsc : View.sizeCheck ⟨pre.length, arr.length, avail⟩ = true := by simp [View.sizeCheck, hav]
  have hle : ¬ pre.length + r.length ≤ pre.length + arr.length := by omega
  simp only [assignRange, hsc, View.endPos, Bool.not_true, Bool.false_eq_true, if_false]
  rw [copyLoop_overflow pre arr post r h1 h2]
  simp [hle]

theorem assign_iter_overflow (pre arr post r : List Nat) (avail : Nat)
    (hav : arr.length ≤ avail) (h1 : arr.length < r.length)
    (h2 : r.length ≤ arr.length + post.length) :
    assignIter ⟨pre.length, arr.length, avail⟩ (pre ++ arr ++ post) r
      = .assertFailed (pre ++ r ++ post.drop (r.length - arr.length)) := by
  have hsc : View.sizeCheck ⟨pre.length, arr.length, avail⟩ = true := by simp [View.sizeCheck, hav]
  have hle : ¬ r.length ≤ arr.length := by omega
  simp only [assignIter, hsc, Bool.not_true, Bool.false_eq_true, if_false]
  rw [copyLoop_overflow pre arr post r h1 h2]
  simp [hle]

/-- check-before-copy overloads, precondition violated: nothing is written -/
theorem assign_string_raw_rejects (pre arr post s rest : List Nat) (m : EosNull) (avail : Nat)
    (hs : ∀ c ∈ s, c ≠ 0) (hlen : arr.length < s.length) :
    assignStringRaw ⟨pre.length, arr.length, avail⟩ (pre ++ arr ++ post)
        (some (s ++ 0 :: rest)) m
      = .assertFailed (pre ++ arr ++ post) := by
  have : ¬ s.length ≤ arr.length := by omega
  simp [assignStringRaw, scanNul_prefix s rest hs, this]

theorem assign_ilist_rejects (pre arr post r : List Nat) (avail : Nat)
    (hlen : arr.length < r.length) :
    assignIlist ⟨pre.length, arr.length, avail⟩ (pre ++ arr ++ post) r
      = .assertFailed (pre ++ arr ++ post) := by
  have : ¬ r.length ≤ arr.length := by omega
  simp [assignIlist, this]

theorem assign_count_rejects (pre arr post : List Nat) (count value avail : Nat)
    (hlen : arr.length < count) :
    assignCount ⟨pre.length, arr.length, avail⟩ (pre ++ arr ++ post) count value
      = .assertFailed (pre ++ arr ++ post) := by
  have : ¬ count ≤ arr.length := by omega
  simp [assignCount, this]

/-! ### the model agrees with `Spec.apply`, for every documented call
    (`denote`, `Agrees`: `Lemmas/StaticArray.lean`) -/

/-- **C14 (main)**: for every array length, content, surrounding memory and every
    documented call — any overload, any mode, input of *any* length — the
    model does what the specification says: with input length `≤ N` exactly the
    documented bytes, the documented iterator and nothing outside the array; with
    input length `> N` the assertion handler.  (`hfit`: the memory after the
    array is long enough to receive what the two copy-before-check overloads
    write before they assert; without it the outcome is `ub`.) -/
theorem run_agrees_spec (pre arr post : List Nat) (avail : Nat) (op : Op)
    (sop : Spec.StaticArray.Op) (hd : denote op = some sop) (hav : arr.length ≤ avail)
    (hfit : ∀ r m, op = .assignStringRange r m ∨ op = .assignRange r ∨ op = .assignIter r →
      r.length ≤ arr.length + post.length) :
    Agrees pre post (run ⟨pre.length, arr.length, avail⟩ (pre ++ arr ++ post) op)
      (Spec.StaticArray.apply arr sop) := by
  cases op with
  | assignStringRaw str m =>
    cases str with
    | none => simp [denote] at hd
    | some mem =>
      by_cases h0 : 0 ∈ mem
      · obtain ⟨rest, hmem, hnz⟩ := mem_split_takeWhile mem h0
        generalize hS : mem.takeWhile (fun b => b != 0) = s at hmem hnz hd
        have key : ∀ e : Eos, m = rtMode e → sop = .assignString s e →
            Agrees pre post (run ⟨pre.length, arr.length, avail⟩ (pre ++ arr ++ post)
              (.assignStringRaw (some mem) m)) (Spec.StaticArray.apply arr sop) := by
          intro e hm hsop
          subst hm hsop
          simp only [run, Spec.StaticArray.apply]
          by_cases hl : s.length ≤ arr.length
          · simp only [hl, if_true, Agrees, hmem]
            exact assign_string_raw_spec pre arr post s rest e avail hnz hav hl
          · simp only [hl, if_false, Agrees, hmem]
            exact ⟨_, assign_string_raw_rejects pre arr post s rest _ avail hnz (by omega)⟩
        cases m with
        | none => exact key .none rfl (by simp [denote, h0, hS] at hd; exact hd.symm)
        | single => exact key .single rfl (by simp [denote, h0, hS] at hd; exact hd.symm)
        | all => exact key .all rfl (by simp [denote, h0, hS] at hd; exact hd.symm)
        | invalid => simp [denote, h0] at hd
      · simp [denote, h0] at hd
  | assignStringRange r m =>
    have key : ∀ e : Eos, m = rtMode e → sop = .assignString r e →
        Agrees pre post (run ⟨pre.length, arr.length, avail⟩ (pre ++ arr ++ post)
          (.assignStringRange r m)) (Spec.StaticArray.apply arr sop) := by
      intro e hm hsop
      subst hm hsop
      simp only [run, Spec.StaticArray.apply]
      by_cases hl : r.length ≤ arr.length
      · simp only [hl, if_true, Agrees]
        exact assign_string_range_spec pre arr post r e avail hav hl
      · simp only [hl, if_false, Agrees]
        refine ⟨pre ++ r ++ post.drop (r.length - arr.length), ?_⟩
        simp only [assignStringRange,
          assign_range_overflow pre arr post r avail hav (by omega) (hfit r _ (Or.inl rfl))]
    cases m with
    | none => exact key .none rfl (by simp [denote] at hd; exact hd.symm)
    | single => exact key .single rfl (by simp [denote] at hd; exact hd.symm)
    | all => exact key .all rfl (by simp [denote] at hd; exact hd.symm)
    | invalid => simp [denote] at hd
  | assignRange r =>
    simp only [denote, Option.some.injEq] at hd
    subst hd
    simp only [run, Spec.StaticArray.apply]
    by_cases hl : r.length ≤ arr.length
    · simp only [hl, if_true, Agrees]
      exact assign_range_spec pre arr post r avail hav hl
    · simp only [hl, if_false, Agrees]
      exact ⟨_, assign_range_overflow pre arr post r avail hav (by omega)
        (hfit r .none (Or.inr (Or.inl rfl)))⟩
  | assignIter r =>
    simp only [denote, Option.some.injEq] at hd
    subst hd
    simp only [run, Spec.StaticArray.apply]
    by_cases hl : r.length ≤ arr.length
    · simp only [hl, if_true, Agrees]
      exact assign_iter_spec pre arr post r avail hav hl
    · simp only [hl, if_false, Agrees]
      exact ⟨_, assign_iter_overflow pre arr post r avail hav (by omega)
        (hfit r .none (Or.inr (Or.inr rfl)))⟩
  | assignIlist r =>
    simp only [denote, Option.some.injEq] at hd
    subst hd
    simp only [run, Spec.StaticArray.apply]
    by_cases hl : r.length ≤ arr.length
    · simp only [hl, if_true, Agrees]
      exact assign_ilist_spec pre arr post r avail hav hl
    · simp only [hl, if_false, Agrees]
      exact ⟨_, assign_ilist_rejects pre arr post r avail (by omega)⟩
  | assignCount c x =>
    simp only [denote, Option.some.injEq] at hd
    subst hd
    simp only [run, Spec.StaticArray.apply]
    by_cases hl : c ≤ arr.length
    · simp only [hl, if_true, Agrees]
      exact assign_count_spec pre arr post c x avail hav hl
    · simp only [hl, if_false, Agrees]
      exact ⟨_, assign_count_rejects pre arr post c x avail (by omega)⟩
  | fill x =>
    simp only [denote, Option.some.injEq] at hd
    subst hd
    simp only [run, Spec.StaticArray.apply, Agrees]
    exact fill_spec pre arr post x avail hav
  | strlen =>
    simp only [denote, Option.some.injEq] at hd
    subst hd
    simp only [run, Spec.StaticArray.apply, Agrees]
    exact strlen_spec pre arr post avail hav
  | strlenR =>
    simp only [denote, Option.some.injEq] at hd
    subst hd
    simp only [run, Spec.StaticArray.apply, Agrees]
    exact strlen_r_spec pre arr post avail hav
  | strlenCE =>
    simp only [denote, Option.some.injEq] at hd
    subst hd
    simp only [run, Spec.StaticArray.apply, Agrees]
    exact strlen_ce_spec pre arr post avail hav

/-! ### consequences, in the property's own words -/

/-- frame: whatever a documented call returns normally, the memory before and
    after the array is byte for byte what it was, and the array keeps its
    length (never beyond element `N-1`) -/
theorem assign_frame (pre arr post : List Nat) (sop : Spec.StaticArray.Op) (o : Outcome)
    (h : Agrees pre post o (Spec.StaticArray.apply arr sop)) (buf' : List Nat) (ret : Option Nat)
    (ho : o = .ok buf' ret) :
    ∃ arr', buf' = pre ++ arr' ++ post ∧ arr'.length = arr.length ∧
      ∀ i, (i < pre.length ∨ pre.length + arr.length ≤ i) →
        buf'[i]? = (pre ++ arr ++ post)[i]? := by
  cases hr : Spec.StaticArray.apply arr sop with
  | reject =>
    rw [hr] at h
    obtain ⟨b, hb⟩ := h
    rw [hb] at ho
    cases ho
  | ok arr' r =>
    have hlen := Spec.StaticArray.apply_length arr sop arr' r hr
    rw [hr] at h
    have hbuf : buf' = pre ++ arr' ++ post := by
      cases r <;> simp only [Agrees] at h <;> rw [h] at ho <;> cases ho <;> rfl
    exact ⟨arr', hbuf, hlen, fun i hi => hbuf ▸ frame_getElem? pre arr arr' post hlen i hi⟩

/-- no assertion (and no out-of-bounds access) when the documented
    precondition holds -/
theorem no_assert_in_contract (pre arr post : List Nat) (avail : Nat) (op : Op)
    (sop : Spec.StaticArray.Op) (hd : denote op = some sop) (hav : arr.length ≤ avail)
    (hc : Spec.StaticArray.InContract arr.length sop) :
    ∃ buf' ret, run ⟨pre.length, arr.length, avail⟩ (pre ++ arr ++ post) op = .ok buf' ret := by
  have h := run_agrees_spec pre arr post avail op sop hd hav (fits_of_inContract arr post op sop hd hc)
  cases hr : Spec.StaticArray.apply arr sop with
  | reject => exact absurd hc ((Spec.StaticArray.apply_reject_iff arr sop).1 hr)
  | ok arr' r =>
    rw [hr] at h
    cases r <;> exact ⟨_, _, h⟩

/-- the assertion does fire when the documented precondition is violated -/
theorem assert_outside_contract (pre arr post : List Nat) (avail : Nat) (op : Op)
    (sop : Spec.StaticArray.Op) (hd : denote op = some sop) (hav : arr.length ≤ avail)
    (hc : ¬ Spec.StaticArray.InContract arr.length sop)
    (hfit : ∀ r m, op = .assignStringRange r m ∨ op = .assignRange r ∨ op = .assignIter r →
      r.length ≤ arr.length + post.length) :
    ∃ b, run ⟨pre.length, arr.length, avail⟩ (pre ++ arr ++ post) op = .assertFailed b := by
  have h := run_agrees_spec pre arr post avail op sop hd hav hfit
  rw [(Spec.StaticArray.apply_reject_iff arr sop).2 hc] at h
  exact h

/-- a view whose byte range is shorter than `N`: the `SBEPP_SIZE_CHECK` of
    `data()` stops every operation before anything is written -/
theorem view_too_small_rejects (v : View) (buf : List Nat) (op : Op) (h : v.avail < v.N) :
    run v buf op = .assertFailed buf ∨ run v buf op = .ub := by
  have hsc : v.sizeCheck = false := by simp [View.sizeCheck]; omega
  cases op with
  | assignStringRaw str m =>
    cases str with
    | none => simp [run, assignStringRaw]
    | some mem =>
      simp only [run, assignStringRaw]
      cases scanNul mem with
      | none => simp
      | some len => by_cases hl : len ≤ v.N <;> simp [hl, hsc]
  | assignStringRange r m => simp [run, assignStringRange, assignRange, hsc]
  | assignRange r => simp [run, assignRange, hsc]
  | assignCount c x => by_cases hl : c ≤ v.N <;> simp [run, assignCount, hl, hsc]
  | assignIter r => simp [run, assignIter, hsc]
  | assignIlist r => by_cases hl : r.length ≤ v.N <;> simp [run, assignIlist, assignIter, hl, hsc]
  | fill x => simp [run, fill, hsc]
  | strlen => simp [run, strlen, hsc]
  | strlenCE => simp [run, strlenCE, hsc]
  | strlenR => simp [run, strlenR, hsc]

/-- both branches of `strlen()` agree on every array -/
theorem strlen_variants_agree (pre arr post : List Nat) (avail : Nat) (hav : arr.length ≤ avail) :
    strlenCE ⟨pre.length, arr.length, avail⟩ (pre ++ arr ++ post)
      = strlen ⟨pre.length, arr.length, avail⟩ (pre ++ arr ++ post) := by
  rw [strlen_ce_spec pre arr post avail hav, strlen_spec pre arr post avail hav]

/-! ### non-vacuity: hypotheses are met by concrete non-trivial instances, and
    the statements compute -/

-- "ab" into a 4-element array "bbbb" between guards, one NUL
example : assignStringRaw ⟨1, 4, 4⟩ [126, 98, 98, 98, 98, 126] (some [97, 98, 0, 55]) .single
    = .ok [126, 97, 98, 0, 98, 126] (some 3) := by decide
example : (∀ c ∈ [97, 98], c ≠ 0) ∧ [98, 98, 98, 98].length ≤ 4 ∧ [97, 98].length ≤ 4 := by decide
-- input of exactly N elements: no NUL is written, `end()` is returned
example : assignStringRange ⟨1, 2, 2⟩ [126, 0, 0, 126] [97, 98] .all
    = .ok [126, 97, 98, 126] (some 3) := by decide
-- N = 0
example : assignStringRaw ⟨1, 0, 0⟩ [126, 126] (some [0]) .all = .ok [126, 126] (some 1) := by decide
example : strlen ⟨1, 0, 0⟩ [126, 126] = .ok [126, 126] (some 0) := by decide
-- N + 1 elements: iterator pair writes the guard and then asserts; the
-- initializer list asserts first
example : assignIter ⟨1, 2, 2⟩ [126, 0, 0, 126] [97, 98, 99] = .assertFailed [126, 97, 98, 99] := by
  decide
example : assignIlist ⟨1, 2, 2⟩ [126, 0, 0, 126] [97, 98, 99] = .assertFailed [126, 0, 0, 126] := by
  decide
example : denote (.assignStringRaw (some [97, 98, 0, 55]) .single)
    = some (.assignString [97, 98] .single) := by simp [denote]
example : Spec.StaticArray.InContract 4 (.assignString [97, 98] .single) := by
  simp [Spec.StaticArray.InContract]
example : ¬ Spec.StaticArray.InContract 1 (.assignString [97, 98] .single) := by
  simp [Spec.StaticArray.InContract]
-- strlen / strlen_r on "a\0b\0"
example : strlen ⟨1, 4, 4⟩ [126, 97, 0, 98, 0, 126] = .ok [126, 97, 0, 98, 0, 126] (some 1) := by decide
example : strlenR ⟨1, 4, 4⟩ [126, 97, 0, 98, 0, 126] = .ok [126, 97, 0, 98, 0, 126] (some 3) := by decide
-- constant evaluation on a full array stops at `size()`
example : strlenCE ⟨1, 1, 1⟩ [126, 97, 126, 0] = .ok [126, 97, 126, 0] (some 1) := by decide
example : Spec.StaticArray.strlen [97] = 1 := by decide
example : (0 : Nat) ∈ [97, 0, 98] := by decide
example : ∃ v : View, v.avail < v.N := ⟨⟨0, 2, 1⟩, by decide⟩

/-! ### the same statements about the definitions regenerated from `sbepp.hpp`

  `Sbepp.Extracted.StaticArray` is written by `extract/methods_staticarray.py`
  from the text of `static_array_ref` on every check; `Lemmas/StaticArrayTie.lean`
  proves each regenerated member function equal to the hand model above
  (`runX_tie`).  The statements below are therefore about what the code says
  now, for either branch of `is_constant_evaluated()` and either value of
  `SBEPP_HAS_RANGES` (`cfg`).  Extra hypotheses, both true of every program:
  `end - begin` of the view fits `std::size_t` (`h64`; with `hav` so does `N`),
  and the lengths that the C++ converts to `std::size_t` fit it (`OpFits`). -/

open Sbepp.Lemmas.StaticArrayTie (Cfg runX OpFits runX_tie)

theorem fits_of (n avail off : Nat) (hav : n ≤ avail) (h64 : avail < 18446744073709551616) :
    View.Fits ⟨off, n, avail⟩ := ⟨Nat.lt_of_le_of_lt hav h64, h64⟩

/-- **C14 (main), for the regenerated definitions** -/
theorem run_agrees_spec_extracted (cfg : Cfg) (pre arr post : List Nat) (avail : Nat) (op : Op)
    (sop : Spec.StaticArray.Op) (hd : denote op = some sop) (hav : arr.length ≤ avail)
    (hfit : ∀ r m, op = .assignStringRange r m ∨ op = .assignRange r ∨ op = .assignIter r →
      r.length ≤ arr.length + post.length)
    (h64 : avail < 18446744073709551616) (hop : OpFits op) :
    Agrees pre post (runX cfg ⟨pre.length, arr.length, avail⟩ (pre ++ arr ++ post) op)
      (Spec.StaticArray.apply arr sop) := by
  rw [runX_tie cfg _ (fits_of _ _ _ hav h64) _ op hop]
  exact run_agrees_spec pre arr post avail op sop hd hav hfit

theorem no_assert_in_contract_extracted (cfg : Cfg) (pre arr post : List Nat) (avail : Nat) (op : Op)
    (sop : Spec.StaticArray.Op) (hd : denote op = some sop) (hav : arr.length ≤ avail)
    (hc : Spec.StaticArray.InContract arr.length sop)
    (h64 : avail < 18446744073709551616) (hop : OpFits op) :
    ∃ buf' ret, runX cfg ⟨pre.length, arr.length, avail⟩ (pre ++ arr ++ post) op = .ok buf' ret := by
  rw [runX_tie cfg _ (fits_of _ _ _ hav h64) _ op hop]
  exact no_assert_in_contract pre arr post avail op sop hd hav hc

theorem assert_outside_contract_extracted (cfg : Cfg) (pre arr post : List Nat) (avail : Nat)
    (op : Op) (sop : Spec.StaticArray.Op) (hd : denote op = some sop) (hav : arr.length ≤ avail)
    (hc : ¬ Spec.StaticArray.InContract arr.length sop)
    (hfit : ∀ r m, op = .assignStringRange r m ∨ op = .assignRange r ∨ op = .assignIter r →
      r.length ≤ arr.length + post.length)
    (h64 : avail < 18446744073709551616) (hop : OpFits op) :
    ∃ b, runX cfg ⟨pre.length, arr.length, avail⟩ (pre ++ arr ++ post) op = .assertFailed b := by
  rw [runX_tie cfg _ (fits_of _ _ _ hav h64) _ op hop]
  exact assert_outside_contract pre arr post avail op sop hd hav hc hfit

/-- a view shorter than `N` (here `N` itself must fit `std::size_t`, which
    `avail < N` no longer implies) -/
theorem view_too_small_rejects_extracted (cfg : Cfg) (v : View) (buf : List Nat) (op : Op)
    (h : v.avail < v.N) (hN : v.N < 18446744073709551616) (hop : OpFits op) :
    runX cfg v buf op = .assertFailed buf ∨ runX cfg v buf op = .ub := by
  rw [runX_tie cfg v ⟨hN, Nat.lt_trans h hN⟩ buf op hop]
  exact view_too_small_rejects v buf op h

/-- both branches of the regenerated `strlen()` agree on every array -/
theorem strlen_variants_agree_extracted (pre arr post : List Nat) (avail : Nat)
    (hav : arr.length ≤ avail) (h64 : avail < 18446744073709551616) :
    Extracted.StaticArray.strlenCE ⟨pre.length, arr.length, avail⟩ (pre ++ arr ++ post)
      = Extracted.StaticArray.strlen ⟨pre.length, arr.length, avail⟩ (pre ++ arr ++ post) := by
  rw [Lemmas.StaticArrayTie.strlenCE_tie _ (fits_of _ _ _ hav h64),
    Lemmas.StaticArrayTie.strlen_tie _ (fits_of _ _ _ hav h64)]
  exact strlen_variants_agree pre arr post avail hav

-- non-vacuity of the added hypotheses, and the regenerated definitions compute
example : View.Fits ⟨1, 4, 4⟩ := by simp [View.Fits]
example : OpFits (.assignStringRaw (some [97, 98, 0, 55]) .single) ∧ OpFits (.assignIter [97, 98, 99]) := by
  simp [OpFits]
example : runX ⟨false, false⟩ ⟨1, 4, 4⟩ [126, 98, 98, 98, 98, 126] (.assignStringRaw (some [97, 98, 0, 55]) .single)
    = .ok [126, 97, 98, 0, 98, 126] (some 3) := by decide
example : runX ⟨true, true⟩ ⟨1, 4, 4⟩ [126, 98, 98, 98, 98, 126] (.assignStringRaw (some [97, 98, 0, 55]) .single)
    = .ok [126, 97, 98, 0, 98, 126] (some 3) := by decide
example : runX ⟨false, true⟩ ⟨1, 2, 2⟩ [126, 0, 0, 126] (.assignRange [97, 98, 99])
    = .assertFailed [126, 97, 98, 99] := by decide
example : runX ⟨false, false⟩ ⟨1, 4, 4⟩ [126, 97, 0, 98, 0, 126] .strlenCE
    = .ok [126, 97, 0, 98, 0, 126] (some 1) := by decide
example : runX ⟨false, false⟩ ⟨1, 4, 4⟩ [126, 97, 0, 98, 0, 126] .strlenR
    = .ok [126, 97, 0, 98, 0, 126] (some 3) := by decide

end Sbepp.Properties.C14
