/-
  C05 (flat groups) — `size_bytes` of a flat group is exactly
  `header size + numInGroup × blockLength` for every one of the 16
  (numInGroup type, blockLength type) pairs whenever that fits `size_t`,
  products beyond 31 or 32 bits included.

  Obligations are about `Extracted.flat_group_size_bytes`, the kernel translated
  from `flat_group_base::operator()(size_bytes_tag)` of /repo on this run.
-/
import Sbepp.Lemmas.GroupArith

namespace Sbepp.Properties.C05Flat
open Sbepp Sbepp.Rt Sbepp.Extracted Sbepp.CVal

/-- **exactness**: no hypothesis other than "the size fits `size_t`" and "the
    header fields hold values of their types" -/
theorem flat_size_exact (NT BT : CTy) (hNT : DimTy NT) (hBT : DimTy BT) (hdr n bl : Nat)
    (hn : n < 2 ^ NT.bits) (hb : bl < 2 ^ BT.bits) (hfit : hdr + n * bl < 2 ^ 64) :
    (flat_group_size_bytes NT BT).retBits [hdr, n, bl] = some (Spec.Group.flatSize hdr n bl) :=
  flat_size_eval NT BT hNT hBT hdr n bl hn hb hfit

/-- when the size does not fit, the computation is still defined (unsigned
    arithmetic in `size_t`): it returns the size modulo 2^64, never undefined
    behaviour -/
theorem flat_size_mod (NT BT : CTy) (hNT : DimTy NT) (hBT : DimTy BT) (hdr n bl : Nat)
    (hh : hdr < 2 ^ 64) (hn : n < 2 ^ NT.bits) (hb : bl < 2 ^ BT.bits) :
    (flat_group_size_bytes NT BT).retBits [hdr, n, bl] = some (Spec.Group.flatSize hdr n bl % 2 ^ 64) := by
  have hle := hNT.pow_le
  have rn : inRange NT (n : Int) = true := inRange_nat NT hNT.unsigned n hn
  have hm : (n * bl) % 2 ^ 64 < 2 ^ 64 := Nat.mod_lt _ (Nat.two_pow_pos _)
  have e1 : wrap .u64 ((n * bl : Nat) : Int) = wrap .u64 (((n * bl) % 2 ^ 64 : Nat) : Int) := by
    apply wrap_congr
    unfold CTy.modulus
    simp only [CTy.bits, Int.natCast_emod, Int.emod_emod_of_dvd _ (Int.dvd_refl _)]
  have e2 : (wrap .u64 ((hdr + (n * bl) % 2 ^ 64 : Nat) : Int)).bits = (hdr + n * bl) % 2 ^ 64 := by
    have h := wrap_bits .u64 ((hdr + (n * bl) % 2 ^ 64 : Nat) : Int)
    unfold CTy.modulus at h
    simp only [CTy.bits] at h
    have : ((wrap .u64 ((hdr + (n * bl) % 2 ^ 64 : Nat) : Int)).bits : Int)
        = (((hdr + n * bl) % 2 ^ 64 : Nat) : Int) := by
      rw [h]; simp only [Int.natCast_emod, Int.natCast_add, Int.natCast_mul]; omega
    exact_mod_cast this
  have hc : ∀ i : Int, conv .u64 (wrap .u64 i) = wrap .u64 i :=
    fun i => conv_wrap_same_width .u64 .u64 (by decide) rfl i
  simp only [flat_group_size_bytes, Kernel.retBits, Kernel.run, execStmts, mkEnv, CExpr.eval, Env.get?,
    String.reduceEq, ↓reduceIte, Option.map, mk_mod_eq_wrap,
    conv_wrap NT .u64 n rn (by decide), mul_u64 BT hBT n bl (by omega) hb, e1,
    add_u64 hdr ((n * bl) % 2 ^ 64) hh hm, hc, e2, Spec.Group.flatSize]

/-- the same through the model of the group view (`sbepp::size_bytes(g)`) -/
theorem flat_size_model (NT BT : CTy) (hNT : DimTy NT) (hBT : DimTy BT) (g : Group)
    (hn : g.num < 2 ^ NT.bits) (hb : g.bl < 2 ^ BT.bits) (hfit : g.hdr + g.num * g.bl < 2 ^ 64) :
    flatSizeBytes NT BT false g = .ok (Spec.Group.flatSize g.hdr g.num g.bl) := by
  simp only [flatSizeBytes, headerCheck_unchecked, Outcome.bind_ok,
    flat_size_eval NT BT hNT hBT g.hdr g.num g.bl hn hb hfit, Outcome.ofOption, Spec.Group.flatSize]

/-! non-vacuity, including the products the old code got wrong -/
example : (flat_group_size_bytes .u16 .u16).retBits [4, 65535, 65535] = some (4 + 65535 * 65535) := by decide
example : (flat_group_size_bytes .u32 .u32).retBits [8, 70000, 70000] = some (8 + 70000 * 70000) := by decide
example : (flat_group_size_bytes .u8 .u32).retBits [5, 255, 4294967295] = some (5 + 255 * 4294967295) := by decide
example : (flat_group_size_bytes .u64 .u64).retBits [16, 4294967296, 4294967295]
    = some (16 + 4294967296 * 4294967295) := by decide
example : DimTy .u16 ∧ (65535 : Nat) < 2 ^ CTy.bits .u16 ∧ 4 + 65535 * 65535 < 2 ^ 64 := by
  refine ⟨Or.inr (Or.inl rfl), by decide, by decide⟩

end Sbepp.Properties.C05Flat
