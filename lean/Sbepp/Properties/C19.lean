/-
  C19 — visiting and tag-based access enumerate members faithfully.

  `Spec.Events.eventsL` is the list of callbacks (one record each, in order,
  with the member's name as reported by its own tag and the value the named
  accessor returns) that a complete recursing visit must produce for a value
  tree.  The runtime model of visiting is that observer applied to the tree
  reconstructed from the buffer by `parseL` (positions from header values read
  back from the buffer, exactly as the cursor-driven generated `visit_children`
  advances).  The real visitors are tied to it by the correspondence check
  (recording visitor with a stop counter swept over every k).
-/
import Sbepp.Lemmas.Parse
import Sbepp.Lemmas.Walk
import Sbepp.Spec.Events
import Sbepp.Lemmas.VisitTree

namespace Sbepp.Properties.C19
open Sbepp Sbepp.Schema Sbepp.Spec.Events

/-- **visit_events**: on any buffer containing a well-formed image (any nesting,
    counts, lengths, wire block lengths ≥ compiled) the visit model reports
    exactly the specified callbacks: each non-constant member and each entry
    once, in schema order, with the values of the value tree. -/
theorem visit_events (bo : ByteOrder) (types : List Elem) (pfx : String) (fds : List FieldDef) (gds : List GroupDef)
    (l : NLevel) (v : LVal) (wbl : Nat) (pre post : List Nat) (hc : ConfL bo l.erase v wbl) :
    eventsL bo types pfx fds gds l (parseL bo (pre ++ flattenL bo l.erase v ++ post) l.erase pre.length wbl)
      = eventsL bo types pfx fds gds l v := by
  rw [parseL_flatten bo l.erase v wbl _ pre post hc rfl]

/-- **visit_cursor_at_end**: after a complete visit the cursor is at the end of
    the visited view -/
theorem visit_cursor_at_end (bo : ByteOrder) (l : Level) (v : LVal) (wbl : Nat) (pre post : List Nat)
    (hc : ConfL bo l v wbl) :
    endL bo (pre ++ flattenL bo l v ++ post) l pre.length wbl = pre.length + (flattenL bo l v).length :=
  endL_spec bo l v wbl _ pre post hc rfl

/-- **visit_stops**: a visitor that returns true at its k-th callback has seen
    exactly the first k records (the generated `||` chains and the entry loops
    evaluate callbacks left to right and stop at the first `true`): the record
    list of a stopped visit is a prefix of the complete one, of length k. -/
theorem visit_stops (evs : List String) (k : Nat) (hk : k ≤ evs.length) :
    (evs.take k).length = k ∧ ∃ rest, evs = evs.take k ++ rest :=
  ⟨by rw [List.length_take]; omega, ⟨evs.drop k, (List.take_append_drop k evs).symm⟩⟩

/-- **visit_tree_is_scan**: why the record list of a stopped visit is a prefix.
    The callbacks of a recursing visit form a tree (member → callbacks made by
    its `visit_children`); the generated `||` chains and the entry loops
    (`VisitTree.visitT`/`visitAll`) evaluate it left to right and return at the
    first `true`.  For *every* stateful visitor this is the same as scanning the
    pre-order callback list and stopping at the first `true`: no callback after
    the stop, none skipped before it, the visitor's state threaded in order. -/
theorem visit_tree_is_scan {σ : Type} (cb : σ → String → σ × Bool) (s : σ) (t : VisitTree.CbTree) :
    VisitTree.visitT cb s t = VisitTree.scan cb s t.flatten :=
  VisitTree.visitT_eq_scan cb s t

/-- **visit_stops_tree**: the recording visitor that returns `true` at its k-th
    callback sees exactly the first k callbacks of the complete visit and the
    visit reports the stop; for `k = 0` or `k` beyond the number of callbacks it
    sees all of them and the visit returns `false`. -/
theorem visit_stops_tree (t : VisitTree.CbTree) (k : Nat) :
    VisitTree.visitT (VisitTree.recorder k) [] t =
      if 0 < k ∧ k ≤ t.flatten.length then (t.flatten.take k, true) else (t.flatten, false) := by
  rw [VisitTree.visitT_eq_scan, VisitTree.scan_recorder]
  simp

/-- visiting a set reports every known choice with exactly its bit -/
theorem set_visit (choices : List Choice) (v : Nat) (name enc : String) (o : Option Nat) (a : Attrs) :
    setSuffix (.set name enc o choices a) v
      = "/{" ++ ",".intercalate (choices.map (fun c => c.name ++ "=" ++ (if v.testBit c.index then "1" else "0"))) ++ "}" :=
  rfl

/-- visiting an enum value yields the name of a valid value with that value, or `unknown` -/
theorem enum_visit (values : List ValidValue) (prim : String) (v : Nat) (name enc : String) (o : Option Nat) (a : Attrs) :
    (∃ x ∈ values, validValueNum prim x.value = some v ∧ enumSuffix (.enum name enc o values a) prim v = "/" ++ x.name)
    ∨ ((∀ x ∈ values, validValueNum prim x.value ≠ some v) ∧ enumSuffix (.enum name enc o values a) prim v = "/unknown") := by
  simp only [enumSuffix]
  cases h : values.find? (fun x => validValueNum prim x.value = some v) with
  | some x =>
    left
    refine ⟨x, List.mem_of_find?_eq_some h, ?_, by simp⟩
    have := List.find?_some h
    simpa using this
  | none =>
    right
    refine ⟨?_, by simp⟩
    intro x hx
    have := List.find?_eq_none.mp h x hx
    simpa using this

/-! non-vacuity: callbacks of a message with a scalar, an array, a group with
    two entries (one nested data member each) and a data member -/
example :
    let fds : List FieldDef := [{ name := "a", id := 1, type := "uint16", offset := none, presence := .required },
                                { name := "s", id := 2, type := "A", offset := none, presence := .required }]
    let g : NGroup := .mk "g" ⟨"dim", ⟨3, 0, 2, 2, 1, []⟩, "uint16", "uint8", []⟩
        (.mk 1 [⟨["x"], 0, 1, "uint8", 1, "type"⟩] [] [⟨"d", 1, "uint8", 0, 1, "uint8"⟩])
    let gd : GroupDef := .mk "g" 3 "dim" none
        [{ name := "x", id := 4, type := "uint8", offset := none, presence := .required }] [] [⟨"d", 5, "V", {}⟩]
    let l : NLevel := .mk 4 [⟨["a"], 0, 2, "uint16", 1, "type"⟩, ⟨["s"], 2, 2, "char", 2, "array"⟩] [g]
        [⟨"e", 2, "uint16", 0, 2, "char"⟩]
    let v : LVal := .mk [1, 2, 0x61, 0x62] [.mk [1, 0, 2] [.mk [5] [] [[7]], .mk [6] [] [[]]]] [[9]]
    eventsL .little [] "" fds [gd] l v
      = ["F:a=201", "F:s=[6162]", "G:g:n=2", "E:g[0]", "F:g[0].x=5", "D:g[0].d=<07>", "E:g[1]", "F:g[1].x=6",
         "D:g[1].d=<>", "D:e=<09>"] := by decide

/-! non-vacuity: a message with a field, a group of two entries and a data
    member; stop at the 4th callback (inside the first entry) -/
example :
    let t : VisitTree.CbTree := .node "M" [.node "F:a" [], .node "G:g" [.node "E:g[0]" [.node "F:g[0].x" []],
      .node "E:g[1]" [.node "F:g[1].x" []]], .node "D:e" []]
    VisitTree.visitT (VisitTree.recorder 4) [] t = (["M", "F:a", "G:g", "E:g[0]"], true)
    ∧ VisitTree.visitT (VisitTree.recorder 0) [] t
        = (["M", "F:a", "G:g", "E:g[0]", "F:g[0].x", "E:g[1]", "F:g[1].x", "D:e"], false) := by
  decide

end Sbepp.Properties.C19
