/-
  C02 — decoding returns exactly what a conforming SBE encoder wrote.
  C03's `decode_image_ext` is the same theorem read with wire block lengths
  above the compiled ones; here it is stated for a whole message behind its
  header.
-/
import Sbepp.Lemmas.Decode
import Sbepp.Lemmas.ResolveWF
import Sbepp.Lemmas.RoundTripObs

namespace Sbepp.Properties.C02
open Sbepp Sbepp.Schema Sbepp.Observe

/-- **decode_image**: for every resolved message layout whose leaves lie inside
    their blocks, every well-formed image `hdr ++ image(root)` (any nesting, any
    entry counts, any data lengths) followed by arbitrary bytes: the runtime
    model, which consults only the buffer (header `blockLength`, group
    dimensions, data length prefixes), observes exactly the fields, group sizes,
    entry sizes and data payloads of the value tree, and the total size it
    computes is the image length. -/
theorem decode_image (bo : ByteOrder) (m : NMessage) (hdr : List Nat) (root : LVal) (post : List Nat)
    (blOff blSize : Nat)
    (hw : WFL m.level) (hh : hdr.length = m.hdrSize) (hb : blOff + blSize ≤ hdr.length)
    (hc : ConfL bo m.level.erase root (get bo (slice hdr blOff blSize))) :
    let buf := hdr ++ flattenL bo m.level.erase root ++ post
    modelL bo buf "" m.level m.hdrSize (rd bo buf blOff blSize) = specL bo "" m.level root
    ∧ endL bo buf m.level.erase m.hdrSize (rd bo buf blOff blSize)
        = (hdr ++ flattenL bo m.level.erase root).length := by
  intro buf
  have hrd : rd bo buf blOff blSize = get bo (slice hdr blOff blSize) := by
    have := rd_mid bo [] hdr (flattenL bo m.level.erase root ++ post) blOff blSize hb
    simp only [List.nil_append, List.length_nil, Nat.zero_add] at this
    show rd bo (hdr ++ flattenL bo m.level.erase root ++ post) blOff blSize = _
    rw [List.append_assoc]; exact this
  rw [hrd, ← hh]
  exact ⟨decL bo "" m.level root _ buf hdr post hw hc rfl,
         by rw [endL_spec bo m.level.erase root _ buf hdr post hc rfl, List.length_append]⟩

/-- **decode_image_accepted**: the same for every message of every schema the
    validator model accepts — the layout hypothesis is discharged by
    `resolve_wf` (accepted layouts have their leaves inside the block). -/
theorem decode_image_accepted (s : SchemaDef) (md : MessageDef) (m : NMessage)
    (hr : resolveMessage s md = .ok m) (hdr : List Nat) (root : LVal) (post : List Nat) (blOff blSize : Nat)
    (hh : hdr.length = m.hdrSize) (hb : blOff + blSize ≤ hdr.length)
    (hc : ConfL s.byteOrder m.level.erase root (get s.byteOrder (slice hdr blOff blSize))) :
    let buf := hdr ++ flattenL s.byteOrder m.level.erase root ++ post
    modelL s.byteOrder buf "" m.level m.hdrSize (rd s.byteOrder buf blOff blSize) = specL s.byteOrder "" m.level root
    ∧ endL s.byteOrder buf m.level.erase m.hdrSize (rd s.byteOrder buf blOff blSize)
        = (hdr ++ flattenL s.byteOrder m.level.erase root).length :=
  decode_image s.byteOrder m hdr root post blOff blSize (resolve_wf s md m hr).1 hh hb hc

/-- **encode_then_decode** (C01 ∘ C02, the message-level round trip): encode any
    encodable value tree `v` (any nesting, entry counts, data lengths) over
    arbitrary previous contents `mid` inside `pre ++ mid ++ post`; then the
    decoder model, run on the *encoder's output buffer* and consulting only that
    buffer, observes exactly the fields, group sizes, entry sizes and payloads of
    `v`, and the size it computes is the encoder's end position.  What was in
    the buffer before (`mid`, e.g. an older message) is not observable.
    Hypotheses: leaves inside their blocks and sorted (`resolve_wf`: every
    accepted layout), the tree is encodable (`EncL`), header members of every
    dimension composite do not overlap and block length / entry count fit them
    (`FitL`). -/
theorem encode_then_decode (bo : ByteOrder) (pfx : String) (l : NLevel) (v : LVal) (pre mid post : List Nat)
    (hw : WFL l) (hs : SortedL l) (he : Spec.EncL bo l.erase v) (hf : Spec.FitL l.erase v)
    (hlen : mid.length = (flattenL bo l.erase v).length) :
    let out := Spec.encL bo l.erase v (pre ++ mid ++ post) pre.length
    modelL bo out.1 pfx l pre.length l.erase.blockLen = specL bo pfx l v
    ∧ endL bo out.1 l.erase pre.length l.erase.blockLen = out.2 := by
  intro out
  obtain ⟨h1, h2⟩ := Spec.encL_spec bo l.erase v pre mid post he hlen
  have hc := Spec.confL_fill bo l.erase v mid he hf hlen
  have ho : out = (pre ++ flattenL bo l.erase (Spec.fillL bo l.erase v mid) ++ post, pre.length + mid.length) := h1
  rw [ho]
  refine ⟨?_, ?_⟩
  · rw [decL bo pfx l _ _ _ pre post hw hc rfl]
    exact Spec.specL_fill bo pfx l v mid he hs hlen
  · rw [endL_spec bo l.erase _ _ _ pre post hc rfl, h2]

/-- the same for every message of every schema the validator model accepts -/
theorem encode_then_decode_accepted (s : SchemaDef) (md : MessageDef) (m : NMessage)
    (hr : resolveMessage s md = .ok m) (v : LVal) (pre mid post : List Nat)
    (he : Spec.EncL s.byteOrder m.level.erase v) (hf : Spec.FitL m.level.erase v)
    (hlen : mid.length = (flattenL s.byteOrder m.level.erase v).length) :
    let out := Spec.encL s.byteOrder m.level.erase v (pre ++ mid ++ post) pre.length
    modelL s.byteOrder out.1 "" m.level pre.length m.level.erase.blockLen = specL s.byteOrder "" m.level v
    ∧ endL s.byteOrder out.1 m.level.erase pre.length m.level.erase.blockLen = out.2 :=
  encode_then_decode s.byteOrder "" m.level v pre mid post (resolve_wf s md m hr).1 (resolve_wf s md m hr).2 he hf hlen

/-- **message_round_trip** (C17 ∘ C01 ∘ C02): a whole message.  Run the
    generated `fill_message_header` on arbitrary previous header bytes, encode
    `v` behind the header over arbitrary previous contents; a decoder that knows
    only the buffer reads `blockLength` from the header member the filler wrote
    (`bl`, found by name in the header composite) and from there observes
    exactly `v`; its computed end is the encoder's end.  Hypotheses about the
    header composite: the written members do not overlap, lie inside the header,
    and the level's block length fits the `blockLength` member. -/
theorem message_round_trip (s : SchemaDef) (md : MessageDef) (m : NMessage)
    (hr : resolveMessage s md = .ok m) (ng nd : Nat) (bl : Leaf)
    (hbl : (bl, m.level.erase.blockLen) ∈ Gen.messageHeaderFields s m ng nd)
    (hd : Gen.PairwiseDisj (Gen.messageHeaderFields s m ng nd))
    (hp : ∀ y ∈ Gen.messageHeaderFields s m ng nd, y.1.off + y.1.size ≤ m.hdrSize)
    (hfit : m.level.erase.blockLen < 256 ^ bl.size)
    (hdr0 mid post : List Nat) (hh : hdr0.length = m.hdrSize) (v : LVal)
    (he : Spec.EncL s.byteOrder m.level.erase v) (hf : Spec.FitL m.level.erase v)
    (hlen : mid.length = (flattenL s.byteOrder m.level.erase v).length) :
    let hdr := Gen.fillMessageHeader s.byteOrder s m ng nd hdr0
    let out := Spec.encL s.byteOrder m.level.erase v (hdr ++ mid ++ post) hdr.length
    let wbl := rd s.byteOrder out.1 bl.off bl.size
    modelL s.byteOrder out.1 "" m.level m.hdrSize wbl = specL s.byteOrder "" m.level v
    ∧ endL s.byteOrder out.1 m.level.erase m.hdrSize wbl = out.2 := by
  intro hdr out wbl
  have hp0 : ∀ y ∈ Gen.messageHeaderFields s m ng nd, y.1.off + y.1.size ≤ hdr0.length :=
    fun y hy => by rw [hh]; exact hp y hy
  have hl : hdr.length = m.hdrSize := by
    show (Spec.writeExtras s.byteOrder hdr0 0 _).length = _
    rw [Gen.writeExtras_len s.byteOrder hdr0 _ hp0, hh]
  have hval : rd s.byteOrder hdr bl.off bl.size = m.level.erase.blockLen :=
    Gen.writeExtras_value s.byteOrder hdr0 _ (bl, m.level.erase.blockLen) hbl hd hp0 hfit
  obtain ⟨h1, _⟩ := Spec.encL_spec s.byteOrder m.level.erase v hdr mid post he hlen
  have hw : wbl = m.level.erase.blockLen := by
    show rd s.byteOrder out.1 bl.off bl.size = _
    have ho : out.1 = hdr ++ flattenL s.byteOrder m.level.erase (Spec.fillL s.byteOrder m.level.erase v mid) ++ post := by
      show (Spec.encL s.byteOrder m.level.erase v (hdr ++ mid ++ post) hdr.length).1 = _
      rw [h1]
    have hb : bl.off + bl.size ≤ hdr.length := by rw [hl]; exact hp _ hbl
    have := rd_mid s.byteOrder [] hdr
      (flattenL s.byteOrder m.level.erase (Spec.fillL s.byteOrder m.level.erase v mid) ++ post) bl.off bl.size hb
    simp only [List.nil_append, List.length_nil, Nat.zero_add] at this
    rw [ho, List.append_assoc, this]
    exact hval
  rw [hw, ← hl]
  exact encode_then_decode s.byteOrder "" m.level v hdr mid post (resolve_wf s md m hr).1 (resolve_wf s md m hr).2
    he hf hlen

/-- a scalar written in the schema's byte order reads back bit-exactly (this is
    what `set_primitive`/`get_primitive` do: native copy or byte reversal);
    floats are their IEEE bit patterns, so NaN payloads are covered -/
theorem scalar_roundtrip (bo : ByteOrder) (w v : Nat) (h : v < 256 ^ w) : get bo (put bo w v) = v :=
  get_put bo w v h

/-- conversely every byte string is the encoding of the value read from it -/
theorem scalar_bytes_roundtrip (bo : ByteOrder) (bs : List Nat) (h : IsBytes bs) :
    put bo bs.length (get bo bs) = bs :=
  put_get bo bs h

/-- the size computed from the buffer is the image length, for any level -/
theorem message_size (bo : ByteOrder) (l : Level) (v : LVal) (wbl : Nat) (pre post : List Nat)
    (hc : ConfL bo l v wbl) :
    endL bo (pre ++ flattenL bo l v ++ post) l pre.length wbl = pre.length + (flattenL bo l v).length :=
  endL_spec bo l v wbl _ pre post hc rfl

/-! non-vacuity: a two-level layout (custom gap, a group with a nested data
    member, a data member) and a conforming image with an extended root block -/
def exLevel : NLevel :=
  .mk 4 [⟨["a"], 0, 2, "uint16", 1, "type"⟩, ⟨["b"], 3, 1, "uint8", 1, "type"⟩]
    [.mk "g" ⟨"dim", ⟨3, 0, 2, 2, 1, []⟩, "uint16", "uint8", []⟩
        (.mk 1 [⟨["x"], 0, 1, "uint8", 1, "type"⟩] [] [⟨"d", 1, "uint8", 0, 1, "uint8"⟩])]
    [⟨"e", 2, "uint16", 0, 2, "char"⟩]

def exVal : LVal :=
  .mk [1, 2, 9, 3, 7, 7]  -- wire block length 6 > compiled 4
    [.mk [2, 0, 2] [.mk [5, 0] [] [[0x61]], .mk [6, 0] [] [[]]]]
    [[0x62, 0x63]]

example : WFL exLevel := by
  simp [exLevel, WFL, WFGs, WFG]
example : ConfL .little exLevel.erase exVal 6 := by
  simp [exLevel, exVal, NLevel.erase, eraseGs, NGroup.erase, ConfL, ConfGs, ConfG, ConfEs, ConfDs, ConfD, IsBytes,
    slice, get, getLE]
example : specL .little "" exLevel exVal =
    ["a=201", "b=3", "g:n=2,sz=10", "g[0]:sz=4", "g[0].x=5", "g[0].d=<61>,sz=2", "g[1]:sz=3", "g[1].x=6", "g[1].d=<>,sz=1",
     "e=<6263>,sz=4"] := by decide

/-! non-vacuity of the round trip: the same layout, blocks at their compiled
    lengths, encoded over 0xee bytes -/
def exVal2 : LVal :=
  .mk [1, 2, 9, 3] [.mk [0, 0, 0] [.mk [5] [] [[0x61]], .mk [6] [] [[]]]] [[0x62, 0x63]]

example : Spec.EncL .little exLevel.erase exVal2 := by
  simp [exLevel, exVal2, NLevel.erase, eraseGs, NGroup.erase, Spec.EncL, Spec.EncGs, Spec.EncG, Spec.EncEs, ConfDs,
    ConfD, IsBytes, NLeaf.leaf]
example : Spec.FitL exLevel.erase exVal2 := by
  simp [exLevel, exVal2, NLevel.erase, eraseGs, NGroup.erase, Spec.FitL, Spec.FitGs, Spec.FitG, Spec.FitEs,
    Gen.groupHeaderFields, Gen.PairwiseDisj, Gen.Disj, Level.blockLen]
example : SortedL exLevel := by
  simp [exLevel, SortedL, SortedGs, SortedG, SortedN, Spec.Sorted, NLeaf.leaf]
example :
    modelL .little (Spec.encL .little exLevel.erase exVal2 (List.replicate 19 0xee) 1).1 "" exLevel 1 4
      = ["a=201", "b=3", "g:n=2,sz=8", "g[0]:sz=3", "g[0].x=5", "g[0].d=<61>,sz=2", "g[1]:sz=2", "g[1].x=6",
         "g[1].d=<>,sz=1", "e=<6263>,sz=4"] := by decide

end Sbepp.Properties.C02
