/-
  C01 — encoding writes exactly the SBE wire image of the schema; every byte
  that does not belong to a written member keeps its previous value.

  `Spec.encL` is the byte-level meaning of an in-order encode (setters for the
  leaves of a block, `fill_group_header`, entries in order, data assignments);
  the generated code is tied to it by the Layer-R correspondence check, which
  runs scripted encodes through the real setters (random access and cursor) on
  pre-filled buffers and compares every byte.
-/
import Sbepp.Lemmas.Encode
import Sbepp.Lemmas.Frame
import Sbepp.Lemmas.Decode
import Sbepp.Lemmas.ResolveWF

namespace Sbepp.Properties.C01
open Sbepp Sbepp.Spec

/-- **encode_image**: encoding `v` over previous contents `mid` (of the image's
    length) inside `pre ++ mid ++ post` yields `pre ++ image ++ post`, where
    `image` is the wire image of the tree `fillL v mid`: same shape, counts and
    payloads as `v`, blocks = previous bytes with the leaves written, dimension
    headers = previous bytes with blockLength/numInGroup (and declared
    counters) written.  Arbitrary nesting, entry counts, data lengths. -/
theorem encode_image (bo : ByteOrder) (l : Level) (v : LVal) (pre mid post : List Nat)
    (he : EncL bo l v) (hlen : mid.length = (flattenL bo l v).length) :
    (encL bo l v (pre ++ mid ++ post) pre.length).1 = pre ++ flattenL bo l (fillL bo l v mid) ++ post := by
  rw [(encL_spec bo l v pre mid post he hlen).1]

/-- the encoder stops exactly at the end of the image (cursor-based size) and
    the image has the size of the region it replaced -/
theorem encode_end (bo : ByteOrder) (l : Level) (v : LVal) (pre mid post : List Nat)
    (he : EncL bo l v) (hlen : mid.length = (flattenL bo l v).length) :
    (encL bo l v (pre ++ mid ++ post) pre.length).2 = pre.length + (flattenL bo l v).length
    ∧ (flattenL bo l (fillL bo l v mid)).length = (flattenL bo l v).length := by
  obtain ⟨h1, h2⟩ := encL_spec bo l v pre mid post he hlen
  rw [h1, h2, hlen]; exact ⟨rfl, rfl⟩

/-- bytes before the message and after the image are never touched -/
theorem encode_outside_untouched (bo : ByteOrder) (l : Level) (v : LVal) (pre mid post : List Nat)
    (he : EncL bo l v) (hlen : mid.length = (flattenL bo l v).length) :
    ((encL bo l v (pre ++ mid ++ post) pre.length).1).take pre.length = pre
    ∧ ((encL bo l v (pre ++ mid ++ post) pre.length).1).drop (pre.length + mid.length) = post := by
  obtain ⟨h1, h2⟩ := encL_spec bo l v pre mid post he hlen
  rw [h1]
  constructor
  · simp [List.append_assoc]
  · rw [← h2, List.append_assoc, ← List.drop_drop]; simp

/-- **setter_writes_value**: inside a block whose leaves are in the validator's
    order (ascending, non-overlapping), after all setters ran every leaf holds
    the value that was set -/
theorem setter_writes_value (old block : List Nat) (lv : List Leaf) (lf : Leaf) (hmem : lf ∈ lv)
    (hs : Sorted lv) (hb : ∀ x ∈ lv, x.off + x.size ≤ block.length) (hp : ∀ x ∈ lv, x.off + x.size ≤ old.length) :
    slice (writeLeaves old 0 block lv) lf.off lf.size = slice block lf.off lf.size :=
  writeLeaves_get old block lv lf hmem hs hb hp

/-- **setter_frame**: every byte of the block that belongs to no leaf keeps its
    previous value -/
theorem setter_frame (old block : List Nat) (lv : List Leaf) (i : Nat)
    (hb : ∀ lf ∈ lv, lf.off + lf.size ≤ block.length) (hp : ∀ lf ∈ lv, lf.off + lf.size ≤ old.length)
    (hout : ∀ lf ∈ lv, i < lf.off ∨ lf.off + lf.size ≤ i) :
    (writeLeaves old 0 block lv)[i]? = old[i]? :=
  writeLeaves_frame old block lv i hb hp hout

/-- **accepted_layout_sorted**: for every message of every schema the validator
    model accepts, the leaves of every level are in ascending non-overlapping
    order and inside the block — the hypotheses of `setter_writes_value` and
    `setter_frame` hold for all accepted schemas. -/
theorem accepted_layout_sorted (s : Schema.SchemaDef) (md : Schema.MessageDef) (m : Schema.NMessage)
    (hr : Schema.resolveMessage s md = .ok m) : Observe.WFL m.level ∧ Schema.SortedL m.level :=
  Schema.resolve_wf s md m hr

/-! non-vacuity -/
def exL : Level := .mk 4 [⟨0, 2⟩, ⟨3, 1⟩] [.mk ⟨3, 0, 2, 2, 1, []⟩ (.mk 1 [⟨0, 1⟩] [] [⟨1⟩])] [⟨2⟩]
def exV : LVal := .mk [1, 2, 0, 3] [.mk [0, 0, 0] [.mk [5] [] [[0x61]], .mk [6] [] [[]]]] [[0x62, 0x63]]

example : EncL .little exL exV := by
  simp [exL, exV, EncL, EncGs, EncG, EncEs, ConfDs, ConfD, IsBytes]
example : Sorted [⟨0, 2⟩, ⟨3, 1⟩] := by simp [Sorted]
example : (encL .little exL exV (List.replicate 18 0xee) 1).1
    = [0xee, 1, 2, 0xee, 3, 1, 0, 2, 5, 1, 0x61, 6, 0, 2, 0, 0x62, 0x63, 0xee] := by decide

end Sbepp.Properties.C01
