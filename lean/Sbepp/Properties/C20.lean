/-
  C20 — sbeppc's exit status is truthful under I/O failures and its output
  deterministic.

  Theorems about `Sbepp.Gen.Files.run plan schedule disk` (the emission of
  `schema_compiler::compile` through `fs_provider`, with the k-th
  mkdir/open/write/close failing or writing short), and about the
  nondeterminism sources the translator looks for in the sbeppc sources.

  `fs_provider::write_file` closes the stream and inspects its state since the
  `fix:` commit "sbeppc fails when a generated file cannot be written
  completely"; the full-strength statements hold (they were refuted before).
-/
import Sbepp.Gen.Files
import Sbepp.Lemmas.Files
import Sbepp.Extracted.NondetSources

namespace Sbepp.Properties.C20
open Sbepp.Gen.Files

/-! ## exit 0 ⇒ every file complete -/

/-- **exit0_all_files_complete**: whatever fails or is cut short, in whatever
    combination, exit status 0 means that every expected file holds exactly its
    content. -/
theorem exit0_all_files_complete (plan : Plan) (sched : Schedule) (disk : Disk)
    (hnd : (paths plan.files).Nodup) (h0 : (run plan sched disk).exit = 0) :
    ∀ pc ∈ plan.files, (run plan sched disk).disk.has pc.1 pc.2 := by
  unfold run at h0 ⊢
  cases hm : mkdirs sched plan.dirs { disk := disk } with
  | mk ok st =>
    rw [hm] at h0
    cases ok with
    | false => simp at h0
    | true =>
      simp only [] at h0 ⊢
      cases hf : writeFiles sched plan.files st with
      | mk ok2 st' =>
        rw [hf] at h0
        cases ok2 with
        | false => simp at h0
        | true =>
          simp only []
          have := (writeFiles_complete sched plan.files st hnd (by rw [hf])).1
          rw [hf] at this
          exact this

def plan2 : Plan :=
  { dirs := ["out", "out/s", "out/s/schema", "out/s/types", "out/s/messages"],
    files := [("out/s/types/T.hpp", [1, 2, 3, 4]), ("out/s/schema/schema.hpp", [5, 6]), ("out/s/s.hpp", [7, 8, 9])] }

def allDirs : List String := ["out", "out/s", "out/s/schema", "out/s/types", "out/s/messages"]

/-- the first `write` fails (disk full): exit 1 with a diagnostic; the truncated
    file stays behind, later files are not attempted -/
theorem first_write_fails :
    run plan2 (single .write 1 .fail) {} =
      ⟨1, true, { dirs := allDirs, files := [("out/s/types/T.hpp", [])] }, [(.write, 1, .fail)]⟩ := by decide +kernel

/-- a short write followed by a full disk: exit 1, half a file on disk -/
theorem short_write_then_full_disk :
    run plan2 (single .write 1 .shortfail) {} =
      ⟨1, true, { dirs := allDirs, files := [("out/s/types/T.hpp", [1, 2])] }, [(.write, 1, .shortfail)]⟩ := by
  decide +kernel

/-- a short write alone is retried by libstdc++: exit 0 and the file is complete -/
theorem short_write_is_retried :
    (run plan2 (single .write 1 .short) {}).exit = 0 ∧
    (run plan2 (single .write 1 .short) {}).disk.get "out/s/types/T.hpp" = some [1, 2, 3, 4] ∧
    (run plan2 (single .write 1 .short) {}).fired = [(.write, 1, .short)] := by decide +kernel

/-- a failing `close` (the last chance to learn about a write-back error) is reported -/
theorem close_fails :
    (run plan2 (single .close 2 .fail) {}).exit = 1 ∧ (run plan2 (single .close 2 .fail) {}).diag = true ∧
    (run plan2 (single .close 2 .fail) {}).fired = [(.close, 2, .fail)] := by decide +kernel

/-- non-vacuity of `exit0_all_files_complete`: faults that are survived -/
example : (paths plan2.files).Nodup ∧ (run plan2 (single .write 3 .short) {}).exit = 0 ∧
    (run plan2 noFaults {}).exit = 0 := by
  refine ⟨by decide, by decide +kernel, by decide +kernel⟩

/-! ## a failing call gives a diagnostic -/

/-- **fault_gives_diag**: sbeppc exits 1 with a diagnostic exactly when some
    call returned an error — a failing mkdir, open, write or close, or a write
    cut short by a disk that stays full; a short count that the retry completes
    is not an error.  Exit status is 0 otherwise. -/
theorem fault_gives_diag (plan : Plan) (sched : Schedule) (disk : Disk) :
    ((run plan sched disk).exit = 1 ∧ (run plan sched disk).diag = true ↔
      ∃ f ∈ (run plan sched disk).fired, IsError f) ∧
    ((run plan sched disk).exit = 0 ∨ (run plan sched disk).exit = 1) := by
  unfold run
  cases hm : mkdirs sched plan.dirs { disk := disk } with
  | mk ok st =>
    have ms := mkdirs_spec sched plan.dirs { disk := disk }
    rw [hm] at ms
    cases ok with
    | false =>
      simp only []
      exact ⟨⟨fun _ => ms.2.2 rfl, fun _ => by simp⟩, by simp⟩
    | true =>
      simp only []
      have hst : st.fired = [] := ms.2.1 rfl
      cases hf : writeFiles sched plan.files st with
      | mk ok2 st' =>
        have ws := writeFiles_fired sched plan.files st
        rw [hf] at ws
        cases ok2 with
        | false =>
          simp only []
          exact ⟨⟨fun _ => ws.2 rfl, fun _ => by simp⟩, by simp⟩
        | true =>
          simp only []
          refine ⟨⟨fun h => by simp at h, fun ⟨f, hf', hk⟩ => ?_⟩, by simp⟩
          exfalso
          rcases ws.1 rfl f hf' with h' | h'
          · rw [hst] at h'; simp at h'
          · exact hk h'

/-- non-vacuity: the second `fopen` fails → exit 1, diagnostic, one file stays behind -/
example : run plan2 (single .open 2 .fail) {} =
    ⟨1, true, { dirs := allDirs, files := [("out/s/types/T.hpp", [1, 2, 3, 4])] }, [(.open, 2, .fail)]⟩ := by
  decide +kernel
example : run plan2 (single .mkdir 3 .fail) {} = ⟨1, true, { dirs := ["out", "out/s"] }, [(.mkdir, 3, .fail)]⟩ := by
  decide +kernel

/-! ## re-running; the output is a function of the plan -/

theorem run_clean (plan : Plan) (disk : Disk) (hnd : (paths plan.files).Nodup) :
    (run plan noFaults disk).exit = 0 ∧
    (∀ pc ∈ plan.files, (run plan noFaults disk).disk.get pc.1 = some pc.2) ∧
    (∀ q, q ∉ paths plan.files → (run plan noFaults disk).disk.get q = disk.get q) := by
  unfold run
  cases hm : mkdirs noFaults plan.dirs { disk := disk } with
  | mk ok st =>
    have hok := mkdirs_noFault noFaults (fun _ => rfl) plan.dirs { disk := disk }
    have ms := mkdirs_spec noFaults plan.dirs { disk := disk }
    rw [hm] at hok ms
    simp only [] at hok
    subst hok
    simp only []
    cases hf : writeFiles noFaults plan.files st with
    | mk ok2 st' =>
      have hok2 := writeFiles_noFault noFaults (fun _ => rfl) (fun _ => rfl) (fun _ => rfl) plan.files st
      have wc := writeFiles_complete noFaults plan.files st hnd hok2
      rw [hf] at hok2 wc
      simp only [] at hok2
      subst hok2
      simp only []
      refine ⟨by simp, wc.1, fun q hq => ?_⟩
      rw [wc.2 q hq]
      have hfiles : st.disk.files = disk.files := ms.1
      simp only [Disk.get, hfiles]

/-- **rerun_idempotent**: compiling into a populated directory truncates and
    rewrites every file: whatever the directory held before, afterwards every
    planned file has exactly its content, files outside the plan are untouched,
    and a second run changes nothing. -/
theorem rerun_idempotent (plan : Plan) (disk : Disk) (hnd : (paths plan.files).Nodup) :
    (∀ pc ∈ plan.files, (run plan noFaults disk).disk.has pc.1 pc.2) ∧
    (∀ q, (run plan noFaults (run plan noFaults disk).disk).disk.get q = (run plan noFaults disk).disk.get q) ∧
    (run plan noFaults (run plan noFaults disk).disk).exit = 0 := by
  have h1 := run_clean plan disk hnd
  have h2 := run_clean plan (run plan noFaults disk).disk hnd
  refine ⟨h1.2.1, fun q => ?_, h2.1⟩
  by_cases hq : q ∈ paths plan.files
  · obtain ⟨pc, hpc, rfl⟩ := List.mem_map.mp hq
    rw [h2.2.1 pc hpc, h1.2.1 pc hpc]
  · exact h2.2.2 q hq

/-- stale content is really replaced (non-vacuity: a longer old file) -/
example : (run plan2 noFaults { dirs := plan2.dirs, files := [("out/s/s.hpp", [0, 0, 0, 0, 0, 0, 0, 0])] }).disk.get
    "out/s/s.hpp" = some [7, 8, 9] := by decide +kernel

/-- a run that failed half way is repaired by the next clean run -/
example : (run plan2 noFaults (run plan2 (single .write 1 .shortfail) {}).disk).disk.get "out/s/types/T.hpp"
    = some [1, 2, 3, 4] := by decide +kernel

/-- **output_function_of_schema** (model part): the generated files depend on
    the plan only — not on what the output directory contained, nor on anything
    else.  (The plan is `Gen.compile` of the schema, the options and the
    iteration order of string-keyed hash containers; see below.) -/
theorem output_function_of_schema (plan : Plan) (d1 d2 : Disk) (hnd : (paths plan.files).Nodup) :
    (run plan noFaults d1).exit = (run plan noFaults d2).exit ∧
    ∀ q ∈ paths plan.files, (run plan noFaults d1).disk.get q = (run plan noFaults d2).disk.get q := by
  have h1 := run_clean plan d1 hnd
  have h2 := run_clean plan d2 hnd
  refine ⟨by rw [h1.1, h2.1], fun q hq => ?_⟩
  obtain ⟨pc, hpc, rfl⟩ := List.mem_map.mp hq
  rw [h1.2.1 pc hpc, h2.2.1 pc hpc]

/-- **no_nondeterminism_sources**: the sbeppc sources contain no use of time,
    randomness, process identity, the environment, build time stamps or
    formatted addresses (a finite scan of the whole source list, regenerated on
    every run). -/
theorem no_nondeterminism_sources : Sbepp.Extracted.nondetSources = [] := by decide +kernel

/-- **hash_iterations_string_keyed**: every range-`for` over a hash container in
    the sbeppc sources iterates a container keyed by strings; none of the
    address-keyed maps of `context_manager` is ever iterated.  Hence the order
    in which files, includes and tags are emitted is a function of the *names*
    in the schema (and of libstdc++'s string hash, which has no per-process
    seed — observed, not proved). -/
theorem hash_iterations_string_keyed :
    ∀ h ∈ Sbepp.Extracted.hashIterations, h.2.2.2.1 = "std::string" ∨ h.2.2.2.1 = "std::string_view" := by
  decide +kernel

/-- the scan is not vacuous: there are address-keyed containers to stay away from -/
example : Sbepp.Extracted.pointerKeyedContainers ≠ [] ∧ Sbepp.Extracted.hashIterations ≠ [] := by decide +kernel

end Sbepp.Properties.C20
