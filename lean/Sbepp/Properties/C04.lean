/-
  C04 — cursor access is equivalent to random access and tracks position;
  illegal cursor calls are reported in checked builds.

  Model: `Gen.CursorOffsets` (the generator's second offset computation and the
  cursor-relevant part of the generated classes), `Rt.Cursor` (class `cursor`
  and the four wrappers, 10 methods each, entry constructors, cursor ranges).
  Specification: `Spec.CursorProtocol` (documented `Pre`/`Post` positions over
  the geometry of a level), instantiated with the geometry the random-access
  accessors compute (`Rt.Walk`: `getLeaf`, `groupPos`, `dataPos`, `endG`).
  Correspondence with the real generated code: `vlib/props/c04.py`.
-/
import Sbepp.Lemmas.Cursor
import Sbepp.Lemmas.CursorTie
import Sbepp.Lemmas.GroupCursorTie

namespace Sbepp.Properties.C04
open Sbepp Sbepp.Schema Sbepp.Gen Sbepp.Cursor Sbepp.Rt.Cursor Sbepp.Spec.CursorProtocol

/-- **cursor_abs_eq_random**: for every field list the validator accepts, the
    generator's own fold (`make_fields_cursor_accessors`: `absolute_offset` from
    0 with `get_valid_offset` and the encodings' sizes) does not throw and
    yields, for every non-constant field, `ABS = validator offset + header
    size` — the offset the random-access accessor uses —, `REL` = distance from
    the end of the previous non-constant field, and the last-field flag on the
    last field only.  The spans are those of the wire layout model
    (`fieldLeaves = spans.flatMap leaves`). -/
theorem cursor_abs_eq_random (types : List Elem) (fields : List FieldDef) (hdr total : Nat) (sp : List FieldSpan)
    (h : fieldSpans types 0 fields = .ok (total, sp)) :
    cursorOffsets hdr (sp.map FieldSpan.cfield) = .ok (expectedOffs hdr 0 sp)
    ∧ (∀ i s o, sp[i]? = some s → (expectedOffs hdr 0 sp)[i]? = some o →
        o.abs = s.off + hdr ∧ (o.last = true ↔ i + 1 = sp.length))
    ∧ fieldLeaves types 0 fields = .ok (total, sp.flatMap (·.leaves)) :=
  ⟨cursorFold_expected hdr sp 0 (fieldSpans_valid types fields 0 total sp h),
   fun i s o hs ho => expectedOffs_abs hdr sp 0 i s o hs ho,
   fieldSpans_leaves types fields 0 total sp h⟩

/-- the accessors `compileLevel` puts into the generated class are exactly
    these constants -/
theorem compiled_accessors (hdr : Nat) (sp : List FieldSpan) :
    mkAccs sp (expectedOffs hdr 0 sp) = accsOf hdr 0 sp := mkAccs_expected hdr sp 0

/-- **cursor_rel_chain**: with the cursor at `Post` of the previous member (the
    end `lvl + pe` of the previous non-constant field, the level start for the
    first), `ptr + REL = view address + ABS`: the "Wrong cursor value" assertion
    holds and the cursor-relative address is the random-access address. -/
theorem cursor_rel_chain (hdr pe : Nat) (s : FieldSpan) (last : Bool) (v : LView)
    (hv : v.lvl = v.addr + hdr) (hpe : pe ≤ s.off) :
    v.lvl + pe + (accOf hdr pe s last).rel = v.addr + (accOf hdr pe s last).abs
    ∧ v.addr + (accOf hdr pe s last).abs = v.lvl + s.off := by
  simp only [accOf]; omega

/-- **cursor_step (field getters)**, all five ways of passing the cursor, scalar
    and view fields, last and non-last: in a checked build for *every* cursor
    value, in an unchecked build whenever the documented precondition holds,
    the call returns the bytes `getLeaf buf lvl ⟨off, size⟩` (or the view at
    `lvl + off`) and leaves the cursor at the documented `Post`; in a checked
    build a wrong position is reported instead. -/
theorem cursor_step_field (w : Wrapper) (v : LView) (buf : List Nat) (cur : Option Nat) (hdr pe : Nat)
    (s : FieldSpan) (last : Bool) (hv : v.lvl = v.addr + hdr) (hpe : pe ≤ s.off)
    (hin : Inside v.endp (v.lvl + s.off + s.size))
    (hc : v.endp.isSome = true ∨ (needsPre w = true → cur = some (v.lvl + pe))) :
    stepField w v buf cur (accOf hdr pe s last)
      = toOut buf (specField ⟨v.lvl + pe, v.lvl + s.off, s.size, s.isView, getLeaf buf v.lvl ⟨s.off, s.size⟩⟩
          last (v.lvl + v.wbl) w cur) :=
  stepField_spec v buf cur hdr pe s last w hv hpe hin hc

/-- **cursor_step (field setters)**: the value is written where `setLeaf` writes it -/
theorem cursor_step_set (w : Wrapper) (v : LView) (buf : List Nat) (cur : Option Nat) (hdr pe : Nat)
    (s : FieldSpan) (last : Bool) (value : List Nat) (hv : v.lvl = v.addr + hdr) (hpe : pe ≤ s.off)
    (hin : Inside v.endp (v.lvl + s.off + s.size))
    (hc : v.endp.isSome = true ∨ (needsPre w = true → cur = some (v.lvl + pe))) :
    stepSet w v buf cur (accOf hdr pe s last) value
      = toOut (setLeaf buf v.lvl ⟨s.off, s.size⟩ value)
          (specFieldSet ⟨v.lvl + pe, v.lvl + s.off, s.size, s.isView, getLeaf buf v.lvl ⟨s.off, s.size⟩⟩
            last (v.lvl + v.wbl) w cur) :=
  stepSet_spec v buf cur hdr pe s last w value hv hpe hin hc

/-- **cursor_step (groups)**: view at `groupPos` (random access), cursor at the
    end of the dimension header (`skip`: at `endG`, the end of the whole group);
    unconditional for the first group of a level -/
theorem cursor_step_group (w : Wrapper) (bo : ByteOrder) (v : LView) (buf : List Nat) (cur : Option Nat)
    (gs : List Group) (k : Nat) (g : Group)
    (hin : Inside v.endp (groupPos bo buf gs v.lvl v.wbl k + g.dim.size))
    (hc : v.endp.isSome = true ∨ (needsPre w = true → k ≠ 0 → cur = some (groupPos bo buf gs v.lvl v.wbl k))) :
    stepGroup w bo v buf cur gs k g
      = toOut buf (specGroup ⟨groupPos bo buf gs v.lvl v.wbl k, groupPos bo buf gs v.lvl v.wbl k + g.dim.size,
          endG bo buf g (groupPos bo buf gs v.lvl v.wbl k)⟩ (k == 0) w cur) :=
  stepGroup_spec bo v buf cur w gs k g hin hc

/-- **cursor_step (data)**: view at `dataPos`, cursor at the end of the payload;
    unconditional for the first data member of a level without groups -/
theorem cursor_step_data (w : Wrapper) (bo : ByteOrder) (v : LView) (buf : List Nat) (cur : Option Nat)
    (l : Level) (k : Nat) (d : DataL)
    (hin : Inside v.endp (dataPos bo buf l v.lvl v.wbl k + d.lenSize))
    (hc : v.endp.isSome = true ∨
      (needsPre w = true → ¬ (k = 0 ∧ l.groups.isEmpty = true) → cur = some (dataPos bo buf l v.lvl v.wbl k))) :
    stepData w bo v buf cur l k d
      = toOut buf (specData ⟨dataPos bo buf l v.lvl v.wbl k,
          dataPos bo buf l v.lvl v.wbl k + d.lenSize + rd bo buf (dataPos bo buf l v.lvl v.wbl k) d.lenSize⟩
          (k == 0 && l.groups.isEmpty) w cur) :=
  stepData_spec bo v buf cur w l k d hin hc

/-- **cursor_step**, the legal part spelled out for the plain cursor and the
    three member kinds: value/view of the random-access accessor, cursor at `Post` -/
theorem cursor_step (bo : ByteOrder) (v : LView) (buf : List Nat) :
    (∀ hdr pe (s : FieldSpan) last, v.lvl = v.addr + hdr → pe ≤ s.off → Inside v.endp (v.lvl + s.off + s.size) →
      ∃ res, stepField .plain v buf (some (v.lvl + pe)) (accOf hdr pe s last)
        = .ok ⟨res, some (if last then v.lvl + v.wbl else v.lvl + s.off + s.size), buf⟩)
    ∧ (∀ gs k (g : Group), Inside v.endp (groupPos bo buf gs v.lvl v.wbl k + g.dim.size) →
      stepGroup .plain bo v buf (some (groupPos bo buf gs v.lvl v.wbl k)) gs k g
        = .ok ⟨.view (groupPos bo buf gs v.lvl v.wbl k), some (groupPos bo buf gs v.lvl v.wbl k + g.dim.size), buf⟩)
    ∧ (∀ l k (d : DataL), Inside v.endp (dataPos bo buf l v.lvl v.wbl k + d.lenSize) →
      stepData .plain bo v buf (some (dataPos bo buf l v.lvl v.wbl k)) l k d
        = .ok ⟨.view (dataPos bo buf l v.lvl v.wbl k),
               some (dataPos bo buf l v.lvl v.wbl k + d.lenSize + rd bo buf (dataPos bo buf l v.lvl v.wbl k) d.lenSize),
               buf⟩) :=
  ⟨fun hdr pe s last hv hpe hin => stepField_plain v buf hdr pe s last hv hpe hin,
   fun gs k g hin => stepGroup_plain bo v buf gs k g hin,
   fun l k d hin => stepData_plain bo v buf l k d hin⟩

/-- **cursor_step, general form**: for every member of a level addressed by
    index (fields through the accessor table `accsOf` that `compileLevel` emits),
    every wrapper and every cursor value, a checked build does what the protocol
    specification says over the random-access geometry `geoWalk` — the legal
    calls and the reported ones in one statement. -/
theorem cursor_step_protocol (bo : ByteOrder) (v : LView) (buf : List Nat) (cur : Option Nat) (w : Wrapper)
    (hdr : Nat) (sp : List FieldSpan) (bl : Nat) (lv : List Leaf) (gs : List Group) (ds : List DataL)
    (hv : v.lvl = v.addr + hdr) (hord : SpansOrdered 0 sp) (hchk : v.endp.isSome = true) :
    (∀ i a, (accsOf hdr 0 sp)[i]? = some a → (∀ s ∈ sp, Inside v.endp (v.lvl + s.off + s.size)) →
      stepField w v buf cur a
        = toOut buf (specGet (geoWalk bo buf sp gs ds v.lvl v.wbl) (.field i) w cur))
    ∧ (∀ k g, gs[k]? = some g → Inside v.endp (groupPos bo buf gs v.lvl v.wbl k + g.dim.size) →
      stepGroup w bo v buf cur gs k g
        = toOut buf (specGet (geoWalk bo buf sp gs ds v.lvl v.wbl) (.group k) w cur))
    ∧ (∀ k d, ds[k]? = some d → Inside v.endp (dataPos bo buf (.mk bl lv gs ds) v.lvl v.wbl k + d.lenSize) →
      stepData w bo v buf cur (.mk bl lv gs ds) k d
        = toOut buf (specGet (geoWalk bo buf sp gs ds v.lvl v.wbl) (.data k) w cur)) :=
  step_eq_protocol bo v buf cur w hdr sp bl lv gs ds hv hord hchk

/-- the geometry the theorems use (read from the buffer by random access) is, on
    every buffer that contains a well-formed image of the level, the geometry of
    the value tree — the one the correspondence check evaluates the protocol on -/
theorem protocol_geometry_is_image_geometry (bo : ByteOrder) (sp : List FieldSpan) (bl : Nat) (lv : List Leaf)
    (gs : List Group) (ds : List DataL) (val : LVal) (wbl : Nat) (pre post : List Nat)
    (hc : ConfL bo (.mk bl lv gs ds) val wbl) :
    geoWalk bo (pre ++ flattenL bo (.mk bl lv gs ds) val ++ post) sp gs ds pre.length wbl
      = geoTree bo sp gs ds val pre.length (fun p n => slice (pre ++ flattenL bo (.mk bl lv gs ds) val ++ post) p n) :=
  geoWalk_eq_geoTree bo sp bl lv gs ds val wbl _ pre post hc rfl

/-- **cursor_wrong_position_reported**: with checks enabled, a plain,
    dont_move or skip call for a field (getter or setter), for a group that is
    not the first group, or for a data member that is not the first
    variable-length member of its level, made while the cursor is not at the
    required position, ends in the "Wrong cursor value" assertion: no value is
    returned, nothing is written, the cursor does not move. -/
theorem cursor_wrong_position_reported (w : Wrapper) (hw : needsPre w = true) (bo : ByteOrder) (v : LView)
    (buf : List Nat) (cur : Option Nat) (e : Nat) (he : v.endp = some e) :
    (∀ hdr pe (s : FieldSpan) last, v.lvl = v.addr + hdr → pe ≤ s.off → Inside v.endp (v.lvl + s.off + s.size) →
      cur ≠ some (v.lvl + pe) →
      stepField w v buf cur (accOf hdr pe s last) = .error .wrongCursor
      ∧ ∀ value, w ≠ .skip → stepSet w v buf cur (accOf hdr pe s last) value = .error .wrongCursor)
    ∧ (∀ gs k (g : Group), k ≠ 0 → Inside v.endp (groupPos bo buf gs v.lvl v.wbl k + g.dim.size) →
      cur ≠ some (groupPos bo buf gs v.lvl v.wbl k) → stepGroup w bo v buf cur gs k g = .error .wrongCursor)
    ∧ (∀ l k (d : DataL), ¬ (k = 0 ∧ l.groups.isEmpty = true) →
      Inside v.endp (dataPos bo buf l v.lvl v.wbl k + d.lenSize) →
      cur ≠ some (dataPos bo buf l v.lvl v.wbl k) → stepData w bo v buf cur l k d = .error .wrongCursor) := by
  have hchk : v.endp.isSome = true := by rw [he]; rfl
  refine ⟨?_, ?_, ?_⟩
  · intro hdr pe s last hv hpe hin hne
    constructor
    · rw [stepField_spec v buf cur hdr pe s last w hv hpe hin (Or.inl hchk)]
      have hcond : needsPre w = true ∧ cur ≠ some (geoOf v.lvl pe s buf).pre := ⟨hw, hne⟩
      unfold specField; rw [if_pos hcond]; rfl
    · intro value hns
      rw [stepSet_spec v buf cur hdr pe s last w value hv hpe hin (Or.inl hchk)]
      have hcond : needsPre w = true ∧ cur ≠ some (geoOf v.lvl pe s buf).pre := ⟨hw, hne⟩
      cases w <;> simp only [needsPre] at hw <;> first | contradiction | (unfold specFieldSet; simp only []; rw [if_pos hcond]; rfl) | skip
      all_goals exact absurd rfl hns
  · intro gs k g hk hin hne
    rw [stepGroup_spec bo v buf cur w gs k g hin (Or.inl hchk)]
    unfold specGroup
    have hk0 : (k == 0) = false := by simp [hk]
    have hcond : needsPre w = true ∧ ¬ ((k == 0) = true) ∧ cur ≠ some (groupGeoOf bo buf gs v.lvl v.wbl k g).start :=
      ⟨hw, by simp [hk0], hne⟩
    rw [if_pos hcond]; rfl
  · intro l k d hk hin hne
    rw [stepData_spec bo v buf cur w l k d hin (Or.inl hchk)]
    unfold specData
    have hb : (k == 0 && l.groups.isEmpty) = false := by
      cases hk1 : (k == 0) <;> cases hg : l.groups.isEmpty <;> simp_all
    have hcond : needsPre w = true ∧ ¬ ((k == 0 && l.groups.isEmpty) = true) ∧
        cur ≠ some (dataGeoOf bo buf l v.lvl v.wbl k d).start := ⟨hw, by simp [hb], hne⟩
    rw [if_pos hcond]; rfl

/-! ### cursor ranges and sub-ranges -/

/-- **cursor_subrange_spec**: for every group header, every `pos` and every
    `count`, a checked build hands out exactly the documented range —
    `cursor_range(c)` = `[0, size())`, `cursor_subrange(c, pos)` = `[pos, size())`,
    `cursor_subrange(c, pos, count)` = `[pos, pos + count)`, entries' block
    length from the dimension header — and reports a violated precondition
    (`pos < size()`, `count <= size() - pos`) -/
theorem cursor_subrange_spec (bo : ByteOrder) (buf : List Nat) (e : Nat) (dim : Dim) (p : Nat) (k : RangeKind)
    (hin : p + dim.size ≤ e) :
    mkRange bo buf (some e) dim p k
      = match rangeSpec (rd bo buf (p + dim.numOff) dim.numSize) k with
        | some (s, l) => .ok ⟨rd bo buf (p + dim.blOff) dim.blSize, s, l⟩
        | none => .error .precondition :=
  mkRange_spec bo buf e dim p k hin

/-- the same ranges in an unchecked build whenever the preconditions hold -/
theorem cursor_subrange_spec_unchecked (bo : ByteOrder) (buf : List Nat) (dim : Dim) (p : Nat) (k : RangeKind)
    (s l : Nat) (h : rangeSpec (rd bo buf (p + dim.numOff) dim.numSize) k = some (s, l)) :
    mkRange bo buf none dim p k = .ok ⟨rd bo buf (p + dim.blOff) dim.blSize, s, l⟩ :=
  mkRange_unchecked bo buf dim p k s l h

/-- **cursor_range_iteration**: with the cursor at the start of entry `s`, the
    complete iteration of a range of `len` entries creates entry `s+i` at its
    random-access address `entryPos g p (s+i)` in the `i`-th step and ends with
    the cursor at the end of entry `s+len-1`, i.e. at `entryPos g p (s+len)` -/
theorem cursor_range_iteration (bo : ByteOrder) (buf : List Nat) (dim : Dim) (l : GLevel) (endp : Option Nat)
    (p s len : Nat) (hg : GoodL 0 l)
    (hf : ∀ i, s ≤ i → i < s + len →
      FitL bo buf l (entryPos bo buf (.mk dim l.erase) p i) (rd bo buf (p + dim.blOff) dim.blSize))
    (hin : Inside endp (entryPos bo buf (.mk dim l.erase) p (s + len))) :
    iterE (fun c =>
        match derefEntry l.emptyCtor endp c (rd bo buf (p + dim.blOff) dim.blSize) with
        | .error e => .error e
        | .ok (ev, c') => travL bo buf l ev c') len (some (entryPos bo buf (.mk dim l.erase) p s))
      = .ok (some (entryPos bo buf (.mk dim l.erase) p (s + len))) :=
  range_iteration_end bo buf dim l endp p _ s len hg hf hin

/-! ### checked builds stay inside the view (holds since `SBEPP_SIZE_CHECK` rejects
    a view that begins past its end pointer) -/

/-- what passes `SBEPP_SIZE_CHECK` lies inside `[begin, end)` -/
theorem size_check_sound (e : Nat) (begin : Option Nat) (off size : Nat)
    (h : sizeCheck (some e) begin off size = .ok ()) : ∃ b, begin = some b ∧ b + off + size ≤ e :=
  sizeCheck_sound e begin off size h

/-- every value a cursor-based getter of a scalar field returns in a checked
    build — through any wrapper, from a legal position or not — was read inside
    the view -/
theorem cursor_checked_get_inside_view (w : Wrapper) (v : LView) (buf : List Nat) (cur : Option Nat) (a : Acc)
    (e : Nat) (st : Step) (he : v.endp = some e) (hnv : a.isView = false) (h : stepField w v buf cur a = .ok st) :
    ∃ start, start + a.size ≤ e ∧ (w ≠ .skip → st.res = .value (slice buf start a.size)) :=
  checked_get_inside w v buf cur a e st he hnv h

/-- every cursor-based setter that returns in a checked build wrote inside the view -/
theorem cursor_checked_set_inside_view (w : Wrapper) (v : LView) (buf : List Nat) (cur : Option Nat) (a : Acc)
    (value : List Nat) (e : Nat) (st : Step) (he : v.endp = some e) (h : stepSet w v buf cur a value = .ok st) :
    ∃ start, start + a.size ≤ e ∧ st.buf = writeAt buf start value :=
  checked_set_inside w v buf cur a value e st he h

/-! ### complete traversal -/

/-- full-strength statement: *every* level of a well-formed generated tree —
    including a message without any member — is left at its end by a complete
    in-order traversal that starts from `init_cursor` -/
def cursor_traversal_end_full : Prop :=
  ∀ (bo : ByteOrder) (buf : List Nat) (G : GLevel) (hdr : Nat) (v : LView),
    GoodL hdr G → v.lvl = v.addr + hdr → FitL bo buf G v.lvl v.wbl →
    Inside v.endp (endL bo buf G.erase v.lvl v.wbl) →
    travL bo buf G v (initCursor v) = .ok (some (endL bo buf G.erase v.lvl v.wbl))

/-- the current code violates it: a message compiled without members has no
    cursor accessor at all, so after the (empty) traversal the cursor is still
    at the end of the header although the block is not empty.  (Known finding
    `C03-empty-message-cursor-size`; entries are not affected: their generated
    constructor advances the cursor.) -/
theorem cursor_traversal_end_full_false : ¬ cursor_traversal_end_full := by
  intro h
  have := h .little [0, 0] (.mk [] true 0 [] [] []) 1 ⟨0, 1, 1, none⟩
    ⟨⟨[], trivial, by simp, rfl⟩, by simp, trivial⟩ rfl ⟨by omega, trivial⟩ (by intro e he; cases he)
  simp [travL, travFields, travGs, travDs, initCursor, endL, endGs, endDs, GLevel.erase, eraseGGs] at this

/-- **cursor_traversal_end** (what holds): the same statement for every level
    that has a cursor accessor or an empty block, and for every group entry
    (whose constructor advances the cursor when the entry has no member): the
    cursor ends exactly where the random-access `size_bytes` walk ends.
    Arbitrary nesting, entry counts, data lengths and wire block lengths. -/
theorem cursor_traversal_end_partial (bo : ByteOrder) (buf : List Nat) (G : GLevel) (hdr : Nat) (v : LView)
    (hg : GoodL hdr G) (hv : v.lvl = v.addr + hdr) (hf : FitL bo buf G v.lvl v.wbl)
    (hin : Inside v.endp (endL bo buf G.erase v.lvl v.wbl))
    (hroot : G.emptyCtor = true → v.wbl = 0) :
    travL bo buf G v (initCursor v) = .ok (some (endL bo buf G.erase v.lvl v.wbl)) := by
  apply travL_end bo buf G hdr v _ hg hv hf hin
  unfold initCursor
  cases hec : G.emptyCtor with
  | false => simp
  | true => simp [hroot hec]

/-- one entry of a cursor range: `*it` followed by the traversal of the entry -/
theorem cursor_entry_traversal_end (bo : ByteOrder) (buf : List Nat) (l : GLevel) (endp : Option Nat) (q bl : Nat)
    (hg : GoodL 0 l) (hf : FitL bo buf l q bl) (hin : Inside endp (endL bo buf l.erase q bl)) :
    (match derefEntry l.emptyCtor endp (some q) bl with
     | Except.error e => Except.error e
     | Except.ok (ev, c) => travL bo buf l ev c) = .ok (some (endL bo buf l.erase q bl)) := by
  rw [derefEntry_ok l.emptyCtor endp q bl (inside_mono hin (endL_ge bo buf l.erase q bl))]
  exact travL_end bo buf l 0 ⟨q, q, bl, endp⟩ _ hg rfl hf hin rfl

/-- **cursor_traversal_end_image**: on a buffer that contains a well-formed
    image of the message (header, then `flattenL`; any bytes behind), with the
    view covering at least the image, the traversal ends at the end of the
    image = `size_bytes(m)`. -/
theorem cursor_traversal_end_image (bo : ByteOrder) (G : GLevel) (hdrBytes : List Nat) (root : LVal) (post : List Nat)
    (wbl : Nat) (endp : Option Nat)
    (hg : GoodL hdrBytes.length G) (hc : ConfL bo G.erase root wbl)
    (hin : Inside endp (hdrBytes ++ flattenL bo G.erase root).length)
    (hroot : G.emptyCtor = true → wbl = 0) :
    travL bo (hdrBytes ++ flattenL bo G.erase root ++ post) G ⟨0, hdrBytes.length, wbl, endp⟩ (some hdrBytes.length)
      = .ok (some (hdrBytes ++ flattenL bo G.erase root).length) := by
  have hend := endL_spec bo G.erase root wbl _ hdrBytes post hc rfl
  have hfit := fitL_of_conf bo G root wbl _ hdrBytes post hc rfl
  have := cursor_traversal_end_partial bo (hdrBytes ++ flattenL bo G.erase root ++ post) G hdrBytes.length
    ⟨0, hdrBytes.length, wbl, endp⟩ hg (by simp) hfit (by rw [hend, ← List.length_append]; exact hin) hroot
  rw [hend, ← List.length_append] at this
  exact this

/-- **cursor_traversal_end, per accepted schema**: for every message the layout
    model resolves, the generator model emits the cursor accessors without
    throwing, and on every well-formed image of that message (arbitrary nesting,
    counts, data lengths, wire block lengths ≥ compiled) the complete in-order
    cursor traversal ends at the end of the image — provided the message has a
    member a cursor can be passed to, or an empty block. -/
theorem cursor_traversal_end_schema (s : SchemaDef) (m : MessageDef) (cm : CMessage)
    (hres : cresolveMessage s m = .ok cm) (bo : ByteOrder) (hdrBytes : List Nat) (root : LVal) (post : List Nat)
    (wbl : Nat) (endp : Option Nat) (hh : hdrBytes.length = cm.hdrSize)
    (hc : ConfL bo cm.level.erase root wbl)
    (hin : Inside endp (hdrBytes ++ flattenL bo cm.level.erase root).length)
    (hroot : cm.level.hasEmptyCtor = true → wbl = 0) :
    ∃ G, compileLevel cm.level = .ok G ∧
      travL bo (hdrBytes ++ flattenL bo cm.level.erase root ++ post) G ⟨0, cm.hdrSize, wbl, endp⟩ (some cm.hdrSize)
        = .ok (some (hdrBytes ++ flattenL bo cm.level.erase root).length) := by
  obtain ⟨hvalid, hhdr⟩ := cresolveMessage_valid s m cm hres
  obtain ⟨G, hcomp, hgood, her, hec⟩ := compileLevel_good cm.level hvalid
  refine ⟨G, hcomp, ?_⟩
  have := cursor_traversal_end_image bo G hdrBytes root post wbl endp (by rw [hh, ← hhdr]; exact hgood)
    (by rw [her]; exact hc) (by rw [her]; exact hin) (by rw [hec]; exact hroot)
  rw [her, hh] at this
  exact this

/-! ### non-vacuity: a two-level message (gap before the second field, a view
    as last field, a group with a data member, a group whose entries have no
    member, a data member), compiled by the model, traversed on a concrete image -/

deriving instance DecidableEq for Except

def exC : CLevel :=
  .mk 8 7
    [⟨"a", 0, 2, none, false, []⟩, ⟨"b", 3, 1, some 3, false, []⟩, ⟨"c", 4, 3, none, true, []⟩] 4
    [.mk "g" ⟨"dim", ⟨3, 0, 2, 2, 1, []⟩, "uint16", "uint8", []⟩
        (.mk 0 1 [⟨"x", 0, 1, none, false, []⟩] 1 [] [⟨"d", 1, "uint8", 0, 1, "uint8"⟩]),
     .mk "h" ⟨"dim", ⟨3, 0, 2, 2, 1, []⟩, "uint16", "uint8", []⟩ (.mk 0 0 [] 1 [] [])]
    [⟨"e", 2, "uint16", 0, 2, "char"⟩]

def exG : GLevel :=
  .mk [⟨0, 8, 2, false, false⟩, ⟨1, 11, 1, false, false⟩, ⟨0, 12, 3, true, true⟩] false 7 []
    [.mk ⟨3, 0, 2, 2, 1, []⟩ (.mk [⟨0, 0, 1, false, true⟩] false 1 [] [] [⟨1⟩]),
     .mk ⟨3, 0, 2, 2, 1, []⟩ (.mk [] true 0 [] [] [])]
    [⟨2⟩]

example : compileLevel exC = .ok exG := by rfl

/-- header (8 bytes, blockLength = 9 at offset 0), block of 9 bytes (wire > compiled 7),
    g: 2 entries of block length 2 with data, h: 2 empty entries of block length 1, e -/
def exBuf : List Nat :=
  [9, 0, 1, 0, 2, 0, 3, 0] ++ [1, 2, 9, 3, 4, 5, 6, 7, 7]
    ++ [2, 0, 2] ++ [5, 0, 1, 0x61] ++ [6, 0, 0]
    ++ [1, 0, 2] ++ [0xaa] ++ [0xbb]
    ++ [2, 0, 0x62, 0x63] ++ [0xff]

example : travL .little exBuf exG ⟨0, 8, 9, some 37⟩ (some 8) = .ok (some 36) := by decide
example : endL .little exBuf exG.erase 8 9 = 36 := by decide
/-- an illegal step: the second field while the cursor is still at the level start -/
example : stepField .plain ⟨0, 8, 9, some 37⟩ exBuf (some 8) ⟨1, 11, 1, false, false⟩ = .error .wrongCursor := by decide
/-- the same call through `init` is legal anywhere -/
example : stepField .init ⟨0, 8, 9, some 37⟩ exBuf (some 8) ⟨1, 11, 1, false, false⟩
    = .ok ⟨.value [3], some 12, exBuf⟩ := by decide

/-! ### the same statements about the member functions as translated from the current `sbepp.hpp`

  `Sbepp.Extracted.Cursor.*` is regenerated from the C++ text of the five cursor
  classes on every check run (`extract/methods_cursor.py`);
  `Lemmas/CursorTie.lean` proves each of the 48 translated methods equal to the
  hand model (`C.get_value_tie` …) and the four dispatchers over them equal to
  `stepField`/`stepSet`/`stepGroup`/`stepData`.  So the theorems above are
  theorems about what the code says now; a semantic edit of a method breaks its
  tie and with it this module.  (`travL` is a composition of `stepField`,
  `stepGroup`, `stepData` and the range primitives, so the traversal theorems
  are covered by the same equations.) -/

open Sbepp.Lemmas.CursorTie

theorem cursor_step_field_extracted (w : Wrapper) (v : LView) (buf : List Nat) (cur : Option Nat) (hdr pe : Nat)
    (s : FieldSpan) (last : Bool) (hv : v.lvl = v.addr + hdr) (hpe : pe ≤ s.off)
    (hin : Inside v.endp (v.lvl + s.off + s.size))
    (hc : v.endp.isSome = true ∨ (needsPre w = true → cur = some (v.lvl + pe))) :
    stepFieldX w v buf cur (accOf hdr pe s last)
      = toOut buf (specField ⟨v.lvl + pe, v.lvl + s.off, s.size, s.isView, getLeaf buf v.lvl ⟨s.off, s.size⟩⟩
          last (v.lvl + v.wbl) w cur) := by
  rw [stepFieldX_eq]; exact cursor_step_field w v buf cur hdr pe s last hv hpe hin hc

theorem cursor_step_set_extracted (w : Wrapper) (v : LView) (buf : List Nat) (cur : Option Nat) (hdr pe : Nat)
    (s : FieldSpan) (last : Bool) (value : List Nat) (hv : v.lvl = v.addr + hdr) (hpe : pe ≤ s.off)
    (hin : Inside v.endp (v.lvl + s.off + s.size))
    (hc : v.endp.isSome = true ∨ (needsPre w = true → cur = some (v.lvl + pe))) :
    stepSetX w v buf cur (accOf hdr pe s last) value
      = toOut (setLeaf buf v.lvl ⟨s.off, s.size⟩ value)
          (specFieldSet ⟨v.lvl + pe, v.lvl + s.off, s.size, s.isView, getLeaf buf v.lvl ⟨s.off, s.size⟩⟩
            last (v.lvl + v.wbl) w cur) := by
  rw [stepSetX_eq]; exact cursor_step_set w v buf cur hdr pe s last value hv hpe hin hc

theorem cursor_step_group_extracted (w : Wrapper) (bo : ByteOrder) (v : LView) (buf : List Nat) (cur : Option Nat)
    (gs : List Group) (k : Nat) (g : Group)
    (hin : Inside v.endp (groupPos bo buf gs v.lvl v.wbl k + g.dim.size))
    (hc : v.endp.isSome = true ∨ (needsPre w = true → k ≠ 0 → cur = some (groupPos bo buf gs v.lvl v.wbl k))) :
    stepGroupX w bo v buf cur gs k g
      = toOut buf (specGroup ⟨groupPos bo buf gs v.lvl v.wbl k, groupPos bo buf gs v.lvl v.wbl k + g.dim.size,
          endG bo buf g (groupPos bo buf gs v.lvl v.wbl k)⟩ (k == 0) w cur) := by
  rw [stepGroupX_eq]; exact cursor_step_group w bo v buf cur gs k g hin hc

theorem cursor_step_data_extracted (w : Wrapper) (bo : ByteOrder) (v : LView) (buf : List Nat) (cur : Option Nat)
    (l : Level) (k : Nat) (d : DataL)
    (hin : Inside v.endp (dataPos bo buf l v.lvl v.wbl k + d.lenSize))
    (hc : v.endp.isSome = true ∨
      (needsPre w = true → ¬ (k = 0 ∧ l.groups.isEmpty = true) → cur = some (dataPos bo buf l v.lvl v.wbl k))) :
    stepDataX w bo v buf cur l k d
      = toOut buf (specData ⟨dataPos bo buf l v.lvl v.wbl k,
          dataPos bo buf l v.lvl v.wbl k + d.lenSize + rd bo buf (dataPos bo buf l v.lvl v.wbl k) d.lenSize⟩
          (k == 0 && l.groups.isEmpty) w cur) := by
  rw [stepDataX_eq]; exact cursor_step_data w bo v buf cur l k d hin hc

theorem cursor_step_protocol_extracted (bo : ByteOrder) (v : LView) (buf : List Nat) (cur : Option Nat) (w : Wrapper)
    (hdr : Nat) (sp : List FieldSpan) (bl : Nat) (lv : List Leaf) (gs : List Group) (ds : List DataL)
    (hv : v.lvl = v.addr + hdr) (hord : SpansOrdered 0 sp) (hchk : v.endp.isSome = true) :
    (∀ i a, (accsOf hdr 0 sp)[i]? = some a → (∀ s ∈ sp, Inside v.endp (v.lvl + s.off + s.size)) →
      stepFieldX w v buf cur a
        = toOut buf (specGet (geoWalk bo buf sp gs ds v.lvl v.wbl) (.field i) w cur))
    ∧ (∀ k g, gs[k]? = some g → Inside v.endp (groupPos bo buf gs v.lvl v.wbl k + g.dim.size) →
      stepGroupX w bo v buf cur gs k g
        = toOut buf (specGet (geoWalk bo buf sp gs ds v.lvl v.wbl) (.group k) w cur))
    ∧ (∀ k d, ds[k]? = some d → Inside v.endp (dataPos bo buf (.mk bl lv gs ds) v.lvl v.wbl k + d.lenSize) →
      stepDataX w bo v buf cur (.mk bl lv gs ds) k d
        = toOut buf (specGet (geoWalk bo buf sp gs ds v.lvl v.wbl) (.data k) w cur)) := by
  rw [stepFieldX_eq, stepGroupX_eq, stepDataX_eq]
  exact cursor_step_protocol bo v buf cur w hdr sp bl lv gs ds hv hord hchk

theorem cursor_wrong_position_reported_extracted (w : Wrapper) (hw : needsPre w = true) (bo : ByteOrder) (v : LView)
    (buf : List Nat) (cur : Option Nat) (e : Nat) (he : v.endp = some e) :
    (∀ hdr pe (s : FieldSpan) last, v.lvl = v.addr + hdr → pe ≤ s.off → Inside v.endp (v.lvl + s.off + s.size) →
      cur ≠ some (v.lvl + pe) →
      stepFieldX w v buf cur (accOf hdr pe s last) = .error .wrongCursor
      ∧ ∀ value, w ≠ .skip → stepSetX w v buf cur (accOf hdr pe s last) value = .error .wrongCursor)
    ∧ (∀ gs k (g : Group), k ≠ 0 → Inside v.endp (groupPos bo buf gs v.lvl v.wbl k + g.dim.size) →
      cur ≠ some (groupPos bo buf gs v.lvl v.wbl k) → stepGroupX w bo v buf cur gs k g = .error .wrongCursor)
    ∧ (∀ l k (d : DataL), ¬ (k = 0 ∧ l.groups.isEmpty = true) →
      Inside v.endp (dataPos bo buf l v.lvl v.wbl k + d.lenSize) →
      cur ≠ some (dataPos bo buf l v.lvl v.wbl k) → stepDataX w bo v buf cur l k d = .error .wrongCursor) := by
  rw [stepFieldX_eq, stepSetX_eq, stepGroupX_eq, stepDataX_eq]
  exact cursor_wrong_position_reported w hw bo v buf cur e he

theorem cursor_checked_get_inside_view_extracted (w : Wrapper) (v : LView) (buf : List Nat) (cur : Option Nat)
    (a : Acc) (e : Nat) (st : Step) (he : v.endp = some e) (hnv : a.isView = false)
    (h : stepFieldX w v buf cur a = .ok st) :
    ∃ start, start + a.size ≤ e ∧ (w ≠ .skip → st.res = .value (slice buf start a.size)) := by
  rw [stepFieldX_eq] at h; exact cursor_checked_get_inside_view w v buf cur a e st he hnv h

theorem cursor_checked_set_inside_view_extracted (w : Wrapper) (v : LView) (buf : List Nat) (cur : Option Nat)
    (a : Acc) (value : List Nat) (e : Nat) (st : Step) (he : v.endp = some e)
    (h : stepSetX w v buf cur a value = .ok st) :
    ∃ start, start + a.size ≤ e ∧ st.buf = writeAt buf start value := by
  rw [stepSetX_eq] at h; exact cursor_checked_set_inside_view w v buf cur a value e st he h

/-- non-vacuity on the translated methods: the illegal and the legal call of the example above -/
example : stepFieldX .plain ⟨0, 8, 9, some 37⟩ exBuf (some 8) ⟨1, 11, 1, false, false⟩ = .error .wrongCursor := by decide
example : stepFieldX .init ⟨0, 8, 9, some 37⟩ exBuf (some 8) ⟨1, 11, 1, false, false⟩
    = .ok ⟨.value [3], some 12, exBuf⟩ := by decide
/-- with checks compiled out, `skip` over the last field does not touch a null cursor (the code, and since
    the tie also the model): the cursor is simply set to the end of the block -/
example : Sbepp.Extracted.Cursor.S.get_last_value ⟨0, 8, 9, none⟩ exBuf none 0 8 2 = .ok ⟨.void, some 17, exBuf⟩ := by
  decide

/-! ### cursor ranges: the same statements about the member functions as translated from the current `sbepp.hpp`

  `Sbepp.Extracted.Group.{CFlat, CNested}.{cursor_range, cursor_subrange1, cursor_subrange2, cursor_begin,
  cursor_end, visit_children}`, `CursorRange.*`, `InputIt.*`, `Entry.*` are regenerated from the C++ text of
  `flat_group_base`, `nested_group_base`, `cursor_range`, `input_iterator`, `entry_base` on every check run
  (`extract/methods_group.py`); `Lemmas/GroupCursorTie.lean` proves each of them equal to the hand model
  (`CFlat.cursor_subrange1_tie`, `InputIt.deref_tie` …; `mkRangeFlatX` / `mkRangeNestedX` = `mkRange`). -/

open Sbepp.Lemmas.GroupTie.C
open Sbepp.Extracted.Group
open Sbepp.Rt.Cursor.GroupDsl (forRange)

/-- **cursor_subrange_spec** for the range members of both group classes as translated -/
theorem cursor_subrange_spec_extracted (bo : ByteOrder) (buf : List Nat) (e : Nat) (dim : Dim) (p : Nat) (k : RangeKind)
    (hin : p + dim.size ≤ e) :
    (mkRangeFlatX bo buf (some e) dim p k
      = match rangeSpec (rd bo buf (p + dim.numOff) dim.numSize) k with
        | some (s, l) => .ok ⟨rd bo buf (p + dim.blOff) dim.blSize, s, l⟩
        | none => .error .precondition)
    ∧ (mkRangeNestedX bo buf (some e) dim p k
      = match rangeSpec (rd bo buf (p + dim.numOff) dim.numSize) k with
        | some (s, l) => .ok ⟨rd bo buf (p + dim.blOff) dim.blSize, s, l⟩
        | none => .error .precondition) := by
  rw [mkRangeFlatX_eq, mkRangeNestedX_eq]
  exact ⟨cursor_subrange_spec bo buf e dim p k hin, cursor_subrange_spec bo buf e dim p k hin⟩

theorem cursor_subrange_spec_unchecked_extracted (bo : ByteOrder) (buf : List Nat) (dim : Dim) (p : Nat) (k : RangeKind)
    (s l : Nat) (h : rangeSpec (rd bo buf (p + dim.numOff) dim.numSize) k = some (s, l)) :
    mkRangeFlatX bo buf none dim p k = .ok ⟨rd bo buf (p + dim.blOff) dim.blSize, s, l⟩
    ∧ mkRangeNestedX bo buf none dim p k = .ok ⟨rd bo buf (p + dim.blOff) dim.blSize, s, l⟩ := by
  rw [mkRangeFlatX_eq, mkRangeNestedX_eq]
  exact ⟨cursor_subrange_spec_unchecked bo buf dim p k s l h, cursor_subrange_spec_unchecked bo buf dim p k s l h⟩

/-- **cursor_range_iteration** for the range-`for` loop written with the translated `begin()` / `end()` of
    `cursor_range` and `!=` / `++` / `*` of `input_iterator` (`w` = width of the index type; the range's start and
    length are values of that type, `fuel` does not limit the loop): the loop over the range `[s, s + len)`
    whose body traverses the entry ends with the cursor at the random-access position of entry `s + len` -/
theorem cursor_range_iteration_extracted (bo : ByteOrder) (buf : List Nat) (dim : Dim) (l : GLevel) (endp : Option Nat)
    (p s len w fuel : Nat) (hs : s < 2 ^ w) (hlen : len < 2 ^ w) (hfuel : len ≤ fuel) (hg : GoodL 0 l)
    (hf : ∀ i, s ≤ i → i < s + len →
      FitL bo buf l (entryPos bo buf (.mk dim l.erase) p i) (rd bo buf (p + dim.blOff) dim.blSize))
    (hin : Inside endp (entryPos bo buf (.mk dim l.erase) p (s + len))) :
    forRange InputIt.ne (InputIt.inc w) (InputIt.deref l.emptyCtor endp)
        (CursorRange.end_ w ⟨rd bo buf (p + dim.blOff) dim.blSize, s, len⟩)
        (fun entry c (v : Unit) => do
          let (t1, c, v) ← (match travL bo buf l entry c with
                            | .error e => .error e
                            | .ok c'' => .ok (false, c'', v) : Out (Bool × Option Nat × Unit))
          if t1 then
            return (some true, c, v)
          return (none, c, v)) fuel
        (CursorRange.begin ⟨rd bo buf (p + dim.blOff) dim.blSize, s, len⟩)
        (some (entryPos bo buf (.mk dim l.erase) p s)) ()
      = .ok (none, some (entryPos bo buf (.mk dim l.erase) p (s + len)), ()) := by
  refine Eq.trans (forRange_iterE w l.emptyCtor endp ⟨rd bo buf (p + dim.blOff) dim.blSize, s, len⟩ hs hlen
    (fun ev c => travL bo buf l ev c) fuel hfuel _ ()) ?_
  have h := cursor_range_iteration bo buf dim l endp p s len hg hf hin
  have h' : ∀ (x : Out (Option Nat)) (q : Option Nat), x = .ok q →
      (match x with
       | .error e => .error e
       | .ok c' => .ok ((none : Option Bool), c', ()) : Out (Option Bool × Option Nat × Unit)) = .ok (none, q, ()) := by
    intro x q hx; subst hx; rfl
  exact h' _ _ h

/-- non-vacuity on the translated member functions: a group header `blockLength = 2, numInGroup = 3` at offset 0 -/
example : Sbepp.Extracted.Group.CFlat.cursor_subrange1 .little [2, 0, 3, 0, 9, 9, 9, 9, 9, 9] (some 10) ⟨4, 0, 2, 2, 2, []⟩ 0 1
    = .ok ⟨2, 1, 2⟩ := by decide
example : Sbepp.Extracted.Group.CNested.cursor_subrange2 .little [2, 0, 3, 0, 9, 9, 9, 9, 9, 9] (some 10) ⟨4, 0, 2, 2, 2, []⟩ 0 1 3
    = .error .precondition := by decide
example : Sbepp.Extracted.Group.CFlat.cursor_subrange1 .little [2, 0, 3, 0, 9, 9, 9, 9, 9, 9] (some 10) ⟨4, 0, 2, 2, 2, []⟩ 0 3
    = .error .precondition := by decide

end Sbepp.Properties.C04
