/-
  DSL primitives used by the generated module `Sbepp.Extracted.DynArray`
  (`extract/methods_dynarray.py`), in addition to the ones of
  `Sbepp.Rt.DynArray` (`M`, `assert`, `sizeCheck`, `readBytes`, `writeBytes`,
  `stdCopy`, `stdCopyBackward`, `wrapLen`, `sizeT`).

  Everything here is hand-modelled (trusted): it states what the callee or the
  control structure named in the doc comment does, it is not derived from the
  C++ text.  Nothing here refers to a member function of `dynamic_array_ref`.

  Core Lean only.
-/
import Sbepp.Rt.DynArray

namespace Sbepp.Rt.DynArray

/-- `get_primitive<size_type, E>(ptr)`: `memcpy` of `sizeof(size_type)` bytes and a
    byte swap for the non-native byte order -/
def getPrimitive (P : Params) (ptr : Nat) : M Nat := do
  let bs ← readBytes ptr P.w
  pure (getN P.be bs)

/-- `set_primitive<E>(ptr, v)` for `v` of type `size_type` -/
def setPrimitive (P : Params) (ptr v : Nat) : M Unit :=
  writeBytes ptr (putN P.w P.be v)

/-- `std::fill_n(d, count, value)` on a pointer into the block (result unused) -/
def stdFillN (d count value : Nat) : M Unit :=
  writeBytes d (List.replicate count value)

/-- `std::copy(first, last, d)` / `std::ranges::copy(r, d).out` where `[first, last)` is a
    range outside the memory block whose elements are `xs`: returns the end of the output -/
def stdCopyIn (xs : List Nat) (d : Nat) : M Nat := do
  writeBytes d xs
  pure (d + xs.length)

/-- `string_length(str)` (`strlen`); `str` are the bytes at the pointer, a terminator
    follows them -/
def stringLength (str : List Nat) : Nat := (Sbepp.Spec.Vec.cstr str).length

/-- `std::copy_n(str, n, d)` from a C string outside the block (result unused) -/
def stdCopyN (str : List Nat) (n d : Nat) : M Unit :=
  writeBytes d (str.take n)

/-- `str != nullptr` for a C-string parameter: a null pointer is not representable
    (the parameter *is* the bytes it points to) -/
def cstrNonNull (_ : List Nat) : Bool := true

/-- `k` iterations `body i; body (i+1); …` -/
def countUp (body : Nat → M Unit) : Nat → Nat → M Unit
  | _, 0 => pure ()
  | i, k + 1 => do
    body i
    countUp body (i + 1) k

/-- `for(auto i = a; i != b; i++) body(i);` for `a`, `b` values of the unsigned
    type `size_type` (`i++` wraps at `256 ^ w`) -/
def forNe (P : Params) (a b : Nat) (body : Nat → M Unit) : M Unit :=
  if a ≤ b then countUp body a (b - a)
  else do
    countUp body a (256 ^ P.w - a)
    countUp body 0 b

/-- `for(; first != last; ++first, ++out) body(out, *first);` where `[first, last)` is a
    range outside the block whose elements are `xs`; returns the final `out` -/
def forExt (xs : List Nat) (out : Nat) (body : Nat → Nat → M Unit) : M Nat :=
  match xs with
  | [] => pure out
  | x :: rest => do
    body out x
    forExt rest (out + 1) body

/-- `for(; first != last; ++first) body(*first);` -/
def forExt0 (xs : List Nat) (body : Nat → M Unit) : M Unit :=
  match xs with
  | [] => pure ()
  | x :: rest => do
    body x
    forExt0 rest body

end Sbepp.Rt.DynArray
