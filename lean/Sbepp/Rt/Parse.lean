/-
  Reconstruction of the value tree from a buffer, consulting only the buffer:
  block contents are sliced at positions computed from the `blockLength`,
  `numInGroup` and `length` values read back from the buffer (the same position
  arithmetic as `Rt/Walk.lean`).  Any observer defined on value trees (visit
  events, traits of values, …) composed with `parseL` is a runtime model of that
  observer on buffers.
-/
import Sbepp.Rt.Walk

namespace Sbepp

def parseDs (bo : ByteOrder) (buf : List Nat) : List DataL → Nat → List (List Nat)
  | [], _ => []
  | d :: ds, p =>
    slice buf (p + d.lenSize) (rd bo buf p d.lenSize)
      :: parseDs bo buf ds (p + d.lenSize + rd bo buf p d.lenSize)

mutual
  def parseL (bo : ByteOrder) (buf : List Nat) : Level → Nat → Nat → LVal
    | .mk _ _ gs ds, pos, wbl =>
      .mk (slice buf pos wbl) (parseGs bo buf gs (pos + wbl)) (parseDs bo buf ds (endGs bo buf gs (pos + wbl)))
  def parseGs (bo : ByteOrder) (buf : List Nat) : List Group → Nat → List GVal
    | [], _ => []
    | g :: gs, p => parseG bo buf g p :: parseGs bo buf gs (endG bo buf g p)
  def parseG (bo : ByteOrder) (buf : List Nat) : Group → Nat → GVal
    | .mk dim l, p =>
      .mk (slice buf p dim.size)
        ((List.range (rd bo buf (p + dim.numOff) dim.numSize)).map (fun i =>
          parseL bo buf l
            (iter (fun q => endL bo buf l q (rd bo buf (p + dim.blOff) dim.blSize)) i (p + dim.size))
            (rd bo buf (p + dim.blOff) dim.blSize)))
end

end Sbepp
