/-
  Executable model of `sbepp::detail::required_base<T, Derived>` and
  `sbepp::detail::optional_base<T, Derived>` (sbepp.hpp), transliterated member
  by member, in BOTH comparison configurations:

  * `Impl.ops`        `SBEPP_HAS_THREE_WAY_COMPARISON == 0`: the six hand-written
                      operators;
  * `Impl.spaceship`  `SBEPP_HAS_THREE_WAY_COMPARISON == 1`: `operator==` and
                      `operator<=>` only; `a != b`, `a < b`, … are what C++20
                      rewrites them to ([over.match.oper]/3.4, /9):
                      `!(a == b)`, `(a <=> b) < 0`, ….

  `T` ranges over the 11 primitive types; `Derived` supplies the static
  `min_value()`, `max_value()`, `null_value()` — here the record `Ty`.  Values
  are object representations (`Nat` bit patterns); the built-in operators on
  `T` are `Ieee.frel`/`Ieee.fcmp3` on `Prim.load` (exact integers; IEEE for
  `float`/`double`).  Integral promotion does not change any comparison of two
  operands of the same type, so it is not modelled separately.

  Core Lean only (linked into the driver).
-/
import Sbepp.Base.Ieee

namespace Sbepp.Rt.Scalar
open Sbepp Sbepp.Ieee

/-- which comparison implementation the preprocessor selected -/
inductive Impl
  | ops | spaceship
  deriving DecidableEq, Repr, Inhabited

/-- a `Derived` class: primitive type + the three static attribute functions -/
structure Ty where
  p : Prim
  min : Nat
  max : Nat
  null : Nat
  deriving DecidableEq, Repr

/-- result of evaluating an expression such as `a < b`: a value, or the
    expression is ill-formed (the program does not compile) -/
inductive Res
  | val (b : Bool)
  | illFormed
  deriving DecidableEq, Repr, Inhabited

/-- built-in `a OP b` on two operands of primitive type `p` -/
def uRel (p : Prim) (r : Rel) (a b : Nat) : Bool := frel r (p.load a) (p.load b)

/-- built-in `a <=> b` -/
def uCmp3 (p : Prim) (a b : Nat) : Ord3 := fcmp3 (p.load a) (p.load b)

/-- `bool <=> bool` (`false < true`), a `std::strong_ordering` -/
def boolCmp3 (a b : Bool) : Ord3 :=
  match a, b with
  | false, true => .less
  | true, false => .greater
  | _, _ => .equivalent

/-- comparison category types -/
inductive Cat
  | strongOrdering | partialOrdering
  deriving DecidableEq, Repr, Inhabited

/-- `std::compare_three_way_result_t<T>`: the type of `a <=> b` on two `T`s -/
def Cat.of (p : Prim) : Cat := if p.isFloat then .partialOrdering else .strongOrdering

/-- implicit conversion between category types in a `return` statement:
    `strong_ordering` converts to `partial_ordering`, not the other way round -/
def Cat.convertsTo : Cat → Cat → Bool
  | .partialOrdering, .strongOrdering => false
  | _, _ => true

/-! ### `required_base` -/
namespace Required

/-- `required_base() = default;` with `value_type val{};` — value-initialised -/
def default (_T : Ty) : Nat := 0

/-- `constexpr required_base(value_type val) : val{val}` -/
def fromValue (_T : Ty) (v : Nat) : Nat := v

/-- `value()` = `**this` = `val` -/
def value (_T : Ty) (v : Nat) : Nat := v

/-- `return (Derived::min_value() <= val) && (val <= Derived::max_value());` -/
def inRange (T : Ty) (v : Nat) : Bool :=
  uRel T.p .le T.min v && uRel T.p .le v T.max

/-- the defaulted `friend auto operator<=>(const required_base&, const
    required_base&) = default;` compares the only member: `val <=> val`; its
    deduced type is `strong_ordering` for integers, `partial_ordering` for
    floating point.  It also implicitly declares a defaulted `operator==`
    (`val == val`). -/
def cmp3 (T : Ty) (a b : Nat) : Ord3 := uCmp3 T.p a b

def rel (impl : Impl) (T : Ty) (r : Rel) (a b : Nat) : Res :=
  match impl with
  | .ops =>
    -- `return *lhs OP *rhs;` for each of the six operators
    .val (uRel T.p r a b)
  | .spaceship =>
    match r with
    | .eq => .val (uRel T.p .eq a b)            -- defaulted ==
    | .ne => .val (!uRel T.p .eq a b)           -- rewritten: !(a == b)
    | r => .val (Ord3.test r (cmp3 T a b))      -- rewritten: (a <=> b) OP 0

end Required

/-! ### `optional_base` -/
namespace Optional

/-- `optional_base() = default;` with `value_type val{Derived::null_value()};` -/
def default (T : Ty) : Nat := T.null

/-- `constexpr optional_base(nullopt_t) noexcept : optional_base{}` -/
def fromNullopt (T : Ty) : Nat := default T

/-- `constexpr optional_base(value_type val) noexcept : val{val}` -/
def fromValue (_T : Ty) (v : Nat) : Nat := v

/-- `value()` = `**this` = `val` -/
def value (_T : Ty) (v : Nat) : Nat := v

/-- ```
    return (val != Derived::null_value())
           && !((val != val)
                && (Derived::null_value() != Derived::null_value()));
    ``` -/
def hasValue (T : Ty) (v : Nat) : Bool :=
  uRel T.p .ne v T.null && !(uRel T.p .ne v v && uRel T.p .ne T.null T.null)

/-- `explicit operator bool()`: `return has_value();` -/
def toBool (T : Ty) (v : Nat) : Bool := hasValue T v

/-- `if(*this) { return value(); } return default_value;` -/
def valueOr (T : Ty) (v d : Nat) : Nat :=
  if toBool T v then value T v else d

/-- `return (Derived::min_value() <= val) && (val <= Derived::max_value());` -/
def inRange (T : Ty) (v : Nat) : Bool :=
  uRel T.p .le T.min v && uRel T.p .le v T.max

/-- `operator==` (present in both configurations):
    ```
    return (lhs.has_value() && rhs.has_value())
               ? (*lhs == *rhs)
               : (lhs.has_value() == rhs.has_value());
    ``` -/
def eq (T : Ty) (a b : Nat) : Bool :=
  if hasValue T a && hasValue T b then uRel T.p .eq a b
  else hasValue T a == hasValue T b

/-- declared return type of `operator<=>`:
    `std::compare_three_way_result_t<value_type>` -/
def spaceshipRet (T : Ty) : Cat := Cat.of T.p

/-- ```
    constexpr friend std::compare_three_way_result_t<value_type>
        operator<=>(const optional_base& lhs, const optional_base& rhs) noexcept
    {
        if(lhs && rhs) { return *lhs <=> *rhs; }
        return lhs.has_value() <=> rhs.has_value();
    }
    ```
    The first `return` converts the category of `value_type` and the second a
    `std::strong_ordering` (`bool <=> bool`) to the declared return type; if
    either conversion does not exist the instantiation of the body is
    ill-formed (`none`), whatever the operands. -/
def spaceship (T : Ty) (a b : Nat) : Option Ord3 :=
  if Cat.convertsTo (Cat.of T.p) (spaceshipRet T) && Cat.convertsTo .strongOrdering (spaceshipRet T) then
    some (if toBool T a && toBool T b then uCmp3 T.p a b
          else boolCmp3 (hasValue T a) (hasValue T b))
  else none

def rel (impl : Impl) (T : Ty) (r : Rel) (a b : Nat) : Res :=
  match impl with
  | .ops =>
    match r with
    | .eq => .val (eq T a b)
    -- `return !(lhs == rhs);`
    | .ne => .val (!eq T a b)
    -- `return rhs && (!lhs || (*lhs < *rhs));`
    | .lt => .val (toBool T b && (!toBool T a || uRel T.p .lt a b))
    -- `return !lhs || (rhs && (*lhs <= *rhs));`
    | .le => .val (!toBool T a || (toBool T b && uRel T.p .le a b))
    -- `return lhs && (!rhs || (*lhs > *rhs));`
    | .gt => .val (toBool T a && (!toBool T b || uRel T.p .gt a b))
    -- `return !rhs || (lhs && (*lhs >= *rhs));`
    | .ge => .val (!toBool T b || (toBool T a && uRel T.p .ge a b))
  | .spaceship =>
    match r with
    | .eq => .val (eq T a b)
    | .ne => .val (!eq T a b)                    -- rewritten: !(a == b)
    | r =>                                       -- rewritten: (a <=> b) OP 0
      match spaceship T a b with
      | some o => .val (Ord3.test r o)
      | none => .illFormed

end Optional

/-- the null value of `T` is a NaN (only possible for `float`/`double`) -/
def Ty.nullIsNaN (T : Ty) : Bool := T.p.load T.null == .nan

end Sbepp.Rt.Scalar
