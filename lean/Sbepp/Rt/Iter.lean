/-
  Executable model of `flat_group_base`, `random_access_iterator`,
  `nested_group_base` and `forward_iterator` (sbepp.hpp), assembled from the
  kernels that /verif/extract translates from /repo on every run.

  * every arithmetic step is a run of an extracted kernel (C++ promotion,
    conversion and UB rules of `Base/CInt`), so `none`/`Outcome.ub` means the
    C++ has undefined behaviour and `assertFailed` means an `SBEPP_ASSERT` /
    `SBEPP_SIZE_CHECK` fired (checked builds only: `chk = true`);
  * a pointer is an absolute address (`Int`); nothing is ever dereferenced here:
    an entry view is represented by the address it starts at;
  * implicit conversions at call boundaries are explicit: an argument is a
    `CVal` of whatever type the caller has (`size_type` for `size()`,
    `long long` for a literal) and is converted with `CVal.conv` to the declared
    parameter type (`difference_type` for `it + n`, `size_type` for `g[pos]`);
  * compositions that are not straight-line expressions (`operator+` = copy and
    `+=`; `operator-=` = `+= -n`; `it[n]` = `*(it + n)`; `front` = `*begin()`;
    `back` = `*(--end())`; `clear` = `resize(0)`; the `size_bytes` loop of the
    nested group) are transliterated by hand; /verif/extract/kernels_group.py
    pins the source text of each of them (`Extracted.group_shapes_ok`).
-/
import Sbepp.Extracted.Kernels
import Sbepp.Extracted.KernelsGroup

namespace Sbepp

deriving instance DecidableEq for Outcome

namespace Outcome

def bind {α β : Type} (o : Outcome α) (f : α → Outcome β) : Outcome β :=
  match o with
  | .ok a => f a
  | .ub => .ub
  | .assertFailed i => .assertFailed i

instance : Monad Outcome where
  pure := .ok
  bind := Outcome.bind

@[simp] theorem bind_ok {α β : Type} (a : α) (f : α → Outcome β) : (Outcome.ok a >>= f) = f a := rfl
@[simp] theorem bind_ub {α β : Type} (f : α → Outcome β) : ((Outcome.ub : Outcome α) >>= f) = .ub := rfl
@[simp] theorem bind_assert {α β : Type} (i : Nat) (f : α → Outcome β) :
    ((Outcome.assertFailed i : Outcome α) >>= f) = .assertFailed i := rfl
@[simp] theorem pure_eq {α : Type} (a : α) : (pure a : Outcome α) = .ok a := rfl

def ofOption {α : Type} : Option α → Outcome α
  | some a => .ok a
  | none => .ub

end Outcome

namespace Rt
open Sbepp.Extracted

/-- object representation of a pointer value -/
def ptrBits (p : Int) : Nat := (p % ((2 ^ 64 : Nat) : Int)).toNat

/-- `difference_type` of a group whose `numInGroup` has type `NT` -/
def diffTy (NT : CTy) : CTy := NT.toSigned

/-- a kernel as compiled without assertions (`SBEPP_ASSERT(x)` is `((void)0)`) -/
def uncheckedBody (k : Kernel) : Kernel :=
  { k with body := k.body.filter (fun s => match s with | .assert _ => false | _ => true) }

def runK (k : Kernel) (chk : Bool) (args : List Nat) : Outcome KResult :=
  (if chk then k else uncheckedBody k).run args

def getVar (env : Env) (x : String) : Outcome CVal := Outcome.ofOption (env.get? x)

/-- state of a `random_access_iterator` -/
structure Iter where
  ptr : Int
  bl : Nat
  index : Nat
  end_ : Int      -- only meaningful in checked builds (`nullptr` = 0 otherwise)
  deriving DecidableEq, Repr, Inhabited

/-- state of a `forward_iterator` -/
structure FwdIter where
  ptr : Int
  index : Nat
  bl : Nat
  end_ : Int
  deriving DecidableEq, Repr, Inhabited

/-- what a group view sees: its address, the end pointer (checked builds) and
    the header contents (`sbepp::size_bytes(dimension)`, `numInGroup`,
    `blockLength`, each a bit pattern of its type) -/
structure Group where
  addr : Int
  hdr : Nat
  num : Nat
  bl : Nat
  end_ : Int := 0
  deriving DecidableEq, Repr, Inhabited

def Group.args (g : Group) : List Nat := [ptrBits g.addr, g.hdr, g.num, g.bl, ptrBits g.end_]

/-- `(*this)(get_header_tag{})`: only a size check, and only in checked builds -/
def headerCheck (g : Group) (chk : Bool) : Outcome Unit := do
  let _ ← runK flat_group_header_check chk [ptrBits g.addr, ptrBits g.end_, g.hdr]
  pure ()

def readIter (env : Env) : Outcome Iter := do
  let p ← getVar env "it_ptr"
  let b ← getVar env "it_block_length"
  let i ← getVar env "it_index"
  let e ← getVar env "it_end"
  pure ⟨p.toInt, b.bits, i.bits, e.toInt⟩

def readFwd (env : Env) : Outcome FwdIter := do
  let p ← getVar env "it_ptr"
  let b ← getVar env "it_block_length"
  let i ← getVar env "it_index"
  let e ← getVar env "it_end"
  pure ⟨p.toInt, i.bits, b.bits, e.toInt⟩

/-! ### flat_group_base -/

def flatBegin (NT BT : CTy) (chk : Bool) (g : Group) : Outcome Iter := do
  headerCheck g chk
  let r ← runK (flat_group_begin NT BT) chk g.args
  readIter r.env

def flatEnd (NT BT : CTy) (chk : Bool) (g : Group) : Outcome Iter := do
  headerCheck g chk
  let r ← runK (flat_group_end NT BT) chk g.args
  readIter r.env

/-- `g.size()` as a value of `size_type` -/
def groupSize (NT : CTy) (g : Group) : CVal := ⟨NT, g.num % 2 ^ NT.bits⟩

/-- `size_bytes(g)` -/
def flatSizeBytes (NT BT : CTy) (chk : Bool) (g : Group) : Outcome Nat := do
  headerCheck g chk
  Outcome.ofOption ((flat_group_size_bytes NT BT).retBits [g.hdr, g.num, g.bl])

/-- `*it`: the entry view starts at `ptr` -/
def deref (it : Iter) : Int := it.ptr

/-- `g[pos]`: the argument is converted to `size_type`; returns the address of
    the entry view -/
def flatSubscript (NT BT : CTy) (chk : Bool) (g : Group) (pos : CVal) : Outcome Int := do
  headerCheck g chk
  let r ← runK (flat_group_subscript NT BT) chk (g.args ++ [(CVal.conv NT pos).bits])
  let it ← readIter r.env
  pure (deref it)

/-! ### random_access_iterator -/

def Iter.args (it : Iter) : List Nat := [ptrBits it.ptr, it.bl, it.index]

def readIter3 (it : Iter) (env : Env) : Outcome Iter := do
  let p ← getVar env "ptr"
  let b ← getVar env "block_length"
  let i ← getVar env "index"
  pure ⟨p.toInt, b.bits, i.bits, it.end_⟩

/-- `++it` -/
def inc (NT BT : CTy) (chk : Bool) (it : Iter) : Outcome Iter := do
  let r ← if chk then (ra_iter_inc_check BT NT).run (it.args ++ [ptrBits it.end_])
          else (ra_iter_inc BT NT).run it.args
  readIter3 it r.env

/-- `--it` -/
def dec (NT BT : CTy) (it : Iter) : Outcome Iter := do
  let r ← (ra_iter_dec BT NT).run it.args
  readIter3 it r.env

/-- `it += n` where `n` already has type `difference_type` -/
def addAssignD (NT BT : CTy) (it : Iter) (n : CVal) : Outcome Iter := do
  let r ← (ra_iter_add_assign BT NT (diffTy NT)).run (it.args ++ [n.bits])
  readIter3 it r.env

/-- `it + n` / `it += n`: the argument is converted to `difference_type` -/
def plus (NT BT : CTy) (it : Iter) (n : CVal) : Outcome Iter :=
  addAssignD NT BT it (CVal.conv (diffTy NT) n)

/-- `it - n` / `it -= n`: `*this += -n` -/
def minus (NT BT : CTy) (it : Iter) (n : CVal) : Outcome Iter := do
  let n' := CVal.conv (diffTy NT) n
  let r ← (ra_iter_sub_assign_arg (diffTy NT)).run [n'.bits]
  match r.ret with
  | some m => addAssignD NT BT it m
  | none => .ub

/-- `a - b` -/
def diff (NT : CTy) (a b : Iter) : Outcome CVal := do
  let r ← (ra_iter_diff NT (diffTy NT)).run [a.index, b.index]
  Outcome.ofOption r.ret

/-- `it[n]` is `*(*this + n)` -/
def subscriptIt (NT BT : CTy) (it : Iter) (n : CVal) : Outcome Int := do
  let j ← plus NT BT it n
  pure (deref j)

def cmpKernel (NT : CTy) : String → Option Kernel
  | "lt" => some (ra_iter_lt NT) | "le" => some (ra_iter_le NT)
  | "gt" => some (ra_iter_gt NT) | "ge" => some (ra_iter_ge NT)
  | "eq" => some (ra_iter_eq NT) | "ne" => some (ra_iter_ne NT)
  | _ => none

def compare (NT : CTy) (op : String) (a b : Iter) : Outcome Bool :=
  match cmpKernel NT op with
  | none => .ub
  | some k => do
    let r ← k.run [a.index, b.index]
    match r.ret with
    | some v => pure v.isTrue
    | none => .ub

/-- `SBEPP_ASSERT(!empty())` -/
def assertNotEmpty (NT : CTy) (chk : Bool) (g : Group) : Outcome Unit :=
  if chk && (groupSize NT g).bits == 0 then .assertFailed 0 else .ok ()

/-- `g.front()` is `*begin()` -/
def flatFront (NT BT : CTy) (chk : Bool) (g : Group) : Outcome Int := do
  headerCheck g chk
  assertNotEmpty NT chk g
  let b ← flatBegin NT BT chk g
  pure (deref b)

/-- `g.back()` is `*(--end())` -/
def flatBack (NT BT : CTy) (chk : Bool) (g : Group) : Outcome Int := do
  headerCheck g chk
  assertNotEmpty NT chk g
  let e ← flatEnd NT BT chk g
  let l ← dec NT BT e
  pure (deref l)

/-- `k` times `++` starting from `it` -/
def incN (NT BT : CTy) (chk : Bool) : Nat → Iter → Outcome Iter
  | 0, it => .ok it
  | k + 1, it => do
    let j ← inc NT BT chk it
    incN NT BT chk k j

/-! ### nested_group_base / forward_iterator -/

def nestedBegin (NT BT : CTy) (chk : Bool) (g : Group) : Outcome FwdIter := do
  let _ ← runK nested_group_header_check chk [ptrBits g.addr, ptrBits g.end_, g.hdr]
  let r ← runK (nested_group_begin NT BT) chk g.args
  readFwd r.env

def nestedEnd (NT BT : CTy) (chk : Bool) (g : Group) : Outcome FwdIter := do
  let _ ← runK nested_group_header_check chk [ptrBits g.addr, ptrBits g.end_, g.hdr]
  let r ← runK (nested_group_end NT BT) chk g.args
  readFwd r.env

/-- `++it` of a forward iterator; `entrySize` is `sbepp::size_bytes(*it)` -/
def fwdInc (NT : CTy) (chk : Bool) (it : FwdIter) (entrySize : Nat) : Outcome FwdIter := do
  let r ← if chk then (fwd_iter_inc_check NT).run [ptrBits it.ptr, it.index, entrySize, ptrBits it.end_]
          else (fwd_iter_inc NT).run [ptrBits it.ptr, it.index, entrySize]
  let p ← getVar r.env "ptr"
  let i ← getVar r.env "index"
  pure ⟨p.toInt, i.bits, it.bl, it.end_⟩

def fwdNe (NT : CTy) (a b : FwdIter) : Outcome Bool := do
  let r ← (fwd_iter_ne NT).run [a.index, b.index]
  match r.ret with
  | some v => pure v.isTrue
  | none => .ub

def fwdEq (NT : CTy) (a b : FwdIter) : Outcome Bool := do
  let r ← (fwd_iter_eq NT).run [a.index, b.index]
  match r.ret with
  | some v => pure v.isTrue
  | none => .ub

/-- `for(it = begin(); it != end(); ++it) visit(*it)`: the addresses of the
    visited entries, in order.  `esize a` is `size_bytes` of the entry view
    that starts at address `a` (in the C++ it is computed from the bytes stored
    there).  `fuel` bounds the number of iterations. -/
def fwdWalk (NT : CTy) (chk : Bool) (esize : Int → Nat) (e : FwdIter) :
    Nat → FwdIter → List Int → Outcome (List Int × FwdIter)
  | 0, it, acc => .ok (acc.reverse, it)
  | fuel + 1, it, acc => do
    let more ← fwdNe NT it e
    if more then
      let j ← fwdInc NT chk it (esize it.ptr)
      fwdWalk NT chk esize e fuel j (it.ptr :: acc)
    else pure (acc.reverse, it)

/-- entry addresses of a nested group, by iteration -/
def nestedEntries (NT BT : CTy) (chk : Bool) (g : Group) (esize : Int → Nat) (fuel : Nat) :
    Outcome (List Int) := do
  let b ← nestedBegin NT BT chk g
  let e ← nestedEnd NT BT chk g
  let r ← fwdWalk NT chk esize e fuel b []
  pure r.1

/-- `size_bytes` of a nested group: `size = hdr; for(entry : *this) size += size_bytes(entry)` -/
def nestedSizeBytes (NT BT : CTy) (chk : Bool) (g : Group) (esize : Int → Nat) (fuel : Nat) :
    Outcome Nat := do
  let es ← nestedEntries NT BT chk g esize fuel
  es.foldlM (fun (size : Nat) a => do
    let r ← nested_size_step.run [size, esize a]
    let v ← getVar r.env "size"
    pure v.bits) (g.hdr % 2 ^ 64)

/-- `g.front()` of a nested group -/
def nestedFront (NT BT : CTy) (chk : Bool) (g : Group) : Outcome Int := do
  let _ ← runK nested_group_header_check chk [ptrBits g.addr, ptrBits g.end_, g.hdr]
  assertNotEmpty NT chk g
  let b ← nestedBegin NT BT chk g
  pure b.ptr

/-! ### resize / clear: the header's `numInGroup` setter

  `resize(count)` is `(*this)(get_header_tag{}).numInGroup(count)`; the setter
  of a dimension composite is generated code
  `set_value<E>(*this, OFFSET, v.value())`, which copies `sizeof(size_type)`
  bytes in byte order `E` to `addr + OFFSET`.  The buffer is a list of bytes,
  `hoff` the position of the group header in it. -/

def leBytes : Nat → Nat → List Nat
  | 0, _ => []
  | w + 1, v => (v % 256) :: leBytes w (v / 256)

def valueBytes (bigEndian : Bool) (w v : Nat) : List Nat :=
  if bigEndian then (leBytes w v).reverse else leBytes w v

/-- overwrite `bs.length` bytes at `off`; `none` if the range leaves the buffer
    (a write outside the storage) -/
def writeAt (buf : List Nat) (off : Nat) (bs : List Nat) : Option (List Nat) :=
  if off + bs.length ≤ buf.length then some (buf.take off ++ bs ++ buf.drop (off + bs.length)) else none

structure DimLayout where
  numOff : Nat          -- offset of numInGroup inside the header
  bigEndian : Bool
  deriving Repr

def resize (NT : CTy) (lay : DimLayout) (buf : List Nat) (hoff : Nat) (count : CVal) : Option (List Nat) :=
  writeAt buf (hoff + lay.numOff) (valueBytes lay.bigEndian (NT.bits / 8) (CVal.conv NT count).bits)

def clear (NT : CTy) (lay : DimLayout) (buf : List Nat) (hoff : Nat) : Option (List Nat) :=
  resize NT lay buf hoff ⟨.i32, 0⟩

/-! ### the remaining one-line members of `flat_group_base` / `nested_group_base`
    (hand definitions added for the method-level translator tie,
    `extract/methods_group.py` → `Sbepp.Extracted.GroupMethods`, `Lemmas/GroupTie.lean`) -/

/-- `(*this)(get_header_tag{})` of a nested group -/
def nestedHeaderCheck (g : Group) (chk : Bool) : Outcome Unit := do
  let _ ← runK nested_group_header_check chk [ptrBits g.addr, ptrBits g.end_, g.hdr]
  pure ()

/-- `g.sbe_size()` / `g.size()`: `(*this)(get_header_tag{}).numInGroup()` and its `.value()` -/
def flatSize (NT : CTy) (chk : Bool) (g : Group) : Outcome CVal := do
  headerCheck g chk
  pure (groupSize NT g)

def nestedSize (NT : CTy) (chk : Bool) (g : Group) : Outcome CVal := do
  nestedHeaderCheck g chk
  pure (groupSize NT g)

/-- `g.empty()` is `!size()` -/
def flatEmpty (NT : CTy) (chk : Bool) (g : Group) : Outcome Bool := do
  let s ← flatSize NT chk g
  pure (s.bits == 0)

def nestedEmpty (NT : CTy) (chk : Bool) (g : Group) : Outcome Bool := do
  let s ← nestedSize NT chk g
  pure (s.bits == 0)

/-- `*it` of a forward iterator: the entry view starts at `ptr` -/
def fwdDeref (it : FwdIter) : Int := it.ptr

/-- `g.resize(count)` as a member function of the view: the header is fetched
    through `(*this)(get_header_tag{})` (size check in checked builds), then its
    `numInGroup` setter runs -/
def flatResize (NT : CTy) (chk : Bool) (lay : DimLayout) (g : Group) (buf : List Nat) (hoff : Nat) (count : CVal) :
    Outcome (Option (List Nat)) := do
  headerCheck g chk
  pure (resize NT lay buf hoff count)

/-- `g.clear()` is `resize(0)` -/
def flatClear (NT : CTy) (chk : Bool) (lay : DimLayout) (g : Group) (buf : List Nat) (hoff : Nat) :
    Outcome (Option (List Nat)) :=
  flatResize NT chk lay g buf hoff ⟨.i32, 0⟩

def nestedResize (NT : CTy) (chk : Bool) (lay : DimLayout) (g : Group) (buf : List Nat) (hoff : Nat) (count : CVal) :
    Outcome (Option (List Nat)) := do
  nestedHeaderCheck g chk
  pure (resize NT lay buf hoff count)

def nestedClear (NT : CTy) (chk : Bool) (lay : DimLayout) (g : Group) (buf : List Nat) (hoff : Nat) :
    Outcome (Option (List Nat)) :=
  nestedResize NT chk lay g buf hoff ⟨.i32, 0⟩

end Rt
end Sbepp
