/-
  Executable model of `sbepp::detail::static_array_ref<Byte, Value, N, Tag>`
  (sbepp.hpp, class `static_array_ref` and the helper `string_length`).

  Transliteration, statement by statement, of `strlen`, `strlen_r`, `pad`,
  both `assign_string` overloads, `assign_range`, the three `assign` overloads
  and `fill`.  Memory is a byte list (`List Nat`; nothing here does arithmetic
  on a byte, the only test is `= 0`), a pointer is an index into that list, an
  iterator is a pointer.  A view is `(begin, N, end - begin)`.

  Every `SBEPP_ASSERT` and the `SBEPP_SIZE_CHECK` inside `data()` is an explicit
  `assertFailed` outcome that carries the buffer *at the moment the handler is
  called* (two operations copy before they check).  An access outside the
  modelled memory is `ub`.

  Not modelled: a null `begin` pointer of the view (the first conjunct of
  `SBEPP_SIZE_CHECK`); the correspondence harness never builds one.

  Core Lean only: this file is linked into the `sbepp_model` executable.
-/
namespace Sbepp.Rt.StaticArray

/-- `enum class eos_null { none, single, all }`; `invalid` stands for any
    other value of the underlying type (reaches the final `SBEPP_ASSERT` of
    `pad`). -/
inductive EosNull
  | none
  | single
  | all
  | invalid
  deriving DecidableEq, Repr

inductive Outcome
  /-- normal return: memory afterwards, returned iterator/size (`none` for `void`) -/
  | ok (buf : List Nat) (ret : Option Nat)
  /-- `sbepp::assertion_failed` was called; memory at that moment -/
  | assertFailed (buf : List Nat)
  /-- an access outside the modelled memory, or an ill-formed iterator range -/
  | ub
  deriving DecidableEq, Repr

/-- `byte_range{begin, end}` of a `static_array_ref<…, N, …>`:
    `off` = `begin`, `avail` = `end - begin`. -/
structure View where
  off : Nat
  N : Nat
  avail : Nat
  deriving Repr

/-- the `SBEPP_SIZE_CHECK(begin, end, 0, N)` of `data()` (called by `begin()`,
    `end()`, `rbegin()`, `rend()`): `0 + N <= end - begin` -/
def View.sizeCheck (v : View) : Bool := decide (0 + v.N ≤ v.avail)

/-- `end()` = `data() + size()` -/
def View.endPos (v : View) : Nat := v.off + v.N

/-! ### loops of the standard algorithms used by the class -/

/-- `for(; *str != '\0'; str++, length++)` of `string_length` (constant
    evaluation) and `std::strlen` (run time): number of bytes before the first
    NUL; `none` when the scan leaves the modelled memory. -/
def scanNul : List Nat → Option Nat
  | [] => none
  | b :: bs => if b = 0 then some 0 else (scanNul bs).map (· + 1)

/-- `for(; (length != size()) && (first[length] != '\\0'); length++)` of the
    constant-evaluation branch of `strlen()`: at most `n` elements from `pos` -/
def scanNulBounded (buf : List Nat) (pos : Nat) : Nat → Option Nat
  | 0 => some 0
  | n + 1 =>
    match buf[pos]? with
    | none => none
    | some b => if b = 0 then some 0 else (scanNulBounded buf (pos + 1) n).map (· + 1)

/-- `std::copy(first, last, out)` / `std::copy_n` / `std::ranges::copy`:
    element by element, left to right; returns memory and the output iterator -/
def copyLoop (buf : List Nat) (pos : Nat) : List Nat → Option (List Nat × Nat)
  | [] => some (buf, pos)
  | x :: xs => if pos < buf.length then copyLoop (buf.set pos x) (pos + 1) xs else none

/-- `std::fill_n(out, n, value)` -/
def fillLoop (buf : List Nat) (pos : Nat) (value : Nat) : Nat → Option (List Nat × Nat)
  | 0 => some (buf, pos)
  | n + 1 => if pos < buf.length then fillLoop (buf.set pos value) (pos + 1) value n else none

/-- `std::memchr(p, '\0', n)`: outer `none` = left the memory; inner `none` =
    null result -/
def memchrNul (buf : List Nat) (pos : Nat) : Nat → Option (Option Nat)
  | 0 => some none
  | n + 1 =>
    match buf[pos]? with
    | none => none
    | some b => if b = 0 then some (some pos) else memchrNul buf (pos + 1) n

/-- `std::find_if(rbegin(), rend(), value != '\0') - rbegin()` over the first
    `k` elements of the array that starts at `off`: number of reverse-iterator
    steps taken -/
def rfindNonNul (buf : List Nat) (off : Nat) : Nat → Option Nat
  | 0 => some 0
  | k + 1 =>
    match buf[off + k]? with
    | none => none
    | some b => if b ≠ 0 then some 0 else (rfindNonNul buf off k).map (· + 1)

/-! ### member functions -/

/-- `strlen()`, run-time branch:
    `memchr(data(), '\0', size())`; `first_null ? first_null - data() : size()` -/
def strlen (v : View) (buf : List Nat) : Outcome :=
  if !v.sizeCheck then .assertFailed buf else
  match memchrNul buf v.off v.N with
  | none => .ub
  | some (some p) => .ok buf (some (p - v.off))
  | some none => .ok buf (some v.N)

/-- `strlen()`, constant-evaluation branch: scan bounded by `size()` -/
def strlenCE (v : View) (buf : List Nat) : Outcome :=
  if !v.sizeCheck then .assertFailed buf else
  match scanNulBounded buf v.off v.N with
  | none => .ub
  | some n => .ok buf (some n)

/-- `strlen_r()`: `size() - (find_if(rbegin(), rend(), != 0) - rbegin())` -/
def strlenR (v : View) (buf : List Nat) : Outcome :=
  if !v.sizeCheck then .assertFailed buf else
  match rfindNonNul buf v.off v.N with
  | none => .ub
  | some j => .ok buf (some (v.N - j))

/-- private `pad(mode, eos_pos)` -/
def pad (v : View) (buf : List Nat) (mode : EosNull) (eos : Nat) : Outcome :=
  match mode with
  | .all =>
    -- std::fill(eos_pos, end(), '\0')
    if !v.sizeCheck then .assertFailed buf
    else if eos ≤ v.endPos then
      match fillLoop buf eos 0 (v.endPos - eos) with
      | none => .ub
      | some (b, _) => .ok b none
    else .ub
  | .single =>
    -- if(eos_pos != end()) *eos_pos = '\0'
    if !v.sizeCheck then .assertFailed buf
    else if eos ≠ v.endPos then
      (if eos < buf.length then .ok (buf.set eos 0) none else .ub)
    else .ok buf none
  | .none => .ok buf none
  | .invalid => .assertFailed buf  -- SBEPP_ASSERT(mode == eos_null::none)

/-- `assign_string(const char* str, eos_null)`; `str = none` is `nullptr`,
    `some mem` is the memory starting at `str` -/
def assignStringRaw (v : View) (buf : List Nat) (str : Option (List Nat)) (mode : EosNull) :
    Outcome :=
  match str with
  | none => .assertFailed buf                       -- SBEPP_ASSERT(str != nullptr)
  | some mem =>
    match scanNul mem with                           -- length = string_length(str)
    | none => .ub
    | some length =>
      if !decide (length ≤ v.N) then .assertFailed buf   -- SBEPP_ASSERT(length <= size())
      else if !v.sizeCheck then .assertFailed buf        -- begin()
      else
        match copyLoop buf v.off (mem.take length) with   -- copy_n(str, length, begin())
        | none => .ub
        | some (buf1, eosPos) =>
          match pad v buf1 mode eosPos with
          | .ok buf2 _ => .ok buf2 (some eosPos)          -- return eos_pos
          | o => o

/-- `assign_range(R&& r)`: copies first, asserts afterwards -/
def assignRange (v : View) (buf : List Nat) (r : List Nat) : Outcome :=
  if !v.sizeCheck then .assertFailed buf              -- begin()
  else
    match copyLoop buf v.off r with                    -- copy(begin(r), end(r), begin())
    | none => .ub
    | some (buf1, res) =>
      if !decide (res ≤ v.endPos) then .assertFailed buf1   -- SBEPP_ASSERT(res <= end())
      else .ok buf1 (some res)

/-- `assign_string(R&& r, eos_null)` -/
def assignStringRange (v : View) (buf : List Nat) (r : List Nat) (mode : EosNull) : Outcome :=
  match assignRange v buf r with
  | .ok buf1 (some eosPos) =>
    match pad v buf1 mode eosPos with
    | .ok buf2 _ => .ok buf2 (some eosPos)
    | o => o
  | o => o

/-- `fill(value)`: `std::fill_n(begin(), size(), value)`, returns `void` -/
def fill (v : View) (buf : List Nat) (value : Nat) : Outcome :=
  if !v.sizeCheck then .assertFailed buf
  else
    match fillLoop buf v.off value v.N with
    | none => .ub
    | some (b, _) => .ok b none

/-- `assign(size_type count, value_type value)` -/
def assignCount (v : View) (buf : List Nat) (count value : Nat) : Outcome :=
  if !decide (count ≤ v.N) then .assertFailed buf      -- SBEPP_ASSERT(count <= size())
  else if !v.sizeCheck then .assertFailed buf
  else
    match fillLoop buf v.off value count with          -- return fill_n(begin(), count, value)
    | none => .ub
    | some (b, it) => .ok b (some it)

/-- `assign(InputIt first, InputIt last)`: copies first, asserts afterwards -/
def assignIter (v : View) (buf : List Nat) (r : List Nat) : Outcome :=
  if !v.sizeCheck then .assertFailed buf
  else
    match copyLoop buf v.off r with                    -- last_out = copy(first, last, begin())
    | none => .ub
    | some (buf1, lastOut) =>
      -- SBEPP_ASSERT(static_cast<size_type>(last_out - begin()) <= size())
      if !decide (lastOut - v.off ≤ v.N) then .assertFailed buf1
      else .ok buf1 (some lastOut)

/-- `assign(std::initializer_list<value_type>)` -/
def assignIlist (v : View) (buf : List Nat) (ilist : List Nat) : Outcome :=
  if !decide (ilist.length ≤ v.N) then .assertFailed buf   -- SBEPP_ASSERT(ilist.size() <= size())
  else assignIter v buf ilist

/-! ### one entry point for the driver and for statements over all operations -/

inductive Op
  | assignStringRaw (str : Option (List Nat)) (mode : EosNull)
  | assignStringRange (r : List Nat) (mode : EosNull)
  | assignRange (r : List Nat)
  | assignCount (count value : Nat)
  | assignIter (r : List Nat)
  | assignIlist (ilist : List Nat)
  | fill (value : Nat)
  | strlen
  | strlenCE
  | strlenR
  deriving Repr

def run (v : View) (buf : List Nat) : Op → Outcome
  | .assignStringRaw s m => assignStringRaw v buf s m
  | .assignStringRange r m => assignStringRange v buf r m
  | .assignRange r => assignRange v buf r
  | .assignCount c x => assignCount v buf c x
  | .assignIter r => assignIter v buf r
  | .assignIlist l => assignIlist v buf l
  | .fill x => fill v buf x
  | .strlen => strlen v buf
  | .strlenCE => strlenCE v buf
  | .strlenR => strlenR v buf

end Sbepp.Rt.StaticArray
