/-
  Executable model of `sbepp::detail::static_array_ref<Byte, Value, N, Tag>`
  (sbepp.hpp, class `static_array_ref` and the helper `string_length`).

  Transliteration, statement by statement, of `strlen`, `strlen_r`, `pad`,
  both `assign_string` overloads, `assign_range`, the three `assign` overloads
  and `fill`.  Memory is a byte list (`List Nat`; nothing here does arithmetic
  on a byte, the only test is `= 0`), a pointer is an index into that list, an
  iterator is a pointer.  A view is `(begin, N, end - begin)`.

  Every `SBEPP_ASSERT` and the `SBEPP_SIZE_CHECK` inside `data()` is an explicit
  `assertFailed` outcome that carries the buffer *at the moment the handler is
  called* (two operations copy before they check).  An access outside the
  modelled memory is `ub`.

  Not modelled: a null `begin` pointer of the view (the first conjunct of
  `SBEPP_SIZE_CHECK`); the correspondence harness never builds one.

  Core Lean only: this file is linked into the `sbepp_model` executable.
-/
namespace Sbepp.Rt.StaticArray

/-- `enum class eos_null { none, single, all }`; `invalid` stands for any
    other value of the underlying type (reaches the final `SBEPP_ASSERT` of
    `pad`). -/
inductive EosNull
  | none
  | single
  | all
  | invalid
  deriving DecidableEq, Repr

inductive Outcome
  /-- normal return: memory afterwards, returned iterator/size (`none` for `void`) -/
  | ok (buf : List Nat) (ret : Option Nat)
  /-- `sbepp::assertion_failed` was called; memory at that moment -/
  | assertFailed (buf : List Nat)
  /-- an access outside the modelled memory, or an ill-formed iterator range -/
  | ub
  deriving DecidableEq, Repr

/-- `byte_range{begin, end}` of a `static_array_ref<…, N, …>`:
    `off` = `begin`, `avail` = `end - begin`. -/
structure View where
  off : Nat
  N : Nat
  avail : Nat
  deriving Repr

/-- the `SBEPP_SIZE_CHECK(begin, end, 0, N)` of `data()` (called by `begin()`,
    `end()`, `rbegin()`, `rend()`): `0 + N <= end - begin` -/
def View.sizeCheck (v : View) : Bool := decide (0 + v.N ≤ v.avail)

/-- `end()` = `data() + size()` -/
def View.endPos (v : View) : Nat := v.off + v.N

/-! ### loops of the standard algorithms used by the class -/

/-- `for(; *str != '\0'; str++, length++)` of `string_length` (constant
    evaluation) and `std::strlen` (run time): number of bytes before the first
    NUL; `none` when the scan leaves the modelled memory. -/
def scanNul : List Nat → Option Nat
  | [] => none
  | b :: bs => if b = 0 then some 0 else (scanNul bs).map (· + 1)

/-- `for(; (length != size()) && (first[length] != '\\0'); length++)` of the
    constant-evaluation branch of `strlen()`: at most `n` elements from `pos` -/
def scanNulBounded (buf : List Nat) (pos : Nat) : Nat → Option Nat
  | 0 => some 0
  | n + 1 =>
    match buf[pos]? with
    | none => none
    | some b => if b = 0 then some 0 else (scanNulBounded buf (pos + 1) n).map (· + 1)

/-- `std::copy(first, last, out)` / `std::copy_n` / `std::ranges::copy`:
    element by element, left to right; returns memory and the output iterator -/
def copyLoop (buf : List Nat) (pos : Nat) : List Nat → Option (List Nat × Nat)
  | [] => some (buf, pos)
  | x :: xs => if pos < buf.length then copyLoop (buf.set pos x) (pos + 1) xs else none

/-- `std::fill_n(out, n, value)` -/
def fillLoop (buf : List Nat) (pos : Nat) (value : Nat) : Nat → Option (List Nat × Nat)
  | 0 => some (buf, pos)
  | n + 1 => if pos < buf.length then fillLoop (buf.set pos value) (pos + 1) value n else none

/-- `std::memchr(p, '\0', n)`: outer `none` = left the memory; inner `none` =
    null result -/
def memchrNul (buf : List Nat) (pos : Nat) : Nat → Option (Option Nat)
  | 0 => some none
  | n + 1 =>
    match buf[pos]? with
    | none => none
    | some b => if b = 0 then some (some pos) else memchrNul buf (pos + 1) n

/-- `std::find_if(rbegin(), rend(), value != '\0') - rbegin()` over the first
    `k` elements of the array that starts at `off`: number of reverse-iterator
    steps taken -/
def rfindNonNul (buf : List Nat) (off : Nat) : Nat → Option Nat
  | 0 => some 0
  | k + 1 =>
    match buf[off + k]? with
    | none => none
    | some b => if b ≠ 0 then some 0 else (rfindNonNul buf off k).map (· + 1)

/-! ### member functions -/

/-- `strlen()`, run-time branch:
    `memchr(data(), '\0', size())`; `first_null ? first_null - data() : size()` -/
def strlen (v : View) (buf : List Nat) : Outcome :=
  if !v.sizeCheck then .assertFailed buf else
  match memchrNul buf v.off v.N with
  | none => .ub
  | some (some p) => .ok buf (some (p - v.off))
  | some none => .ok buf (some v.N)

/-- `strlen()`, constant-evaluation branch: scan bounded by `size()` -/
def strlenCE (v : View) (buf : List Nat) : Outcome :=
  if !v.sizeCheck then .assertFailed buf else
  match scanNulBounded buf v.off v.N with
  | none => .ub
  | some n => .ok buf (some n)

/-- `strlen_r()`: `size() - (find_if(rbegin(), rend(), != 0) - rbegin())` -/
def strlenR (v : View) (buf : List Nat) : Outcome :=
  if !v.sizeCheck then .assertFailed buf else
  match rfindNonNul buf v.off v.N with
  | none => .ub
  | some j => .ok buf (some (v.N - j))

/-- private `pad(mode, eos_pos)` -/
def pad (v : View) (buf : List Nat) (mode : EosNull) (eos : Nat) : Outcome :=
  match mode with
  | .all =>
    -- std::fill(eos_pos, end(), '\0')
    if !v.sizeCheck then .assertFailed buf
    else if eos ≤ v.endPos then
      match fillLoop buf eos 0 (v.endPos - eos) with
      | none => .ub
      | some (b, _) => .ok b none
    else .ub
  | .single =>
    -- if(eos_pos != end()) *eos_pos = '\0'
    if !v.sizeCheck then .assertFailed buf
    else if eos ≠ v.endPos then
      (if eos < buf.length then .ok (buf.set eos 0) none else .ub)
    else .ok buf none
  | .none => .ok buf none
  | .invalid => .assertFailed buf  -- SBEPP_ASSERT(mode == eos_null::none)

/-- `assign_string(const char* str, eos_null)`; `str = none` is `nullptr`,
    `some mem` is the memory starting at `str` -/
def assignStringRaw (v : View) (buf : List Nat) (str : Option (List Nat)) (mode : EosNull) :
    Outcome :=
  match str with
  | none => .assertFailed buf                       -- SBEPP_ASSERT(str != nullptr)
  | some mem =>
    match scanNul mem with                           -- length = string_length(str)
    | none => .ub
    | some length =>
      if !decide (length ≤ v.N) then .assertFailed buf   -- SBEPP_ASSERT(length <= size())
      else if !v.sizeCheck then .assertFailed buf        -- begin()
      else
        match copyLoop buf v.off (mem.take length) with   -- copy_n(str, length, begin())
        | none => .ub
        | some (buf1, eosPos) =>
          match pad v buf1 mode eosPos with
          | .ok buf2 _ => .ok buf2 (some eosPos)          -- return eos_pos
          | o => o

/-- `assign_range(R&& r)`: copies first, asserts afterwards -/
def assignRange (v : View) (buf : List Nat) (r : List Nat) : Outcome :=
  if !v.sizeCheck then .assertFailed buf              -- begin()
  else
    match copyLoop buf v.off r with                    -- copy(begin(r), end(r), begin())
    | none => .ub
    | some (buf1, res) =>
      if !decide (res ≤ v.endPos) then .assertFailed buf1   -- SBEPP_ASSERT(res <= end())
      else .ok buf1 (some res)

/-- `assign_string(R&& r, eos_null)` -/
def assignStringRange (v : View) (buf : List Nat) (r : List Nat) (mode : EosNull) : Outcome :=
  match assignRange v buf r with
  | .ok buf1 (some eosPos) =>
    match pad v buf1 mode eosPos with
    | .ok buf2 _ => .ok buf2 (some eosPos)
    | o => o
  | o => o

/-- `fill(value)`: `std::fill_n(begin(), size(), value)`, returns `void` -/
def fill (v : View) (buf : List Nat) (value : Nat) : Outcome :=
  if !v.sizeCheck then .assertFailed buf
  else
    match fillLoop buf v.off value v.N with
    | none => .ub
    | some (b, _) => .ok b none

/-- `assign(size_type count, value_type value)` -/
def assignCount (v : View) (buf : List Nat) (count value : Nat) : Outcome :=
  if !decide (count ≤ v.N) then .assertFailed buf      -- SBEPP_ASSERT(count <= size())
  else if !v.sizeCheck then .assertFailed buf
  else
    match fillLoop buf v.off value count with          -- return fill_n(begin(), count, value)
    | none => .ub
    | some (b, it) => .ok b (some it)

/-- `assign(InputIt first, InputIt last)`: copies first, asserts afterwards -/
def assignIter (v : View) (buf : List Nat) (r : List Nat) : Outcome :=
  if !v.sizeCheck then .assertFailed buf
  else
    match copyLoop buf v.off r with                    -- last_out = copy(first, last, begin())
    | none => .ub
    | some (buf1, lastOut) =>
      -- SBEPP_ASSERT(static_cast<size_type>(last_out - begin()) <= size())
      if !decide (lastOut - v.off ≤ v.N) then .assertFailed buf1
      else .ok buf1 (some lastOut)

/-- `assign(std::initializer_list<value_type>)` -/
def assignIlist (v : View) (buf : List Nat) (ilist : List Nat) : Outcome :=
  if !decide (ilist.length ≤ v.N) then .assertFailed buf   -- SBEPP_ASSERT(ilist.size() <= size())
  else assignIter v buf ilist

/-! ### vocabulary of the regenerated definitions

  `extract/methods_staticarray.py` translates the text of every member function
  of `static_array_ref` (and of `detail::string_length`) into a `do` block over
  the primitives below (`lean/Sbepp/Extracted/StaticArray.lean`, regenerated on
  every check); `Lemmas/StaticArrayTie.lean` proves each regenerated definition
  equal to the hand transliteration above.

  Typing: a pointer/iterator into the modelled memory is its index (`Nat`);
  `std::size_t` values are `Nat`, every conversion *to* `std::size_t` that the
  C++ performs is an explicit `toSizeT` (reduction modulo 2^64); a pointer or
  reverse-iterator difference is an `Int`.  The standard algorithms are not
  translated: they are the primitives `std*` below, defined by their
  specification (the loops at the top of this file). -/

inductive Res (α : Type)
  | ok (a : α) (buf : List Nat)
  /-- `sbepp::assertion_failed` was called; memory at that moment -/
  | assertFailed (buf : List Nat)
  | ub

/-- one member-function call: state = the modelled memory -/
abbrev M (α : Type) := List Nat → Res α

def Res.andThen {α β} : Res α → (α → List Nat → Res β) → Res β
  | .ok a s, f => f a s
  | .assertFailed s, _ => .assertFailed s
  | .ub, _ => .ub

@[inline] def M.pure {α} (a : α) : M α := fun s => .ok a s
@[inline] def M.bind {α β} (m : M α) (f : α → M β) : M β := fun s => (m s).andThen f

instance : Monad M where
  pure := M.pure
  bind := M.bind

/-- outcome of a member function that returns an iterator or a size -/
def retVal (m : M Nat) (buf : List Nat) : Outcome :=
  match m buf with
  | .ok a b => .ok b (some a)
  | .assertFailed b => .assertFailed b
  | .ub => .ub

/-- outcome of a `void` member function -/
def retVoid (m : M Unit) (buf : List Nat) : Outcome :=
  match m buf with
  | .ok _ b => .ok b none
  | .assertFailed b => .assertFailed b
  | .ub => .ub

def ubM {α} : M α := fun _ => .ub

/-- `SBEPP_ASSERT(c)` -/
def assert (c : Bool) : M Unit := fun s => if c then .ok () s else .assertFailed s

/-- conversion of a mathematical value to `std::size_t` -/
def toSizeT (i : Int) : Nat := (i % 18446744073709551616).toNat

/-- `p - q` for two pointers into the modelled memory -/
def ptrDiff (p q : Nat) : Int := (p : Int) - (q : Int)

/-- `p + n`, `p[n]` address computation -/
def ptrAdd (p n : Nat) : Nat := p + n

/-- contextual conversion of a pointer into the modelled memory to `bool`
    (the null view is not modelled) -/
def ptrToBool (_ : Nat) : Bool := true

/-- `(*this)(addressof_tag{})` of the base class `byte_range` -/
def View.beginPtr (v : View) : Nat := v.off
/-- `(*this)(end_ptr_tag{})` of the base class `byte_range` -/
def View.endPtr (v : View) : Nat := v.off + v.avail

/-- `*p` as an rvalue -/
def deref (p : Nat) : M Nat := fun s =>
  match s[p]? with
  | some b => .ok b s
  | none => .ub

/-- `*p = x` -/
def store (p x : Nat) : M Unit := fun s =>
  if p < s.length then .ok () (s.set p x) else .ub

/-- a pointer/iterator into memory outside the modelled buffer (the argument
    string, an input range): the object it points into and the position -/
structure ExtPtr where
  mem : List Nat
  idx : Nat
  deriving DecidableEq, Repr

/-- `const char*`: `none` = `nullptr` -/
abbrev CStr := Option ExtPtr

def CStr.ofMem (str : Option (List Nat)) : CStr := str.map (fun m => ⟨m, 0⟩)

/-- `*str` -/
def derefExt : CStr → M Nat
  | none => ubM
  | some p => fun s =>
    match p.mem[p.idx]? with
    | some b => .ok b s
    | none => .ub

/-- `str++` (value of the incremented pointer) -/
def extNext : CStr → M CStr
  | none => ubM
  | some p => fun s => if p.idx < p.mem.length then .ok (some ⟨p.mem, p.idx + 1⟩) s else .ub

/-- `std::begin(r)` / `std::end(r)` of a range or an initializer list -/
def stdBegin (r : List Nat) : ExtPtr := ⟨r, 0⟩
def stdEnd (r : List Nat) : ExtPtr := ⟨r, r.length⟩

/-- `std::strlen(str)` -/
def stdStrlen : CStr → M Nat
  | none => ubM
  | some p => fun s =>
    match scanNul (p.mem.drop p.idx) with
    | some n => .ok n s
    | none => .ub

/-- `std::copy_n(src, n, out)` from outside memory -/
def stdCopyN (src : CStr) (n out : Nat) : M Nat :=
  match src with
  | none => ubM
  | some p => fun s =>
    if p.idx + n ≤ p.mem.length then
      match copyLoop s out ((p.mem.drop p.idx).take n) with
      | some (s', it) => .ok it s'
      | none => .ub
    else .ub

/-- `std::copy(first, last, out)` from outside memory -/
def stdCopy (first last : ExtPtr) (out : Nat) : M Nat := fun s =>
  if first.mem = last.mem ∧ first.idx ≤ last.idx ∧ last.idx ≤ last.mem.length then
    match copyLoop s out ((first.mem.drop first.idx).take (last.idx - first.idx)) with
    | some (s', it) => .ok it s'
    | none => .ub
  else .ub

/-- `std::ranges::copy_result`: only `.out` is modelled -/
structure CopyResult where
  out : Nat

/-- `std::ranges::copy(r, out)` -/
def rangesCopy (r : List Nat) (out : Nat) : M CopyResult := fun s =>
  match copyLoop s out r with
  | some (s', it) => .ok ⟨it⟩ s'
  | none => .ub

/-- `std::fill_n(out, n, value)` -/
def stdFillN (out n value : Nat) : M Nat := fun s =>
  match fillLoop s out value n with
  | some (s', it) => .ok it s'
  | none => .ub

/-- `std::fill(first, last, value)` -/
def stdFill (first last value : Nat) : M Unit := fun s =>
  if first ≤ last then
    match fillLoop s first value (last - first) with
    | some (s', _) => .ok () s'
    | none => .ub
  else .ub

/-- `std::memchr(p, c, n)` loop: outer `none` = left the memory -/
def memchrLoop (buf : List Nat) (c : Nat) (pos : Nat) : Nat → Option (Option Nat)
  | 0 => some none
  | n + 1 =>
    match buf[pos]? with
    | none => none
    | some b => if b = c then some (some pos) else memchrLoop buf c (pos + 1) n

/-- `std::memchr(p, c, n)`; the result is a nullable pointer -/
def stdMemchr (p c n : Nat) : M (Option Nat) := fun s =>
  match memchrLoop s (c % 256) p n with
  | some r => .ok r s
  | none => .ub

/-- `p - q` where `p` may be null -/
def nptrDiff (p : Option Nat) (q : Nat) : M Int :=
  match p with
  | some a => pure (ptrDiff a q)
  | none => ubM

/-- `std::reverse_iterator<iterator>` -/
structure RevIt where
  base : Nat
  deriving DecidableEq, Repr

/-- `a - b` for reverse iterators -/
def RevIt.diff (a b : RevIt) : Int := (b.base : Int) - (a.base : Int)

/-- reverse `find_if` over the `k` elements that end at `lo + k` -/
def rfindIf (buf : List Nat) (lo : Nat) (pred : Nat → Bool) : Nat → Option Nat
  | 0 => some 0
  | k + 1 =>
    match buf[lo + k]? with
    | none => none
    | some b => if pred b then some 0 else (rfindIf buf lo pred k).map (· + 1)

/-- `std::find_if(first, last, pred)` over reverse iterators -/
def stdFindIfRev (first last : RevIt) (pred : Nat → Bool) : M RevIt := fun s =>
  if last.base ≤ first.base then
    match rfindIf s last.base pred (first.base - last.base) with
    | some j => .ok ⟨first.base - j⟩ s
    | none => .ub
  else .ub

/-- short-circuit `a && b` / `a || b` with operands that read memory or assert -/
def landM (a b : M Bool) : M Bool := do if (← a) then b else pure false
def lorM (a b : M Bool) : M Bool := do if (← a) then pure true else b

/-- `for(; cond; step) {}` over the loop-carried variables `σ`; `fuel`
    iterations without the condition becoming false: non-termination, `ub` -/
def forLoop {σ : Type} (cond : σ → M Bool) (step : σ → M σ) : Nat → σ → M σ
  | 0, _ => ubM
  | fuel + 1, st => do
    if (← cond st) then forLoop cond step fuel (← step st) else pure st

/-- bound on the iterations of a loop that reads a fresh element of the
    modelled memory, or of the outside objects `ext`, in every iteration -/
def memBound (ext : List (List Nat)) : M Nat := fun s =>
  .ok (s.length + (ext.map List.length).sum + 1) s

def CStr.objs : CStr → List (List Nat)
  | none => []
  | some p => [p.mem]

/-- all sizes fit `std::size_t` (true of every instantiation: `N` is a
    `std::size_t` template argument, `end - begin` a pointer difference) -/
def View.Fits (v : View) : Prop := v.N < 18446744073709551616 ∧ v.avail < 18446744073709551616

/-! ### the helper member functions in the same vocabulary (hand-written) -/

namespace Hand

/-- `size()` -/
def sizeM (v : View) : M Nat := pure v.N

/-- `data()`: the size check, then `begin` -/
def dataM (v : View) : M Nat := fun s =>
  if !v.sizeCheck then .assertFailed s else .ok v.off s

/-- `begin()` -/
def beginM (v : View) : M Nat := dataM v

/-- `end()` -/
def endM (v : View) : M Nat := fun s =>
  if !v.sizeCheck then .assertFailed s else .ok v.endPos s

/-- `rbegin()` -/
def rbeginM (v : View) : M RevIt := fun s =>
  if !v.sizeCheck then .assertFailed s else .ok ⟨v.endPos⟩ s

/-- `rend()` -/
def rendM (v : View) : M RevIt := fun s =>
  if !v.sizeCheck then .assertFailed s else .ok ⟨v.off⟩ s

/-- `detail::string_length(str)`, both branches -/
def stringLengthM (str : CStr) : M Nat :=
  match str with
  | none => ubM
  | some p => fun s =>
    match scanNul (p.mem.drop p.idx) with
    | some n => .ok n s
    | none => .ub

end Hand

/-! ### one entry point for the driver and for statements over all operations -/

inductive Op
  | assignStringRaw (str : Option (List Nat)) (mode : EosNull)
  | assignStringRange (r : List Nat) (mode : EosNull)
  | assignRange (r : List Nat)
  | assignCount (count value : Nat)
  | assignIter (r : List Nat)
  | assignIlist (ilist : List Nat)
  | fill (value : Nat)
  | strlen
  | strlenCE
  | strlenR
  deriving Repr

def run (v : View) (buf : List Nat) : Op → Outcome
  | .assignStringRaw s m => assignStringRaw v buf s m
  | .assignStringRange r m => assignStringRange v buf r m
  | .assignRange r => assignRange v buf r
  | .assignCount c x => assignCount v buf c x
  | .assignIter r => assignIter v buf r
  | .assignIlist l => assignIlist v buf l
  | .fill x => fill v buf x
  | .strlen => strlen v buf
  | .strlenCE => strlenCE v buf
  | .strlenR => strlenR v buf

end Sbepp.Rt.StaticArray
