/-
  C10 model: what every accessor kind of a CHECKED build (size checks enabled)
  checks and which bytes it touches, in program order.

  An accessor call is transliterated into a list of events
    * `check b off size ok`  an `SBEPP_SIZE_CHECK(begin, end, off, size)` on a view that begins
                             at offset `b` of the buffer; `ok` is the value of the condition,
                             obtained by EVALUATING THE EXTRACTED EXPRESSION
                             (`Extracted.SizeChecks`, regenerated from /repo on every run) with
                             the C++ semantics of `CExpr` (pointer difference, conversion to
                             `std::size_t`, `offset + size` in the type C++ computes it in);
    * `assert ok`            an `SBEPP_ASSERT` (precondition), likewise evaluated;
    * `touch lo len w`       the body reads (`w = false`) or writes bytes `[lo, lo+len)`.
  All offsets are relative to the pointer `p` given to `make_view(p, n)`; pointers handed to the
  evaluator are the addresses `base + offset` (`base ≠ 0`), the end pointer of EVERY derived view
  is `base + n` (`end_propagates`, Properties/C10).

  `guard` = conjunction of the checks, `touches` = the touched ranges, `run n` = what a process
  whose buffer ends exactly at a protected page observes: the first failed check (`assertFailed`),
  or the first touch of a byte at or beyond `n` that happens before it (`fault`).

  Header values (blockLength, numInGroup, data length) are read from the buffer by the model at
  the places where the C++ reads them; they steer the positions of derived views.
-/
import Sbepp.Extracted.SizeChecks
import Sbepp.Rt.Walk

namespace Sbepp.Rt.Guards
open Sbepp Sbepp.Extracted.SizeChecks

/-! ### events -/

inductive Ev
  | check (b off size : Nat) (ok : Option Bool)
  | assert (ok : Option Bool)
  | touch (lo len : Nat) (w : Bool)
  deriving Repr, Inhabited, DecidableEq

inductive Res
  | ok
  | assertFailed (idx : Nat)
  | fault (idx : Nat)
  | ub (idx : Nat)
  deriving Repr, DecidableEq, Inhabited

/-- bytes `[lo, lo+len)` lie inside `[0, n)`; an empty range touches nothing -/
def inside (n lo len : Nat) : Bool := len == 0 || decide (lo + len ≤ n)

def Ev.passes : Ev → Bool
  | .check _ _ _ ok => ok == some true
  | .assert ok => ok == some true
  | .touch _ _ _ => true

/-- conjunction of all checks of the call -/
def guard (evs : List Ev) : Bool := evs.all Ev.passes

/-- byte ranges the body accesses -/
def touches : List Ev → List (Nat × Nat)
  | [] => []
  | .touch lo len _ :: r => (lo, len) :: touches r
  | _ :: r => touches r

def allInside (n : Nat) (ts : List (Nat × Nat)) : Bool := ts.all (fun t => inside n t.1 t.2)

/-- observable outcome on a buffer of exactly `n` accessible bytes -/
def run (n : Nat) : List Ev → Nat → Res
  | [], _ => .ok
  | .check _ _ _ (some true) :: r, i => run n r (i + 1)
  | .check _ _ _ (some false) :: _, i => .assertFailed i
  | .check _ _ _ none :: _, i => .ub i
  | .assert (some true) :: r, i => run n r (i + 1)
  | .assert (some false) :: _, i => .assertFailed i
  | .assert none :: _, i => .ub i
  | .touch lo len _ :: r, i => if inside n lo len then run n r (i + 1) else .fault i

/-- outcome when the view `[0, n)` lies inside a larger allocation `[0, n + slack)`: an out-of-view
    access inside the slack completes; `dirty` = some WRITE touched a byte in `[n, n + slack)` -/
def runCanary (n slack : Nat) : List Ev → Nat → Bool → Res × Bool
  | [], _, dirty => (.ok, dirty)
  | .check _ _ _ (some true) :: r, i, dirty => runCanary n slack r (i + 1) dirty
  | .check _ _ _ (some false) :: _, i, dirty => (.assertFailed i, dirty)
  | .check _ _ _ none :: _, i, dirty => (.ub i, dirty)
  | .assert (some true) :: r, i, dirty => runCanary n slack r (i + 1) dirty
  | .assert (some false) :: _, i, dirty => (.assertFailed i, dirty)
  | .assert none :: _, i, dirty => (.ub i, dirty)
  | .touch lo len w :: r, i, dirty =>
    if inside (n + slack) lo len then runCanary n slack r (i + 1) (dirty || (w && !inside n lo len))
    else (.fault i, dirty)

/-! ### evaluation of the extracted checks -/

def macroEnv (vb ve vo vs : CVal) : Env := [("begin", vb), ("end", ve), ("offset", vo), ("size", vs)]

/-- size check `k` of `site` in the environment `env` of that function: the four argument
    expressions are evaluated in `env`, then the extracted macro body on their values -/
def evalSizeCheck (site : Site) (k : Nat) (env : Env) : Option Bool :=
  match site.sizeCheck? k with
  | none => none
  | some (b, e, o, s, _) =>
    match b.eval env, e.eval env, o.eval env, s.eval env with
    | some vb, some ve, some vo, some vs => (sizeCheckMacro.eval (macroEnv vb ve vo vs)).map CVal.isTrue
    | _, _, _, _ => none

/-- the textual macro expansion evaluated directly (the driver cross-checks both) -/
def evalExpanded (site : Site) (k : Nat) (env : Env) : Option Bool :=
  match site.sizeCheck? k with
  | none => none
  | some (_, _, _, _, x) => (x.eval env).map CVal.isTrue

def evalAssert (site : Site) (k : Nat) (env : Env) : Option Bool :=
  match site.assert? k with
  | none => none
  | some x => (x.eval env).map CVal.isTrue

/-! ### machine context -/

structure Ctx where
  /-- address of byte 0 of the buffer (the pointer given to `make_view`) -/
  base : Nat
  /-- size given to `make_view`: every view's end pointer is `base + n` -/
  n : Nat
  bo : ByteOrder
  /-- memory contents from `base` on -/
  buf : List Nat
  deriving Repr, Inhabited

def Ctx.p (c : Ctx) (off : Nat) : CVal := ⟨.ptr, c.base + off⟩
def Ctx.endp (c : Ctx) : CVal := ⟨.ptr, c.base + c.n⟩
/-- value of a `w`-byte header member at `off` (header members are primitive: at most 8 bytes) -/
def Ctx.rd (c : Ctx) (off w : Nat) : Nat := Sbepp.rd c.bo c.buf off (min w 8)

def u64 (x : Nat) : CVal := ⟨.u64, x⟩

/-- unsigned C++ type of a `w`-byte header member -/
def uTy : Nat → CTy
  | 1 => .u8
  | 2 => .u16
  | 4 => .u32
  | _ => .u64

def uval (w x : Nat) : CVal := ⟨uTy w, x⟩

def Ctx.be (c : Ctx) (b : Nat) : Env := [("begin", c.p b), ("end", c.endp)]

/-! ### primitive accessor kinds -/

/-- `detail::get_value<T, U, E>(view, off)`, `sizeof(U) = sz`, view begins at `b` -/
def getValue (c : Ctx) (b off sz : Nat) : List Ev :=
  [.check b off sz (evalSizeCheck detail_get_value__view_offset 0
      (c.be b ++ [("offset", u64 off), ("sizeof_U", u64 sz)])),
   .touch (b + off) sz false]

/-- `detail::set_value<E>(view, off, value)`, `sizeof(T) = sz` -/
def setValue (c : Ctx) (b off sz : Nat) : List Ev :=
  [.check b off sz (evalSizeCheck detail_set_value__view_offset_value 0
      (c.be b ++ [("offset", u64 off), ("sizeof_T", u64 sz)])),
   .touch (b + off) sz true]

/-- `detail::get_static_field_view<Res>(view, off)`: the derived view begins at `b + off` -/
def staticView (c : Ctx) (b off : Nat) : List Ev :=
  [.check b off 0 (evalSizeCheck detail_get_static_field_view__view_offset 0
      (c.be b ++ [("offset", u64 off)]))]

/-- `operator()(get_header_tag)` of message_base / flat_group_base / nested_group_base -/
def headerCheck (c : Ctx) (site : Site) (b hdr : Nat) : List Ev :=
  [.check b 0 hdr (evalSizeCheck site 0 (c.be b ++ [("size_bytes_header", u64 hdr)]))]

def Level.isFlat (l : Level) : Bool := l.groups.isEmpty && l.datas.isEmpty

def groupSite (g : Group) : Site :=
  if Level.isFlat g.level then flat_group_base_call__get_header_tag else nested_group_base_call__get_header_tag

def grpHeader (c : Ctx) (g : Group) (p : Nat) : List Ev := headerCheck c (groupSite g) p g.dim.size

/-- `(*this)(get_header_tag{}).numInGroup().value()` -/
def grpNum (c : Ctx) (g : Group) (p : Nat) : List Ev × Nat :=
  (grpHeader c g p ++ getValue c p g.dim.numOff g.dim.numSize, c.rd (p + g.dim.numOff) g.dim.numSize)

/-- `(*this)(get_header_tag{}).blockLength().value()` -/
def grpBl (c : Ctx) (g : Group) (p : Nat) : List Ev × Nat :=
  (grpHeader c g p ++ getValue c p g.dim.blOff g.dim.blSize, c.rd (p + g.dim.blOff) g.dim.blSize)

/-- `random_access_iterator::operator++`: `SBEPP_SIZE_CHECK(ptr, end, 0, block_length)` with
    `block_length` of the header member's type -/
def raInc (c : Ctx) (ptr bl blSize : Nat) : List Ev :=
  [.check ptr 0 bl (evalSizeCheck random_access_iterator_inc 0
      [("ptr", c.p ptr), ("end", c.endp), ("block_length", uval blSize bl)])]

/-- the check of `forward_iterator::operator++`, `sz = sbepp::size_bytes(operator*())` -/
def fwdIncCheck (c : Ctx) (ptr sz : Nat) : List Ev :=
  [.check ptr 0 sz (evalSizeCheck forward_iterator_inc 0
      [("ptr", c.p ptr), ("end", c.endp), ("size_bytes_entry", u64 sz)])]

/-- the cursor constructor sbeppc generates for entries without cursor accessors -/
def emptyEntryCtor (c : Ctx) (cur bl blSize : Nat) : List Ev :=
  [.check cur 0 bl (evalSizeCheck generated_entry_cursor_ctor 0
      (c.be cur ++ [("block_length", uval blSize bl)]))]

/-- `dynamic_array_ref::size()` = `get_value<size_type, size_type, E>(*this, 0)` -/
def dataLen (c : Ctx) (d : DataL) (p : Nat) : List Ev × Nat :=
  (getValue c p 0 d.lenSize, c.rd p d.lenSize)

/-- `dynamic_array_ref::operator()(size_bytes_tag)` -/
def dataSizeBytes (c : Ctx) (d : DataL) (p : Nat) : List Ev × Nat :=
  ((dataLen c d p).1, d.lenSize + (dataLen c d p).2)

def dynEnv (c : Ctx) (d : DataL) (p : Nat) : Env :=
  c.be p ++ [("sizeof_size_type", u64 d.lenSize)]

/-- `data_unchecked()` -/
def dataUnchecked (c : Ctx) (d : DataL) (p : Nat) : List Ev :=
  [.check p 0 d.lenSize (evalSizeCheck dynamic_array_ref_data_unchecked 0 (dynEnv c d p))]

/-- `data_checked()` = `data()` = `begin()`: `size()` is read while evaluating the argument
    `sizeof(size_type) + size()` -/
def dataChecked (c : Ctx) (d : DataL) (p : Nat) : List Ev :=
  let (e1, len) := dataLen c d p
  e1 ++ [.check p 0 (d.lenSize + len) (evalSizeCheck dynamic_array_ref_data_checked 0
            (dynEnv c d p ++ [("size", uval d.lenSize len)]))]
     ++ dataUnchecked c d p

/-- `operator[](pos)` followed by a read or write of the element -/
def dataElem (c : Ctx) (d : DataL) (p i : Nat) (w : Bool) : List Ev :=
  let (e1, len) := dataLen c d p
  e1 ++ [.assert (evalAssert dynamic_array_ref_index__pos 0 [("pos", uval d.lenSize i), ("size", uval d.lenSize len)])]
     ++ dataChecked c d p ++ [.touch (p + d.lenSize + i) 1 w]

/-- is the size check of `resize(count, default_init)` executed?  Follows the extracted site: an
    unconditional check is always executed; a check nested in `if(C)` is executed when `C` (over
    `count` and `size()`) holds; any other shape is not modelled (`none`). -/
def resizeChecked (d : DataL) (count len : Nat) : Option Bool :=
  match dynamic_array_ref_resize__count_default_init_t.checkCond? 0 with
  | some none => some true
  | some (some (.expr e)) =>
    (e.eval [("count", uval d.lenSize count), ("size", uval d.lenSize len)]).map CVal.isTrue
  | _ => none

/-- `resize(count, default_init)`: the size check in the shape the extracted site has, then the
    write of the length prefix.  A conditional check reads `size()` to evaluate its condition. -/
def dataResize (c : Ctx) (d : DataL) (p count : Nat) : List Ev :=
  let chk : Ev := .check p 0 (d.lenSize + count) (evalSizeCheck dynamic_array_ref_resize__count_default_init_t 0
      (dynEnv c d p ++ [("count", uval d.lenSize count)]))
  match dynamic_array_ref_resize__count_default_init_t.checkCond? 0 with
  | some none => [chk, .touch p d.lenSize true]
  | _ =>
    (dataLen c d p).1 ++
      (match resizeChecked d count (dataLen c d p).2 with
       | some true => [chk]
       | some false => []
       | none => [.assert none]) ++ [.touch p d.lenSize true]

/-- `data_checked()` when `size()` is known to return `len` (after a `resize`) -/
def dataCheckedWith (c : Ctx) (d : DataL) (p len : Nat) : List Ev :=
  getValue c p 0 d.lenSize ++ [.check p 0 (d.lenSize + len) (evalSizeCheck dynamic_array_ref_data_checked 0
            (dynEnv c d p ++ [("size", uval d.lenSize len)]))]
     ++ dataUnchecked c d p

/-- `assign(count, value)` and `assign_string(str)` with `count` characters: `resize`, then the
    elements are written through `begin()` -/
def dataAssignN (c : Ctx) (d : DataL) (p count : Nat) : List Ev :=
  dataResize c d p count ++ dataCheckedWith c d p count ++ [.touch (p + d.lenSize) count true]

/-- `assign_range(r)` / `assign(first, last)` with `len` elements: the copy happens BEFORE the
    only check that covers it (`resize`) -/
def dataAssignRange (c : Ctx) (d : DataL) (p len : Nat) : List Ev :=
  dataUnchecked c d p ++ [.touch (p + d.lenSize) len true] ++ dataResize c d p len

/-- `assign(std::initializer_list)`: its own size check first, then `assign(first, last)` -/
def dataAssignIlist (c : Ctx) (d : DataL) (p len : Nat) : List Ev :=
  [.check p 0 (d.lenSize + len) (evalSizeCheck dynamic_array_ref_assign__ilist 0
      (dynEnv c d p ++ [("ilist_size", u64 len)]))] ++ dataAssignRange c d p len

/-- `push_back(value)`: `size()`, `resize(size() + 1)`, `(*this)[old size] = value` -/
def dataPush (c : Ctx) (d : DataL) (p : Nat) : List Ev :=
  let cur := (dataLen c d p).2
  (dataLen c d p).1 ++ dataResize c d p (cur + 1) ++ getValue c p 0 d.lenSize ++
    [.assert (evalAssert dynamic_array_ref_index__pos 0 [("pos", uval d.lenSize cur), ("size", uval d.lenSize (cur + 1))])]
    ++ dataCheckedWith c d p (cur + 1) ++ [.touch (p + d.lenSize + cur) 1 true]

/-- `pop_back()`: `SBEPP_ASSERT(!empty())`, `resize(size() - 1)` -/
def dataPop (c : Ctx) (d : DataL) (p : Nat) : List Ev :=
  let cur := (dataLen c d p).2
  (dataLen c d p).1 ++
    [.assert (evalAssert dynamic_array_ref_pop_back 0 [("empty", CVal.ofBool (cur == 0))])] ++
    (dataLen c d p).1 ++ dataResize c d p (cur - 1)

/-- `static_array_ref<.., N>::data()` -/
def arrData (c : Ctx) (p N : Nat) : List Ev :=
  [.check p 0 N (evalSizeCheck static_array_ref_data 0 (c.be p ++ [("N", u64 N)]))]

/-- `static_array_ref::operator[](pos)` followed by a read or write of the element -/
def arrElem (c : Ctx) (p N i : Nat) (w : Bool) : List Ev :=
  [.assert (evalAssert static_array_ref_index__pos 0 [("pos", u64 i), ("size", u64 N)])]
    ++ arrData c p N ++ [.touch (p + i) 1 w]

/-- `static_array_ref::assign_range(r)` with `len` elements: `std::copy` into `begin()` (which
    checks that the ARRAY fits) and only then `SBEPP_ASSERT(res <= end())` -/
def arrAssignRange (c : Ctx) (p N len : Nat) : List Ev :=
  arrData c p N ++ [.touch p len true] ++ arrData c p N ++
    [.assert (evalAssert static_array_ref_assign_range__r 0 [("res", c.p (p + len)), ("it_end", c.p (p + N))])]

/-! ### `size_bytes` of dynamic members: what the generated `get_dynamic_field_view(*this, prev())`
chain, `nested_group_base::size_bytes`, the generated entry/message `size_bytes` and
`forward_iterator::operator++` compute, with every check and every header read on the way -/

/-- thread a position through `k` iterations, concatenating the events.  Execution ends at the
    first failed check or faulting access, so the loop is not continued past an iteration that
    does not complete on a buffer of `n` bytes (this also bounds the model's work when a hostile
    header announces 2^64 entries). -/
def iterEv (n : Nat) (f : Nat → List Ev × Nat) : Nat → Nat → List Ev × Nat
  | 0, p => ([], p)
  | k + 1, p =>
    let r := f p
    if run n r.1 0 = .ok then
      let r2 := iterEv n f k r.2
      (r.1 ++ r2.1, r2.2)
    else (r.1, r.2)

def evDs (c : Ctx) : List DataL → Nat → List Ev × Nat
  | [], p => ([], p)
  | d :: ds, p =>
    let r := dataSizeBytes c d p
    let r2 := evDs c ds (p + r.2)
    (r.1 ++ r2.1, r2.2)

mutual
  /-- `size_bytes(entry)` for an entry at `q` with block length `bl`: events, end position.
      An entry without dynamic members is `0 + block_length` (no access). -/
  def evL (c : Ctx) : Level → Nat → Nat → List Ev × Nat
    | .mk _ _ gs ds, q, bl =>
      let r := evGs c gs (q + bl)
      let r2 := evDs c ds r.2
      (r.1 ++ r2.1, r2.2)
  def evGs (c : Ctx) : List Group → Nat → List Ev × Nat
    | [], p => ([], p)
    | g :: gs, p =>
      let r := evG c g p
      let r2 := evGs c gs r.2
      (r.1 ++ r2.1, r2.2)
  /-- `size_bytes(group)` for a group whose header is at `p` -/
  def evG (c : Ctx) : Group → Nat → List Ev × Nat
    | .mk dim l, p =>
      let g := Group.mk dim l
      let num := c.rd (p + dim.numOff) dim.numSize
      let bl := c.rd (p + dim.blOff) dim.blSize
      if Level.isFlat l then
        -- flat_group_base: header, numInGroup, blockLength; size = header + num * bl
        (grpHeader c g p ++ getValue c p dim.numOff dim.numSize ++ getValue c p dim.blOff dim.blSize,
         p + dim.size + num * bl)
      else
        -- nested_group_base: header; begin(); end(); per entry: size_bytes(entry), then ++it which
        -- evaluates size_bytes(entry) for its check and once more to advance
        let body := iterEv c.n (fun q =>
            let e := evL c l q bl
            (e.1 ++ e.1 ++ fwdIncCheck c q (e.2 - q) ++ e.1, e.2)) num (p + dim.size)
        (grpHeader c g p ++ (grpBl c g p).1 ++ (grpNum c g p).1 ++ (grpBl c g p).1 ++ body.1, body.2)
end

/-- `forward_iterator::operator++` on an iterator at `ptr` -/
def fwdInc (c : Ctx) (l : Level) (ptr bl : Nat) : List Ev × Nat :=
  let e := evL c l ptr bl
  (e.1 ++ fwdIncCheck c ptr (e.2 - ptr) ++ e.1, e.2)

/-! ### navigation: views derived from a message view -/

instance : Inhabited Level := ⟨.mk 0 [] [] []⟩

structure MsgL where
  hdrSize : Nat
  blOff : Nat
  blSize : Nat
  level : Level
  deriving Inhabited

/-- the view an accessor is called on -/
inductive Pos
  /-- message view (begins at 0) -/
  | msg (m : MsgL)
  /-- the message header composite (begins at 0) -/
  | msgHdr (m : MsgL)
  /-- group entry at `q` carrying block length `bl` (`blSize` = width of its type) -/
  | entry (q bl blSize : Nat) (l : Level)
  | group (p : Nat) (g : Group)
  /-- the dimension composite of a group (begins at `p`) -/
  | dim (p : Nat) (g : Group)
  /-- iterator of a group: flat (random access) or nested (forward) -/
  | iter (ptr bl idx : Nat) (g : Group)
  | data (p : Nat) (d : DataL)
  /-- composite or array view obtained by `get_static_field_view` -/
  | static (p : Nat)
  /-- nothing further can be called (value results) -/
  | done
  deriving Inhabited

inductive Op
  /-- scalar getter / setter at `off` of the current view (`sz` bytes) -/
  | field (off sz : Nat) (set : Bool)
  /-- composite / array accessor: `get_static_field_view(off)` -/
  | static (off : Nat)
  /-- `static_array_ref<N>`: `data()`, element read/write, `assign_range` of `len` elements -/
  | arrData (N : Nat)
  | arrElem (N i : Nat) (set : Bool)
  | arrAssign (N len : Nat)
  /-- `sbepp::get_header(message or group)` -/
  | header
  /-- `k`-th group / data member of a message or entry -/
  | grp (k : Nat)
  | data (k : Nat)
  /-- group: `size()`, `begin()`, `operator[](i)` (flat), `sbepp::size_bytes` -/
  | gSize
  | gBegin
  | gIdx (i : Nat)
  /-- iterator: `++it`, `*it` -/
  | itInc
  | itDeref
  /-- data: `size()`, `data()`, element read/write, `resize(count, default_init)`,
      `assign_range` of `len` elements -/
  | dSize
  | dData
  | dElem (i : Nat) (set : Bool)
  | dResize (count : Nat)
  | dAssign (len : Nat)
  /-- data: `assign(count, value)` / `assign_string`, `assign(ilist)`, `push_back`, `pop_back`, `clear` -/
  | dAssignN (count : Nat)
  | dAssignIlist (len : Nat)
  | dPush
  | dPop
  | dClear
  /-- `sbepp::size_bytes(view)` of message / entry / group / data -/
  | sizeBytes
  deriving Repr, Inhabited

/-- message: `get_level` (header check) and `get_block_length` (header check, blockLength read) -/
def msgFirstDyn (c : Ctx) (m : MsgL) : List Ev × Nat :=
  (headerCheck c message_base_call__get_header_tag 0 m.hdrSize
     ++ headerCheck c message_base_call__get_header_tag 0 m.hdrSize ++ getValue c 0 m.blOff m.blSize,
   m.hdrSize + c.rd m.blOff m.blSize)

/-- address of the `k`-th group of a level whose first dynamic member is at `p0`: the generated
    accessor of member `j` is `get_dynamic_field_view(*this, member_{j-1}())` -/
def groupAt (c : Ctx) (l : Level) (p0 k : Nat) : List Ev × Nat := evGs c (l.groups.take k) p0

def dataAt (c : Ctx) (l : Level) (p0 k : Nat) : List Ev × Nat :=
  let r := evGs c l.groups p0
  let r2 := evDs c (l.datas.take k) r.2
  (r.1 ++ r2.1, r2.2)

/-- one accessor call: its events and the view it returns; `none` = the accessor does not exist
    on this kind of view -/
def step (c : Ctx) : Pos → Op → Option (List Ev × Pos)
  -- scalars of a message (offsets are absolute: header included), entry, composite, header
  | .msg _, .field off sz set => some ((if set then setValue c 0 off sz else getValue c 0 off sz), .done)
  | .msgHdr _, .field off sz set => some ((if set then setValue c 0 off sz else getValue c 0 off sz), .done)
  | .entry q _ _ _, .field off sz set => some ((if set then setValue c q off sz else getValue c q off sz), .done)
  | .dim p _, .field off sz set => some ((if set then setValue c p off sz else getValue c p off sz), .done)
  | .static p, .field off sz set => some ((if set then setValue c p off sz else getValue c p off sz), .done)
  | .msg _, .static off => some (staticView c 0 off, .static off)
  | .msgHdr _, .static off => some (staticView c 0 off, .static off)
  | .entry q _ _ _, .static off => some (staticView c q off, .static (q + off))
  | .dim p _, .static off => some (staticView c p off, .static (p + off))
  | .static p, .static off => some (staticView c p off, .static (p + off))
  | .static p, .arrData N => some (arrData c p N, .done)
  | .static p, .arrElem N i set => some (arrElem c p N i set, .done)
  | .static p, .arrAssign N len => some (arrAssignRange c p N len, .done)
  -- headers
  | .msg m, .header => some (headerCheck c message_base_call__get_header_tag 0 m.hdrSize, .msgHdr m)
  | .group p g, .header => some (grpHeader c g p, .dim p g)
  -- dynamic members
  | .msg m, .grp k =>
    match m.level.groups[k]? with
    | none => none
    | some g => some ((msgFirstDyn c m).1 ++ (groupAt c m.level (msgFirstDyn c m).2 k).1,
                      .group (groupAt c m.level (msgFirstDyn c m).2 k).2 g)
  | .entry q bl _ l, .grp k =>
    match l.groups[k]? with
    | none => none
    | some g => some ((groupAt c l (q + bl) k).1, .group (groupAt c l (q + bl) k).2 g)
  | .msg m, .data k =>
    match m.level.datas[k]? with
    | none => none
    | some d => some ((msgFirstDyn c m).1 ++ (dataAt c m.level (msgFirstDyn c m).2 k).1,
                      .data (dataAt c m.level (msgFirstDyn c m).2 k).2 d)
  | .entry q bl _ l, .data k =>
    match l.datas[k]? with
    | none => none
    | some d => some ((dataAt c l (q + bl) k).1, .data (dataAt c l (q + bl) k).2 d)
  -- groups
  | .group p g, .gSize => some ((grpNum c g p).1, .done)
  | .group p g, .gBegin => some (grpHeader c g p ++ getValue c p g.dim.blOff g.dim.blSize,
                                 .iter (p + g.dim.size) (grpBl c g p).2 0 g)
  | .group p g, .gIdx i =>
    if Level.isFlat g.level then
      some ((grpNum c g p).1
              ++ [.assert (evalAssert flat_group_base_index__pos 0
                    [("pos", uval g.dim.numSize i), ("size", uval g.dim.numSize (grpNum c g p).2)])]
              ++ grpHeader c g p ++ getValue c p g.dim.blOff g.dim.blSize ++ getValue c p g.dim.blOff g.dim.blSize,
            .entry (p + g.dim.size + i * (grpBl c g p).2) (grpBl c g p).2 g.dim.blSize g.level)
    else none
  | .group p g, .sizeBytes => some ((evG c g p).1, .done)
  | .iter ptr bl idx g, .itInc =>
    if Level.isFlat g.level then some (raInc c ptr bl g.dim.blSize, .iter (ptr + bl) bl (idx + 1) g)
    else some ((fwdInc c g.level ptr bl).1, .iter (fwdInc c g.level ptr bl).2 bl (idx + 1) g)
  | .iter ptr bl _ g, .itDeref => some ([], .entry ptr bl g.dim.blSize g.level)
  -- sizes of levels
  | .entry q bl _ l, .sizeBytes => some ((evL c l q bl).1, .done)
  | .msg m, .sizeBytes =>
    if Level.isFlat m.level then
      some (headerCheck c message_base_call__get_header_tag 0 m.hdrSize ++ getValue c 0 m.blOff m.blSize, .done)
    else some ((msgFirstDyn c m).1 ++ (evL c m.level 0 (msgFirstDyn c m).2).1, .done)
  -- data members
  | .data p d, .dSize => some ((dataLen c d p).1, .done)
  | .data p d, .sizeBytes => some ((dataSizeBytes c d p).1, .done)
  | .data p d, .dData => some (dataChecked c d p, .done)
  | .data p d, .dElem i set => some (dataElem c d p i set, .done)
  | .data p d, .dResize count => some (dataResize c d p count, .done)
  | .data p d, .dAssign len => some (dataAssignRange c d p len, .done)
  | .data p d, .dAssignN count => some (dataAssignN c d p count, .done)
  | .data p d, .dAssignIlist len => some (dataAssignIlist c d p len, .done)
  | .data p d, .dPush => some (dataPush c d p, .done)
  | .data p d, .dPop => some (dataPop c d p, .done)
  | .data p d, .dClear => some (dataResize c d p 0, .done)
  | _, _ => none

/-- begin offset of a view (what `sbepp::addressof` returns, relative to the buffer) -/
def Pos.begin : Pos → Nat
  | .msg _ => 0
  | .msgHdr _ => 0
  | .entry q _ _ _ => q
  | .group p _ => p
  | .dim p _ => p
  | .iter ptr _ _ _ => ptr
  | .data p _ => p
  | .static p => p
  | .done => 0

/-- a chain of accessor calls starting from the message view.  Forming a pointer that is not
    representable (address `≥ 2^63`: only reachable through 64-bit header values) is undefined
    behaviour; the model records it as a check whose value is undefined. -/
def walk (c : Ctx) : Pos → List Op → Option (List Ev)
  | _, [] => some []
  | pos, op :: ops =>
    match step c pos op with
    | none => none
    | some (e1, pos') =>
      match walk c pos' ops with
      | none => none
      | some e2 =>
        some (e1 ++ (if c.base + pos'.begin < 2 ^ 63 then [] else [Ev.assert none]) ++ e2)

/-! ### cursor-based accessors

The five cursor classes (`cursor`, `init_cursor_wrapper`, `init_dont_move_cursor_wrapper`,
`dont_move_cursor_wrapper`, `skip_cursor_wrapper`) method by method, and the traversal a client
performs with them: every member of a message in schema order through a plain cursor, entries
through `cursor_range`, and ONE member (the target) through a chosen wrapper — read, or (scalar
fields) written through the wrapper's setter. -/

inductive CVar
  | plain | init | dontMove | initDontMove | skip
  deriving Repr, DecidableEq, Inhabited

/-- a non-constant field as the generated cursor accessor sees it: `(*this, rel, abs)` -/
structure CField where
  /-- offset from the cursor position the accessor expects (end of the previous field) -/
  rel : Nat
  /-- offset from the view's begin -/
  abs : Nat
  /-- `sizeof(U)` of a scalar, `size_bytes` of a composite / array view -/
  size : Nat
  /-- composite / array: `get_static_field_view` instead of `get_value` -/
  isView : Bool
  /-- last field of the level: `get_last_value` / `get_last_static_field_view` -/
  last : Bool
  deriving Repr, Inhabited

mutual
  inductive CLevel
    | mk (fields : List CField) (groups : List CGroup) (datas : List DataL)
  inductive CGroup
    | mk (dim : Dim) (level : CLevel)
end

instance : Inhabited CLevel := ⟨.mk [] [] []⟩

def CLevel.fields : CLevel → List CField | .mk f _ _ => f
def CLevel.groups : CLevel → List CGroup | .mk _ g _ => g
def CLevel.datas : CLevel → List DataL | .mk _ _ d => d
def CGroup.dim : CGroup → Dim | .mk d _ => d
def CGroup.level : CGroup → CLevel | .mk _ l => l

mutual
  /-- forget the fields: the layout the random-access model works on -/
  def CLevel.erase : CLevel → Level
    | .mk _ gs ds => .mk 0 [] (CLevel.eraseGs gs) ds
  def CLevel.eraseGs : List CGroup → List Group
    | [] => []
    | g :: gs => CGroup.erase g :: CLevel.eraseGs gs
  def CGroup.erase : CGroup → Group
    | .mk dim l => .mk dim (CLevel.erase l)
end

/-- an entry "without cursor accessors" gets the generated cursor constructor -/
def CLevel.isEmpty (l : CLevel) : Bool := l.fields.isEmpty && l.groups.isEmpty && l.datas.isEmpty

/-- the level a cursor walks: view begin, `get_level` and `get_block_length` -/
structure CView where
  vb : Nat
  /-- message: header sizes for `get_level`/`get_block_length`; entry: `none` -/
  msg : Option (Nat × Nat × Nat)
  /-- entry: the block length it carries -/
  bl : Nat
  deriving Inhabited

/-- `view(get_level_tag{}) + view(get_block_length_tag{})`: events and position -/
def lvEnd (c : Ctx) (v : CView) : List Ev × Nat :=
  match v.msg with
  | some (hdr, blOff, blSize) =>
    (headerCheck c message_base_call__get_header_tag v.vb hdr
       ++ headerCheck c message_base_call__get_header_tag v.vb hdr ++ getValue c v.vb blOff blSize,
     v.vb + hdr + c.rd (v.vb + blOff) blSize)
  | none => ([], v.vb + v.bl)

/-- `SBEPP_ASSERT((view(addressof_tag{}) + absolute_offset) == (ptr + offset))` of the site -/
def curAssert (c : Ctx) (site : Site) (ptrName : String) (vb abs ptr rel : Nat) : Ev :=
  .assert (evalAssert site 0 [("begin", c.p vb), ("absolute_offset", u64 abs), (ptrName, c.p ptr), ("offset", u64 rel)])

def curCheck (c : Ctx) (site : Site) (k : Nat) (ptrName offName szName : String) (b off sz : Nat) : Ev :=
  .check b off sz (evalSizeCheck site k [(ptrName, c.p b), ("end", c.endp), (offName, u64 off), (szName, u64 sz)])

/-- name of the size argument in the extracted sites: getters `sizeof(U)`, setters `sizeof(T)` -/
def szName (w : Bool) : String := if w then "sizeof_T" else "sizeof_U"

/-- `cursor::get_value` / `get_last_value` / `set_value` / `set_last_value` -/
def plainSite (last w : Bool) : Site :=
  match last, w with
  | false, false => cursor_get_value__view_offset_absolute_offset
  | true, false => cursor_get_last_value__view_offset_absolute_offset
  | false, true => cursor_set_value__view_offset_absolute_offset_value
  | true, true => cursor_set_last_value__view_offset_absolute_offset_value

def initSite (last w : Bool) : Site :=
  match last, w with
  | false, false => init_cursor_wrapper_get_value__view_size_t_absolute_offset
  | true, false => init_cursor_wrapper_get_last_value__view_size_t_absolute_offset
  | false, true => init_cursor_wrapper_set_value__view_size_t_absolute_offset_value
  | true, true => init_cursor_wrapper_set_last_value__view_size_t_absolute_offset_value

def dontMoveSite (last w : Bool) : Site :=
  match last, w with
  | false, false => dont_move_cursor_wrapper_get_value__view_offset_absolute_offset
  | true, false => dont_move_cursor_wrapper_get_last_value__view_offset_absolute_offset
  | false, true => dont_move_cursor_wrapper_set_value__view_offset_absolute_offset_value
  | true, true => dont_move_cursor_wrapper_set_last_value__view_offset_absolute_offset_value

/-- `init_dont_move_cursor_wrapper::get_last_value` / `set_last_value` forward to `get_value` / `set_value` -/
def initDontMoveSite (w : Bool) : Site :=
  if w then init_dont_move_cursor_wrapper_set_value__view_offset_absolute_offset_value
  else init_dont_move_cursor_wrapper_get_value__view_offset_absolute_offset

/-- scalar field through a cursor: events, new cursor position.  `w = false`: the getter
    `v.NAME(c)`; `w = true`: the setter `v.NAME(value, c)` (`set_value` / `set_last_value` of the
    cursor class: the same statements in the same order with `set_primitive` in place of
    `get_primitive` — assertion, size check, access, cursor update; `init_dont_move`: size check,
    cursor update, access).  `skip_cursor_wrapper` has no setters: `w` is ignored there. -/
def curScalar (c : Ctx) (v : CView) (f : CField) (ptr : Nat) (w : Bool) : CVar → List Ev × Nat
  | .plain =>
    let site := plainSite f.last w
    ([curAssert c site "ptr" v.vb f.abs ptr f.rel, curCheck c site 1 "ptr" "offset" (szName w) ptr f.rel f.size,
      .touch (ptr + f.rel) f.size w] ++ (if f.last then (lvEnd c v).1 else []),
     if f.last then (lvEnd c v).2 else ptr + f.rel + f.size)
  | .init =>
    let site := initSite f.last w
    ([curCheck c site 0 "begin" "absolute_offset" (szName w) v.vb f.abs f.size, .touch (v.vb + f.abs) f.size w]
       ++ (if f.last then (lvEnd c v).1 else []),
     if f.last then (lvEnd c v).2 else v.vb + f.abs + f.size)
  | .dontMove =>
    let site := dontMoveSite f.last w
    ([curAssert c site "cursor_ptr" v.vb f.abs ptr f.rel,
      curCheck c site 1 "cursor_ptr" "offset" (szName w) ptr f.rel f.size, .touch (ptr + f.rel) f.size w], ptr)
  | .initDontMove =>
    ([curCheck c (initDontMoveSite w) 0 "begin" "absolute_offset" (szName w) v.vb f.abs f.size,
      .touch (v.vb + f.abs) f.size w], v.vb + f.abs - f.rel)
  | .skip =>
    let site := if f.last then skip_cursor_wrapper_get_last_value__view_offset_absolute_offset
                else skip_cursor_wrapper_get_value__view_offset_absolute_offset
    ([curAssert c site "cursor_ptr" v.vb f.abs ptr f.rel,
      curCheck c site 1 "cursor_ptr" "offset" "sizeof_U" ptr f.rel f.size] ++ (if f.last then (lvEnd c v).1 else []),
     if f.last then (lvEnd c v).2 else ptr + f.rel + f.size)

def curCheck0 (c : Ctx) (site : Site) (k : Nat) (ptrName offName : String) (b off : Nat) : Ev :=
  .check b off 0 (evalSizeCheck site k [(ptrName, c.p b), ("end", c.endp), (offName, u64 off)])

/-- composite / array field through a cursor -/
def curView (c : Ctx) (v : CView) (f : CField) (ptr : Nat) : CVar → List Ev × Nat
  | .plain =>
    let site := if f.last then cursor_get_last_static_field_view__view_offset_absolute_offset
                else cursor_get_static_field_view__view_offset_absolute_offset
    ([curAssert c site "ptr" v.vb f.abs ptr f.rel, curCheck0 c site 1 "ptr" "offset" ptr f.rel]
       ++ (if f.last then (lvEnd c v).1 else []),
     if f.last then (lvEnd c v).2 else ptr + f.rel + f.size)
  | .init =>
    let site := if f.last then init_cursor_wrapper_get_last_static_field_view__view_size_t_absolute_offset
                else init_cursor_wrapper_get_static_field_view__view_size_t_absolute_offset
    ([curCheck0 c site 0 "begin" "absolute_offset" v.vb f.abs] ++ (if f.last then (lvEnd c v).1 else []),
     if f.last then (lvEnd c v).2 else v.vb + f.abs + f.size)
  | .dontMove =>
    let site := if f.last then dont_move_cursor_wrapper_get_last_static_field_view__view_offset_absolute_offset
                else dont_move_cursor_wrapper_get_static_field_view__view_offset_absolute_offset
    ([curAssert c site "cursor_ptr" v.vb f.abs ptr f.rel, curCheck0 c site 1 "cursor_ptr" "offset" ptr f.rel], ptr)
  | .initDontMove =>
    ([curCheck0 c init_dont_move_cursor_wrapper_get_static_field_view__view_offset_absolute_offset 0 "begin"
        "absolute_offset" v.vb f.abs], v.vb + f.abs - f.rel)
  | .skip =>
    let site := if f.last then skip_cursor_wrapper_get_last_static_field_view__view_offset_absolute_offset
                else skip_cursor_wrapper_get_static_field_view__view_offset_absolute_offset
    ([curAssert c site "cursor_ptr" v.vb f.abs ptr f.rel, curCheck0 c site 1 "cursor_ptr" "offset" ptr f.rel]
       ++ (if f.last then (lvEnd c v).1 else []),
     if f.last then (lvEnd c v).2 else ptr + f.rel + f.size)

/-- composite / array fields have no setters (the accessor returns a view): `w` matters for scalars only -/
def curField (c : Ctx) (v : CView) (f : CField) (ptr : Nat) (var : CVar) (w : Bool := false) : List Ev × Nat :=
  if f.isView then curView c v f ptr var else curScalar c v f ptr w var

/-- `SBEPP_ASSERT(getter()(addressof_tag{}) == ptr)`: the getter is the random-access accessor -/
def getterAssert (c : Ctx) (site : Site) (ptrName : String) (getter : List Ev × Nat) (ptr : Nat) : List Ev :=
  getter.1 ++ [.assert (evalAssert site 0 [("getter_addr", c.p getter.2), (ptrName, c.p ptr)])]

/-- group member through a cursor; `first`: first dynamic member of the level; `getter`: events and
    result of the random-access accessor; returns events, the group's address, the new cursor -/
def curGroup (c : Ctx) (v : CView) (g : Group) (first : Bool) (getter : List Ev × Nat) (ptr : Nat) :
    CVar → List Ev × Nat × Nat
  | .plain =>
    if first then ((lvEnd c v).1 ++ grpHeader c g (lvEnd c v).2, (lvEnd c v).2, (lvEnd c v).2 + g.dim.size)
    else (getterAssert c cursor_get_group_view__view_getter "ptr" getter ptr ++ grpHeader c g ptr, ptr, ptr + g.dim.size)
  | .init =>
    if first then ((lvEnd c v).1 ++ grpHeader c g (lvEnd c v).2, (lvEnd c v).2, (lvEnd c v).2 + g.dim.size)
    else (getter.1 ++ grpHeader c g getter.2, getter.2, getter.2 + g.dim.size)
  | .dontMove =>
    if first then ((lvEnd c v).1, (lvEnd c v).2, (lvEnd c v).2)
    else (getterAssert c dont_move_cursor_wrapper_get_group_view__view_getter "cursor_ptr" getter ptr, ptr, ptr)
  | .initDontMove =>
    if first then ((lvEnd c v).1, (lvEnd c v).2, (lvEnd c v).2)
    else (getter.1, getter.2, getter.2)
  | .skip =>
    if first then ((lvEnd c v).1 ++ (evG c g (lvEnd c v).2).1, (lvEnd c v).2, (evG c g (lvEnd c v).2).2)
    else (getterAssert c skip_cursor_wrapper_get_group_view__view_getter "cursor_ptr" getter ptr ++ (evG c g ptr).1,
          ptr, (evG c g ptr).2)

/-- data member through a cursor -/
def curData (c : Ctx) (v : CView) (d : DataL) (first : Bool) (getter : List Ev × Nat) (ptr : Nat) :
    CVar → List Ev × Nat × Nat
  | .plain =>
    if first then ((lvEnd c v).1 ++ (dataSizeBytes c d (lvEnd c v).2).1, (lvEnd c v).2,
                   (lvEnd c v).2 + (dataSizeBytes c d (lvEnd c v).2).2)
    else (getterAssert c cursor_get_data_view__view_getter "ptr" getter ptr ++ (dataSizeBytes c d ptr).1, ptr,
          ptr + (dataSizeBytes c d ptr).2)
  | .init =>
    if first then ((lvEnd c v).1 ++ (dataSizeBytes c d (lvEnd c v).2).1, (lvEnd c v).2,
                   (lvEnd c v).2 + (dataSizeBytes c d (lvEnd c v).2).2)
    else (getter.1 ++ (dataSizeBytes c d getter.2).1, getter.2, getter.2 + (dataSizeBytes c d getter.2).2)
  | .dontMove =>
    if first then ((lvEnd c v).1, (lvEnd c v).2, (lvEnd c v).2)
    else (getterAssert c dont_move_cursor_wrapper_get_data_view__view_getter "cursor_ptr" getter ptr, ptr, ptr)
  | .initDontMove =>
    if first then ((lvEnd c v).1, (lvEnd c v).2, (lvEnd c v).2)
    else (getter.1, getter.2, getter.2)
  | .skip =>
    if first then ((lvEnd c v).1 ++ (dataSizeBytes c d (lvEnd c v).2).1, (lvEnd c v).2,
                   (lvEnd c v).2 + (dataSizeBytes c d (lvEnd c v).2).2)
    else (getterAssert c skip_cursor_wrapper_get_data_view__view_getter "cursor_ptr" getter ptr
            ++ (dataSizeBytes c d ptr).1, ptr, ptr + (dataSizeBytes c d ptr).2)

/-- state of a traversal: events so far, cursor, number of members accessed, finished (the target
    has been accessed, or the run cannot continue) -/
structure Trav where
  evs : List Ev
  ptr : Nat
  k : Nat
  stop : Bool
  deriving Inhabited

/-- which wrapper member number `k` is accessed with, and whether it is WRITTEN (`set`: the setter
    `v.NAME(value, wrapper)` of a scalar field; groups, data and composite / array fields are
    obtained as views either way); the traversal ends after the target -/
structure Target where
  k : Nat
  var : CVar
  set : Bool := false
  deriving Inhabited

def Trav.var (t : Trav) (tg : Target) : CVar := if t.k = tg.k then tg.var else .plain

/-- members before the target are read -/
def Trav.set (t : Trav) (tg : Target) : Bool := decide (t.k = tg.k) && tg.set

/-- record one member access; stop after the target or when the run does not complete -/
def Trav.after (n : Nat) (t : Trav) (tg : Target) (e : List Ev) (ptr : Nat) : Trav :=
  { evs := t.evs ++ e, ptr := ptr, k := t.k + 1, stop := decide (t.k = tg.k) || (run n e 0 != .ok) }

def travFields (c : Ctx) (v : CView) (tg : Target) : List CField → Trav → Trav
  | [], t => t
  | f :: fs, t =>
    if t.stop then t
    else travFields c v tg fs (t.after c.n tg (curField c v f t.ptr (t.var tg) (t.set tg)).1
                                               (curField c v f t.ptr (t.var tg) (t.set tg)).2)

def travDatas (c : Ctx) (v : CView) (tg : Target) (getterOf : Nat → List Ev × Nat) :
    List DataL → Nat → Bool → Trav → Trav
  | [], _, _, t => t
  | d :: ds, j, first, t =>
    if t.stop then t
    else
      let r := curData c v d first (getterOf j) t.ptr (t.var tg)
      travDatas c v tg getterOf ds (j + 1) false (t.after c.n tg r.1 r.2.2)

/-- iterate with early exit -/
def iterTrav (f : Trav → Trav) : Nat → Trav → Trav
  | 0, t => t
  | k + 1, t => if t.stop then t else iterTrav f k (f t)

mutual
  /-- all members of a level in schema order -/
  def travL (c : Ctx) (tg : Target) : CLevel → CView → Trav → Trav
    | .mk fs gs ds, v, t =>
      let lvl := CLevel.erase (.mk fs gs ds)
      let t1 := travFields c v tg fs t
      let t2 := travGs c tg v lvl gs 0 t1
      travDatas c v tg (fun j => ((lvEnd c v).1 ++ (dataAt c lvl (lvEnd c v).2 j).1, (dataAt c lvl (lvEnd c v).2 j).2))
        ds 0 gs.isEmpty t2
  def travGs (c : Ctx) (tg : Target) (v : CView) (lvl : Level) : List CGroup → Nat → Trav → Trav
    | [], _, t => t
    | g :: gs, j, t => travGs c tg v lvl gs (j + 1) (travG c tg v lvl g j t)
  /-- a group member: the accessor, then `cursor_range(c)` and every entry -/
  def travG (c : Ctx) (tg : Target) (v : CView) (lvl : Level) : CGroup → Nat → Trav → Trav
    | .mk dim l, j, t =>
      if t.stop then t
      else
        let g := CGroup.erase (.mk dim l)
        let getter := ((lvEnd c v).1 ++ (groupAt c lvl (lvEnd c v).2 j).1, (groupAt c lvl (lvEnd c v).2 j).2)
        let r := curGroup c v g (j == 0) getter t.ptr (t.var tg)
        let t1 := t.after c.n tg r.1 r.2.2
        if t1.stop then t1
        else
          -- cursor_range(c): blockLength and size() of the header (not a member of its own)
          let p := r.2.1
          let rng := (grpBl c g p).1 ++ (grpNum c g p).1
          let t2 : Trav := { t1 with evs := t1.evs ++ rng, stop := run c.n rng 0 != .ok }
          let bl := (grpBl c g p).2
          iterTrav (fun s =>
            if l.isEmpty then
              -- generated constructor: size check, cursor += block_length (no member is accessed)
              { s with evs := s.evs ++ emptyEntryCtor c s.ptr bl dim.blSize, ptr := s.ptr + bl,
                       stop := run c.n (emptyEntryCtor c s.ptr bl dim.blSize) 0 != .ok }
            else travL c tg l { vb := s.ptr, msg := none, bl := bl } s) (grpNum c g p).2 t2
end

structure CMsg where
  hdrSize : Nat
  blOff : Nat
  blSize : Nat
  level : CLevel
  deriving Inhabited

/-- `auto c = sbepp::init_cursor(m)` (header check), then the traversal -/
def travMsg (c : Ctx) (m : CMsg) (tg : Target) : Trav :=
  let init := headerCheck c message_base_call__get_header_tag 0 m.hdrSize
  travL c tg m.level { vb := 0, msg := some (m.hdrSize, m.blOff, m.blSize), bl := 0 }
    { evs := init, ptr := m.hdrSize, k := 0, stop := run c.n init 0 != .ok }

/-! ### documented preconditions, well-formedness -/

/-- a value of the unsigned C++ type of a `w`-byte header member -/
def canonB (w x : Nat) : Bool := decide (x < 2 ^ (uTy w).bits)

/-- documented preconditions of the element accessors and argument types (`pos < size()`,
    `range_size(r) <= size()`, `count` is a `size_type`); every other argument is arbitrary -/
def Op.preB (c : Ctx) : Pos → Op → Bool
  | .static _, .arrElem N i _ => decide (i < N)
  | .static _, .arrAssign N len => decide (len ≤ N)
  | .data p d, .dElem i _ => decide (i < (dataLen c d p).2)
  | .data _ d, .dResize count => canonB d.lenSize count
  | .data _ d, .dAssign len => canonB d.lenSize len
  | .data _ d, .dAssignN count => canonB d.lenSize count
  | .data _ d, .dAssignIlist len => canonB d.lenSize len
  | .data p d, .dPush => canonB d.lenSize ((dataLen c d p).2 + 1)
  | .data p d, .dPop => decide (0 < (dataLen c d p).2)
  | _, _ => true

/-- accessor kinds whose checks all precede the accesses they guard -/
def Op.checkedFirst : Op → Bool
  | .dAssign _ => false
  | _ => true

/-- the chain calls only accessors that exist, with their preconditions satisfied -/
def opsOk (c : Ctx) : Pos → List Op → Bool
  | _, [] => true
  | pos, op :: ops =>
    Op.preB c pos op &&
      match step c pos op with
      | some (_, pos') => opsOk c pos' ops
      | none => false

/-- non-null buffer whose addresses are far from the top of the address space -/
def Ctx.WF (c : Ctx) : Prop := 0 < c.base ∧ c.base + c.n < 2 ^ 62

/-! ### the accessor kinds as `State → guard / touches` -/

structure State where
  ctx : Ctx
  pos : Pos
  op : Op
  deriving Inhabited

def State.events (s : State) : List Ev := ((step s.ctx s.pos s.op).map (·.1)).getD []

def State.guard (s : State) : Bool := Guards.guard s.events
def State.touches (s : State) : List (Nat × Nat) := Guards.touches s.events

end Sbepp.Rt.Guards
