/-
  Target language of the group-method translator (`extract/methods_group.py`),
  part 1 (part 2, for the model of `Rt/Cursor.lean`, is `Rt/GroupCursorDsl.lean`; two files because
  the schema layer's `Sbepp.Group` must not enter the modules that talk about `Sbepp.Rt.Group`): the member functions of `flat_group_base`, `nested_group_base`,
  `forward_iterator` (and constructor / `operator*` of `random_access_iterator`)
  for the model of `Rt/Iter.lean` (C12).

  A member function body is rendered statement by statement.  The *expressions*
  stay what they are in the hand model: deep-embedded `CExpr` terms evaluated by
  the C++ integer evaluator of `Base/CExpr.lean` in an environment of typed
  values; what the translator adds is the method level — which statements there
  are, which other member function is called where, which header value an
  accessor chain reads, which assertion guards what.

  Environment of a group view (`GP`): `addr` = `(*this)(addressof_tag{})`,
  `end` = `(*this)(end_ptr_tag{})`, and the three things a `Dimension` header
  object can be asked: `hdr` = `sbepp::size_bytes(header)`, `num` =
  `header.numInGroup().value()`, `bl` = `header.blockLength().value()` (the
  accessors of the dimension composite are generated code; a header object is
  only ever constructed over the view's own `[addr, end)`, the translator
  rejects anything else).  Values that cross a member-function boundary
  (parameters, results of calls) are bit patterns with their static C++ type
  (`xp`/`xv`), exactly as the extracted kernels take their arguments.
-/
import Sbepp.Rt.Iter

namespace Sbepp.Rt.GroupDsl
open Sbepp Sbepp.Rt

/-- what an expression in a member function of a group view can read -/
def GP (NT BT : CTy) : List (String × CTy) :=
  [("addr", .ptr), ("hdr", .u64), ("num", NT), ("bl", BT), ("end", .ptr)]

/-- straight-line statements over the view's values and typed extra values -/
def block (NT BT : CTy) (chk : Bool) (g : Group) (xp : List (String × CTy)) (xv : List Nat)
    (body : List CStmt) : Outcome Env := do
  let r ← runK { params := GP NT BT ++ xp, body := body, ret := none } chk (g.args ++ xv)
  pure r.env

/-- value of an expression (`none` of the evaluator = undefined behaviour) -/
def value (NT BT : CTy) (g : Group) (xp : List (String × CTy)) (xv : List Nat) (e : CExpr) : Outcome CVal :=
  Outcome.ofOption (e.eval (mkEnv (GP NT BT ++ xp) (g.args ++ xv)))

/-- an expression in a boolean context -/
def truth (NT BT : CTy) (g : Group) (xp : List (String × CTy)) (xv : List Nat) (e : CExpr) : Outcome Bool := do
  let v ← value NT BT g xp xv e
  pure v.isTrue

/-- `SBEPP_ASSERT(cond)` as a statement of a member function: compiled out
    (argument not evaluated) in unchecked builds; `idx` = ordinal of the
    assertion in the function -/
def assertM (chk : Bool) (idx : Nat) (cond : Outcome Bool) : Outcome Unit :=
  if chk then do
    let c ← cond
    if c then pure () else .assertFailed idx
  else pure ()

/-- the `numInGroup(v)` setter of the dimension composite (generated code:
    `set_value<E>(*this, OFFSET, v.value())`): `sizeof(size_type)` bytes in the
    header's byte order at the field's offset; `none` = outside the storage -/
def setNumInGroup (NT : CTy) (lay : DimLayout) (buf : List Nat) (hoff : Nat) (v : CVal) : Option (List Nat) :=
  writeAt buf (hoff + lay.numOff) (valueBytes lay.bigEndian (NT.bits / 8) v.bits)

/-! ### iterator objects: environment of the data members -/

/-- data members of `random_access_iterator` in declaration order -/
def RaP (NT BT : CTy) : List (String × CTy) :=
  [("ptr", .ptr), ("block_length", BT), ("index", NT), ("end", .ptr)]

/-- data members of `forward_iterator` in declaration order -/
def FwP (NT BT : CTy) : List (String × CTy) :=
  [("ptr", .ptr), ("index", NT), ("block_length", BT), ("end", .ptr)]

def ivals (it : Iter) : List Nat := [ptrBits it.ptr, it.bl, it.index, ptrBits it.end_]
def fvals (it : FwdIter) : List Nat := [ptrBits it.ptr, it.index, it.bl, ptrBits it.end_]

/-- statements of a member function of `forward_iterator` -/
def fblock (NT BT : CTy) (chk : Bool) (it : FwdIter) (xp : List (String × CTy)) (xv : List Nat)
    (body : List CStmt) : Outcome Env := do
  let r ← runK { params := FwP NT BT ++ xp, body := body, ret := none } chk (fvals it ++ xv)
  pure r.env

/-- value of an expression over the data members -/
def fvalue (NT BT : CTy) (it : FwdIter) (xp : List (String × CTy)) (xv : List Nat) (e : CExpr) : Outcome CVal :=
  Outcome.ofOption (e.eval (mkEnv (FwP NT BT ++ xp) (fvals it ++ xv)))

def ftruth (NT BT : CTy) (it : FwdIter) (xp : List (String × CTy)) (xv : List Nat) (e : CExpr) : Outcome Bool := do
  let v ← fvalue NT BT it xp xv e
  pure v.isTrue

/-- a comparison of two iterators: `lhs.index OP rhs.index` -/
def fcompare (NT : CTy) (a b : FwdIter) (e : CExpr) : Outcome Bool := do
  let v ← Outcome.ofOption (e.eval (mkEnv [("lhs_index", NT), ("rhs_index", NT)] [a.index, b.index]))
  pure v.isTrue

/-- `Entry{ptr, end, block_length}` (`entry_base(Byte*, Byte*, BlockLengthType)`): in the
    model of `Rt/Iter.lean` an entry view is the address it starts at -/
def entryAt (ptr : Int) (_end : Int) (_bl : Nat) : Int := ptr

/-- range-`for` over a nested group (`for(const auto entry : *this) body`):
    `auto it = begin(), e = end(); for(; it != e; ++it) { const auto entry = *it; body }`,
    with `fuel` bounding the number of iterations as in `Rt.fwdWalk` -/
def rangeFor {σ : Type} (ne : FwdIter → FwdIter → Outcome Bool) (deref : FwdIter → Int)
    (inc : FwdIter → Outcome FwdIter) (e : FwdIter) (body : Int → σ → Outcome σ) :
    Nat → FwdIter → σ → Outcome σ
  | 0, _, s => .ok s
  | fuel + 1, it, s => do
    let more ← ne it e
    if more then
      let s' ← body (deref it) s
      let j ← inc it
      rangeFor ne deref inc e body fuel j s'
    else pure s

end Sbepp.Rt.GroupDsl
