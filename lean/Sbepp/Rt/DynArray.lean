/-
  Executable model of `sbepp::detail::dynamic_array_ref<Byte, Value, Length, E>`
  (sbepp.hpp), checked build (`SBEPP_SIZE_CHECKS_ENABLED == 1`).

  State: the bytes of the memory the view points into (`List Nat`, every byte
  `< 256`; the view starts at offset 0) — the length prefix at offset 0 is the
  only size state.  `Params.avail` is `end - begin` of the view, which is what
  `SBEPP_SIZE_CHECK` compares against.  Iterators/pointers are byte offsets from
  the start of the view (elements are single bytes: char / uint8_t / int8_t).

  Every member function is transliterated statement by statement: each
  `SBEPP_ASSERT` / `SBEPP_SIZE_CHECK` is an `assertFailed` outcome (carrying the
  buffer as it is at that moment), arithmetic in the length type is modular
  (`wrapLen`), arithmetic in `std::size_t` is modulo 2^64 (`sizeT`).  The
  standard algorithms are modelled by their specification: `std::copy` /
  `std::copy_backward` move the source block provided the standard's overlap
  precondition holds, otherwise the outcome is `ub`; any access outside the
  physical buffer is `ub` as well, so no definition is silently totalised.

  Core Lean only (linked into the driver).
-/
import Sbepp.Spec.Vector

namespace Sbepp.Rt.DynArray
open Sbepp.Spec.Vec (Op)

/-! ### byte helpers -/

/-- little-endian bytes of `v` in `w` bytes (`v mod 256^w`) -/
def putLE : Nat → Nat → List Nat
  | 0, _ => []
  | w + 1, v => v % 256 :: putLE w (v / 256)

def getLE : List Nat → Nat
  | [] => 0
  | b :: bs => b + 256 * getLE bs

/-- `set_primitive<E>`: object representation of `v` in `w` bytes -/
def putN (w : Nat) (be : Bool) (v : Nat) : List Nat :=
  if be then (putLE w v).reverse else putLE w v

/-- `get_primitive<T, E>` -/
def getN (be : Bool) (bs : List Nat) : Nat :=
  if be then getLE bs.reverse else getLE bs

theorem length_putLE (w v : Nat) : (putLE w v).length = w := by
  induction w generalizing v with
  | zero => rfl
  | succ w ih => simp only [putLE, List.length_cons, ih]

theorem getLE_putLE (w v : Nat) (h : v < 256 ^ w) : getLE (putLE w v) = v := by
  induction w generalizing v with
  | zero => simp only [Nat.pow_zero] at h; simp only [putLE, getLE]; omega
  | succ w ih =>
    have h' : v / 256 < 256 ^ w := by
      rw [Nat.div_lt_iff_lt_mul (by decide)]; rw [Nat.pow_succ] at h; exact h
    simp only [putLE, getLE, ih _ h']
    omega

theorem length_putN (w : Nat) (be : Bool) (v : Nat) : (putN w be v).length = w := by
  unfold putN; split <;> simp only [List.length_reverse, length_putLE]

/-- round trip: reading back a length that was written -/
theorem getN_putN (w : Nat) (be : Bool) (v : Nat) (h : v < 256 ^ w) :
    getN be (putN w be v) = v := by
  unfold getN putN
  cases be <;> simp [getLE_putLE w v h]

/-! ### outcomes and the state monad of one member-function call -/

inductive Res (α : Type)
  | ok (a : α) (buf : List Nat)
  /-- an `SBEPP_ASSERT` / `SBEPP_SIZE_CHECK` failed; `buf` is the memory at that moment -/
  | assertFailed (buf : List Nat)
  /-- precondition of a standard algorithm violated, or access outside the memory block -/
  | ub
  deriving Repr, DecidableEq

abbrev M (α : Type) := List Nat → Res α

@[inline] def M.pure {α} (a : α) : M α := fun s => .ok a s

/-- sequencing: an abnormal outcome ends the member function -/
def Res.andThen {α β} : Res α → (α → List Nat → Res β) → Res β
  | .ok a s, f => f a s
  | .assertFailed s, _ => .assertFailed s
  | .ub, _ => .ub

@[inline] def M.bind {α β} (m : M α) (f : α → M β) : M β := fun s => (m s).andThen f

instance : Monad M where
  pure := M.pure
  bind := M.bind

structure Params where
  /-- `sizeof(size_type)`: 1, 2, 4 or 8 -/
  w : Nat
  /-- `E == endian::big` -/
  be : Bool
  /-- `end - begin` of the view -/
  avail : Nat
  deriving Repr

/-- conversion of a mathematical value to `size_type` (`CVal.wrap` for the
    unsigned type of `8·w` bits, see `Lemmas.DynArray.wrapLen_eq_wrap`) -/
def wrapLen (P : Params) (i : Int) : Nat := (i % ((256 ^ P.w : Nat) : Int)).toNat

/-- arithmetic in `std::size_t` -/
def sizeT (x : Nat) : Nat := x % 2 ^ 64

def assert (c : Bool) : M Unit := fun s => if c then .ok () s else .assertFailed s

def ubM {α} : M α := fun _ => .ub

/-- `SBEPP_SIZE_CHECK(begin, end, offset, size)`:
    `begin && (offset + size <= size_t(end - begin))` with `begin != nullptr` -/
def sizeCheck (P : Params) (offset size : Nat) : M Unit :=
  assert (decide (sizeT (offset + size) ≤ P.avail))

def readBytes (off n : Nat) : M (List Nat) := fun s =>
  if off + n ≤ s.length then .ok ((s.drop off).take n) s else .ub

def writeAt (s : List Nat) (off : Nat) (bs : List Nat) : List Nat :=
  s.take off ++ bs ++ s.drop (off + bs.length)

def writeBytes (off : Nat) (bs : List Nat) : M Unit := fun s =>
  if off + bs.length ≤ s.length then .ok () (writeAt s off bs) else .ub

/-- `std::copy(first, last, d)` on pointers into the block.  [alg.copy]: `d`
    must not be in `[first, last)`; `d == first` (a self-copy, which every
    implementation performs as a no-op `memmove`) is accepted, see the report. -/
def stdCopy (first last d : Nat) : M Unit :=
  if first ≤ last ∧ ¬ (first < d ∧ d < last) then do
    let bs ← readBytes first (last - first)
    writeBytes d bs
  else ubM

/-- `std::copy_backward(first, last, dLast)`; `dLast` must not be in
    `(first, last]` (`dLast == last` accepted as a self-move) -/
def stdCopyBackward (first last dLast : Nat) : M Unit :=
  if first ≤ last ∧ ¬ (first < dLast ∧ dLast < last) ∧ last - first ≤ dLast then do
    let bs ← readBytes first (last - first)
    writeBytes (dLast - (last - first)) bs
  else ubM

/-! ### `dynamic_array_ref` members -/

/-- `sbe_size()` / `size()`: `get_value<size_type, size_type, E>(*this, 0)` -/
def size (P : Params) : M Nat := do
  sizeCheck P 0 P.w
  let bs ← readBytes 0 P.w
  pure (getN P.be bs)

/-- `data_unchecked()` -/
def dataUnchecked (P : Params) : M Nat := do
  sizeCheck P 0 P.w
  pure P.w

/-- `data_checked()` -/
def dataChecked (P : Params) : M Nat := do
  let n ← size P
  sizeCheck P 0 (sizeT (P.w + n))
  dataUnchecked P

/-- `begin()` -/
def begin_ (P : Params) : M Nat := dataChecked P

/-- `end()`: `begin() + size()` -/
def end_ (P : Params) : M Nat := do
  let b ← begin_ P
  let n ← size P
  pure (b + n)

/-- `resize(count, default_init)` -/
def resizeDI (P : Params) (count : Nat) : M Unit := do
  sizeCheck P 0 (sizeT (P.w + count))
  writeBytes 0 (putN P.w P.be count)

/-- `operator[](pos)`: the address of the element -/
def elemRef (P : Params) (pos : Nat) : M Nat := do
  let n ← size P
  assert (decide (pos < n))
  let d ← dataChecked P
  pure (d + pos)

/-- `for(i = from; i != count; i++) operator[](i) = value;` with `k = count - from` -/
def fillLoop (P : Params) (value : Nat) : Nat → Nat → M Unit
  | _, 0 => pure ()
  | i, k + 1 => do
    let a ← elemRef P i
    writeBytes a [value]
    fillLoop P value (i + 1) k

/-- `resize(count, value)`; `resize(count)` is `value = 0` -/
def resize (P : Params) (count value : Nat) : M Unit := do
  let oldSize ← size P
  resizeDI P count
  if count > oldSize then fillLoop P value oldSize (count - oldSize) else pure ()

def clear (P : Params) : M Unit := resizeDI P 0

def pushBack (P : Params) (value : Nat) : M Unit := do
  let cur ← size P
  resizeDI P (wrapLen P (cur + 1))
  let a ← elemRef P cur
  writeBytes a [value]

def popBack (P : Params) : M Unit := do
  let n ← size P
  assert (n != 0)
  let n ← size P
  resizeDI P (wrapLen P ((n : Int) - 1))

/-- `SBEPP_ASSERT(pos >= begin() && pos < end())` -/
def assertPosStrict (P : Params) (pos : Nat) : M Unit := do
  let b ← begin_ P
  if pos ≥ b then do
    let e ← end_ P
    assert (decide (pos < e))
  else assert false

/-- `SBEPP_ASSERT(pos >= begin() && pos <= end())` -/
def assertPos (P : Params) (pos : Nat) : M Unit := do
  let b ← begin_ P
  if pos ≥ b then do
    let e ← end_ P
    assert (decide (pos ≤ e))
  else assert false

/-- `erase(pos)` -/
def erase (P : Params) (pos : Nat) : M Nat := do
  assertPosStrict P pos
  let e ← end_ P
  stdCopy (pos + 1) e pos
  let n ← size P
  resizeDI P (wrapLen P ((n : Int) - 1))
  pure pos

/-- `erase(first, last)` -/
def eraseRange (P : Params) (first last : Nat) : M Nat := do
  let b ← begin_ P
  if first ≥ b then do
    let e ← end_ P
    assert (decide (last ≤ e))
  else assert false
  let e ← end_ P
  stdCopy last e first
  let n ← size P
  resizeDI P (wrapLen P ((n : Int) - ((last : Int) - (first : Int))))
  pure first

/-- `insert(pos, value)` -/
def insert (P : Params) (pos value : Nat) : M Nat := do
  assertPos P pos
  let oldEnd ← end_ P
  let n ← size P
  resizeDI P (wrapLen P (n + 1))
  let e ← end_ P
  stdCopyBackward pos oldEnd e
  writeBytes pos [value]
  pure pos

/-- `insert(pos, count, value)` -/
def insertN (P : Params) (pos count value : Nat) : M Nat := do
  assertPos P pos
  let oldEnd ← end_ P
  let n ← size P
  resizeDI P (wrapLen P (n + count))
  let e ← end_ P
  stdCopyBackward pos oldEnd e
  writeBytes pos (List.replicate count value)
  pure pos

/-- `insert_impl(pos, first, last, std::input_iterator_tag)`: the loop -/
def insertLoop (P : Params) : Nat → List Nat → M Unit
  | _, [] => pure ()
  | out, x :: xs => do
    let _ ← insert P out x
    insertLoop P (out + 1) xs

/-- `insert_impl(pos, first, last, std::forward_iterator_tag)` -/
def insertFwd (P : Params) (pos : Nat) (xs : List Nat) : M Nat := do
  let inSize := xs.length
  let oldEnd ← end_ P
  let n ← size P
  resizeDI P (wrapLen P (n + inSize))
  let e ← end_ P
  stdCopyBackward pos oldEnd e
  writeBytes pos xs
  pure pos

/-- `insert(pos, first, last)`; `input = true` for input iterators -/
def insertRange (P : Params) (input : Bool) (pos : Nat) (xs : List Nat) : M Nat := do
  assertPos P pos
  if input then do
    insertLoop P pos xs
    pure pos
  else insertFwd P pos xs

/-- `insert(pos, ilist)` -/
def insertList (P : Params) (pos : Nat) (xs : List Nat) : M Nat := insertRange P false pos xs

/-- `assign(count, value)` -/
def assignN (P : Params) (count value : Nat) : M Unit := do
  resizeDI P count
  let b ← begin_ P
  writeBytes b (List.replicate count value)

/-- `assign(first, last)`: copies first, resizes afterwards -/
def assignRange (P : Params) (xs : List Nat) : M Unit := do
  let b ← dataUnchecked P
  writeBytes b xs
  let newEnd := b + xs.length
  resizeDI P (wrapLen P ((newEnd : Int) - (b : Int)))

/-- `assign(ilist)` -/
def assignList (P : Params) (xs : List Nat) : M Unit := do
  sizeCheck P 0 (sizeT (P.w + xs.length))
  assignRange P xs

/-- `assign_string(str)`; `s` are the bytes at `str` (a terminator follows) -/
def assignString (P : Params) (s : List Nat) : M Unit := do
  let str := Sbepp.Spec.Vec.cstr s
  let length := str.length
  resizeDI P (wrapLen P length)
  let b ← begin_ P
  writeBytes b str

/-- `assign_range(r)` -/
def assignRangeR (P : Params) (xs : List Nat) : M Unit := do
  let b ← dataUnchecked P
  writeBytes b xs
  let newEnd := b + xs.length
  resizeDI P (wrapLen P ((newEnd : Int) - (b : Int)))

/-- `operator()(size_bytes_tag)` -/
def sizeBytes (P : Params) : M Nat := do
  let n ← size P
  pure (sizeT (P.w + n))

/-! ### one operation of the common input language -/

def retIdx (P : Params) (m : M Nat) : M (Option Nat) := do
  let it ← m
  pure (some (it - P.w))

def retVoid (m : M Unit) : M (Option Nat) := do
  m
  pure none

/-- positions of `Op` are element indices: the iterator is `begin() + i`, i.e.
    offset `w + i`; the returned iterator is printed as an index again -/
def step (P : Params) : Op → M (Option Nat)
  | .pushBack v => retVoid (pushBack P v)
  | .popBack => retVoid (popBack P)
  | .clear => retVoid (clear P)
  | .erase i => retIdx P (erase P (P.w + i))
  | .eraseRange i j => retIdx P (eraseRange P (P.w + i) (P.w + j))
  | .insert i v => retIdx P (insert P (P.w + i) v)
  | .insertN i n v => retIdx P (insertN P (P.w + i) n v)
  | .insertRange i xs => retIdx P (insertRange P false (P.w + i) xs)
  | .insertInput i xs => retIdx P (insertRange P true (P.w + i) xs)
  | .insertList i xs => retIdx P (insertList P (P.w + i) xs)
  | .resize n => retVoid (resize P n 0)
  | .resizeV n v => retVoid (resize P n v)
  | .resizeDI n => retVoid (resizeDI P n)
  | .assignN n v => retVoid (assignN P n v)
  | .assignRange xs => retVoid (assignRange P xs)
  | .assignList xs => retVoid (assignList P xs)
  | .assignString s => retVoid (assignString P s)
  | .assignRangeR xs => retVoid (assignRangeR P xs)

/-- a history: stops at the first abnormal outcome -/
def runOps (P : Params) : List Op → M (List (Option Nat))
  | [] => pure []
  | op :: rest => do
    let r ← step P op
    let rs ← runOps P rest
    pure (r :: rs)

end Sbepp.Rt.DynArray

