/-
  Runtime model of how sbepp finds the members of a message: positions are
  computed from the `blockLength`, `numInGroup` and `length` values *read back
  from the buffer*, exactly as `message_base`/`entry_base`/`flat_group_base`/
  `nested_group_base`/`dynamic_array_ref` and the generated
  `get_first_dynamic_field_view` / `get_dynamic_field_view` accessors do:

  * first dynamic member of a level: level start + wire block length
  * next dynamic member: previous member's address + its `size_bytes`
  * `size_bytes` of a group: header size + the sizes of `numInGroup` entries,
    each entry being a level with the group's wire block length
  * `size_bytes` of a data member: length prefix size + length value
-/
import Sbepp.Schema.Layout

namespace Sbepp

/-- `f` applied `n` times -/
def iter {α : Type} (f : α → α) : Nat → α → α
  | 0, a => a
  | n + 1, a => iter f n (f a)

/-- read a `w`-byte unsigned integer at `pos` -/
def rd (bo : ByteOrder) (buf : List Nat) (pos w : Nat) : Nat := get bo (slice buf pos w)

/-- end position of a run of data members starting at `p` -/
def endDs (bo : ByteOrder) (buf : List Nat) : List DataL → Nat → Nat
  | [], p => p
  | d :: ds, p => endDs bo buf ds (p + d.lenSize + rd bo buf p d.lenSize)

mutual
  /-- end position of a level that starts at `pos` with wire block length `wbl` -/
  def endL (bo : ByteOrder) (buf : List Nat) : Level → Nat → Nat → Nat
    | .mk _ _ gs ds, pos, wbl => endDs bo buf ds (endGs bo buf gs (pos + wbl))
  def endGs (bo : ByteOrder) (buf : List Nat) : List Group → Nat → Nat
    | [], p => p
    | g :: gs, p => endGs bo buf gs (endG bo buf g p)
  /-- end position of a group whose dimension header starts at `p` -/
  def endG (bo : ByteOrder) (buf : List Nat) : Group → Nat → Nat
    | .mk dim l, p =>
      iter (fun q => endL bo buf l q (rd bo buf (p + dim.blOff) dim.blSize))
        (rd bo buf (p + dim.numOff) dim.numSize) (p + dim.size)
end

/-- address of the `k`-th group of a level (k = 0: `get_first_dynamic_field_view`,
    k+1: `get_dynamic_field_view(prev)`) -/
def groupPos (bo : ByteOrder) (buf : List Nat) (gs : List Group) (pos wbl k : Nat) : Nat :=
  endGs bo buf (gs.take k) (pos + wbl)

/-- address of the `k`-th data member of a level -/
def dataPos (bo : ByteOrder) (buf : List Nat) (l : Level) (pos wbl k : Nat) : Nat :=
  endDs bo buf (l.datas.take k) (endGs bo buf l.groups (pos + wbl))

/-- address of entry `i` of a group at `p` (forward iteration / flat stride) -/
def entryPos (bo : ByteOrder) (buf : List Nat) (g : Group) (p i : Nat) : Nat :=
  iter (fun q => endL bo buf g.level q (rd bo buf (p + g.dim.blOff) g.dim.blSize)) i (p + g.dim.size)

/-- random-access getter of a leaf of a level at `pos` -/
def getLeaf (buf : List Nat) (pos : Nat) (lf : Leaf) : List Nat := slice buf (pos + lf.off) lf.size

/-- random-access setter -/
def setLeaf (buf : List Nat) (pos : Nat) (lf : Leaf) (bytes : List Nat) : List Nat :=
  writeAt buf (pos + lf.off) bytes

end Sbepp
