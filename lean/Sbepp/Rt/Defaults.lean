/-
  Model of where a type's `min_value()`, `max_value()`, `null_value()` come
  from when the schema gives no explicit attribute:

  * built-in types (`sbepp::int16_t`, `sbepp::int16_opt_t`, …): the `MIN`,
    `MAX`, `NULL` arguments of `SBEPP_BUILT_IN_IMPL`, pasted into
    `return {MIN};` etc. with `value_type = TYPE`;
  * generated types: `types_compiler::get_{min,max,null}_value` returns
    `built_in_*_values.at(t.primitive_type)`, which is pasted into
    `return {…};` of a function returning the primitive's C++ type.

  Both tables are `Sbepp.Extracted.*` (regenerated from /repo on every run);
  the text is evaluated by `Spec.Scalar.evalLit` (C++ literal typing, integer
  arithmetic with overflow detection, list-initialisation narrowing).  `none`
  means: no table entry (`.at` throws) or the initialiser is ill-formed.
-/
import Sbepp.Extracted.Tables
import Sbepp.Spec.Optional

namespace Sbepp.Rt.Scalar
open Sbepp Sbepp.Spec.Scalar Sbepp.Extracted

def genTable : Attr → List (String × String)
  | .min => genMin | .max => genMax | .null => genNull

def builtInTable : Attr → List (String × String)
  | .min => builtInMin | .max => builtInMax | .null => builtInNull

def genTableParsed : Attr → List (String × Option LitExpr)
  | .min => genMinParsed | .max => genMaxParsed | .null => genNullParsed

def builtInTableParsed : Attr → List (String × Option LitExpr)
  | .min => builtInMinParsed | .max => builtInMaxParsed | .null => builtInNullParsed

/-- text the generator emits for attribute `a` of a type of primitive `p` -/
def genText (a : Attr) (p : Prim) : Option String := lookup (genTable a) p.name

/-- text of the macro argument for attribute `a` of the built-in type of `p` -/
def builtInText (a : Attr) (p : Prim) : Option String := lookup (builtInTable a) p.name

/-- value (object representation) a generated type without explicit attribute exposes -/
def genDefault (a : Attr) (p : Prim) : Option Nat := (genText a p).bind (evalLit p)

/-- value the built-in type exposes -/
def builtInDefault (a : Attr) (p : Prim) : Option Nat := (builtInText a p).bind (evalLit p)

/-- the built-in type's `value_type` is the C++ type of the primitive -/
def builtInTypeOk (p : Prim) : Bool :=
  match lookup builtInType p.name with
  | some ty => limitType? ty == some p
  | none => false

/-- every raw text parses (Lean parser) to the parsed form emitted by the extractor -/
def parsedAgrees (raw : List (String × String)) (parsed : List (String × Option LitExpr)) : Bool :=
  raw.length == parsed.length &&
  (raw.zip parsed).all (fun (r, q) => r.1 == q.1 && parseLit r.2.toList == q.2)

end Sbepp.Rt.Scalar
