/-
  Target language of the cursor-method translator (`extract/methods_cursor.py`):
  the few primitives, beside those of `Rt/Cursor.lean` (`Out`, `assertCursor`,
  `sizeCheck`, `deref`, `groupHeader`, `groupSizeBytes`, `dataSizeBytes`), that
  the statements and expressions of the five cursor classes are rendered into.
  Hand-written and fixed; `Sbepp.Extracted.CursorMethods` is generated on top of
  it from the C++ text, `Lemmas/CursorTie.lean` proves the generated
  definitions equal to the hand model of `Rt/Cursor.lean`.

  A C++ `Byte*` value is a `Ptr := Option Nat` (offset from the buffer start;
  `none` = `nullptr`, and `nullptr + n` stays `none`).  A view object
  (`Res`/`ResView` local, `getter()`) is its address, a `Nat`; its end pointer
  is the enclosing view's (`LView.endp`): every view constructor in the cursor
  classes passes `view(end_ptr_tag{})` on.
-/
import Sbepp.Rt.Cursor

namespace Sbepp.Rt.Cursor.Dsl
open Sbepp Sbepp.Rt.Cursor

abbrev Ptr := Option Nat

/-- `p + n` (`Byte*` plus `std::size_t`) -/
def padd (p : Ptr) (n : Nat) : Ptr := p.map (· + n)

/-- `p - n` (truncated, see the header of `Rt/Cursor.lean`) -/
def psub (p : Ptr) (n : Nat) : Ptr := p.map (· - n)

/-- `p == q` on `Byte*` -/
def peq (p q : Ptr) : Bool := p == q

/-- `SBEPP_SIZE_CHECK(begin, end, offset, size)`, C++ argument order -/
def SBEPP_SIZE_CHECK (begin : Ptr) (endp : Option Nat) (offset size : Nat) : Out Unit :=
  sizeCheck endp begin offset size

/-- `View{p, end}`: a view object is represented by its (non-null) address -/
def mkView (p : Ptr) : Out Nat := deref p

/-- `p += n` on the cursor pointer (arithmetic on a null cursor is `nullDeref`) -/
def advance (p : Ptr) (n : Nat) : Out Ptr := do
  let a ← deref p
  .ok (some (a + n))

/-- `get_primitive<U, E>(p)`: the `sizeof(U)` bytes at `p` in wire order -/
def getPrimitive (buf : List Nat) (p : Ptr) (sizeofU : Nat) : Out (List Nat) := do
  let a ← deref p
  .ok (slice buf a sizeofU)

/-- `set_primitive<E>(p, value)`: the memory afterwards -/
def setPrimitive (buf : List Nat) (p : Ptr) (value : List Nat) : Out (List Nat) := do
  let a ← deref p
  .ok (writeAt buf a value)

/-- `header(size_bytes_tag{})` of the dimension header obtained by `g(get_header_tag{})`
    (the argument is the token that `groupHeader` returned: the header exists) -/
def headerSizeBytes (dim : Dim) (_header : Unit) : Nat := dim.size

end Sbepp.Rt.Cursor.Dsl
