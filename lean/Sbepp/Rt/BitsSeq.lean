/-
  Histories of set-choice setter calls through the extracted setter kernel.
  Definitions only (no proofs): the model driver imports this file, and it must
  keep building when a changed kernel breaks the lemmas about it.
-/
import Sbepp.Extracted.Kernels

namespace Sbepp

/-- replay a sequence of setter calls `(choice, value)` through the extracted
    setter kernel (used by the history theorems of C15 and by the driver) -/
def runSets (T : CTy) : Nat → List (Nat × Bool) → Option Nat
  | v, [] => some v
  | v, (n, b) :: ops =>
    match (Extracted.bitset_set_bit T).varBits [v, n, if b then 1 else 0] "bits" with
    | some r => runSets T r ops
    | none => none

end Sbepp
