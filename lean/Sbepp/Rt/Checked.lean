/-
  Runtime model of `sbepp::size_bytes_checked(view, n)` (sbepp.hpp,
  `detail::size_bytes_checked_visitor` and `size_bytes_checked`) together with
  the pieces of generated code and of the cursor it drives:

  * `size_bytes_checked`: `if(!addressof(view) || size < header_size) return {}`,
    `init_cursor` (pointer = view + header size), `visit(view, c, visitor)`,
    result `{true, size - visitor.get_size()}` or `{}`.
  * `on_message`: `validate_and_subtract(header size)`, then
    `validate_and_subtract(*header.blockLength())` (a READ of the message
    header), then `visit_children`.
  * generated `visit_children` of a message / entry (messages_compiler.hpp
    `make_visit_children`): `v.on_field(this->f(c), tag) || ... ||
    v.on_group(this->g(c), c, tag) || ... || v.on_data(this->d(c), tag)`.  Every
    member accessor is EVALUATED through the cursor before its callback runs:
      - `cursor::get_value` / `get_last_value` READ the field at
        `ptr + relative_offset` (asserted equal to `view + absolute_offset`);
        `get_static_field_view` / `get_last_static_field_view` (arrays,
        composites) read nothing.  The `last` variants set
        `ptr = level + block_length` (for a message `block_length` is re-read
        from the header; for an entry it is the value stored in the entry view).
      - `get_first_group_view` sets `ptr = level + block_length`, then
        `ptr += dimension size`; `get_group_view` only advances.
      - `get_first_data_view` (first data member of a level WITHOUT groups) sets
        `ptr = level + block_length`; both data accessors then READ the length
        prefix at `ptr` (`d(size_bytes_tag)`) and advance by
        `sizeof(length) + length` computed in `size_t`.
  * `on_group`: `validate_and_subtract(dimension size)`, READ `blockLength`,
    `set_group_block_length`, `visit_children(g, c)` = the `cursor_range` loop
    (READS `blockLength` and `numInGroup`; `numInGroup` iterations, each
    constructing the entry from the cursor and calling `on_entry`), restore.
  * entry construction from the cursor: entries generated for a group without any
    non-constant field, group or data (`make_entry_cursor_constructor`) advance
    the cursor by `block_length`; all other entries leave the cursor alone (their
    accessors advance it).
  * `on_entry`: `validate_and_subtract(group_block_length)`, `visit_children`.
  * `on_data` (since /repo 3b08414): `validate_and_subtract(sizeof(size_type))`,
    and only if that succeeds `validate_and_subtract(d.size())` (`d.size()` =
    `sbe_size().value()` = `get_value<size_type>(*this, 0)`: READS the length
    prefix again).  Prefix and payload are validated one after the other because
    their sum `size_bytes(d)` wraps in `std::size_t` for a 64-bit length close to
    2^64 (before that commit `on_data` was `validate_and_subtract(size_bytes(d))`).

  Every buffer read is recorded in an access log `(offset, size)`, every
  callback invocation is a step.  Pointers are offsets from the start of the
  buffer (unbounded `Nat`: forming a pointer beyond the buffer is not flagged).
  `std::size_t` arithmetic is modelled where it can wrap
  (`validate_and_subtract`, `dynamic_array_ref::size_bytes` - still used by the
  cursor accessors `get_data_view` / `get_first_data_view` to ADVANCE the cursor).

  This model is for builds WITHOUT `SBEPP_SIZE_CHECK` (release builds): there the
  checks are no-ops and the reads are plain memory accesses.  In checked builds
  every logged read is preceded by `SBEPP_SIZE_CHECK(begin, end, offset, size)`,
  which (since /repo 7262f97 also when `begin > end`) fails for a read that stops
  beyond the view's end: there a logged read beyond `n` ends in the assertion
  handler.  That is observed by the correspondence check, not modelled here.

  Tie to the C++ text: the visitor's own member functions (and `size_bytes_checked`)
  are written once more at the end of this file, one definition per member
  function (`Visitor.*`), together with the model of the generated code and the
  cursor with the callbacks factored out (`Skel.*`).  `extract/methods_checked.py`
  regenerates the member functions from sbepp.hpp on every run
  (`Sbepp/Extracted/CheckedVisitor.lean`); `Lemmas/CheckedTie.lean` proves them equal
  to `Visitor.*` and `Skel.runMsg Visitor.ops = runMsg`, `Skel.runGroup Visitor.ops =
  runGroup`.  The generated `visit_children`, the cursor accessors and the
  `cursor_range` loop stay hand-modelled (tied by the differential check).
-/
import Sbepp.Schema.Resolve
import Sbepp.Rt.Walk

namespace Sbepp.Checked
open Sbepp

/-- cursor accessor of one non-constant field of a level -/
structure FieldA where
  /-- offset inside the block -/
  off : Nat
  /-- size of the field in bytes -/
  size : Nat
  /-- `get_value`/`get_last_value` (scalar `type`, enum, set: reads the bytes)
      vs `get_static_field_view`/`get_last_static_field_view` (array,
      composite: no read) -/
  isValue : Bool
  deriving Repr, DecidableEq, Inhabited

mutual
  /-- what the generator bakes into the cursor accessors of a level -/
  inductive CLevel
    | mk (blockLen : Nat) (fields : List FieldA) (groups : List CGroup) (datas : List DataL)
  inductive CGroup
    | mk (dim : Dim) (level : CLevel)
end

def CLevel.blockLen : CLevel → Nat | .mk b _ _ _ => b
def CLevel.fields : CLevel → List FieldA | .mk _ f _ _ => f
def CLevel.groups : CLevel → List CGroup | .mk _ _ g _ => g
def CLevel.datas : CLevel → List DataL | .mk _ _ _ d => d
/-- `get_non_const_fields(members.fields).empty() && members.groups.empty() &&
    members.data.empty()`: the entry class gets the cursor constructor that
    advances the cursor by `block_length` -/
def CLevel.emptyCtor : CLevel → Bool | .mk _ f g d => f.isEmpty && g.isEmpty && d.isEmpty
def CGroup.dim : CGroup → Dim | .mk d _ => d
def CGroup.level : CGroup → CLevel | .mk _ l => l

mutual
  /-- the plain layout (what the specification is stated over) -/
  def CLevel.erase : CLevel → Level
    | .mk bl fs gs ds => .mk bl (fs.map (fun f => ⟨f.off, f.size⟩)) (eraseGs gs) ds
  def eraseGs : List CGroup → List Group
    | [] => []
    | g :: gs => g.erase :: eraseGs gs
  def CGroup.erase : CGroup → Group
    | .mk dim l => .mk dim l.erase
end

mutual
  /-- the largest number of callbacks one level can receive (its own `on_entry` /
      `on_message` plus one per member), over all levels of the tree -/
  def CLevel.wmax : CLevel → Nat
    | .mk _ fs gs ds => max (1 + fs.length + gs.length + ds.length) (wmaxGs gs)
  def wmaxGs : List CGroup → Nat
    | [] => 0
    | g :: gs => max g.wmax (wmaxGs gs)
  def CGroup.wmax : CGroup → Nat
    | .mk _ l => l.wmax
end

/-- message: header size, position of the header's `blockLength`, root level -/
structure CMsg where
  hdrSize : Nat
  blOff : Nat
  blSize : Nat
  level : CLevel

/-- `size_bytes_checked_visitor::validate_and_subtract` on `std::size_t` values
    (`Lemmas/Checked.lean`: equal to the kernel extracted from sbepp.hpp) -/
def vas (size n : Nat) (valid : Bool) : Nat × Bool :=
  if size < n then (size, false) else (size - n, valid)

/-- `dynamic_array_ref::operator()(size_bytes_tag)`: `sizeof(size_type) + size()`
    evaluated in `std::size_t` -/
def dataSizeBytes (lenSize len : Nat) : Nat := (lenSize + len) % 2 ^ 64

/-- what a logged read fetches -/
inductive AKind
  | hdrBlockLength   -- message header `blockLength`
  | field            -- scalar field through `get_value` / `get_last_value`
  | dimBlockLength   -- group dimension `blockLength`
  | dimNumInGroup    -- group dimension `numInGroup`
  | dataLength       -- `<data>` length prefix
  deriving Repr, DecidableEq, Inhabited

/-- one entry of the access log -/
structure Access where
  kind : AKind
  off : Nat
  size : Nat
  /-- number of callbacks entered before the read -/
  step : Nat
  deriving Repr, DecidableEq, Inhabited

/-- one past the last byte touched -/
def Access.stop (a : Access) : Nat := a.off + a.size

/-- visitor members + cursor + instrumentation -/
structure St where
  /-- `size_bytes_checked_visitor::size` -/
  size : Nat
  /-- `size_bytes_checked_visitor::valid` -/
  valid : Bool
  /-- `size_bytes_checked_visitor::group_block_length` -/
  gbl : Nat
  /-- `cursor::ptr` as an offset from the buffer start -/
  ptr : Nat
  /-- access log: `(offset, size)` of every buffer read, most recent first -/
  reads : List Access
  /-- number of callbacks (`on_message/on_field/on_group/on_entry/on_data`) invoked -/
  steps : Nat
  /-- ghost: number of `on_entry` callbacks that validated a zero block length -/
  zeroEntries : Nat
  /-- ghost: the largest value the cursor pointer ever had (a value above the
      buffer size is an out-of-range pointer: undefined behaviour in C++, trapped
      by UBSan only when the address computation wraps) -/
  maxPtr : Nat
  /-- the driver's step limit was hit (never with `lim = none`) -/
  out : Bool
  deriving Repr, Inhabited

namespace St
def step (s : St) : St := { s with steps := s.steps + 1 }
def read (s : St) (k : AKind) (off sz : Nat) : St := { s with reads := ⟨k, off, sz, s.steps⟩ :: s.reads }
def readIf (s : St) (c : Bool) (k : AKind) (off sz : Nat) : St := if c then s.read k off sz else s
def readAll (s : St) (l : List Access) : St := { s with reads := l.map (fun a => { a with step := s.steps }) ++ s.reads }
def setPtr (s : St) (p : Nat) : St := { s with ptr := p, maxPtr := max s.maxPtr p }
def setGbl (s : St) (g : Nat) : St := { s with gbl := g }
def validate (s : St) (n : Nat) : St :=
  { s with size := (vas s.size n s.valid).1, valid := (vas s.size n s.valid).2 }
def noteZero (s : St) (c : Bool) : St := if c then { s with zeroEntries := s.zeroEntries + 1 } else s
end St

/-- only the executable driver passes a step limit; the theorems are about `none` -/
def outOfFuel (lim : Option Nat) (s : St) : Bool :=
  match lim with
  | none => false
  | some l => decide (l ≤ s.steps)

/-- `for(const auto entry : cursor_range(c)) if(v.on_entry(entry, c)) return true;` with
    `count` = `numInGroup` -/
def loopE (lim : Option Nat) (body : St → St × Bool) : Nat → St → St
  | 0, s => s
  | k + 1, s =>
    if outOfFuel lim s then { s with valid := false, out := true }
    else
      let r := body s
      if r.2 then r.1 else loopE lim body k r.1

section
variable (bo : ByteOrder) (buf : List Nat) (lim : Option Nat)

/-- `on_field(this->f(c), tag)` for the non-constant fields of a level at `start`
    whose `get_block_length_tag` value is `wbl` (obtained by the reads `blk`) -/
def visitFields (start wbl : Nat) (blk : List Access) : List FieldA → St → St
  | [], s => s
  | f :: fs, s =>
    -- accessor: get_value / get_static_field_view ...
    let s1 := s.readIf f.isValue .field (start + f.off) f.size
    let s2 := match fs with
      | [] => (s1.readAll blk).setPtr (start + wbl)      -- get_last_*: ptr = level + block_length
      | _ :: _ => s1.setPtr (start + f.off + f.size)    -- ptr += offset + size
    -- callback: on_field returns false
    visitFields start wbl blk fs s2.step

/-- `on_data(this->d(c), tag)` chain; `first`: the accessor is `get_first_data_view` -/
def visitDatas (start wbl : Nat) (blk : List Access) : Bool → List DataL → St → St × Bool
  | _, [], s => (s, false)
  | first, d :: ds, s =>
    -- accessor: [ptr = level + block_length;] d = view at ptr; ptr += d(size_bytes_tag)
    let s0 := if first then (s.readAll blk).setPtr (start + wbl) else s
    let p := s0.ptr
    let len := rd bo buf p d.lenSize
    let s1 := (s0.read .dataLength p d.lenSize).setPtr (p + dataSizeBytes d.lenSize len)
    -- callback: if(!validate_and_subtract(sizeof(size_type))) return true;
    let s2 := s1.step.validate d.lenSize
    if !s2.valid then (s2, true)
    else
      -- return !validate_and_subtract(d.size());   (`d.size()` reads the prefix again)
      let s3 := (s2.read .dataLength p d.lenSize).validate len
      if !s3.valid then (s3, true) else visitDatas start wbl blk false ds s3

/-- `*it` (the entry view constructed from the cursor) followed by
    `size_bytes_checked_visitor::on_entry`; `children` is the entry's generated
    `visit_children` -/
def onEntryWith (emptyCtor : Bool) (children : Nat → Nat → List Access → St → St × Bool) (bl : Nat) (s : St) :
    St × Bool :=
  let q := s.ptr
  let s0 := if emptyCtor then s.setPtr (q + bl) else s
  let s1 := s0.step.validate s0.gbl
  let s1 := s1.noteZero (s0.gbl == 0 && s1.valid)
  if !s1.valid then (s1, true)
  else
    let r := children q bl [] s1
    (r.1, !r.1.valid)

mutual
  /-- generated `operator()(visit_children_tag, v, c)` of a message or entry -/
  def visitChildren : CLevel → Nat → Nat → List Access → St → St × Bool
    | .mk _ fields gs ds, start, wbl, blk, s =>
      let s1 := visitFields start wbl blk fields s
      let r := visitGroups gs start wbl blk true s1
      if r.2 then r else visitDatas bo buf start wbl blk gs.isEmpty ds r.1
  /-- `on_group(this->g(c), c, tag)` chain; `first`: the accessor is `get_first_group_view` -/
  def visitGroups : List CGroup → Nat → Nat → List Access → Bool → St → St × Bool
    | [], _, _, _, _, s => (s, false)
    | g :: gs, start, wbl, blk, first, s =>
      -- accessor
      let s0 := if first then (s.readAll blk).setPtr (start + wbl) else s
      let p := s0.ptr
      let r := onGroup g p (s0.setPtr (p + g.dim.size))
      if r.2 then r else visitGroups gs start wbl blk false r.1
  /-- `size_bytes_checked_visitor::on_group` for the group view at `p` -/
  def onGroup : CGroup → Nat → St → St × Bool
    | .mk dim l, p, s =>
      let s1 := s.step.validate dim.size
      if !s1.valid then (s1, true)
      else
        let bl := rd bo buf (p + dim.blOff) dim.blSize
        let s2 := s1.read .dimBlockLength (p + dim.blOff) dim.blSize
        let prev := s2.gbl
        let s3 := s2.setGbl bl
        -- visit_children(g, c, *this): cursor_range(c)
        let num := rd bo buf (p + dim.numOff) dim.numSize
        let s4 := (s3.read .dimBlockLength (p + dim.blOff) dim.blSize).read .dimNumInGroup (p + dim.numOff) dim.numSize
        let s5 := loopE lim (onEntryWith l.emptyCtor (visitChildren l) bl) num s4
        let s6 := s5.setGbl prev
        (s6, !s6.valid)
end

/-- one loop iteration of a group whose entries have the level `l` -/
abbrev onEntry (l : CLevel) (bl : Nat) (s : St) : St × Bool :=
  onEntryWith l.emptyCtor (visitChildren bo buf lim l) bl s

/-- outcome of one call -/
structure Result where
  valid : Bool
  size : Nat
  reads : List Access
  steps : Nat
  zeroEntries : Nat
  maxPtr : Nat
  out : Bool
  deriving Repr, Inhabited

/-- some logged read touches an offset `≥ n` -/
def Result.fault (r : Result) (n : Nat) : Bool := r.reads.any (fun a => a.size != 0 && decide (n < a.stop))

/-- the first (in program order) read that touches an offset `≥ n` -/
def Result.firstOver (r : Result) (n : Nat) : Option Access :=
  r.reads.reverse.find? (fun a => a.size != 0 && decide (n < a.stop))

/-- one past the highest offset read -/
def Result.maxRead (r : Result) : Nat := r.reads.foldl (fun m a => if a.size = 0 then m else max m a.stop) 0

def initial (n ptr : Nat) : St :=
  { size := n, valid := true, gbl := 0, ptr := ptr, reads := [], steps := 0, zeroEntries := 0, maxPtr := ptr, out := false }

/-- `return visitor.is_valid() ? {true, size - visitor.get_size()} : {}` -/
def finish (n : Nat) (s : St) : Result :=
  { valid := s.valid, size := if s.valid then n - s.size else 0, reads := s.reads, steps := s.steps,
    zeroEntries := s.zeroEntries, maxPtr := s.maxPtr, out := s.out }

def rejected : Result := { valid := false, size := 0, reads := [], steps := 0, zeroEntries := 0, maxPtr := 0, out := false }

/-- `size_bytes_checked_visitor::on_message` -/
def onMessage (m : CMsg) (s : St) : St :=
  let s1 := s.step.validate m.hdrSize
  if !s1.valid then s1
  else
    let wbl := rd bo buf m.blOff m.blSize
    let s2 := (s1.read .hdrBlockLength m.blOff m.blSize).validate wbl
    if !s2.valid then s2
    else (visitChildren bo buf lim m.level m.hdrSize wbl [⟨.hdrBlockLength, m.blOff, m.blSize, 0⟩] s2).1

/-- `sbepp::size_bytes_checked(message_view, n)` on a buffer whose first `n` bytes
    are readable -/
def runMsg (m : CMsg) (n : Nat) : Result :=
  if n < m.hdrSize then rejected
  else finish n (onMessage bo buf lim m (initial n m.hdrSize))

/-- `sbepp::size_bytes_checked(group_view, n)`: the group's dimension header is at
    offset 0 -/
def runGroup (g : CGroup) (n : Nat) : Result :=
  if n < g.dim.size then rejected
  else finish n (onGroup bo buf lim g 0 (initial n g.dim.size)).1

end

/-! ### from the resolved schema to the cursor layout

`make_fields_cursor_accessors`: non-constant fields in schema order; primitive
types, `<type>` of length 1, enums and sets go through `get_value`, everything
else through a static field view. -/
open Sbepp.Schema

def fieldAccessors (types : List Elem) (leaves : List NLeaf) : List FieldDef → List FieldA
  | [] => []
  | f :: rest =>
    let isConst := match actualPresence types f with
      | .ok p => p == Presence.constant
      | .error _ => false
    if isConst then fieldAccessors types leaves rest
    else
      let mine := leaves.filter (fun (l : NLeaf) => l.path.head? = some f.name)
      let off := (mine.map (fun (l : NLeaf) => l.off)).foldl min ((mine.head?.map (fun (l : NLeaf) => l.off)).getD 0)
      let size := (mine.map (fun (l : NLeaf) => l.off + l.size)).foldl max 0 - off
      let isValue :=
        if isPrimitive f.type then true
        else match lookup types f.type with
          | some (.type t) => t.length == 1
          | some (.enum ..) => true
          | some (.set ..) => true
          | _ => false
      ⟨off, size, isValue⟩ :: fieldAccessors types leaves rest

mutual
  def chkLevel (types : List Elem) : List FieldDef → List GroupDef → NLevel → CLevel
    | fields, gdefs, .mk bl leaves gs ds =>
      .mk bl (fieldAccessors types leaves fields) (chkGroups types gdefs gs) (ds.map (fun d => ⟨d.lenSize⟩))
  def chkGroups (types : List Elem) : List GroupDef → List NGroup → List CGroup
    | .mk _ _ _ _ fields groups .. :: gdefs, .mk _ dim l :: gs =>
      .mk dim.dim (chkLevel types fields groups l) :: chkGroups types gdefs gs
    | _, _ => []
end

def chkMessage (s : SchemaDef) (md : MessageDef) (m : NMessage) : Option CMsg :=
  match findLeaf m.hdrLeaves "blockLength" with
  | some bl => some { hdrSize := m.hdrSize, blOff := bl.off, blSize := bl.size,
                      level := chkLevel s.types md.fields md.groups m.level }
  | none => none

/-! ## The visitor, member function by member function

The definitions above have the visitor's logic inlined into the recursive model of
the generated code.  Below the same behaviour is factored the way the C++ is:

* `Visitor.*`: one definition per member function of
  `sbepp::detail::size_bytes_checked_visitor` (and `sbepp::size_bytes_checked`)
  in a state monad `VM` over `St`.  Everything the visitor calls in the rest of
  the system is a field of the `View` / `Header` records it is handed
  (`sbepp::get_header`, `sbepp::size_bytes`, `*header.blockLength()`,
  `sizeof(typename T::size_type)`, `d.size()`, `sbepp::visit_children(x, c, *this)`, `sbepp::visit`, `sbepp::addressof`,
  `sbepp::init_cursor`, `detail::get_header_size`).
  `Sbepp.Extracted.Checked` (generated from sbepp.hpp on every run by
  `extract/methods_checked.py`) contains the same definitions as the C++ text says
  them now; `Lemmas/CheckedTie.lean` proves `Extracted.Checked.f = Visitor.f`.
* `Ops` + `Skel.*`: the hand model of the generated `visit_children`, the cursor
  accessors and the `cursor_range` loop once more, with every callback going
  through an `Ops` record instead of being inlined.  `Lemmas/CheckedTie.lean`
  proves `Skel.runMsg Visitor.ops = runMsg` and `Skel.runGroup Visitor.ops = runGroup`,
  so every theorem about `runMsg` / `runGroup` is a theorem about the skeleton
  driven by the extracted member functions.

C++ typing: `std::size_t` values are `Nat`s below `2^64`; `sizeSub` / `sizeAdd`
wrap like `std::size_t` does.
-/
namespace Visitor

/-- `a - b` on `std::size_t` operands: wraps modulo `2^64` when `b > a` -/
def sizeSub (a b : Nat) : Nat := if b ≤ a then a - b else a + 2 ^ 64 - b
/-- `a + b` on `std::size_t` operands -/
def sizeAdd (a b : Nat) : Nat := (a + b) % 2 ^ 64

/-- the visitor runs in a state monad over `St` (its data members `size`, `valid`,
    `group_block_length` are `St.size`, `St.valid`, `St.gbl`) -/
def VM (α : Type) : Type := St → α × St

instance : Monad VM where
  pure a := fun s => (a, s)
  bind m f := fun s => f (m s).1 (m s).2

/-- read a data member -/
def load {α : Type} (f : St → α) : VM α := fun s => (f s, s)
/-- write a data member -/
def store (f : St → St) : VM Unit := fun s => ((), f s)

/-- the `Cursor&` argument (the cursor's pointer is `St.ptr`) -/
structure Cursor where
  deriving Inhabited
/-- a tag argument -/
structure Tag where
  deriving Inhabited
/-- the visitor object: `*this`, the local `visitor` of `size_bytes_checked`, the
    reference `visit_children` returns (its members live in `St`) -/
structure Self where
  deriving Inhabited
def Self.this : Self := {}

/-- a pointer as far as the visitor looks at it -/
structure Ptr where
  off : Option Nat
  deriving Inhabited
def Ptr.null : Ptr := ⟨none⟩
/-- contextual conversion to `bool` -/
def Ptr.toBool (p : Ptr) : Bool := p.off.isSome

/-- a value wrapper such as `blockLength`; unary `*` is `.value` -/
structure Num where
  value : Nat
  deriving Inhabited

/-- the object `sbepp::get_header(x)` returns -/
structure Header where
  /-- `sbepp::size_bytes(header)` -/
  sizeBytes : VM Nat
  /-- `header.blockLength()` (a read of the buffer) -/
  blockLength : VM Num

instance : Inhabited Header := ⟨{ sizeBytes := pure 0, blockLength := pure ⟨0⟩ }⟩

/-- a message / group / entry / data / field view as far as the visitor uses it;
    the operations that make no sense for a kind of view keep their defaults -/
structure View where
  /-- `sbepp::get_header(x)` -/
  getHeader : VM Header := pure default
  /-- `sbepp::size_bytes(d)` of a `<data>` view (reads the length prefix; `sizeof(size_type) + size()`
      in `std::size_t`).  Not called by the visitor since /repo 3b08414; kept so that the earlier text of
      `on_data` still translates (and then fails its tie) -/
  sizeBytes : VM Nat := pure 0
  /-- `sizeof(typename T::size_type)` for the type `T` of a `<data>` view: a constant of the view type -/
  sizeofSizeType : Nat := 0
  /-- `d.size()` of a `<data>` view: `sbe_size().value()`, reads the length prefix at offset 0 of the view -/
  size : VM Nat := pure 0
  /-- `sbepp::visit_children(x, c, *this)` -/
  visitChildren : Cursor → Self → VM Self := fun _ v => pure v
  /-- `sbepp::addressof(view)` -/
  addressof : VM Ptr := pure Ptr.null
  /-- `detail::get_header_size(view)` -/
  getHeaderSize : VM Nat := pure 0
  /-- `sbepp::init_cursor(view)` -/
  initCursor : VM Cursor := pure {}
  /-- `sbepp::visit(view, c, visitor)` -/
  visit : Cursor → Self → VM Self := fun _ v => pure v

instance : Inhabited View := ⟨{}⟩

/-- `sbepp::size_bytes_checked_result` -/
structure SbcResult where
  valid : Bool
  size : Nat
  deriving Repr, DecidableEq, Inhabited

/-- `bool validate_and_subtract(const std::size_t n)` -/
def validateAndSubtract (n : Nat) : VM Bool := do
  let size ← load (·.size)
  if decide (size < n) then
    store ({ · with valid := false })
  else
    let size ← load (·.size)
    store ({ · with size := sizeSub size n })
  let valid ← load (·.valid)
  return valid

/-- `bool is_valid() const` -/
def isValid : VM Bool := do
  let valid ← load (·.valid)
  return valid

/-- `std::size_t get_size() const` -/
def getSize : VM Nat := do
  let size ← load (·.size)
  return size

/-- `std::size_t set_group_block_length(const std::size_t block_length)`: returns the previous value -/
def setGroupBlockLength (block_length : Nat) : VM Nat := do
  let prev ← load (·.gbl)
  store ({ · with gbl := block_length })
  return prev

/-- `explicit size_bytes_checked_visitor(const std::size_t size) : size{size}`, `valid{true}`,
    `group_block_length{}` -/
def ctor (size : Nat) : VM Self := do
  store ({ · with size := size })
  store ({ · with valid := true })
  store ({ · with gbl := 0 })
  return Self.this

/-- `bool on_field(T, Tag) const` -/
def onField (_ : View) (_ : Tag) : VM Bool := do
  return false

/-- `bool on_data(T d, Tag)` -/
def onData (d : View) (_ : Tag) : VM Bool := do
  let ok ← validateAndSubtract (View.sizeofSizeType d)
  if !ok then
    return true
  let n ← View.size d
  let ok ← validateAndSubtract n
  return !ok

/-- `bool on_entry(T e, Cursor& c)` -/
def onEntry (e : View) (c : Cursor) : VM Bool := do
  let group_block_length ← load (·.gbl)
  let ok ← validateAndSubtract group_block_length
  if !ok then
    return true
  let _ ← View.visitChildren e c Self.this
  let valid ← isValid
  return !valid

/-- `bool on_group(T g, Cursor& c, Tag)` -/
def onGroup (g : View) (c : Cursor) (_ : Tag) : VM Bool := do
  let header ← View.getHeader g
  let header_size ← Header.sizeBytes header
  let ok ← validateAndSubtract header_size
  if !ok then
    return true
  let bl ← Header.blockLength header
  let prev_block_length ← setGroupBlockLength (Num.value bl)
  let _ ← View.visitChildren g c Self.this
  let _ ← setGroupBlockLength prev_block_length
  let valid ← isValid
  return !valid

/-- `void on_message(T m, Cursor& c, Tag)` -/
def onMessage (m : View) (c : Cursor) (_ : Tag) : VM Unit := do
  let header ← View.getHeader m
  let header_size ← Header.sizeBytes header
  let ok ← validateAndSubtract header_size
  if !ok then
    return ()
  let bl ← Header.blockLength header
  let ok ← validateAndSubtract (Num.value bl)
  if !ok then
    return ()
  let _ ← View.visitChildren m c Self.this
  return ()

/-- `size_bytes_checked_result sbepp::size_bytes_checked(View view, std::size_t size)` -/
def sizeBytesChecked (view : View) (size : Nat) : VM SbcResult := do
  let addr ← View.addressof view
  let reject ← (if !(Ptr.toBool addr) then pure true else do
    let header_size ← View.getHeaderSize view
    pure (decide (size < header_size)))
  if reject then
    return { valid := false, size := 0 }
  let visitor ← ctor size
  let c ← View.initCursor view
  let _ ← View.visit view c visitor
  let valid ← isValid
  if valid then
    let left ← getSize
    return { valid := true, size := sizeSub size left }
  return { valid := false, size := 0 }

/-- what `visit`, the generated `visit_children` and `cursor_range` call on a visitor,
    and the function that drives them -/
structure Ops where
  onMessage : View → Cursor → Tag → VM Unit
  onGroup : View → Cursor → Tag → VM Bool
  onEntry : View → Cursor → VM Bool
  onData : View → Tag → VM Bool
  onField : View → Tag → VM Bool
  sizeBytesChecked : View → Nat → VM SbcResult

/-- the hand-written member functions -/
def ops : Ops :=
  { onMessage := onMessage, onGroup := onGroup, onEntry := onEntry, onData := onData, onField := onField,
    sizeBytesChecked := sizeBytesChecked }

end Visitor

/-! ### the generated code and the cursor around an arbitrary visitor -/
namespace Skel
open Visitor

/-- one callback invocation: counted, then run; `(state, returned value)` -/
def callback (m : VM Bool) (s : St) : St × Bool := ((m s.step).2, (m s.step).1)

/-- the `<data>` view at `p` that `on_data` receives (`len` = the value of its length prefix):
    `sizeof(size_type)` is the width of the prefix, `d.size()` and `size_bytes(d)` read the prefix again -/
def dataView (p lenSize len : Nat) : View :=
  { sizeofSizeType := lenSize
    size := fun s => (len, s.read .dataLength p lenSize)
    sizeBytes := fun s => (dataSizeBytes lenSize len, s.read .dataLength p lenSize) }

/-- the view `on_entry` receives; its `visit_children` is the entry's generated
    `visit_children` (the ghost counter `zeroEntries` is updated on the way in) -/
def entryView (children : St → St × Bool) : View :=
  { visitChildren := fun _ v s => (v, (children (s.noteZero (s.gbl == 0 && s.valid))).1) }

section
variable (V : Ops) (bo : ByteOrder) (buf : List Nat) (lim : Option Nat)

/-- `visitFields` with `on_field` as a callback -/
def fields (start wbl : Nat) (blk : List Access) : List FieldA → St → St × Bool
  | [], s => (s, false)
  | f :: fs, s =>
    let s1 := s.readIf f.isValue .field (start + f.off) f.size
    let s2 := match fs with
      | [] => (s1.readAll blk).setPtr (start + wbl)
      | _ :: _ => s1.setPtr (start + f.off + f.size)
    let r := callback (V.onField {} {}) s2
    if r.2 then r else fields start wbl blk fs r.1

/-- `visitDatas` with `on_data` as a callback -/
def datas (start wbl : Nat) (blk : List Access) : Bool → List DataL → St → St × Bool
  | _, [], s => (s, false)
  | first, d :: ds, s =>
    let s0 := if first then (s.readAll blk).setPtr (start + wbl) else s
    let p := s0.ptr
    let len := rd bo buf p d.lenSize
    let s1 := (s0.read .dataLength p d.lenSize).setPtr (p + dataSizeBytes d.lenSize len)
    let r := callback (V.onData (dataView p d.lenSize len) {}) s1
    if r.2 then r else datas start wbl blk false ds r.1

/-- `onEntryWith` with `on_entry` as a callback -/
def entry (emptyCtor : Bool) (children : Nat → Nat → List Access → St → St × Bool) (bl : Nat) (s : St) : St × Bool :=
  let q := s.ptr
  let s0 := if emptyCtor then s.setPtr (q + bl) else s
  callback (V.onEntry (entryView (children q bl [])) {}) s0

/-- the view `on_group` receives for the group whose dimension header is at `p`: the
    header reads `blockLength`; `visit_children` is the `cursor_range` loop -/
def groupView (dim : Dim) (p : Nat) (loop : Nat → Nat → St → St) : View :=
  { getHeader := pure
      { sizeBytes := pure dim.size,
        blockLength := fun s => (⟨rd bo buf (p + dim.blOff) dim.blSize⟩, s.read .dimBlockLength (p + dim.blOff) dim.blSize) },
    visitChildren := fun _ v s =>
      (v, loop (rd bo buf (p + dim.blOff) dim.blSize) (rd bo buf (p + dim.numOff) dim.numSize)
        ((s.read .dimBlockLength (p + dim.blOff) dim.blSize).read .dimNumInGroup (p + dim.numOff) dim.numSize)) }

mutual
  /-- `visitChildren` -/
  def children : CLevel → Nat → Nat → List Access → St → St × Bool
    | .mk _ fs gs ds, start, wbl, blk, s =>
      let r0 := fields V start wbl blk fs s
      if r0.2 then r0
      else
        let r := groups gs start wbl blk true r0.1
        if r.2 then r else datas V bo buf start wbl blk gs.isEmpty ds r.1
  /-- `visitGroups` -/
  def groups : List CGroup → Nat → Nat → List Access → Bool → St → St × Bool
    | [], _, _, _, _, s => (s, false)
    | g :: gs, start, wbl, blk, first, s =>
      let s0 := if first then (s.readAll blk).setPtr (start + wbl) else s
      let p := s0.ptr
      let r := group g p (s0.setPtr (p + g.dim.size))
      if r.2 then r else groups gs start wbl blk false r.1
  /-- `onGroup` with `on_group` as a callback -/
  def group : CGroup → Nat → St → St × Bool
    | .mk dim l, p, s =>
      callback (V.onGroup (groupView bo buf dim p
        (fun bl num t => loopE lim (entry V l.emptyCtor (children l) bl) num t)) {} {}) s
end

/-- the view `on_message` receives -/
def msgView (m : CMsg) : View :=
  { getHeader := pure
      { sizeBytes := pure m.hdrSize,
        blockLength := fun s => (⟨rd bo buf m.blOff m.blSize⟩, s.read .hdrBlockLength m.blOff m.blSize) },
    visitChildren := fun _ v s =>
      (v, (children V bo buf lim m.level m.hdrSize (rd bo buf m.blOff m.blSize)
        [⟨.hdrBlockLength, m.blOff, m.blSize, 0⟩] s).1) }

/-- the message view `size_bytes_checked` receives (a non-null buffer at offset 0):
    `init_cursor` points behind the header, `visit` calls `on_message` -/
def topMsgView (m : CMsg) : View :=
  { msgView V bo buf lim m with
    addressof := pure ⟨some 0⟩
    getHeaderSize := pure m.hdrSize
    initCursor := fun s => ({}, s.setPtr m.hdrSize)
    visit := fun c v s => (v, (V.onMessage (msgView V bo buf lim m) c {} s.step).2) }

/-- the group view `size_bytes_checked` receives: dimension header at offset 0,
    `init_cursor` points behind it, `visit` calls `on_group` -/
def topGroupView (g : CGroup) : View :=
  { addressof := pure ⟨some 0⟩
    getHeaderSize := pure g.dim.size
    initCursor := fun s => ({}, s.setPtr g.dim.size)
    visit := fun _ v s => (v, (group V bo buf lim g 0 s).1) }

/-- the state before `size_bytes_checked` constructs the visitor -/
def blank : St :=
  { size := 0, valid := false, gbl := 0, ptr := 0, reads := [], steps := 0, zeroEntries := 0, maxPtr := 0, out := false }

/-- returned value + instrumentation -/
def finish (r : SbcResult × St) : Result :=
  { valid := r.1.valid, size := r.1.size, reads := r.2.reads, steps := r.2.steps, zeroEntries := r.2.zeroEntries,
    maxPtr := r.2.maxPtr, out := r.2.out }

/-- `sbepp::size_bytes_checked(message_view, n)` -/
def runMsg (m : CMsg) (n : Nat) : Result := finish (V.sizeBytesChecked (topMsgView V bo buf lim m) n blank)

/-- `sbepp::size_bytes_checked(group_view, n)` -/
def runGroup (g : CGroup) (n : Nat) : Result := finish (V.sizeBytesChecked (topGroupView V bo buf lim g) n blank)

end
end Skel

end Sbepp.Checked
