/-
  Executable model of the cursor runtime of `sbepp.hpp`: class `cursor` and the
  four wrappers `init_cursor_wrapper`, `init_dont_move_cursor_wrapper`,
  `dont_move_cursor_wrapper`, `skip_cursor_wrapper` (10 accessor methods each,
  transliterated statement by statement with every "Wrong cursor value"
  `SBEPP_ASSERT` and every `SBEPP_SIZE_CHECK`), `input_iterator::operator*`
  with the entry constructors (including the generated empty-entry constructor),
  `cursor_range` / `cursor_subrange`.

  Pointers are offsets from the buffer start; the cursor is `Option Nat`
  (`none` = default-constructed `nullptr`).  A view of a level is `LView`:
  `addr` = `view(addressof_tag)`, `lvl` = `view(get_level_tag)` (behind the
  message header; `= addr` for an entry), `wbl` = `view(get_block_length_tag)`,
  `endp` = `view(end_ptr_tag)`, which is `none` exactly when assertions and
  size checks are compiled out (`SBEPP_SIZE_CHECKS_ENABLED` and `SBEPP_ASSERT`
  are switched together).

  Simplifications (stated, not hidden): `view + abs - offset` uses truncated
  subtraction (never negative for generated code: `rel ≤ abs`); the
  random-access getter passed to `get_group_view`/`get_data_view` is the pure
  position function of `Rt.Walk` (its own internal size checks are C10's
  subject); comparing `nullptr + offset` with an address is taken to be false.

  Tie to the C++ text: the 48 accessor methods below are re-translated from
  `sbepp.hpp` on every check run (`extract/methods_cursor.py` →
  `Sbepp.Extracted.CursorMethods`, target language `Rt/CursorDsl.lean`) and
  proved equal to these definitions in `Lemmas/CursorTie.lean`.
-/
import Sbepp.Rt.Walk
import Sbepp.Gen.CursorOffsets

namespace Sbepp.Rt.Cursor
open Sbepp Sbepp.Gen Sbepp.Cursor

inductive Fail
  /-- `SBEPP_ASSERT(... && "Wrong cursor value")` -/
  | wrongCursor
  /-- `SBEPP_SIZE_CHECK` -/
  | sizeCheck
  /-- `cursor_subrange`: `pos < size()`, `count <= size() - pos` -/
  | precondition
  /-- access through a null cursor (only reachable with checks compiled out) -/
  | nullDeref
  /-- the wrapper has no such method (`skip` has no setters): does not compile -/
  | noSuchMethod
  deriving DecidableEq, Repr, Inhabited

/-- result of one accessor call: returned value/view, cursor and buffer afterwards -/
structure Step where
  res : Res
  cur : Option Nat
  buf : List Nat
  deriving DecidableEq, Repr, Inhabited

structure LView where
  addr : Nat
  lvl : Nat
  wbl : Nat
  endp : Option Nat
  deriving DecidableEq, Repr, Inhabited

abbrev Out := Except Fail

/-- `SBEPP_ASSERT(cond && "Wrong cursor value")` -/
def assertCursor (endp : Option Nat) (cond : Bool) : Out Unit :=
  if endp.isSome && !cond then .error .wrongCursor else .ok ()

/-- `(begin) && ((begin) <= (end)) && ((offset + size) <= static_cast<std::size_t>(end - begin))`
    (a view that begins past its end pointer fails the check) -/
def sizeOk (endp : Option Nat) (begin : Option Nat) (off size : Nat) : Bool :=
  match endp with
  | none => true
  | some e =>
    match begin with
    | none => false
    | some b => decide (b ≤ e) && decide (off + size ≤ e - b)

/-- `SBEPP_SIZE_CHECK(begin, end, offset, size)` -/
def sizeCheck (endp : Option Nat) (begin : Option Nat) (off size : Nat) : Out Unit :=
  if sizeOk endp begin off size then .ok () else .error .sizeCheck

def deref (ptr : Option Nat) : Out Nat :=
  match ptr with
  | some p => .ok p
  | none => .error .nullDeref

/-- `(view(addressof_tag) + absolute_offset) == (ptr + offset)` -/
def atField (v : LView) (ptr : Option Nat) (offset abs : Nat) : Bool :=
  ptr.map (· + offset) == some (v.addr + abs)

/-- `getter()(addressof_tag) == ptr` -/
def atAddr (ptr : Option Nat) (a : Nat) : Bool := ptr == some a

/-- `view(get_level_tag) + view(get_block_length_tag)` -/
def LView.blockEnd (v : LView) : Nat := v.lvl + v.wbl

/-! ### sizes of dynamic members as the runtime computes them -/

/-- `g(get_header_tag)`: `SBEPP_SIZE_CHECK(addr, end, 0, size_bytes(header))` -/
def groupHeader (endp : Option Nat) (dim : Dim) (addr : Nat) : Out Unit := sizeCheck endp (some addr) 0 dim.size

/-- `g(size_bytes_tag)` (flat: header + numInGroup × blockLength, nested: header +
    Σ entry sizes; both are `endG − addr`) -/
def groupSizeBytes (bo : ByteOrder) (buf : List Nat) (endp : Option Nat) (g : Group) (addr : Nat) : Out Nat :=
  match groupHeader endp g.dim addr with
  | .error e => .error e
  | .ok () => .ok (endG bo buf g addr - addr)

/-- `d(size_bytes_tag)` = `sizeof(size_type) + size()`, `size()` reads the
    length through `get_value(*this, 0)` -/
def dataSizeBytes (bo : ByteOrder) (buf : List Nat) (endp : Option Nat) (d : DataL) (addr : Nat) : Out Nat :=
  match sizeCheck endp (some addr) 0 d.lenSize with
  | .error e => .error e
  | .ok () => .ok (d.lenSize + rd bo buf addr d.lenSize)

/-! ### class `cursor` -/
namespace C

def get_value (v : LView) (buf : List Nat) (ptr : Option Nat) (offset abs size : Nat) : Out Step := do
  assertCursor v.endp (atField v ptr offset abs)
  sizeCheck v.endp ptr offset size
  let p ← deref ptr
  let res := slice buf (p + offset) size
  .ok ⟨.value res, some (p + offset + size), buf⟩

def set_value (v : LView) (buf : List Nat) (ptr : Option Nat) (offset abs size : Nat) (value : List Nat) : Out Step := do
  assertCursor v.endp (atField v ptr offset abs)
  sizeCheck v.endp ptr offset size
  let p ← deref ptr
  .ok ⟨.void, some (p + offset + size), writeAt buf (p + offset) value⟩

def get_last_value (v : LView) (buf : List Nat) (ptr : Option Nat) (offset abs size : Nat) : Out Step := do
  assertCursor v.endp (atField v ptr offset abs)
  sizeCheck v.endp ptr offset size
  let p ← deref ptr
  let res := slice buf (p + offset) size
  .ok ⟨.value res, some v.blockEnd, buf⟩

def set_last_value (v : LView) (buf : List Nat) (ptr : Option Nat) (offset abs size : Nat) (value : List Nat) : Out Step := do
  assertCursor v.endp (atField v ptr offset abs)
  sizeCheck v.endp ptr offset size
  let p ← deref ptr
  .ok ⟨.void, some v.blockEnd, writeAt buf (p + offset) value⟩

/-- `size` = `res(size_bytes_tag)`, a compile-time constant of the array/composite -/
def get_static_field_view (v : LView) (buf : List Nat) (ptr : Option Nat) (offset abs size : Nat) : Out Step := do
  assertCursor v.endp (atField v ptr offset abs)
  sizeCheck v.endp ptr offset 0
  let p ← deref ptr
  .ok ⟨.view (p + offset), some (p + offset + size), buf⟩

def get_last_static_field_view (v : LView) (buf : List Nat) (ptr : Option Nat) (offset abs _size : Nat) : Out Step := do
  assertCursor v.endp (atField v ptr offset abs)
  sizeCheck v.endp ptr offset 0
  let p ← deref ptr
  .ok ⟨.view (p + offset), some v.blockEnd, buf⟩

def get_first_group_view (v : LView) (buf : List Nat) (_ptr : Option Nat) (dim : Dim) : Out Step := do
  let p := v.blockEnd
  groupHeader v.endp dim p
  .ok ⟨.view p, some (p + dim.size), buf⟩

def get_first_data_view (bo : ByteOrder) (v : LView) (buf : List Nat) (_ptr : Option Nat) (d : DataL) : Out Step := do
  let p := v.blockEnd
  let sz ← dataSizeBytes bo buf v.endp d p
  .ok ⟨.view p, some (p + sz), buf⟩

def get_group_view (v : LView) (buf : List Nat) (ptr : Option Nat) (getter : Nat) (dim : Dim) : Out Step := do
  assertCursor v.endp (atAddr ptr getter)
  let p ← deref ptr
  groupHeader v.endp dim p
  .ok ⟨.view p, some (p + dim.size), buf⟩

def get_data_view (bo : ByteOrder) (v : LView) (buf : List Nat) (ptr : Option Nat) (getter : Nat) (d : DataL) : Out Step := do
  assertCursor v.endp (atAddr ptr getter)
  let p ← deref ptr
  let sz ← dataSizeBytes bo buf v.endp d p
  .ok ⟨.view p, some (p + sz), buf⟩

end C

/-! ### `init_cursor_wrapper` (no position assertion anywhere) -/
namespace I

def get_value (v : LView) (buf : List Nat) (_ptr : Option Nat) (_offset abs size : Nat) : Out Step := do
  sizeCheck v.endp (some v.addr) abs size
  let res := slice buf (v.addr + abs) size
  .ok ⟨.value res, some (v.addr + abs + size), buf⟩

def set_value (v : LView) (buf : List Nat) (_ptr : Option Nat) (_offset abs size : Nat) (value : List Nat) : Out Step := do
  sizeCheck v.endp (some v.addr) abs size
  .ok ⟨.void, some (v.addr + abs + size), writeAt buf (v.addr + abs) value⟩

def get_last_value (v : LView) (buf : List Nat) (_ptr : Option Nat) (_offset abs size : Nat) : Out Step := do
  sizeCheck v.endp (some v.addr) abs size
  let res := slice buf (v.addr + abs) size
  .ok ⟨.value res, some v.blockEnd, buf⟩

def set_last_value (v : LView) (buf : List Nat) (_ptr : Option Nat) (_offset abs size : Nat) (value : List Nat) : Out Step := do
  sizeCheck v.endp (some v.addr) abs size
  .ok ⟨.void, some v.blockEnd, writeAt buf (v.addr + abs) value⟩

def get_static_field_view (v : LView) (buf : List Nat) (_ptr : Option Nat) (_offset abs size : Nat) : Out Step := do
  sizeCheck v.endp (some v.addr) abs 0
  .ok ⟨.view (v.addr + abs), some (v.addr + abs + size), buf⟩

def get_last_static_field_view (v : LView) (buf : List Nat) (_ptr : Option Nat) (_offset abs _size : Nat) : Out Step := do
  sizeCheck v.endp (some v.addr) abs 0
  .ok ⟨.view (v.addr + abs), some v.blockEnd, buf⟩

def get_first_group_view (v : LView) (buf : List Nat) (ptr : Option Nat) (dim : Dim) : Out Step :=
  C.get_first_group_view v buf ptr dim

def get_first_data_view (bo : ByteOrder) (v : LView) (buf : List Nat) (ptr : Option Nat) (d : DataL) : Out Step :=
  C.get_first_data_view bo v buf ptr d

def get_group_view (v : LView) (buf : List Nat) (_ptr : Option Nat) (getter : Nat) (dim : Dim) : Out Step := do
  groupHeader v.endp dim getter
  .ok ⟨.view getter, some (getter + dim.size), buf⟩

def get_data_view (bo : ByteOrder) (v : LView) (buf : List Nat) (_ptr : Option Nat) (getter : Nat) (d : DataL) : Out Step := do
  let sz ← dataSizeBytes bo buf v.endp d getter
  .ok ⟨.view getter, some (getter + sz), buf⟩

end I

/-! ### `init_dont_move_cursor_wrapper` -/
namespace IDM

def get_value (v : LView) (buf : List Nat) (_ptr : Option Nat) (offset abs size : Nat) : Out Step := do
  sizeCheck v.endp (some v.addr) abs size
  .ok ⟨.value (slice buf (v.addr + abs) size), some (v.addr + abs - offset), buf⟩

def set_value (v : LView) (buf : List Nat) (_ptr : Option Nat) (offset abs size : Nat) (value : List Nat) : Out Step := do
  sizeCheck v.endp (some v.addr) abs size
  .ok ⟨.void, some (v.addr + abs - offset), writeAt buf (v.addr + abs) value⟩

def get_last_value (v : LView) (buf : List Nat) (ptr : Option Nat) (offset abs size : Nat) : Out Step :=
  get_value v buf ptr offset abs size

def set_last_value (v : LView) (buf : List Nat) (ptr : Option Nat) (offset abs size : Nat) (value : List Nat) : Out Step :=
  set_value v buf ptr offset abs size value

def get_static_field_view (v : LView) (buf : List Nat) (_ptr : Option Nat) (offset abs _size : Nat) : Out Step := do
  sizeCheck v.endp (some v.addr) abs 0
  .ok ⟨.view (v.addr + abs), some (v.addr + abs - offset), buf⟩

def get_last_static_field_view (v : LView) (buf : List Nat) (ptr : Option Nat) (offset abs size : Nat) : Out Step :=
  get_static_field_view v buf ptr offset abs size

def get_first_group_view (v : LView) (buf : List Nat) (_ptr : Option Nat) (_dim : Dim) : Out Step :=
  .ok ⟨.view v.blockEnd, some v.blockEnd, buf⟩

def get_first_data_view (_bo : ByteOrder) (v : LView) (buf : List Nat) (_ptr : Option Nat) (_d : DataL) : Out Step :=
  .ok ⟨.view v.blockEnd, some v.blockEnd, buf⟩

def get_group_view (_v : LView) (buf : List Nat) (_ptr : Option Nat) (getter : Nat) (_dim : Dim) : Out Step :=
  .ok ⟨.view getter, some getter, buf⟩

def get_data_view (_bo : ByteOrder) (_v : LView) (buf : List Nat) (_ptr : Option Nat) (getter : Nat) (_d : DataL) : Out Step :=
  .ok ⟨.view getter, some getter, buf⟩

end IDM

/-! ### `dont_move_cursor_wrapper` -/
namespace DM

def get_value (v : LView) (buf : List Nat) (ptr : Option Nat) (offset abs size : Nat) : Out Step := do
  assertCursor v.endp (atField v ptr offset abs)
  sizeCheck v.endp ptr offset size
  let p ← deref ptr
  .ok ⟨.value (slice buf (p + offset) size), ptr, buf⟩

def set_value (v : LView) (buf : List Nat) (ptr : Option Nat) (offset abs size : Nat) (value : List Nat) : Out Step := do
  assertCursor v.endp (atField v ptr offset abs)
  sizeCheck v.endp ptr offset size
  let p ← deref ptr
  .ok ⟨.void, ptr, writeAt buf (p + offset) value⟩

def get_last_value (v : LView) (buf : List Nat) (ptr : Option Nat) (offset abs size : Nat) : Out Step := do
  assertCursor v.endp (atField v ptr offset abs)
  sizeCheck v.endp ptr offset size
  let p ← deref ptr
  .ok ⟨.value (slice buf (p + offset) size), ptr, buf⟩

def set_last_value (v : LView) (buf : List Nat) (ptr : Option Nat) (offset abs size : Nat) (value : List Nat) : Out Step := do
  assertCursor v.endp (atField v ptr offset abs)
  sizeCheck v.endp ptr offset size
  let p ← deref ptr
  .ok ⟨.void, ptr, writeAt buf (p + offset) value⟩

def get_static_field_view (v : LView) (buf : List Nat) (ptr : Option Nat) (offset abs _size : Nat) : Out Step := do
  assertCursor v.endp (atField v ptr offset abs)
  sizeCheck v.endp ptr offset 0
  let p ← deref ptr
  .ok ⟨.view (p + offset), ptr, buf⟩

def get_last_static_field_view (v : LView) (buf : List Nat) (ptr : Option Nat) (offset abs _size : Nat) : Out Step := do
  assertCursor v.endp (atField v ptr offset abs)
  sizeCheck v.endp ptr offset 0
  let p ← deref ptr
  .ok ⟨.view (p + offset), ptr, buf⟩

def get_first_group_view (v : LView) (buf : List Nat) (_ptr : Option Nat) (_dim : Dim) : Out Step :=
  .ok ⟨.view v.blockEnd, some v.blockEnd, buf⟩

def get_first_data_view (_bo : ByteOrder) (v : LView) (buf : List Nat) (_ptr : Option Nat) (_d : DataL) : Out Step :=
  .ok ⟨.view v.blockEnd, some v.blockEnd, buf⟩

def get_group_view (v : LView) (buf : List Nat) (ptr : Option Nat) (getter : Nat) (_dim : Dim) : Out Step := do
  assertCursor v.endp (atAddr ptr getter)
  let p ← deref ptr
  .ok ⟨.view p, ptr, buf⟩

def get_data_view (_bo : ByteOrder) (v : LView) (buf : List Nat) (ptr : Option Nat) (getter : Nat) (_d : DataL) : Out Step := do
  assertCursor v.endp (atAddr ptr getter)
  let p ← deref ptr
  .ok ⟨.view p, ptr, buf⟩

end DM

/-! ### `skip_cursor_wrapper` (every method returns `void`; no setters) -/
namespace S

def get_value (v : LView) (buf : List Nat) (ptr : Option Nat) (offset abs size : Nat) : Out Step := do
  assertCursor v.endp (atField v ptr offset abs)
  sizeCheck v.endp ptr offset size
  let p ← deref ptr
  .ok ⟨.void, some (p + offset + size), buf⟩

/-- no access through the cursor: with checks compiled out a null cursor is simply overwritten -/
def get_last_value (v : LView) (buf : List Nat) (ptr : Option Nat) (offset abs size : Nat) : Out Step := do
  assertCursor v.endp (atField v ptr offset abs)
  sizeCheck v.endp ptr offset size
  .ok ⟨.void, some v.blockEnd, buf⟩

def get_static_field_view (v : LView) (buf : List Nat) (ptr : Option Nat) (offset abs size : Nat) : Out Step := do
  assertCursor v.endp (atField v ptr offset abs)
  sizeCheck v.endp ptr offset 0
  let p ← deref ptr
  .ok ⟨.void, some (p + offset + size), buf⟩

def get_last_static_field_view (v : LView) (buf : List Nat) (ptr : Option Nat) (offset abs _size : Nat) : Out Step := do
  assertCursor v.endp (atField v ptr offset abs)
  sizeCheck v.endp ptr offset 0
  .ok ⟨.void, some v.blockEnd, buf⟩

/-- moves past the *whole* group (`g(size_bytes_tag)`), not only its header -/
def get_first_group_view (bo : ByteOrder) (v : LView) (buf : List Nat) (_ptr : Option Nat) (g : Group) : Out Step := do
  let p := v.blockEnd
  let sz ← groupSizeBytes bo buf v.endp g p
  .ok ⟨.void, some (p + sz), buf⟩

def get_first_data_view (bo : ByteOrder) (v : LView) (buf : List Nat) (_ptr : Option Nat) (d : DataL) : Out Step := do
  let p := v.blockEnd
  let sz ← dataSizeBytes bo buf v.endp d p
  .ok ⟨.void, some (p + sz), buf⟩

def get_group_view (bo : ByteOrder) (v : LView) (buf : List Nat) (ptr : Option Nat) (getter : Nat) (g : Group) : Out Step := do
  assertCursor v.endp (atAddr ptr getter)
  let p ← deref ptr
  let sz ← groupSizeBytes bo buf v.endp g p
  .ok ⟨.void, some (p + sz), buf⟩

def get_data_view (bo : ByteOrder) (v : LView) (buf : List Nat) (ptr : Option Nat) (getter : Nat) (d : DataL) : Out Step := do
  assertCursor v.endp (atAddr ptr getter)
  let p ← deref ptr
  let sz ← dataSizeBytes bo buf v.endp d p
  .ok ⟨.void, some (p + sz), buf⟩

end S

/-! ### what the generated accessors call -/

/-- `m.field(W(c))` for the non-constant field with accessor constants `a` -/
def stepField (w : Wrapper) (v : LView) (buf : List Nat) (ptr : Option Nat) (a : Acc) : Out Step :=
  match w, a.isView, a.last with
  | .plain, false, false => C.get_value v buf ptr a.rel a.abs a.size
  | .plain, false, true => C.get_last_value v buf ptr a.rel a.abs a.size
  | .plain, true, false => C.get_static_field_view v buf ptr a.rel a.abs a.size
  | .plain, true, true => C.get_last_static_field_view v buf ptr a.rel a.abs a.size
  | .init, false, false => I.get_value v buf ptr a.rel a.abs a.size
  | .init, false, true => I.get_last_value v buf ptr a.rel a.abs a.size
  | .init, true, false => I.get_static_field_view v buf ptr a.rel a.abs a.size
  | .init, true, true => I.get_last_static_field_view v buf ptr a.rel a.abs a.size
  | .initDontMove, false, false => IDM.get_value v buf ptr a.rel a.abs a.size
  | .initDontMove, false, true => IDM.get_last_value v buf ptr a.rel a.abs a.size
  | .initDontMove, true, false => IDM.get_static_field_view v buf ptr a.rel a.abs a.size
  | .initDontMove, true, true => IDM.get_last_static_field_view v buf ptr a.rel a.abs a.size
  | .dontMove, false, false => DM.get_value v buf ptr a.rel a.abs a.size
  | .dontMove, false, true => DM.get_last_value v buf ptr a.rel a.abs a.size
  | .dontMove, true, false => DM.get_static_field_view v buf ptr a.rel a.abs a.size
  | .dontMove, true, true => DM.get_last_static_field_view v buf ptr a.rel a.abs a.size
  | .skip, false, false => S.get_value v buf ptr a.rel a.abs a.size
  | .skip, false, true => S.get_last_value v buf ptr a.rel a.abs a.size
  | .skip, true, false => S.get_static_field_view v buf ptr a.rel a.abs a.size
  | .skip, true, true => S.get_last_static_field_view v buf ptr a.rel a.abs a.size

/-- `m.field(value, W(c))` (scalar, enum or set field) -/
def stepSet (w : Wrapper) (v : LView) (buf : List Nat) (ptr : Option Nat) (a : Acc) (value : List Nat) : Out Step :=
  match w, a.last with
  | .plain, false => C.set_value v buf ptr a.rel a.abs a.size value
  | .plain, true => C.set_last_value v buf ptr a.rel a.abs a.size value
  | .init, false => I.set_value v buf ptr a.rel a.abs a.size value
  | .init, true => I.set_last_value v buf ptr a.rel a.abs a.size value
  | .initDontMove, false => IDM.set_value v buf ptr a.rel a.abs a.size value
  | .initDontMove, true => IDM.set_last_value v buf ptr a.rel a.abs a.size value
  | .dontMove, false => DM.set_value v buf ptr a.rel a.abs a.size value
  | .dontMove, true => DM.set_last_value v buf ptr a.rel a.abs a.size value
  | .skip, _ => .error .noSuchMethod

/-- `m.group_k(W(c))`: the first group calls `get_first_group_view`, a later one
    `get_group_view(*this, [this]{ return this->group_k(); })` -/
def stepGroup (w : Wrapper) (bo : ByteOrder) (v : LView) (buf : List Nat) (ptr : Option Nat)
    (gs : List Group) (k : Nat) (g : Group) : Out Step :=
  match k with
  | 0 =>
    match w with
    | .plain => C.get_first_group_view v buf ptr g.dim
    | .init => I.get_first_group_view v buf ptr g.dim
    | .initDontMove => IDM.get_first_group_view v buf ptr g.dim
    | .dontMove => DM.get_first_group_view v buf ptr g.dim
    | .skip => S.get_first_group_view bo v buf ptr g
  | _ + 1 =>
    let getter := groupPos bo buf gs v.lvl v.wbl k
    match w with
    | .plain => C.get_group_view v buf ptr getter g.dim
    | .init => I.get_group_view v buf ptr getter g.dim
    | .initDontMove => IDM.get_group_view v buf ptr getter g.dim
    | .dontMove => DM.get_group_view v buf ptr getter g.dim
    | .skip => S.get_group_view bo v buf ptr getter g

/-- `m.data_k(W(c))`: `get_first_data_view` iff it is the first data member of a
    level without groups -/
def stepData (w : Wrapper) (bo : ByteOrder) (v : LView) (buf : List Nat) (ptr : Option Nat)
    (l : Level) (k : Nat) (d : DataL) : Out Step :=
  if k = 0 ∧ l.groups.isEmpty then
    match w with
    | .plain => C.get_first_data_view bo v buf ptr d
    | .init => I.get_first_data_view bo v buf ptr d
    | .initDontMove => IDM.get_first_data_view bo v buf ptr d
    | .dontMove => DM.get_first_data_view bo v buf ptr d
    | .skip => S.get_first_data_view bo v buf ptr d
  else
    let getter := dataPos bo buf l v.lvl v.wbl k
    match w with
    | .plain => C.get_data_view bo v buf ptr getter d
    | .init => I.get_data_view bo v buf ptr getter d
    | .initDontMove => IDM.get_data_view bo v buf ptr getter d
    | .dontMove => DM.get_data_view bo v buf ptr getter d
    | .skip => S.get_data_view bo v buf ptr getter d

/-! ### cursor ranges -/

/-- a `cursor_range` object: entries' block length, start index, length -/
structure Range where
  bl : Nat
  start : Nat
  len : Nat
  deriving DecidableEq, Repr, Inhabited

/-- `g.cursor_range(c)`: `{c, header.blockLength().value(), end, 0, size()}` -/
def cursorRange (bo : ByteOrder) (buf : List Nat) (endp : Option Nat) (dim : Dim) (gaddr : Nat) : Out Range := do
  groupHeader endp dim gaddr
  .ok ⟨rd bo buf (gaddr + dim.blOff) dim.blSize, 0, rd bo buf (gaddr + dim.numOff) dim.numSize⟩

/-- `static_cast<size_type>(a - b)` for two values of the `w`-bit unsigned `size_type`
    (`a - b` is computed in `int` for 8/16-bit types and converted back: modular) -/
def subIndex (w a b : Nat) : Nat := if b ≤ a then a - b else (a + 2 ^ w - b) % 2 ^ w

/-- width in bits of `size_type` (the type of `numInGroup`) -/
def indexBits (dim : Dim) : Nat := 8 * dim.numSize

/-- `g.cursor_subrange(c, pos)`; the length is `static_cast<size_type>(size() - pos)` -/
def cursorSubrange1 (bo : ByteOrder) (buf : List Nat) (endp : Option Nat) (dim : Dim) (gaddr pos : Nat) : Out Range := do
  groupHeader endp dim gaddr
  let size := rd bo buf (gaddr + dim.numOff) dim.numSize
  if endp.isSome && !decide (pos < size) then .error .precondition
  else .ok ⟨rd bo buf (gaddr + dim.blOff) dim.blSize, pos, subIndex (indexBits dim) size pos⟩

/-- `g.cursor_subrange(c, pos, count)` -/
def cursorSubrange2 (bo : ByteOrder) (buf : List Nat) (endp : Option Nat) (dim : Dim) (gaddr pos count : Nat) : Out Range := do
  groupHeader endp dim gaddr
  let size := rd bo buf (gaddr + dim.numOff) dim.numSize
  if endp.isSome && !decide (pos < size) then .error .precondition
  else if endp.isSome && !decide (count ≤ size - pos) then .error .precondition
  else .ok ⟨rd bo buf (gaddr + dim.blOff) dim.blSize, pos, count⟩

/-- the range object a group view hands out -/
def mkRange (bo : ByteOrder) (buf : List Nat) (endp : Option Nat) (dim : Dim) (gaddr : Nat) : RangeKind → Out Range
  | .all => cursorRange bo buf endp dim gaddr
  | .sub pos => cursorSubrange1 bo buf endp dim gaddr pos
  | .subn pos count => cursorSubrange2 bo buf endp dim gaddr pos count

/-- `*it` of a cursor range: `Entry{*cursor, end, block_length}`.  A non-empty
    entry class inherits `entry_base(cursor&, end, block_length)`, which only
    copies the pointer; an entry class without any declared member has the
    generated constructor that checks `block_length` bytes and advances the
    cursor by `block_length`. -/
def derefEntry (emptyCtor : Bool) (endp : Option Nat) (ptr : Option Nat) (bl : Nat) : Out (LView × Option Nat) :=
  match ptr with
  | none => .error .nullDeref
  | some p =>
    let ev : LView := ⟨p, p, bl, endp⟩
    if emptyCtor then
      match sizeCheck endp (some p) 0 bl with
      | .error e => .error e
      | .ok () => .ok (ev, some (p + bl))
    else .ok (ev, some p)

/-! ### the iterators of a cursor range, `cursor_begin` / `cursor_end`, and the `visit_children` loop
    (hand definitions added for the method-level translator tie, `extract/methods_group.py` →
    `Sbepp.Extracted.GroupMethods`, `Lemmas/GroupTie.lean`) -/

/-- an `input_iterator` of a cursor range: position and the entries' block length
    (the cursor it dereferences and the end pointer are the shared state `cur` / `endp`) -/
structure InIter where
  index : Nat
  bl : Nat
  deriving DecidableEq, Repr, Inhabited

/-- `r.begin()`: `{start_pos, cursor, block_length, end_ptr}` -/
def Range.begin (r : Range) : InIter := ⟨r.start, r.bl⟩

/-- `r.end()`: `{static_cast<IndexType>(start_pos + size()), cursor, block_length, end_ptr}`, `w` = width of `IndexType` -/
def Range.end_ (w : Nat) (r : Range) : InIter := ⟨(r.start + r.len) % 2 ^ w, r.bl⟩

/-- `++it`: `index++` in the `w`-bit unsigned `IndexType` -/
def InIter.inc (w : Nat) (it : InIter) : InIter := ⟨(it.index + 1) % 2 ^ w, it.bl⟩

/-- `a == b`: `lhs.index == rhs.index` -/
def InIter.eq (a b : InIter) : Bool := a.index == b.index

/-- `a != b` -/
def InIter.ne (a b : InIter) : Bool := a.index != b.index

/-- `g.cursor_begin(c)` is `cursor_range(c).begin()` -/
def cursorBegin (bo : ByteOrder) (buf : List Nat) (endp : Option Nat) (dim : Dim) (gaddr : Nat) : Out InIter := do
  let r ← cursorRange bo buf endp dim gaddr
  .ok r.begin

/-- `g.cursor_end(c)` is `cursor_range(c).end()` -/
def cursorEnd (bo : ByteOrder) (buf : List Nat) (endp : Option Nat) (dim : Dim) (gaddr : Nat) : Out InIter := do
  let r ← cursorRange bo buf endp dim gaddr
  .ok (r.end_ (indexBits dim))

/-- the loop of `g(visit_children_tag, v, c)`: `n` more entries;
    `onEntry entry cur v` is `v.on_entry(entry, c)` (result, cursor and visitor afterwards) -/
def visitLoop {σ : Type} (emptyCtor : Bool) (endp : Option Nat) (bl : Nat)
    (onEntry : LView → Option Nat → σ → Out (Bool × Option Nat × σ)) : Nat → Option Nat → σ → Out (Bool × Option Nat × σ)
  | 0, c, v => .ok (false, c, v)
  | n + 1, c, v =>
    match derefEntry emptyCtor endp c bl with
    | .error e => .error e
    | .ok (ev, c') =>
      match onEntry ev c' v with
      | .error e => .error e
      | .ok (r, c'', v') => if r then .ok (true, c'', v') else visitLoop emptyCtor endp bl onEntry n c'' v'

/-- `g(visit_children_tag, v, c)`: `for(const auto entry : this->cursor_range(c)) if(v.on_entry(entry, c)) return true; return false;` -/
def visitChildren {σ : Type} (emptyCtor : Bool) (bo : ByteOrder) (buf : List Nat) (endp : Option Nat) (dim : Dim) (gaddr : Nat)
    (onEntry : LView → Option Nat → σ → Out (Bool × Option Nat × σ)) (c : Option Nat) (v : σ) :
    Out (Bool × Option Nat × σ) := do
  let r ← cursorRange bo buf endp dim gaddr
  visitLoop emptyCtor endp r.bl onEntry r.len c v

/-- `sbepp::init_cursor(m)`: `addressof(m) + header size` -/
def initCursor (v : LView) : Option Nat := some v.lvl

/-- the view `make_view<M>(buf, n)` of a message at offset `addr` whose header
    has `hdrSize` bytes and carries `blockLength` at `(blOff, blSize)` -/
def messageView (bo : ByteOrder) (buf : List Nat) (addr hdrSize blOff blSize : Nat) (endp : Option Nat) : LView :=
  ⟨addr, addr + hdrSize, rd bo buf (addr + blOff) blSize, endp⟩

/-! ### complete in-order traversal (what `visit`-style code and the documentation's
    example do): every field, then every group with all its entries through
    `cursor_range`, then every data member, all with the plain cursor -/

def iterE {α ε : Type} (f : α → Except ε α) : Nat → α → Except ε α
  | 0, a => .ok a
  | n + 1, a =>
    match f a with
    | .error e => .error e
    | .ok b => iterE f n b

def travFields (v : LView) (buf : List Nat) : List Acc → Option Nat → Out (Option Nat)
  | [], cur => .ok cur
  | a :: rest, cur =>
    match stepField .plain v buf cur a with
    | .error e => .error e
    | .ok s => travFields v buf rest s.cur

def travDs (bo : ByteOrder) (v : LView) (buf : List Nat) (l : Level) : List DataL → Nat → Option Nat → Out (Option Nat)
  | [], _, cur => .ok cur
  | d :: rest, k, cur =>
    match stepData .plain bo v buf cur l k d with
    | .error e => .error e
    | .ok s => travDs bo v buf l rest (k + 1) s.cur

mutual
  def travL (bo : ByteOrder) (buf : List Nat) : GLevel → LView → Option Nat → Out (Option Nat)
    | .mk accs ec bl lv gs ds, v, cur =>
      match travFields v buf accs cur with
      | .error e => .error e
      | .ok c1 =>
        match travGs bo buf (eraseGGs gs) gs 0 v c1 with
        | .error e => .error e
        | .ok c2 => travDs bo v buf (GLevel.mk accs ec bl lv gs ds).erase ds 0 c2
  def travGs (bo : ByteOrder) (buf : List Nat) (all : List Group) : List GGroup → Nat → LView → Option Nat → Out (Option Nat)
    | [], _, _, cur => .ok cur
    | g :: rest, k, v, cur =>
      match travG bo buf all g k v cur with
      | .error e => .error e
      | .ok c => travGs bo buf all rest (k + 1) v c
  /-- `auto g = m.g(c); for(auto e : g.cursor_range(c)) { ...e's members... }` -/
  def travG (bo : ByteOrder) (buf : List Nat) (all : List Group) : GGroup → Nat → LView → Option Nat → Out (Option Nat)
    | .mk dim l, k, v, cur =>
      match stepGroup .plain bo v buf cur all k (.mk dim l.erase) with
      | .error e => .error e
      | .ok s =>
        match s.res with
        | .view gaddr =>
          match cursorRange bo buf v.endp dim gaddr with
          | .error e => .error e
          | .ok r =>
            iterE (fun c =>
              match derefEntry l.emptyCtor v.endp c r.bl with
              | .error e => .error e
              | .ok (ev, c') => travL bo buf l ev c') r.len s.cur
        | _ => .error .noSuchMethod
end

end Sbepp.Rt.Cursor
