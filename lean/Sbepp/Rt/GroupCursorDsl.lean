import Sbepp.Rt.CursorDsl

/-
  Target language of the group-method translator (`extract/methods_group.py`), part 2: the cursor-range members (`cursor_range`, `cursor_subrange`, `cursor_begin`, `cursor_end`,
  `visit_children`), class `cursor_range`, `input_iterator` and the `entry_base` constructors, for the
  model of `Rt/Cursor.lean` (C04).  Values are `Nat` (sizes, positions), `Ptr = Option Nat` (`Byte*`),
  the monad is `Out`; checks are enabled exactly when the view's end pointer `endp` is `some _`; the
  group header is read from `buf` at `gaddr` through the dimension description `dim`.
-/
namespace Sbepp.Rt.Cursor.GroupDsl
open Sbepp Sbepp.Rt.Cursor Sbepp.Rt.Cursor.Dsl

/-- `SBEPP_ASSERT(cond)` of a group member function (a documented precondition); the argument is not
    evaluated in unchecked builds -/
def assertPre (endp : Option Nat) (cond : Out Bool) : Out Unit :=
  if endp.isSome then
    match cond with
    | .error e => .error e
    | .ok c => if c then .ok () else .error .precondition
  else .ok ()

/-- `header.numInGroup().value()` of the header object obtained through `(*this)(get_header_tag{})`
    (generated accessor of the dimension composite: `get_value` at the field's offset) -/
def numInGroup (bo : ByteOrder) (buf : List Nat) (dim : Dim) (gaddr : Nat) (_header : Unit) : Nat :=
  rd bo buf (gaddr + dim.numOff) dim.numSize

/-- `header.blockLength().value()` -/
def blockLength (bo : ByteOrder) (buf : List Nat) (dim : Dim) (gaddr : Nat) (_header : Unit) : Nat :=
  rd bo buf (gaddr + dim.blOff) dim.blSize

/-- `static_cast<IndexType>(a + b)` for the `w`-bit unsigned index type -/
def addIndex (w a b : Nat) : Nat := (a + b) % 2 ^ w

/-- `static_cast<IndexType>(n)` -/
def castIndex (w n : Nat) : Nat := n % 2 ^ w

/-- `Entry{ptr, end, block_length}` through `entry_base(Byte*, Byte*, BlockLengthType)`:
    `byte_range{ptr, end}` and the block length; the level pointer of an entry is its address -/
def mkEntry (ptr : Ptr) (endp : Option Nat) (bl : Nat) : Out LView :=
  match ptr with
  | none => .error .nullDeref
  | some p => .ok ⟨p, p, bl, endp⟩

/-- `Entry{*cursor, end, block_length}`: an entry class with declared members inherits the
    `entry_base(cursor&, Byte*, BlockLengthType)` constructor (`base`); an entry class without any
    member has the *generated* constructor that checks `block_length` bytes at the cursor and
    advances the cursor by `block_length` -/
def entryFromCursor (emptyCtor : Bool) (base : Ptr → Option Nat → Nat → Out LView) (c : Ptr)
    (endp : Option Nat) (bl : Nat) : Out (LView × Ptr) :=
  match base c endp bl with
  | .error e => .error e
  | .ok ev =>
    if emptyCtor then
      match sizeCheck endp c 0 bl with
      | .error e => .error e
      | .ok () => .ok (ev, padd c bl)
    else .ok (ev, c)

/-- range-`for` over a cursor range with a body that may `return` early:
    `auto it = r.begin(), e = r.end(); for(; it != e; ++it) { const auto entry = *it; body }`.
    `body entry cur s` yields `(some r, …)` for `return r`.  `fuel` bounds the iterations. -/
def forRange {σ ρ : Type} (ne : InIter → InIter → Bool) (inc : InIter → InIter)
    (deref : Ptr → InIter → Out (LView × Ptr)) (e : InIter)
    (body : LView → Ptr → σ → Out (Option ρ × Ptr × σ)) :
    Nat → InIter → Ptr → σ → Out (Option ρ × Ptr × σ)
  | 0, _, c, s => .ok (none, c, s)
  | fuel + 1, it, c, s =>
    if ne it e then
      match deref c it with
      | .error err => .error err
      | .ok (entry, c') =>
        match body entry c' s with
        | .error err => .error err
        | .ok (some r, c'', s') => .ok (some r, c'', s')
        | .ok (none, c'', s') => forRange ne inc deref e body fuel (inc it) c'' s'
    else .ok (none, c, s)

end Sbepp.Rt.Cursor.GroupDsl
