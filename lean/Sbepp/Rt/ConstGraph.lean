/-
  C11 — model of how constness of the byte type flows through sbepp's
  reference-semantics types.

  * `Byte`: the six byte types a view / cursor can be instantiated with and
    `conv` = `std::is_convertible<From*, To*>` restricted to them
    ([conv.qual]: a qualification conversion may add `const`; [conv.ptr] has no
    conversion between pointers to different object types, so `char*` does not
    convert to `unsigned char*` or `std::byte*`).
  * `Guard`, `GuardRow`: the shape of the table that `/verif/extract/guards.py`
    regenerates from `sbepp.hpp` and from the generator's `fmt` templates
    (`Sbepp/Extracted/Guards.lean`); `canWrite` says whether an overload can
    perform a buffer write for a given (view byte, cursor byte) pair, following
    calls to other mutators.
  * `Node`/`Edge`/`Reach`: what a program can obtain from a view and a cursor
    it holds: child views through accessors (random access: the child has the
    parent's byte type; cursor based: the child has the *cursor's* byte type and
    the accessor exists only if `ViewByte*` converts to `CursorByte*`), implicit
    conversions, `init_cursor`/`init_const_cursor`, cursor wrappers,
    `make_const_view`, tag based access (which forwards to the same accessors).
    `Mut` are the mutators; whether one is enabled at a node is computed from
    the extracted table.

  SFINAE and overload resolution themselves are the compiler's; the compile
  probes of the C11 check observe that the compilers agree with `conv`, with
  `Guard.admits` and with `enabledAt`.
-/
import Sbepp.Rt.Walk
import Sbepp.Spec.Observe

namespace Sbepp.Rt.ConstGraph

/-! ### byte types -/

inductive Base | char | uchar | byte
  deriving DecidableEq, Repr

structure Byte where
  base : Base
  const : Bool
  deriving DecidableEq, Repr

def Byte.all : List Byte :=
  [⟨.char, false⟩, ⟨.char, true⟩, ⟨.uchar, false⟩, ⟨.uchar, true⟩, ⟨.byte, false⟩, ⟨.byte, true⟩]

def Byte.addConst (b : Byte) : Byte := ⟨b.base, true⟩

/-- C++ spelling (used by the correspondence probes) -/
def Byte.cpp (b : Byte) : String :=
  (if b.const then "const " else "") ++
    (match b.base with | .char => "char" | .uchar => "unsigned char" | .byte => "std::byte")

/-- `std::is_convertible<From*, To*>::value` -/
def conv (f t : Byte) : Bool := f.base == t.base && (!f.const || t.const)

/-! ### guard table -/

inductive Origin | runtime | generator
  deriving DecidableEq, Repr

inductive Scope
  | api        -- public member of a view class, generated accessor, documented free function
  | internal   -- private member, undocumented cursor protocol, `detail::` helper
  deriving DecidableEq, Repr

/-- the handle through which a body writes directly -/
inductive Handle
  | element     -- `element_type&` / `element_type*` = `apply_cv_qualifiers_t<Byte, Value>`: const iff the view byte is
  | viewPtr     -- a `Byte*` of the view (`view(addressof_tag{})`, `(*this)(addressof_tag{})`, a `Byte*` parameter)
  | cursorPtr   -- the `Byte*` of the cursor (`ptr`, `cursor->pointer()`)
  deriving DecidableEq, Repr

inductive Guard
  | none
  | writable           -- `enable_if_writable_t<Byte, …>` or an inline `!std::is_const<Byte>::value && …`
  | cursorWriteable    -- `enable_if_cursor_writeable_t<Byte, cursor_byte_type_t<Cursor>>`
  | cursorCompatible   -- `enable_if_cursor_compatible_t<Byte, CursorByte>`
  | convertible        -- `enable_if_convertible_t<Byte2, Byte>` (converting constructors)
  | constByteElement   -- no SFINAE: the body writes through an element handle, ill-formed when instantiated for const bytes
  | constBytePointer   -- no SFINAE: the body passes a `Byte*` to `set_primitive`/`memcpy`
  | delegated          -- no SFINAE: every write is a call of another mutator (hard error when that call has no viable overload)
  | forwarded          -- expression SFINAE: trailing `decltype(callee(args…))`
  | misdirected        -- one of the `enable_if_*` guards with its arguments in an unexpected order
  deriving DecidableEq, Repr

structure GuardRow where
  id : Nat
  origin : Origin
  cls : String
  name : String
  sig : String
  line : Nat
  scope : Scope
  usesCursor : Bool
  takesOtherByte : Bool        -- takes another instantiation of the same template (`X<Byte2>`)
  guard : Guard
  direct : List Handle
  callees : List Nat            -- ids of the (writing) rows a call in the body may resolve to
  calleeNames : List String
  keys : List String
  writes : Bool
  deriving Repr

/-- the template-header condition for view byte `vb` and cursor byte `cb` -/
def Guard.admits (g : Guard) (vb cb : Byte) : Bool :=
  match g with
  | .writable => !vb.const
  | .cursorWriteable => conv vb cb && !vb.const && !cb.const
  | .cursorCompatible => conv vb cb
  | _ => true

/-- a write through this handle is well-formed -/
def Handle.mutable (h : Handle) (vb cb : Byte) : Bool :=
  match h with
  | .element => !vb.const
  | .viewPtr => !vb.const
  | .cursorPtr => !cb.const

def lookup (rows : List GuardRow) (i : Nat) : Option GuardRow := rows.find? (fun r => r.id == i)

/-- can this overload perform a buffer write when instantiated for `(vb, cb)`?
    Out of fuel counts as "yes", so that a rejection claim can never be proved
    by exhausting the fuel. -/
def canWrite (rows : List GuardRow) : Nat → GuardRow → Byte → Byte → Bool
  | 0, _, _, _ => true
  | fuel + 1, r, vb, cb =>
    r.guard.admits vb cb &&
      (r.direct.any (fun h => h.mutable vb cb) ||
        r.callees.any (fun i => match lookup rows i with
          | some r' => canWrite rows fuel r' vb cb
          | none => true))

/-! ### conversion / accessor graph -/

inductive Kind | message | group | entry | composite | staticArray | dynArray | elemHandle
  deriving DecidableEq, Repr

inductive Wrapper | plain | init | dontMove | initDontMove | skip
  deriving DecidableEq, Repr

/-- what the program holds: a view of kind `kind` over `vb` bytes and a cursor
    (possibly wrapped) over `cb` bytes -/
structure Node where
  kind : Kind
  vb : Byte
  cb : Byte
  w : Wrapper
  deriving DecidableEq, Repr

/-- child kinds reachable by an accessor call -/
def childKinds : Kind → List Kind
  | .message => [.group, .composite, .staticArray, .dynArray]
  | .entry => [.group, .composite, .staticArray, .dynArray]
  | .group => [.entry, .composite]          -- entries; the dimension header (`get_header`)
  | .composite => [.composite, .staticArray]
  | .staticArray => [.staticArray, .elemHandle]   -- `raw()`; `data()`, iterators, `operator[]`, `front`, `back`
  | .dynArray => [.dynArray, .elemHandle]
  | .elemHandle => []

/-- one thing a program can do with the view and the cursor it holds -/
inductive Step
  /-- random-access accessor, iterator dereference, `get_header`, `raw()`, `data()`: same byte type -/
  | accessor (k : Kind)
  /-- cursor-based accessor / cursor range: exists only if `vb*` converts to `cb*`
      (`enable_if_cursor_compatible_t`); the child is over the *cursor's* byte type -/
  | cursorAccessor (k : Kind)
  /-- `get_by_tag<Tag>(view)`: forwards to the accessor -/
  | byTag (k : Kind)
  /-- `get_by_tag<Tag>(view, cursor)`: forwards to the cursor accessor -/
  | byTagCursor (k : Kind)
  /-- implicit conversion of the view (`byte_range` / `entry_base` converting constructors) -/
  | convertView (b : Byte)
  /-- implicit conversion / assignment of the cursor -/
  | convertCursor (b : Byte)
  /-- `init_cursor(view)`: `cursor<byte_type_t<View>>` -/
  | initCursor
  /-- `init_const_cursor(view)` -/
  | initConstCursor
  /-- `cursor_ops::init / dont_move / init_dont_move / skip (c)`: wrapper over the same byte type -/
  | wrap (w : Wrapper)
  /-- `make_const_view` -/
  | makeConstView
  deriving DecidableEq, Repr

/-- is the call well-formed at this node (SFINAE condition of the accessor /
    converting constructor)? -/
def Step.ok : Step → Node → Bool
  | .accessor k, n => (childKinds n.kind).contains k
  | .byTag k, n => (childKinds n.kind).contains k
  | .cursorAccessor k, n => (childKinds n.kind).contains k && conv n.vb n.cb
  | .byTagCursor k, n => (childKinds n.kind).contains k && conv n.vb n.cb
  | .convertView b, n => conv n.vb b
  | .convertCursor b, n => conv n.cb b
  | _, _ => true

def Step.apply : Step → Node → Node
  | .accessor k, n => ⟨k, n.vb, n.cb, n.w⟩
  | .byTag k, n => ⟨k, n.vb, n.cb, n.w⟩
  | .cursorAccessor k, n => ⟨k, n.cb, n.cb, n.w⟩
  | .byTagCursor k, n => ⟨k, n.cb, n.cb, n.w⟩
  | .convertView b, n => ⟨n.kind, b, n.cb, n.w⟩
  | .convertCursor b, n => ⟨n.kind, n.vb, b, n.w⟩
  | .initCursor, n => ⟨n.kind, n.vb, n.vb, .plain⟩
  | .initConstCursor, n => ⟨n.kind, n.vb, n.vb.addConst, .plain⟩
  | .wrap w, n => ⟨n.kind, n.vb, n.cb, w⟩
  | .makeConstView, n => ⟨n.kind, n.vb.addConst, n.cb, n.w⟩

/-- follow a path; `none` when some call on it does not exist -/
def run : List Step → Node → Option Node
  | [], n => some n
  | s :: ss, n => if s.ok n then run ss (s.apply n) else none

/-- the step obtains its result through the cursor -/
def Step.throughCursor : Step → Bool
  | .cursorAccessor _ | .byTagCursor _ => true
  | _ => false

/-! ### mutators -/

inductive Mut
  | setter | cursorSetter | setByTag | setByTagCursor
  | fillMessageHeader | fillGroupHeader
  | groupResize | groupClear
  | arrayAssign          -- static: assign*/fill; dynamic: assign*/insert/erase/push_back/pop_back/resize/clear
  | elemWrite            -- `*p = x`, `a[i] = x`, `a.front() = x` …
  deriving DecidableEq, Repr

def Mut.all : List Mut :=
  [.setter, .cursorSetter, .setByTag, .setByTagCursor, .fillMessageHeader, .fillGroupHeader, .groupResize,
   .groupClear, .arrayAssign, .elemWrite]

/-- kinds of view that offer the mutator -/
def Mut.kinds : Mut → List Kind
  | .setter | .cursorSetter | .setByTag | .setByTagCursor => [.message, .entry, .composite]
  | .fillMessageHeader => [.message]
  | .fillGroupHeader | .groupResize | .groupClear => [.group]
  | .arrayAssign => [.staticArray, .dynArray]
  | .elemWrite => [.elemHandle]

/-- which extracted overloads implement the mutator (selected by the keys the
    extractor derived from class, name and parameter kinds) -/
def Mut.selects (m : Mut) (k : Kind) (r : GuardRow) : Bool :=
  match m with
  | .setter => r.keys.contains "gen.setter"
  | .cursorSetter => r.keys.contains "gen.cursorSetter"
  | .setByTag => r.keys.contains "sbepp::set_by_tag" && !r.usesCursor
  | .setByTagCursor => r.keys.contains "sbepp::set_by_tag" && r.usesCursor
  | .fillMessageHeader => r.keys.contains "sbepp::fill_message_header" || r.keys.contains "gen.fillMessageHeader"
  | .fillGroupHeader => r.keys.contains "sbepp::fill_group_header" || r.keys.contains "gen.fillGroupHeader"
  | .groupResize => r.keys.contains "flat_group_base::resize" || r.keys.contains "nested_group_base::resize"
  | .groupClear => r.keys.contains "flat_group_base::clear" || r.keys.contains "nested_group_base::clear"
  | .arrayAssign =>
      r.scope == .api && r.writes &&
        (if k == .staticArray then r.cls == "static_array_ref" else r.cls == "dynamic_array_ref")
  | .elemWrite => false

/-- is mutator `m` usable at node `n`, according to the table `rows` (some
    overload of the public surface that implements it can write)?  Writing
    through an element handle is not a function of the library: it is
    well-formed iff the handle's element type is not const. -/
def enabledAt (rows : List GuardRow) (fuel : Nat) (m : Mut) (n : Node) : Bool :=
  m.kinds.contains n.kind &&
    (match m with
     | .elemWrite => Handle.element.mutable n.vb n.cb
     | _ => rows.any (fun r => m.selects n.kind r && r.scope == .api && r.writes && canWrite rows fuel r n.vb n.cb))

/-- mutators that go through the cursor -/
def Mut.viaCursor : Mut → Bool
  | .cursorSetter | .setByTagCursor => true
  | _ => false

/-! ### the non-mutating calls of the Lean runtime models

  `Rt/Walk.lean` and `Spec/Observe.lean` model getters, size queries, iterator
  positioning and complete traversals as pure functions of the buffer.  The
  machine below threads the buffer through a sequence of such calls (and of
  writes, so that the statement "reads leave it unchanged" is not empty). -/

open Sbepp Sbepp.Schema in
/-- a non-mutating call -/
inductive ReadOp
  | getLeaf (pos : Nat) (lf : Leaf)                                   -- field / element getter
  | rd (bo : ByteOrder) (pos w : Nat)                                 -- `size()`, `sbe_size()`, header member getters
  | endL (bo : ByteOrder) (l : Level) (pos wbl : Nat)                 -- `size_bytes` of a message / entry
  | endG (bo : ByteOrder) (g : Group) (p : Nat)                       -- `size_bytes` of a group, `end()`
  | groupPos (bo : ByteOrder) (gs : List Group) (pos wbl k : Nat)     -- group accessor
  | dataPos (bo : ByteOrder) (l : Level) (pos wbl k : Nat)            -- data accessor
  | entryPos (bo : ByteOrder) (g : Group) (p i : Nat)                 -- iterator increment / `operator[]` / cursor range
  | observe (bo : ByteOrder) (pfx : String) (l : NLevel) (pos wbl : Nat)   -- a complete traversal (decode, visit)

/-- what a non-mutating call returns: bytes, a position / size, or printed
    observations — never a buffer -/
inductive ReadResult
  | bytes (bs : List Nat)
  | num (n : Nat)
  | obs (lines : List String)
  deriving DecidableEq, Repr

open Sbepp Sbepp.Schema in
def ReadOp.eval : ReadOp → List Nat → ReadResult
  | .getLeaf pos lf, buf => .bytes (Sbepp.getLeaf buf pos lf)
  | .rd bo pos w, buf => .num (Sbepp.rd bo buf pos w)
  | .endL bo l pos wbl, buf => .num (Sbepp.endL bo buf l pos wbl)
  | .endG bo g p, buf => .num (Sbepp.endG bo buf g p)
  | .groupPos bo gs pos wbl k, buf => .num (Sbepp.groupPos bo buf gs pos wbl k)
  | .dataPos bo l pos wbl k, buf => .num (Sbepp.dataPos bo buf l pos wbl k)
  | .entryPos bo g p i, buf => .num (Sbepp.entryPos bo buf g p i)
  | .observe bo pfx l pos wbl, buf => .obs (Sbepp.Observe.modelL bo buf pfx l pos wbl)

inductive Op
  | read (r : ReadOp)
  | setLeaf (pos : Nat) (lf : Leaf) (bytes : List Nat)     -- the random-access setter of `Rt/Walk.lean`

def Op.isRead : Op → Bool
  | .read _ => true
  | .setLeaf .. => false

structure St where
  buf : List Nat
  log : List ReadResult
  deriving DecidableEq, Repr

def Op.step : Op → St → St
  | .read r, s => ⟨s.buf, s.log ++ [r.eval s.buf]⟩
  | .setLeaf pos lf bytes, s => ⟨Sbepp.setLeaf s.buf pos lf bytes, s.log⟩

def runOps : List Op → St → St
  | [], s => s
  | o :: os, s => runOps os (o.step s)

end Sbepp.Rt.ConstGraph
