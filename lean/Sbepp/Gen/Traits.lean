/-
  Model of what `traits_generator.hpp` / `tags_generator.hpp` emit: for every
  schema entity (keyed by its tag path) the list of (trait name, canonical value
  text) of its `sbepp::*_traits<Tag>` specialisation.

  * tag paths: `schema`, `types.<T>`, `types.<C>.<member>` (nested composites
    add components), `types.<E>.<value>`, `types.<S>.<choice>`,
    `messages.<M>`, `messages.<M>.<group>…<field|group|data>`;
  * text traits are rendered `x<hex of UTF-8>`, numbers decimal, presence /
    byte order / primitive types by their SBE names, tags and tag lists by
    tag paths (lists comma separated, in the order of the emitted
    `sbepp::type_list`), min/max/null values as object representations
    (decimal bit pattern);
  * layout facts come from the validator model `Schema.Resolve`
    (`actualPresence`, encoding sizes through `elemLeaves`, block lengths
    through `fieldLeaves`/`blockLength`, `encPrim`, `isConstElem`); offsets are
    the transliteration of `validate_element_offset` / `validate_field_offset`
    (`context.offset_in_composite`, `context.level_offset`) on top of those
    sizes;
  * `<ref>`: `template<> class X_traits<ref_tag> : public X_traits<target_tag>`
    overriding `name`, `offset`, `since_version` and `deprecated`: with the
    ref's own value when the ref has the attribute, otherwise declared
    `= delete`, which hides the inherited member (no `deprecated` trait).
    Everything else is inherited from the target's traits.
-/
import Sbepp.Schema.Resolve
import Sbepp.Rt.Defaults
import Sbepp.Spec.Traits

namespace Sbepp.Gen.Traits
open Sbepp Sbepp.Schema Sbepp.Spec.Traits

/-- enum values / set choices of an encoding -/
def leafEntities (self : Path) : Elem → List (Path × Entity)
  | .enum _ enc _ vs _ => vs.map (fun v => (self ++ [v.name], Entity.value enc v))
  | .set _ _ _ cs _ => cs.map (fun c => (self ++ [c.name], Entity.choice c))
  | _ => []

mutual
  /-- the entity of an encoding and of everything nested in it (refs have no nested entities:
      their tag derives from the target's tag, so the nested tags are the target's) -/
  def elemEntities (pfx : Path) (before : Option (List Elem)) : Elem → List (Path × Entity)
    | .composite n o elems a =>
      (pfx ++ [n], Entity.elem (.composite n o elems a) before) :: elemsEntities (pfx ++ [n]) [] elems
    | .type t => [(pfx ++ [t.name], Entity.elem (.type t) before)]
    | .ref n ty o a => [(pfx ++ [n], Entity.elem (.ref n ty o a) before)]
    | .enum n enc o vs a =>
      (pfx ++ [n], Entity.elem (.enum n enc o vs a) before) :: leafEntities (pfx ++ [n]) (.enum n enc o vs a)
    | .set n enc o cs a =>
      (pfx ++ [n], Entity.elem (.set n enc o cs a) before) :: leafEntities (pfx ++ [n]) (.set n enc o cs a)
  def elemsEntities (pfx : Path) (before : List Elem) : List Elem → List (Path × Entity)
    | [] => []
    | e :: rest => elemEntities pfx (some before) e ++ elemsEntities pfx (before ++ [e]) rest
end

def fieldEntities (pfx : Path) (before : List FieldDef) : List FieldDef → List (Path × Entity)
  | [] => []
  | f :: rest => (pfx ++ [f.name], Entity.field f before) :: fieldEntities pfx (before ++ [f]) rest

def dataEntities (pfx : Path) (ds : List DataDef) : List (Path × Entity) :=
  ds.map (fun d => (pfx ++ [d.name], Entity.data d))

mutual
  def groupEntities (pfx : Path) : GroupDef → List (Path × Entity)
    | .mk n i d b fields groups datas a =>
      (pfx ++ [n], Entity.group (.mk n i d b fields groups datas a)) ::
        (fieldEntities (pfx ++ [n]) [] fields ++ (groupsEntities (pfx ++ [n]) groups ++ dataEntities (pfx ++ [n]) datas))
  def groupsEntities (pfx : Path) : List GroupDef → List (Path × Entity)
    | [] => []
    | g :: gs => groupEntities pfx g ++ groupsEntities pfx gs
end

def messageEntities (m : MessageDef) : List (Path × Entity) :=
  (["messages", m.name], Entity.message m) ::
    (fieldEntities ["messages", m.name] [] m.fields ++
      (groupsEntities ["messages", m.name] m.groups ++ dataEntities ["messages", m.name] m.datas))

def typesEntities : List Elem → List (Path × Entity)
  | [] => []
  | e :: rest => elemEntities ["types"] none e ++ typesEntities rest

def messagesEntities : List MessageDef → List (Path × Entity)
  | [] => []
  | m :: rest => messageEntities m ++ messagesEntities rest

/-- every entity that has a traits specialisation, with its tag path -/
def entities (s : SchemaDef) : List (Path × Entity) :=
  (["schema"], Entity.schema) :: (typesEntities s.types ++ messagesEntities s.messages)

/-! ### kinds (which `*_traits` template is specialised for the tag) -/

def elemKind (types : List Elem) : Elem → String
  | .type _ => "type"
  | .composite _ _ _ _ => "composite"
  | .enum _ _ _ _ _ => "enum"
  | .set _ _ _ _ _ => "set"
  | .ref _ ty _ _ =>
    match lookup types ty with
    | some (.type _) => "type"
    | some (.composite _ _ _ _) => "composite"
    | some (.enum _ _ _ _ _) => "enum"
    | some (.set _ _ _ _ _) => "set"
    | _ => "none"

def kindOf (types : List Elem) : Entity → String
  | .schema => "schema"
  | .elem e _ => elemKind types e
  | .value _ _ => "enum_value"
  | .choice _ => "set_choice"
  | .message _ => "message"
  | .group _ => "group"
  | .field _ _ => "field"
  | .data _ => "data"

/-- the tag-kind predicates of sbepp.hpp, in declaration order; each tests `X_traits<Tag>` -/
def predicateKinds : List String :=
  ["type", "enum", "enum_value", "set", "set_choice", "composite", "field", "group", "data", "message", "schema"]

/-- value of `is_<k>_tag<Tag>` for every predicate `k`, for a tag of the given kind -/
def predicateVector (kind : String) : List Bool := predicateKinds.map (fun k => k == kind)

def predicateText (kind : String) : String :=
  String.ofList ((predicateVector kind).map (fun b => if b then '1' else '0'))

/-! ### attribute traits (copied from the schema) and children lists -/

/-- tag of the public encoding a type name refers to (names are matched case-insensitively;
    the tag carries the name as declared) -/
def publicTag (types : List Elem) (name : String) : Path :=
  match lookup types name with
  | some e => ["types", e.name]
  | none => ["types", name]

/-- attribute traits of a non-ref encoding whose tag is `self` -/
def encAttrKVs (self : Path) : Elem → List KV
  | .type t =>
    [("name", txt t.name), ("description", txt t.attrs.description), ("presence", presText t.presence),
     ("primitive_type", t.prim), ("length", num (typeLength t)), ("semantic_type", txt t.attrs.semanticType),
     ("since_version", num t.attrs.since), ("character_encoding", txt (t.characterEncoding.getD ""))]
      ++ depr t.attrs
      ++ (if t.presence == .constant && typeLength t == 1 then [] else [("traits_tag", tagText self)])
  | .enum n _ _ vs a =>
    [("name", txt n), ("description", txt a.description), ("since_version", num a.since)] ++ depr a ++
      [("value_tags", tagList (vs.map (fun v => self ++ [v.name]))), ("traits_tag", tagText self)]
  | .set n _ _ cs a =>
    [("name", txt n), ("description", txt a.description), ("since_version", num a.since)] ++ depr a ++
      [("choice_tags", tagList (cs.map (fun c => self ++ [c.name]))), ("traits_tag", tagText self)]
  | .composite n _ elems a =>
    [("name", txt n), ("description", txt a.description), ("semantic_type", txt a.semanticType),
     ("since_version", num a.since)] ++ depr a ++
      [("element_tags", tagList (elems.map (fun e => self ++ [e.name]))), ("traits_tag", tagText self)]
  | .ref _ _ _ _ => []

/-- attribute traits of an encoding: a ref takes the target's and overrides `name`,
    `since_version` and `deprecated` (its own value, or deleted when it has none) -/
def elemAttrKVs (types : List Elem) (self : Path) : Elem → List KV
  | .ref n ty _ a =>
    match lookup types ty with
    | some target =>
      let base := setKV "since_version" (num a.since) (setKV "name" (txt n) (encAttrKVs ["types", target.name] target))
      match a.deprecated with
      | some d => setKV "deprecated" (num d) base
      | none => eraseKV "deprecated" base
    | none => []
  | e => encAttrKVs self e

def levelTagKVs (self : Path) (fields : List FieldDef) (groups : List GroupDef) (datas : List DataDef) : List KV :=
  [("field_tags", tagList (fields.map (fun f => self ++ [f.name]))),
   ("group_tags", tagList (groups.map (fun g => self ++ [(gName g)]))),
   ("data_tags", tagList (datas.map (fun d => self ++ [d.name])))]

def attrKVs (s : SchemaDef) (self : Path) : Entity → List KV
  | .schema =>
    [("package", txt s.package), ("id", num s.id), ("version", num s.version),
     ("semantic_version", txt s.semanticVersion),
     ("byte_order", match s.byteOrder with | .big => "big" | .little => "little"),
     ("description", txt s.description),
     ("type_tags", tagList (s.types.map (fun e => ["types", e.name]))),
     ("message_tags", tagList (s.messages.map (fun m => ["messages", m.name])))]
  | .elem e _ => elemAttrKVs s.types self e
  | .value _ v =>
    [("name", txt v.name), ("description", txt v.attrs.description), ("since_version", num v.attrs.since)] ++ depr v.attrs
  | .choice c =>
    [("name", txt c.name), ("description", txt c.attrs.description), ("since_version", num c.attrs.since)] ++ depr c.attrs
      ++ [("index", num c.index)]
  | .message m =>
    [("name", txt m.name), ("description", txt m.attrs.description), ("id", num m.id),
     ("semantic_type", txt m.attrs.semanticType), ("since_version", num m.attrs.since)] ++ depr m.attrs ++
      [("schema_tag", "schema")] ++ levelTagKVs self m.fields m.groups m.datas ++ [("traits_tag", tagText self)]
  | .group g =>
    [("name", txt (gName g)), ("description", txt (gAttrs g).description), ("id", num (gId g)),
     ("semantic_type", txt (gAttrs g).semanticType), ("since_version", num (gAttrs g).since)] ++ depr (gAttrs g) ++
      levelTagKVs self (gFields g) (gGroups g) (gDatas g) ++ [("traits_tag", tagText self), ("entry_traits_tag", tagText self)]
  | .field f _ =>
    [("name", txt f.name), ("id", num f.id), ("description", txt f.attrs.description),
     ("since_version", num f.attrs.since)] ++ depr f.attrs
  | .data d =>
    [("name", txt d.name), ("id", num d.id), ("description", txt d.attrs.description),
     ("since_version", num d.attrs.since)] ++ depr d.attrs

/-! ### derived traits -/

/-- `context.size` of an encoding: the validator model's size -/
def encSize (types : List Elem) (e : Elem) : Except String Nat :=
  match elemLeaves types FUEL [] 0 e with
  | .ok r => .ok r.1
  | .error err => .error err

/-- explicit offset (checked against the running offset) or the running offset -/
def placeAt (o : Option Nat) (cur : Nat) : Except String Nat :=
  match o with
  | some o => if o < cur then .error s!"custom offset ({o}) is less than minimum possible ({cur})" else .ok o
  | none => .ok cur

/-- `validate_element_offset` folded over the elements preceding the one of interest -/
def runOffset (types : List Elem) : Nat → List Elem → Except String Nat
  | cur, [] => .ok cur
  | cur, e :: rest =>
    if isConstElem types e then runOffset types cur rest
    else
      match placeAt e.offset cur with
      | .error err => .error err
      | .ok off =>
        match encSize types e with
        | .error err => .error err
        | .ok sz => runOffset types (off + sz) rest

/-- `context.offset_in_composite` of an element that follows `before` (unset for constants) -/
def offsetInComposite (types : List Elem) (before : List Elem) (e : Elem) : Except String (Option Nat) :=
  if isConstElem types e then .ok none
  else
    match runOffset types 0 before with
    | .error err => .error err
    | .ok cur =>
      match placeAt e.offset cur with
      | .error err => .error err
      | .ok off => .ok (some off)

def inComposite (types : List Elem) (before : Option (List Elem)) (e : Elem) : Except String (Option Nat) :=
  match before with
  | none => .ok none
  | some b => offsetInComposite types b e

/-- `make_offset_impl(a, b)`: `a` if set, else `b`, else no `offset()` at all -/
def offsetKV (explicit inComp : Option Nat) : List KV :=
  match explicit with
  | some o => [("offset", num o)]
  | none =>
    match inComp with
    | some o => [("offset", num o)]
    | none => []

def fieldSize (types : List Elem) (f : FieldDef) : Except String Nat :=
  if isPrimitive f.type then .ok ((primSize? f.type).getD 0)
  else
    match lookup types f.type with
    | some enc => encSize types enc
    | none => .error s!"field type `{f.type}` doesn't exist"

/-- `validate_field_offset` folded over the fields preceding the one of interest -/
def runFieldOffset (types : List Elem) : Nat → List FieldDef → Except String Nat
  | cur, [] => .ok cur
  | cur, f :: rest =>
    match actualPresence types f with
    | .error err => .error err
    | .ok pres =>
      if pres == .constant then runFieldOffset types cur rest
      else
        match placeAt f.offset cur with
        | .error err => .error err
        | .ok off =>
          match fieldSize types f with
          | .error err => .error err
          | .ok sz => runFieldOffset types (off + sz) rest

/-- `context.level_offset` (value-initialised, i.e. 0, for constant fields) -/
def fieldOffset (types : List Elem) (before : List FieldDef) (f : FieldDef) : Except String Nat :=
  match actualPresence types f with
  | .error err => .error err
  | .ok pres =>
    if pres == .constant then .ok 0
    else
      match runFieldOffset types 0 before with
      | .error err => .error err
      | .ok cur => placeAt f.offset cur

/-- `context.actual_block_length`: the validator model's value -/
def levelBlockLength (types : List Elem) (custom : Option Nat) (fields : List FieldDef) : Except String Nat :=
  match fieldLeaves types 0 fields with
  | .error err => .error err
  | .ok r => blockLength custom r.1

/-- decimal integer as `std::from_chars` reads it (optional `-`, digits only); on
    `List Char` so that the kernel can evaluate it -/
def decInt? (s : String) : Option Int :=
  match s.toList with
  | '-' :: cs => (Spec.Scalar.digitsVal 10 cs).map (fun n => -(n : Int))
  | cs => (Spec.Scalar.digitsVal 10 cs).map (fun n => (n : Int))

/-- the digits part of `utils::strip_leading_zeros`: leading zeros dropped, a text of zeros keeps its last digit -/
def stripDigits (digits : List Char) : List Char :=
  match digits.dropWhile (· == '0') with
  | [] => (match digits.getLast? with | some c => [c] | none => [])
  | r => r

/-- `utils::strip_leading_zeros` (fix d520d30): `std::from_chars` accepts leading zeros but a
    C++ literal with a leading zero is octal, so superfluous zeros are dropped before the
    text is pasted; the sign is kept -/
def stripLeadingZeros (value : String) : String :=
  match value.toList with
  | '-' :: digits => String.ofList ('-' :: stripDigits digits)
  | digits => String.ofList (stripDigits digits)

/-- `utils::to_integer_literal` -/
def toIntegerLiteral (value prim : String) : String :=
  if prim = "int64" then
    match decInt? value with
    | some v =>
      if v < -9223372036854775807 then s!"-9223372036854775807 {v + 9223372036854775807}"
      else stripLeadingZeros value
    | none => stripLeadingZeros value
  else if prim = "uint64" then
    match decInt? value with
    | some v => if v > 9223372036854775807 then stripLeadingZeros value ++ "UL" else stripLeadingZeros value
    | none => stripLeadingZeros value
  else stripLeadingZeros value

open Sbepp.Spec.Scalar in
/-- `value_fits_into_type` for integer types: `std::from_chars` into the C++ type consumes
    the whole text (optional `-`, decimal digits, leading zeros allowed) and the value is in range -/
def valueFits (p : Prim) (lit : String) : Bool :=
  match decInt? lit, primCTy? p with
  | some v, some t => CVal.inRange t v
  | _, _ => false

open Sbepp.Spec.Scalar in
/-- object representation of an explicit `minValue`/`maxValue`/`nullValue`
    (`utils::numeric_literal_to_value` pasted into `return {…};`).  Decimal
    floating literals are evaluated by the C++ compiler, not by the model: they
    are passed through as `lit:<hex of the text>`. -/
def literalValue (p : Prim) (lit : String) : Except String String :=
  if p.isFloat then
    let (eb, mb) := if p == .float then (8, 23) else (11, 52)
    if lit = "NaN" then .ok (num ((2 ^ eb - 1) * 2 ^ mb + 2 ^ (mb - 1)))
    else if lit = "INF" ∨ lit = "+INF" then .ok (num ((2 ^ eb - 1) * 2 ^ mb))
    else if lit = "-INF" then .ok (num (2 ^ (eb + mb) + (2 ^ eb - 1) * 2 ^ mb))
    else .ok ("lit:" ++ SExp.hex (lit.toUTF8.toList.map UInt8.toNat))
  else if !valueFits p lit then .error s!"value `{lit}` cannot be represented by type `{p.name}`"
  else
    match evalLit p (toIntegerLiteral lit p.name) with
    | some b => .ok (num b)
    | none => .error s!"ill-formed initialiser `{lit}`"

open Sbepp.Spec.Scalar in
def boundValue (a : Attr) (explicit : Option String) (prim : String) : Except String String :=
  match Prim.ofName? prim with
  | none => .error s!"unknown primitive type `{prim}`"
  | some p =>
    match explicit with
    | some lit => literalValue p lit
    | none =>
      match Rt.Scalar.genDefault a p with
      | some b => .ok (num b)
      | none => .error s!"no default for `{prim}`"

open Sbepp.Spec.Scalar in
/-- `make_min_max_null_values` -/
def minMaxNull (t : TypeDef) : Except String (List KV) :=
  if t.length == 1 && t.presence != .constant then
    match boundValue .min t.minValue t.prim with
    | .error err => .error err
    | .ok mn =>
      match boundValue .max t.maxValue t.prim with
      | .error err => .error err
      | .ok mx =>
        if t.presence == .optional then
          match boundValue .null t.nullValue t.prim with
          | .error err => .error err
          | .ok nl => .ok [("min_value", mn), ("max_value", mx), ("null_value", nl)]
        else .ok [("min_value", mn), ("max_value", mx)]
  else .ok []

/-- numeric value of an enumerator (`static_cast` of `E::name` to the underlying type); the
    text is pasted through `to_integer_literal`, so leading zeros do not change the value -/
def enumValueText (prim : String) (value : String) : Except String String :=
  if prim = "char" then
    match value.toList with
    | [c] => .ok (toString c.toNat)
    | _ => .error s!"value `{value}` cannot be represented by type `char`"
  else
    match Prim.ofName? prim, decInt? value with
    | some p, some v =>
      if valueFits p value then .ok (toString v)
      else .error s!"value `{value}` cannot be represented by type `{prim}`"
    | _, _ => .error s!"value `{value}` cannot be represented by type `{prim}`"

/-- derived traits of a non-ref encoding; `inComp` = `context.offset_in_composite` -/
def encDerivedKVs (types : List Elem) (inComp : Option Nat) : Elem → Except String (List KV)
  | .type t =>
    match minMaxNull t with
    | .error err => .error err
    | .ok mm => .ok (mm ++ offsetKV t.offset inComp)
  | .enum _ enc o _ _ =>
    match encPrim types enc with
    | .error err => .error err
    | .ok p => .ok (("encoding_type", p) :: offsetKV o inComp)
  | .set _ enc o _ _ =>
    match encPrim types enc with
    | .error err => .error err
    | .ok p => .ok (("encoding_type", p) :: offsetKV o inComp)
  | .composite n o elems a =>
    match encSize types (.composite n o elems a) with
    | .error err => .error err
    | .ok sz => .ok (("size_bytes", num sz) :: offsetKV o inComp)
  | .ref _ _ _ _ => .error "ref at top level"

def elemDerivedKVs (types : List Elem) (before : Option (List Elem)) (e : Elem) : Except String (List KV) :=
  match inComposite types before e with
  | .error err => .error err
  | .ok inComp =>
    match e with
    | .ref _ ty _ _ =>
      match lookup types ty with
      | none => .error s!"encoding `{ty}` doesn't exist"
      | some target =>
        match encDerivedKVs types none target with
        | .error err => .error err
        | .ok base => .ok (setKV "offset" (num (inComp.getD 0)) base)   -- `ref_context::offset_in_composite` is not optional
    | e => encDerivedKVs types inComp e

/-- tag of a built-in type (`sbepp::uint32_t`, `sbepp::uint32_opt_t`: the type is its own tag) -/
def builtinTag (prim : String) (pres : Presence) : Path :=
  ["builtin", if pres == .optional then prim ++ "_opt" else prim]

/-- `value_type_tag` (non-constant fields) and the tag `traits_tag` maps `value_type` to -/
def fieldTypeTagKVs (types : List Elem) (f : FieldDef) (pres : Presence) : List KV :=
  if pres != .constant then
    let tag := if isPrimitive f.type then builtinTag f.type pres else publicTag types f.type
    [("value_type_tag", tagText tag), ("traits_tag", tagText tag)]
  else if isPrimitive f.type then []
  else
    match lookup types f.type with
    | some (.type t) => if typeLength t == 1 then [] else [("traits_tag", tagText ["types", t.name])]
    | some (.enum n _ _ _ _) => [("traits_tag", tagText ["types", n])]
    | _ => []

/-- the `<type>` a level-header member (`length`, `numInGroup`) denotes: inline or through a ref -/
def headerMemberTag (types : List Elem) (header member : String) : Except String (Path × String) :=
  match lookup types header with
  | some (.composite cn _ elems _) =>
    match elems.find? (fun e => e.name == member) with
    | some (.type t) => .ok (["types", cn, t.name], t.prim)
    | some (.ref _ ty _ _) =>
      match lookup types ty with
      | some (.type t) => .ok (["types", t.name], t.prim)
      | _ => .error s!"`{member}` of `{header}` is not a type"
    | _ => .error s!"`{header}` doesn't have `{member}`"
  | _ => .error s!"`{header}` is not a composite"

def derivedKVs (s : SchemaDef) : Entity → Except String (List KV)
  | .schema =>
    match lookup s.types s.headerType with
    | some (.composite n _ _ _) => .ok [("header_type_tag", tagText ["types", n])]
    | _ => .error s!"message header encoding `{s.headerType}` doesn't exist or is not a composite"
  | .elem e before => elemDerivedKVs s.types before e
  | .value enc v =>
    match encPrim s.types enc with
    | .error err => .error err
    | .ok p =>
      match enumValueText p v.value with
      | .error err => .error err
      | .ok t => .ok [("value", t)]
  | .choice _ => .ok []
  | .message m =>
    match levelBlockLength s.types m.blockLength m.fields with
    | .error err => .error err
    | .ok b => .ok [("block_length", num b)]
  | .group g =>
    match levelBlockLength s.types (gBlockLength g) (gFields g) with
    | .error err => .error err
    | .ok b =>
      match lookup s.types (gDim g) with
      | some (.composite n _ _ _) => .ok [("block_length", num b), ("dimension_type_tag", tagText ["types", n])]
      | _ => .error s!"group header encoding `{(gDim g)}` doesn't exist or is not a composite"
  | .field f before =>
    match actualPresence s.types f with
    | .error err => .error err
    | .ok pres =>
      match fieldOffset s.types before f with
      | .error err => .error err
      | .ok off => .ok ([("presence", presText pres), ("offset", num off)] ++ fieldTypeTagKVs s.types f pres)
  | .data d =>
    match headerMemberTag s.types d.type "length" with
    | .error err => .error err
    | .ok (tag, prim) =>
      .ok [("length_type_tag", tagText tag), ("length_type", prim),
           ("size_bytes_0", num ((primSize? prim).getD 0))]

/-! ### the table -/

/-- all traits of one entity: kind, predicate vector, copied attributes, derived traits -/
def rowKVs (s : SchemaDef) (self : Path) (ent : Entity) : Except String (List KV) :=
  match derivedKVs s ent with
  | .error err => .error err
  | .ok d =>
    .ok ([("kind", kindOf s.types ent), ("predicates", predicateText (kindOf s.types ent))] ++ attrKVs s self ent ++ d)

def rowsOf (s : SchemaDef) : List (Path × Entity) → Except String (List Row)
  | [] => .ok []
  | (p, ent) :: rest =>
    match rowKVs s p ent with
    | .error err => .error s!"{tagText p}: {err}"
    | .ok kvs =>
      match rowsOf s rest with
      | .error err => .error err
      | .ok rows => .ok ((p, kvs) :: rows)

/-- trait rows keyed by tag path components -/
def traitRows (s : SchemaDef) : Except String (List Row) := rowsOf s (entities s)

/-- the trait table keyed by tag path text -/
def traitTable (s : SchemaDef) : Except String (List (String × List (String × String))) :=
  match traitRows s with
  | .error err => .error err
  | .ok rows => .ok (rows.map (fun r => (tagText r.1, r.2)))

end Sbepp.Gen.Traits
