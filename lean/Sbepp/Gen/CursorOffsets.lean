/-
  Model of the generator's *second* offset computation, the one that feeds the
  cursor-based accessors (`messages_compiler.hpp::make_fields_cursor_accessors`).

  The random-access accessors use the offsets the validator stored in the
  field contexts (`level_offset + header_size`; model: `Schema.fieldLeaves`,
  here `fieldSpans`, which keeps one entry per *field* instead of one per
  flattened leaf: a composite or array field is ONE cursor member).  The cursor
  accessors do not use them: the generator folds again over the non-constant
  fields, starting from `absolute_offset = 0`, with `get_valid_offset` and the
  encodings' sizes, and emits for every field

      relative_offset = absolute_offset - end of the previous non-constant field
      ABS             = absolute_offset + header_size

  and the `get_last_*` variants for the last non-constant field.

  Also here: `CLevel`, the per-level summary of what the generated class
  contains for cursor purposes (field spans, declared-field count that decides
  whether the empty-entry cursor constructor exists, groups, data members).
-/
import Sbepp.Schema.Resolve

namespace Sbepp.Cursor

/-- the five ways a cursor can be handed to a cursor-based accessor:
    `c`, `cursor_ops::init(c)`, `cursor_ops::dont_move(c)`,
    `cursor_ops::init_dont_move(c)`, `cursor_ops::skip(c)` -/
inductive Wrapper
  | plain | init | dontMove | initDontMove | skip
  deriving DecidableEq, Repr, Inhabited

/-- what a cursor-based accessor returns: a value (its bytes in wire order), a
    view (its address as an offset from the buffer start) or nothing (`skip`,
    setters) -/
inductive Res
  | value (bytes : List Nat)
  | view (addr : Nat)
  | void
  deriving DecidableEq, Repr, Inhabited

/-- the three ways to obtain a cursor range from a group view:
    `g.cursor_range(c)`, `g.cursor_subrange(c, pos)`, `g.cursor_subrange(c, pos, count)` -/
inductive RangeKind
  | all
  | sub (pos : Nat)
  | subn (pos count : Nat)
  deriving DecidableEq, Repr, Inhabited

end Sbepp.Cursor

namespace Sbepp.Gen
open Sbepp Sbepp.Schema

/-- one non-constant field of a level as the validator lays it out -/
structure FieldSpan where
  name : String
  /-- `level_offset` computed by the validator (relative to the level start) -/
  off : Nat
  /-- size of the field's encoding -/
  size : Nat
  /-- the field's `offset` attribute, which the generator reads again -/
  custom : Option Nat
  /-- `true`: array or composite (accessor `get_static_field_view`),
      `false`: scalar, enum or set (`get_value`/`set_value`) -/
  isView : Bool
  /-- the flattened leaves of the field (what `Schema.fieldLeaves` yields) -/
  leaves : List NLeaf
  deriving Repr, Inhabited

/-- which accessor family the generator picks for a non-constant field
    (`is_primitive_type(f.type)` → value; `sbe::type` with `length == 1` → value,
    otherwise array view; enum, set → value; composite → view) -/
def fieldIsView (types : List Elem) (f : FieldDef) : Bool :=
  if isPrimitive f.type then false
  else match lookup types f.type with
    | some (.type t) => t.length != 1
    | some (.composite _ _ _ _) => true
    | _ => false

/-- `validate_members` field loop, one span per non-constant field
    (same recursion as `Schema.fieldLeaves`) -/
def fieldSpans (types : List Elem) : Nat → List FieldDef → Except String (Nat × List FieldSpan)
  | cur, [] => .ok (cur, [])
  | cur, f :: rest => do
    let pres ← actualPresence types f
    if pres == .constant then
      match lookup types f.type with
      | some (.composite _ _ _ _) => .error "composite field can't be a constant"
      | _ => fieldSpans types cur rest
    else
      let off ← (match f.offset with
                 | some o => if o < cur then Except.error s!"custom offset ({o}) is less than minimum possible ({cur})" else .ok o
                 | none => .ok cur)
      let (sz, lv) ← (if isPrimitive f.type then
                        let ps := (primSize? f.type).getD 0
                        Except.ok (ps, [{ path := [f.name], off := off, size := ps, prim := f.type, count := 1, kind := "type" : NLeaf }])
                      else match lookup types f.type with
                        | some enc => elemLeaves types FUEL [f.name] off enc
                        | none => .error s!"field type `{f.type}` doesn't exist")
      if offsetMax < off + sz then .error (overflowMsg off sz)
      else do
        let (total, sp) ← fieldSpans types (off + sz) rest
        .ok (total, { name := f.name, off := off, size := sz, custom := f.offset, isView := fieldIsView types f,
                      leaves := lv } :: sp)

/-! ### the generator's fold -/

/-- what the generator looks at: the `offset` attribute and the encoding size -/
structure CField where
  custom : Option Nat
  size : Nat
  deriving Repr, Inhabited

def FieldSpan.cfield (s : FieldSpan) : CField := ⟨s.custom, s.size⟩

/-- the two numbers baked into a cursor accessor and the last-field flag -/
structure COff where
  rel : Nat
  abs : Nat
  last : Bool
  deriving Repr, Inhabited, DecidableEq

/-- `utils::get_valid_offset` -/
def getValidOffset (offset : Option Nat) (minOffset : Nat) : Except String Nat :=
  match offset with
  | some o => if o ≥ minOffset then .ok o else .error s!"custom offset ({o}) is less than minimal ({minOffset})"
  | none => .ok minOffset

/-- the `for_each` over all but the last field followed by the code for the last
    one; `absOff` is the running `absolute_offset` -/
def cursorFold (hdr : Nat) : Nat → List CField → Except String (List COff)
  | _, [] => .ok []
  | absOff, [last] =>
    match getValidOffset last.custom absOff with
    | .error e => .error e
    | .ok a => .ok [⟨a - absOff, a + hdr, true⟩]
  | absOff, f :: g :: rest =>
    match getValidOffset f.custom absOff with
    | .error e => .error e
    | .ok a =>
      match cursorFold hdr (a + f.size) (g :: rest) with
      | .error e => .error e
      | .ok r => .ok (⟨a - absOff, a + hdr, false⟩ :: r)

/-- `make_fields_cursor_accessors(fields, header_size)` -/
def cursorOffsets (hdr : Nat) (fields : List CField) : Except String (List COff) := cursorFold hdr 0 fields

/-! ### what the accessors *should* contain, from the validator's offsets -/

/-- relative offset = distance from the end of the previous non-constant field
    (level start for the first one); ABS = validator offset + header size -/
def expectedOffs (hdr : Nat) : Nat → List FieldSpan → List COff
  | _, [] => []
  | prevEnd, s :: rest => ⟨s.off - prevEnd, s.off + hdr, rest.isEmpty⟩ :: expectedOffs hdr (s.off + s.size) rest

/-- the offsets of a span list obey the validator's rule from `cur` on -/
def SpansFrom : Nat → List FieldSpan → Prop
  | _, [] => True
  | cur, s :: rest =>
    (match s.custom with
     | some o => cur ≤ o ∧ s.off = o
     | none => s.off = cur) ∧ SpansFrom (s.off + s.size) rest

/-! ### per-level summary used by the cursor runtime model -/

mutual
  /-- `hdr`: the `header_size` argument of `make_level_accessors` (message header
      size for a message, 0 for an entry); `nDecl`: number of declared `<field>`s
      including constants (`members.fields.size()`) -/
  inductive CLevel
    | mk (hdr blockLen : Nat) (spans : List FieldSpan) (nDecl : Nat) (groups : List CGroup) (datas : List NData)
  inductive CGroup
    | mk (name : String) (dim : NDim) (level : CLevel)
end

instance : Inhabited CLevel := ⟨.mk 0 0 [] 0 [] []⟩

def CLevel.hdr : CLevel → Nat | .mk h _ _ _ _ _ => h
def CLevel.blockLen : CLevel → Nat | .mk _ b _ _ _ _ => b
def CLevel.spans : CLevel → List FieldSpan | .mk _ _ s _ _ _ => s
def CLevel.nDecl : CLevel → Nat | .mk _ _ _ n _ _ => n
def CLevel.groups : CLevel → List CGroup | .mk _ _ _ _ g _ => g
def CLevel.datas : CLevel → List NData | .mk _ _ _ _ _ d => d
def CGroup.name : CGroup → String | .mk n _ _ => n
def CGroup.dim : CGroup → NDim | .mk _ d _ => d
def CGroup.level : CGroup → CLevel | .mk _ _ l => l

def eraseDatas (ds : List NData) : List DataL := ds.map (fun d => ⟨d.lenSize⟩)

mutual
  /-- the named layout the wire model works with -/
  def CLevel.toN : CLevel → NLevel
    | .mk _ bl sp _ gs ds => .mk bl (sp.flatMap (·.leaves)) (toNGs gs) ds
  def toNGs : List CGroup → List NGroup
    | [] => []
    | g :: gs => g.toN :: toNGs gs
  def CGroup.toN : CGroup → NGroup
    | .mk n dim l => .mk n dim l.toN
end

mutual
  /-- the nameless layout of `Rt.Walk` -/
  def CLevel.erase : CLevel → Level
    | .mk _ bl sp _ gs ds => .mk bl ((sp.flatMap (·.leaves)).map NLeaf.leaf) (eraseCGs gs) (eraseDatas ds)
  def eraseCGs : List CGroup → List Group
    | [] => []
    | g :: gs => g.erase :: eraseCGs gs
  def CGroup.erase : CGroup → Group
    | .mk _ dim l => .mk dim.dim l.erase
end

/-- `make_entry_cursor_constructor`: the special constructor that advances the
    cursor by `block_length` is generated iff
    `get_non_const_fields(members.fields).empty() && members.groups.empty() && members.data.empty()`
    (constant fields have no cursor accessors) -/
def CLevel.hasEmptyCtor : CLevel → Bool
  | .mk _ _ sp _ gs ds => sp.isEmpty && gs.isEmpty && ds.isEmpty

mutual
  def cresolveGroups (types : List Elem) : List GroupDef → Except String (List CGroup)
    | [] => .ok []
    | g :: gs =>
      match cresolveGroup types g with
      | .error e => .error e
      | .ok r =>
        match cresolveGroups types gs with
        | .error e => .error e
        | .ok rs => .ok (r :: rs)
  def cresolveGroup (types : List Elem) : GroupDef → Except String CGroup
    | .mk name _ dimType bl fields groups datas _ =>
      match fieldSpans types 0 fields with
      | .error e => .error e
      | .ok (computed, sp) =>
        match blockLength bl computed with
        | .error e => .error e
        | .ok b =>
          match resolveDim types dimType groups.length datas.length with
          | .error e => .error e
          | .ok dim =>
            match cresolveGroups types groups with
            | .error e => .error e
            | .ok gs =>
              match datas.mapM (resolveData types) with
              | .error e => .error e
              | .ok ds => .ok (.mk name dim (.mk 0 b sp fields.length gs ds))
end

structure CMessage where
  name : String
  hdrSize : Nat
  hdrLeaves : List NLeaf
  level : CLevel
  deriving Inhabited

def cresolveMessage (s : SchemaDef) (m : MessageDef) : Except String CMessage := do
  let (computed, sp) ← fieldSpans s.types 0 m.fields
  let b ← blockLength m.blockLength computed
  let gs ← cresolveGroups s.types m.groups
  let ds ← m.datas.mapM (resolveData s.types)
  match lookup s.types s.headerType with
  | some (.composite _ _ elems _) =>
    let (hsz, hlv) ← compLeaves s.types FUEL [] 0 0 elems
    .ok { name := m.name, hdrSize := hsz, hdrLeaves := hlv, level := .mk hsz b sp m.fields.length gs ds }
  | _ => .error s!"message header encoding `{s.headerType}` doesn't exist or is not a composite"

/-! ### the generated class, as far as cursors are concerned -/

/-- one generated cursor accessor: the constants baked into the call
    `c.get_value<..>(*this, REL, ABS)` (or `get_static_field_view`, or the
    `get_last_*` variants) and the size of the accessed encoding -/
structure Acc where
  rel : Nat
  abs : Nat
  size : Nat
  isView : Bool
  last : Bool
  deriving Repr, Inhabited, DecidableEq

def mkAccs : List FieldSpan → List COff → List Acc
  | s :: ss, o :: os => ⟨o.rel, o.abs, s.size, s.isView, o.last⟩ :: mkAccs ss os
  | _, _ => []

mutual
  /-- `accs`: cursor accessors of the non-constant fields in schema order;
      `emptyCtor`: the entry class has the cursor-advancing constructor;
      `blockLen`/`leaves`: carried along so that `erase` is the layout of `Rt.Walk` -/
  inductive GLevel
    | mk (accs : List Acc) (emptyCtor : Bool) (blockLen : Nat) (leaves : List Leaf) (groups : List GGroup)
         (datas : List DataL)
  inductive GGroup
    | mk (dim : Dim) (level : GLevel)
end

instance : Inhabited GLevel := ⟨.mk [] true 0 [] [] []⟩

def GLevel.accs : GLevel → List Acc | .mk a _ _ _ _ _ => a
def GLevel.emptyCtor : GLevel → Bool | .mk _ e _ _ _ _ => e
def GLevel.groups : GLevel → List GGroup | .mk _ _ _ _ g _ => g
def GLevel.datas : GLevel → List DataL | .mk _ _ _ _ _ d => d
def GGroup.dim : GGroup → Dim | .mk d _ => d
def GGroup.level : GGroup → GLevel | .mk _ l => l

mutual
  def GLevel.erase : GLevel → Level
    | .mk _ _ bl lv gs ds => .mk bl lv (eraseGGs gs) ds
  def eraseGGs : List GGroup → List Group
    | [] => []
    | g :: gs => g.erase :: eraseGGs gs
  def GGroup.erase : GGroup → Group
    | .mk dim l => .mk dim l.erase
end

mutual
  /-- the cursor-relevant part of `make_level_accessors` / `make_group_entry`
      for a whole level tree -/
  def compileLevel : CLevel → Except String GLevel
    | .mk hdr bl sp _ gs ds =>
      match cursorOffsets hdr (sp.map FieldSpan.cfield) with
      | .error e => .error e
      | .ok offs =>
        match compileGroups gs with
        | .error e => .error e
        | .ok ggs =>
          .ok (.mk (mkAccs sp offs) (sp.isEmpty && gs.isEmpty && ds.isEmpty) bl
                ((sp.flatMap (·.leaves)).map NLeaf.leaf) ggs (eraseDatas ds))
  def compileGroups : List CGroup → Except String (List GGroup)
    | [] => .ok []
    | g :: gs =>
      match compileGroup g with
      | .error e => .error e
      | .ok r =>
        match compileGroups gs with
        | .error e => .error e
        | .ok rs => .ok (r :: rs)
  def compileGroup : CGroup → Except String GGroup
    | .mk _ dim l =>
      match compileLevel l with
      | .error e => .error e
      | .ok gl => .ok (.mk dim.dim gl)
end

end Sbepp.Gen
