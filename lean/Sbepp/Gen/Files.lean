/-
  Model of sbeppc's emission (`schema_compiler::compile` over `fs_provider`)
  on an abstract file system with a fault schedule (C20).

  `schema_compiler::compile`:
      create_output_dirs();                       -- create_directories ×3
      tags …; compile_types();                    -- one write_file per type
      make_tags_header(tags);                     -- schema/schema.hpp
      compile_messages();                         -- one write_file per message
      make_top_header();                          -- <schema>.hpp
  `fs_provider::create_directories(p)`: `std::filesystem::create_directories`
  issues one `mkdir` per missing component; an error → `throw_error` (exit 1).
  `fs_provider::write_file(p, data)`:
      std::ofstream os{p, binary|out};            -- fopen(p, "w"): create/truncate
      if(!os) throw_error("can't open file");
      os << data;                                 -- write()/writev(); a failure sets badbit
      os.close();                                 -- flush + fclose; a failure sets failbit
      if(!os) throw_error("can't write file");    -- badbit or failbit
  `main`: exit status 1 iff an `sbe_error` was thrown, else 0.

  The plan (directories, and files with their contents in emission order) is a
  parameter: it is a function of the schema, the options and the iteration
  order of the string-keyed hash containers (see `Sbepp.Properties.C20`).
-/
namespace Sbepp.Gen.Files

inductive Family | mkdir | open | write | close
  deriving DecidableEq, Repr

inductive Mode
  | fail        -- the call fails with an errno
  | short       -- (write) half of the bytes are written, the caller retries the rest
  | shortfail   -- (write) half of the bytes are written, every later write to the file fails
  deriving DecidableEq, Repr

/-- `sched fam k = some m`: the k-th call (1-based) of family `fam` is hit -/
abbrev Schedule := Family → Nat → Option Mode

def noFaults : Schedule := fun _ _ => none

/-- exactly one call is hit -/
def single (f : Family) (k : Nat) (m : Mode) : Schedule :=
  fun f' k' => if f' = f ∧ k' = k then some m else none

abbrev Content := List Nat

structure Disk where
  dirs : List String := []
  files : List (String × Content) := []
  deriving Repr, DecidableEq

def Disk.get (d : Disk) (p : String) : Option Content := d.files.lookup p

def Disk.set (d : Disk) (p : String) (c : Content) : Disk :=
  { d with files := (p, c) :: d.files.filter (fun e => e.1 != p) }

structure Plan where
  dirs : List String                 -- every directory component, outermost first
  files : List (String × Content)    -- emission order
  deriving Repr, DecidableEq

structure St where
  disk : Disk
  nMkdir : Nat := 0
  nOpen : Nat := 0
  nWrite : Nat := 0
  nClose : Nat := 0
  fired : List (Family × Nat × Mode) := []   -- faults that were actually delivered
  deriving Repr, DecidableEq

/-- `std::filesystem::create_directories`: `mkdir` for every missing component;
    `false` = error (→ `throw_error`) -/
def mkdirs (sched : Schedule) : List String → St → Bool × St
  | [], st => (true, st)
  | d :: r, st =>
    if d ∈ st.disk.dirs then mkdirs sched r st
    else
      match sched .mkdir (st.nMkdir + 1) with
      | some _ => (false, { st with nMkdir := st.nMkdir + 1, fired := st.fired ++ [(.mkdir, st.nMkdir + 1, .fail)] })
      | none => mkdirs sched r
          { st with nMkdir := st.nMkdir + 1, disk := { st.disk with dirs := st.disk.dirs ++ [d] } }

/-- result of the `write` calls for one file -/
structure WR where
  cnt : Nat                             -- number of `write` calls made so far
  fired : List (Family × Nat × Mode)    -- faults delivered
  data : Content                        -- bytes that reached the file
  failed : Bool                         -- a call returned an error: the stream has badbit
  deriving Repr, DecidableEq

/-- the `write` calls that `os << data` (or the flush in `close`) makes for one
    file: libstdc++ retries after a short write until everything is written or
    a call fails.  (A short count on fewer than 2 bytes cannot be delivered and
    is a failure.) -/
def writeData (sched : Schedule) : (fuel : Nat) → (cnt : Nat) → Content → WR
  | 0, cnt, _ => ⟨cnt, [], [], false⟩
  | fuel + 1, cnt, data =>
    if data = [] then ⟨cnt, [], [], false⟩
    else
      match sched .write (cnt + 1) with
      | none => ⟨cnt + 1, [], data, false⟩
      | some .fail => ⟨cnt + 1, [(.write, cnt + 1, .fail)], [], true⟩
      | some .short =>
        if data.length < 2 then ⟨cnt + 1, [(.write, cnt + 1, .fail)], [], true⟩
        else
          ⟨(writeData sched fuel (cnt + 1) (data.drop (data.length / 2))).cnt,
           (.write, cnt + 1, .short) :: (writeData sched fuel (cnt + 1) (data.drop (data.length / 2))).fired,
           data.take (data.length / 2) ++ (writeData sched fuel (cnt + 1) (data.drop (data.length / 2))).data,
           (writeData sched fuel (cnt + 1) (data.drop (data.length / 2))).failed⟩
      | some .shortfail =>
        if data.length < 2 then ⟨cnt + 1, [(.write, cnt + 1, .fail)], [], true⟩
        else ⟨cnt + 1, [(.write, cnt + 1, .shortfail)], data.take (data.length / 2), true⟩

/-- `os.close()`: `fclose`; an error sets failbit -/
def closeFault (sched : Schedule) (k : Nat) : List (Family × Nat × Mode) :=
  match sched .close k with
  | some _ => [(.close, k, .fail)]
  | none => []

/-- `fs_provider::write_file`; `false` = `throw_error` ("can't open file" /
    "can't write file").  After a write error the truncated file stays. -/
def writeFile (sched : Schedule) (st : St) (p : String) (data : Content) : Bool × St :=
  match sched .open (st.nOpen + 1) with
  | some _ => (false, { st with nOpen := st.nOpen + 1, fired := st.fired ++ [(.open, st.nOpen + 1, .fail)] })
  | none =>
    -- created / truncated; `<<`, `close()`, then the stream state is inspected
    ((!(writeData sched (data.length + 1) st.nWrite data).failed) && (closeFault sched (st.nClose + 1)).isEmpty,
     { st with
      nOpen := st.nOpen + 1,
      nWrite := (writeData sched (data.length + 1) st.nWrite data).cnt,
      nClose := st.nClose + 1,
      fired := st.fired ++ (writeData sched (data.length + 1) st.nWrite data).fired
                 ++ closeFault sched (st.nClose + 1),
      disk := st.disk.set p (writeData sched (data.length + 1) st.nWrite data).data })

def writeFiles (sched : Schedule) : List (String × Content) → St → Bool × St
  | [], st => (true, st)
  | (p, c) :: r, st =>
    match writeFile sched st p c with
    | (false, st') => (false, st')
    | (true, st') => writeFiles sched r st'

structure Result where
  exit : Nat
  diag : Bool              -- an `Error:` line was printed
  disk : Disk
  fired : List (Family × Nat × Mode)
  deriving Repr, DecidableEq

/-- `schema_compiler::compile` + the `catch` in `main` -/
def run (plan : Plan) (sched : Schedule) (disk : Disk) : Result :=
  match mkdirs sched plan.dirs { disk := disk } with
  | (false, st) => ⟨1, true, st.disk, st.fired⟩
  | (true, st) =>
    match writeFiles sched plan.files st with
    | (false, st') => ⟨1, true, st'.disk, st'.fired⟩
    | (true, st') => ⟨0, false, st'.disk, st'.fired⟩

/-- the file `p` holds exactly `c` -/
def Disk.has (d : Disk) (p : String) (c : Content) : Prop := d.get p = some c

end Sbepp.Gen.Files
