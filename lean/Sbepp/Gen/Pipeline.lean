/-
  Model of the sbeppc pipeline for totality (C09):

      argv → read_file → pugixml → schema_parser (includes) → sbe_schema_validator
           → sbe_schema_cpp_validator → names_generator → schema_compiler (emission)

  `run : Env → fuel → Argv → FS → Result` with
  `Outcome ::= ok files | diag message | crash site`.

  What is concrete here (transliterated from the C++):
    * `parse_command_line` (main.cpp) and the message texts it produces;
      `reporter.error("{}", e.what())` prints any text;
    * `fs_provider::read_file`: a missing file, a directory (`is_directory` →
      diagnostic);
    * `schema_parser`: the `messageSchema` lookup, `parse_schema_content`,
      `parse_include` with its `include_stack` (an `href` that is being parsed
      already → "cyclic include" diagnostic; otherwise a fresh parser for
      `href`, resolved over the finite map `FS`), `parse_type_encoding`
      attribute by attribute, and `throw_if_nested_too_deep`: composites and
      groups nested deeper than `max_nesting_depth` = 64 are a diagnostic, so
      no pass recurses deeper than that;
      `location_manager::find` is total (offsets past the content are clamped)
      and therefore does not appear;
    * the order validation → emission and the writes of the emission.
  What is abstract (`Env`, universally quantified in every theorem): the
  verdicts of the remaining parser checks, of the validators and of the names
  generator, the emitted file list, the operating system's answers to
  mkdir/open, the stack depth the process survives, and — for every site the
  guard table calls *guarded* — whether the access would fail (`siteFails`);
  `Sound env` states the table's claim that such a failure is always preceded
  by a diagnostic of the named earlier stage.

  The C++ recursion `parse_include → schema_parser → parse_schema_content` has
  no explicit bound; the model runs it with fuel and `run_terminates` shows
  that `fs.length + 1` always suffices because of the include stack.

  The DOM is given flattened: the descendants of a `<types>` / `<message>`
  element in document (pre-)order with their nesting depth; the parser visits
  them in exactly that order.
-/
namespace Sbepp.Gen.Pipeline

/-- (file, function, kind, text) — an extracted site without its line number -/
abbrev SiteKey := String × String × String × String

inductive Guard
  | static (why : String)              -- cannot fail for any input (language level)
  | local_ (why : String)              -- tested in the same function right before the access
  | rule (stage : String) (why : String) -- an earlier stage rejects every input on which the access would fail
  | order (why : String)               -- invariant of sbeppc's own traversal/dispatch order
  | unguarded (why : String)            -- nothing prevents the failure (none at present)
  deriving DecidableEq, Repr

def Guard.isUnguarded : Guard → Bool
  | .unguarded _ => true
  | _ => false

def guardTable : List (SiteKey × Guard) := [
  (("context_manager.hpp", "create", "get", "auto& map = std::get<map_type<T>>(contexts);"),
    .static "std::get by type/index on a std::tuple: resolved at compile time"),
  (("context_manager.hpp", "create", "assert", "assert(inserted && \"Context should be created only once\");"),
    .order "a context is created exactly once per entity by the validators and fetched only for validated entities"),
  (("context_manager.hpp", "get", "get", "auto& map = std::get<map_type<T>>(contexts);"),
    .static "std::get by type/index on a std::tuple: resolved at compile time"),
  (("context_manager.hpp", "get", "assert", "assert((search != std::end(map)) && \"Context doesn't exist\");"),
    .order "a context is created exactly once per entity by the validators and fetched only for validated entities"),
  (("context_manager.hpp", "get", "get", "auto& map = std::get<map_type<T>>(contexts); #2"),
    .static "std::get by type/index on a std::tuple: resolved at compile time"),
  (("context_manager.hpp", "get", "assert", "assert((search != std::end(map)) && \"Context doesn't exist\"); #2"),
    .order "a context is created exactly once per entity by the validators and fetched only for validated entities"),
  (("fs_provider.hpp", "read_file", "resize", "data.resize(static_cast<std::size_t>(file_size));"),
    .local_ "is_directory(path) is rejected before the open, file_size < 0 just before"),
  (("location_manager.hpp", "find", "frontback", "const auto& last = ranges.back();"),
    .local_ "ranges.empty() tested just before"),
  (("main.cpp", "parse_command_line", "index", "else if(arg[0] == '-')"),
    .static "argv strings are NUL terminated: index 0 exists"),
  (("messages_compiler.hpp", "get_const_value", "assert", "assert(t.value_ref || t.constant_value);"),
    .rule "validate" "validate_constant_value: exactly one of valueRef and value"),
  (("messages_compiler.hpp", "get_const_value", "optderef", "return value_ref_to_enum_value(*t.value_ref);"),
    .local_ "tested by if(x) on the same optional in this function"),
  (("messages_compiler.hpp", "get_const_value", "optderef", "*t.constant_value, t.length, t.location);"),
    .rule "validate" "validate_constant_value: exactly one of valueRef and value"),
  (("messages_compiler.hpp", "get_const_value", "optderef", "*t.constant_value, t.primitive_type);"),
    .rule "validate" "validate_constant_value: exactly one of valueRef and value"),
  (("messages_compiler.hpp", "make_const_field_accessor", "optderef", "value_ref_to_enumerator(*f.value_ref));"),
    .rule "validate" "validate_value_ref2/3: a constant field has valueRef"),
  (("messages_compiler.hpp", "make_const_field_accessor", "optderef", "f.name, context.value_type, value_ref_to_enum_value(*f.value_ref));"),
    .rule "validate" "validate_value_ref2/3: a constant field has valueRef"),
  (("messages_compiler.hpp", "get_last_member", "frontback", "return members.data.back().name;"),
    .local_ "empty() tested before"),
  (("messages_compiler.hpp", "get_last_member", "frontback", "return members.groups.back().name;"),
    .local_ "empty() tested before"),
  (("messages_compiler.hpp", "get_last_member", "frontback", "return members.fields.back().name;"),
    .local_ "empty() tested before"),
  (("messages_compiler.hpp", "get_header_element", "assert", "assert(r);"),
    .rule "validate" "get_level_header_element: a level-header element is a type or a ref to a type"),
  (("messages_compiler.hpp", "get_header_element", "assert", "assert(t);"),
    .rule "validate" "get_level_header_element: a level-header element is a type or a ref to a type"),
  (("messages_compiler.hpp", "make_group_entry", "recursion", "calls make_groups"),
    .rule "parse" "throw_if_nested_too_deep: schema_parser rejects composites and groups nested deeper than max_nesting_depth = 64, every pass recurses over that nesting only"),
  (("messages_compiler.hpp", "make_group", "recursion", "calls make_group_entry"),
    .rule "parse" "throw_if_nested_too_deep: schema_parser rejects composites and groups nested deeper than max_nesting_depth = 64, every pass recurses over that nesting only"),
  (("messages_compiler.hpp", "make_first_data_accessor", "frontback", "fmt::arg(\"last_group\", groups.back().name),"),
    .local_ "empty() tested before"),
  (("messages_compiler.hpp", "make_fields_cursor_accessors", "frontback", "const auto& last = *non_const_fields.back();"),
    .local_ "empty() tested before"),
  (("messages_compiler.hpp", "make_groups_cursor_accessors", "frontback", "const auto& first = groups.front();"),
    .local_ "empty() tested before"),
  (("messages_compiler.hpp", "make_data_cursor_accessors", "frontback", "const auto& first = members.data.front();"),
    .local_ "empty() tested before"),
  (("messages_compiler.hpp", "make_groups", "recursion", "calls make_group"),
    .rule "parse" "throw_if_nested_too_deep: schema_parser rejects composites and groups nested deeper than max_nesting_depth = 64, every pass recurses over that nesting only"),
  (("messages_compiler.hpp", "compile_message", "optderef", "*message_context.mangled_name);"),
    .local_ "tested by if(x) on the same optional in this function"),
  (("names_generator.hpp", "handle_composite_elements", "recursion", "calls handle_composite_elements"),
    .rule "parse" "throw_if_nested_too_deep: schema_parser rejects composites and groups nested deeper than max_nesting_depth = 64, every pass recurses over that nesting only"),
  (("names_generator.hpp", "handle_message_level", "recursion", "calls handle_message_level"),
    .rule "parse" "throw_if_nested_too_deep: schema_parser rejects composites and groups nested deeper than max_nesting_depth = 64, every pass recurses over that nesting only"),
  (("sbe_schema_cpp_validator.hpp", "validate_level_members", "recursion", "calls validate_level_members, validate_name"),
    .rule "parse" "throw_if_nested_too_deep: schema_parser rejects composites and groups nested deeper than max_nesting_depth = 64, every pass recurses over that nesting only"),
  (("sbe_schema_cpp_validator.hpp", "validate_encoding", "recursion", "calls validate_encoding, validate_name"),
    .rule "parse" "throw_if_nested_too_deep: schema_parser rejects composites and groups nested deeper than max_nesting_depth = 64, every pass recurses over that nesting only"),
  (("sbe_schema_cpp_validator.hpp", "is_reserved_cpp_identifier", "index", "if((str.size() > 1) && (str[0] == '_')"),
    .local_ "size()/empty() tested in the same condition"),
  (("sbe_schema_cpp_validator.hpp", "is_reserved_cpp_identifier", "index", "&& (std::isupper(static_cast<unsigned char>(str[1]))))"),
    .local_ "size()/empty() tested in the same condition"),
  (("sbe_schema_cpp_validator.hpp", "validate_name", "recursion", "calls validate_name"),
    .static "overload dispatch (same name, different signature); no cycle"),
  (("sbe_schema_validator.hpp", "is_sbe_symbolic_name", "index", "if(name.empty() || std::isdigit(static_cast<unsigned char>(name[0])))"),
    .local_ "size()/empty() tested in the same condition"),
  (("sbe_schema_validator.hpp", "validate_data_header_layout", "ptrderef", "*utils::find_composite_element(c, \"length\"));"),
    .local_ "validate_level_header_element(*c, \"data\", \"length\") two statements before in validate_data_header rejects a header without `length`"),
  (("sbe_schema_validator.hpp", "validate_field_offset", "optderef", "*f.offset,"),
    .local_ "tested by if(x) on the same optional in this function"),
  (("sbe_schema_validator.hpp", "validate_field_offset", "optderef", "context.level_offset = *f.offset;"),
    .local_ "tested by if(x) on the same optional in this function"),
  (("sbe_schema_validator.hpp", "validate_field_offset", "optderef", "current_offset = *f.offset;"),
    .local_ "tested by if(x) on the same optional in this function"),
  (("sbe_schema_validator.hpp", "value_ref_fits_into_type", "index", "std::to_string(static_cast<int>(valid_value.value[0]));"),
    .rule "parse" "get_required_node_content: validValue text is not empty"),
  (("sbe_schema_validator.hpp", "validate_value_ref2", "optderef", "const auto& value_ref = *f.value_ref;"),
    .local_ "tested by if(x) on the same optional in this function"),
  (("sbe_schema_validator.hpp", "validate_value_ref3", "optderef", "const auto& value_ref = *f.value_ref;"),
    .local_ "tested by if(x) on the same optional in this function"),
  (("sbe_schema_validator.hpp", "validate_constant_field", "assert", "assert(enc);"),
    .local_ "validate_members rejected a missing field type just before"),
  (("sbe_schema_validator.hpp", "validate_constant_field", "assert", "assert(false);"),
    .order "get_actual_presence maps a set field to required: never constant"),
  (("sbe_schema_validator.hpp", "validate_header_value", "get", "std::get<sbe::composite>(*get_encoding(get_header_type(level)));"),
    .rule "validate" "validate_level_header ran for this header first (message header: validate_message_header before the message loop; group: validate_group_header right before validate_members(g)) and rejects a missing or non-composite encoding"),
  (("sbe_schema_validator.hpp", "validate_header_value", "ptrderef", "std::get<sbe::composite>(*get_encoding(get_header_type(level)));"),
    .rule "validate" "validate_level_header ran for this header first (message header: validate_message_header before the message loop; group: validate_group_header right before validate_members(g)) and rejects a missing or non-composite encoding"),
  (("sbe_schema_validator.hpp", "validate_block_length", "optderef", "*level.block_length,"),
    .local_ "tested by if(x) on the same optional in this function"),
  (("sbe_schema_validator.hpp", "validate_block_length", "optderef", "ctx_manager->get(level).actual_block_length = *level.block_length;"),
    .local_ "tested by if(x) on the same optional in this function"),
  (("sbe_schema_validator.hpp", "validate_members", "recursion", "calls validate_members"),
    .rule "parse" "throw_if_nested_too_deep: schema_parser rejects composites and groups nested deeper than max_nesting_depth = 64, every pass recurses over that nesting only"),
  (("sbe_schema_validator.hpp", "can_be_parsed_as_fp", "frontback", "if(std::isspace(str.front()))"),
    .local_ "empty() tested before"),
  (("sbe_schema_validator.hpp", "can_be_parsed_as_fp", "frontback", "if((str.front() == '+') || (str.front() == '-'))"),
    .local_ "empty() tested before"),
  (("sbe_schema_validator.hpp", "can_be_parsed_as_fp", "frontback", "if((str.front() == '+') || (str.front() == '-')) #2"),
    .local_ "empty() tested before"),
  (("sbe_schema_validator.hpp", "can_be_parsed_as_fp", "substr", "signless_value = str.substr(1);"),
    .local_ "str is not empty (tested at the top) and starts with a sign: 1 <= size()"),
  (("sbe_schema_validator.hpp", "can_be_parsed_as_fp", "index", "if((signless_value[0] == '0')"),
    .local_ "size()/empty() tested in the same condition"),
  (("sbe_schema_validator.hpp", "can_be_parsed_as_fp", "index", "&& ((signless_value[1] == 'x') || (signless_value[1] == 'X')))"),
    .local_ "size()/empty() tested in the same condition"),
  (("sbe_schema_validator.hpp", "can_be_parsed_as_fp", "index", "&& ((signless_value[1] == 'x') || (signless_value[1] == 'X'))) #2"),
    .local_ "size()/empty() tested in the same condition"),
  (("sbe_schema_validator.hpp", "can_be_parsed_as_fp", "frontback", "if(std::isalpha(signless_value.front()))"),
    .local_ "empty() tested before"),
  (("sbe_schema_validator.hpp", "can_be_parsed_as_fp", "strto", "std::strtof(str.data(), &last_parsed);"),
    .order "argument views a whole std::string (NUL terminated); result checked through errno and the end pointer"),
  (("sbe_schema_validator.hpp", "can_be_parsed_as_fp", "strto", "std::strtod(str.data(), &last_parsed);"),
    .order "argument views a whole std::string (NUL terminated); result checked through errno and the end pointer"),
  (("sbe_schema_validator.hpp", "value_fits_into_type", "assert", "assert(false && \"Wrong primitive type\");"),
    .local_ "callers pass a primitive type name (checked by is_primitive_type / is_integral_type)"),
  (("sbe_schema_validator.hpp", "validate_value_ref", "optderef", "const auto& value_ref = *t.value_ref;"),
    .local_ "only called under if(t.value_ref)"),
  (("sbe_schema_validator.hpp", "validate_constant_value", "optderef", "const auto value_length = t.constant_value->length();"),
    .local_ "value_ref.has_value() != constant_value.has_value() tested first, value_ref branch taken before"),
  (("sbe_schema_validator.hpp", "validate_constant_value", "optderef", "if(!value_fits_into_type(*t.constant_value, t.primitive_type))"),
    .local_ "value_ref.has_value() != constant_value.has_value() tested first, value_ref branch taken before"),
  (("sbe_schema_validator.hpp", "validate_constant_value", "optderef", "*t.constant_value,"),
    .local_ "value_ref.has_value() != constant_value.has_value() tested first, value_ref branch taken before"),
  (("sbe_schema_validator.hpp", "get_primitive_type_size", "at", "return map.at(type);"),
    .local_ "callers test is_primitive_type / is_integral_type / is_unsigned_primitive_type first"),
  (("sbe_schema_validator.hpp", "validate_optional_value", "optderef", "if(value && !value_fits_into_type(*value, primitive_type))"),
    .local_ "tested by if(x) on the same optional in this function"),
  (("sbe_schema_validator.hpp", "validate_optional_value", "optderef", "*value,"),
    .local_ "tested by if(x) on the same optional in this function"),
  (("sbe_schema_validator.hpp", "validate_encoding", "recursion", "calls validate_encoding, validate_public_encoding"),
    .rule "parse" "throw_if_nested_too_deep: schema_parser rejects composites and groups nested deeper than max_nesting_depth = 64, every pass recurses over that nesting only"),
  (("sbe_schema_validator.hpp", "is_constant_composite_element", "recursion", "calls is_constant_composite_element"),
    .static "overload dispatch (same name, different signature); no cycle"),
  (("sbe_schema_validator.hpp", "is_constant_composite_element", "assert", "assert(enc);"),
    .order "validate_encoding(ref) ran first and rejects a missing encoding"),
  (("sbe_schema_validator.hpp", "validate_element_offset", "optderef", "*element.offset,"),
    .local_ "tested by if(x) on the same optional in this function"),
  (("sbe_schema_validator.hpp", "validate_element_offset", "optderef", "context.offset_in_composite = *element.offset;"),
    .local_ "tested by if(x) on the same optional in this function"),
  (("sbe_schema_validator.hpp", "validate_element_offset", "optderef", "current_offset = *element.offset;"),
    .local_ "tested by if(x) on the same optional in this function"),
  (("sbe_schema_validator.hpp", "validate_public_encoding", "recursion", "calls validate_encoding"),
    .rule "parse" "throw_if_nested_too_deep: schema_parser rejects composites and groups nested deeper than max_nesting_depth = 64, every pass recurses over that nesting only"),
  (("sbe_schema_validator.hpp", "validate_versions", "optderef", "*entity.deprecated_since,"),
    .local_ "tested by if(x) on the same optional in this function"),
  (("sbe_schema_validator.hpp", "validate_versions", "optderef", "*entity.deprecated_since, #2"),
    .local_ "tested by if(x) on the same optional in this function"),
  (("schema_compiler.hpp", "compile", "recursion", "calls compile"),
    .static "overload dispatch (same name, different signature); no cycle"),
  (("schema_compiler.hpp", "make_injected_include", "optderef", "return fmt::format(\"#include \\\"{}\\\"\", *inject_include);"),
    .local_ "tested by if(x) on the same optional in this function"),
  (("schema_compiler.hpp", "make_schema_header_forward_declaration", "optderef", "fmt::arg(\"impl_name\", *mangled_name),"),
    .local_ "tested by if(x) on the same optional in this function"),
  (("schema_parser.hpp", "parse_schema_content", "recursion", "calls parse_include, parse_schema_content"),
    .local_ "parse_include rejects an href that is on include_stack: parsers nest at most once per file"),
  (("schema_parser.hpp", "parse_include", "recursion", "calls parse_schema_content"),
    .local_ "an href that is on include_stack is rejected (cyclic include): parsers nest at most once per file"),
  (("schema_parser.hpp", "parse_type_encoding", "optderef", "t.length = t.constant_value->size();"),
    .local_ "&& t.constant_value in the same condition"),
  (("schema_parser.hpp", "parse_composite_elements", "recursion", "calls parse_composite_encoding"),
    .rule "parse" "throw_if_nested_too_deep: schema_parser rejects composites and groups nested deeper than max_nesting_depth = 64, every pass recurses over that nesting only"),
  (("schema_parser.hpp", "parse_composite_encoding", "recursion", "calls parse_composite_elements"),
    .rule "parse" "throw_if_nested_too_deep: schema_parser rejects composites and groups nested deeper than max_nesting_depth = 64, every pass recurses over that nesting only"),
  (("schema_parser.hpp", "get_optional_numeric_attribute", "optderef", "*as_str,"),
    .local_ "tested by if(x) on the same optional in this function"),
  (("schema_parser.hpp", "get_optional_numeric_attribute", "optderef", "*as_str);"),
    .local_ "tested by if(x) on the same optional in this function"),
  (("schema_parser.hpp", "parse_group_member", "recursion", "calls get_level_members"),
    .rule "parse" "throw_if_nested_too_deep: schema_parser rejects composites and groups nested deeper than max_nesting_depth = 64, every pass recurses over that nesting only"),
  (("schema_parser.hpp", "get_level_members", "recursion", "calls parse_group_member"),
    .rule "parse" "throw_if_nested_too_deep: schema_parser rejects composites and groups nested deeper than max_nesting_depth = 64, every pass recurses over that nesting only"),
  (("schema_parser.hpp", "string_to_number_or_throw", "optderef", "return *v;"),
    .local_ "tested by if(x) on the same optional in this function"),
  (("tags_generator.hpp", "generate", "recursion", "calls generate"),
    .static "overload dispatch (same name, different signature); no cycle"),
  (("tags_generator.hpp", "make_tag", "recursion", "calls handle_public_encoding, make_composite_element_tags"),
    .rule "parse" "throw_if_nested_too_deep: schema_parser rejects composites and groups nested deeper than max_nesting_depth = 64, every pass recurses over that nesting only"),
  (("tags_generator.hpp", "make_tag", "popback", "path.pop_back();"),
    .order "pops what the matching push_back / emplace_back a few lines above in the same function pushed"),
  (("tags_generator.hpp", "make_tag", "popback", "path.pop_back(); #2"),
    .order "pops what the matching push_back / emplace_back a few lines above in the same function pushed"),
  (("tags_generator.hpp", "make_composite_element_tags", "recursion", "calls make_tag"),
    .rule "parse" "throw_if_nested_too_deep: schema_parser rejects composites and groups nested deeper than max_nesting_depth = 64, every pass recurses over that nesting only"),
  (("tags_generator.hpp", "make_composite_element_tags", "optderef", "make_type_impl_path(*ctx.mangled_name));"),
    .local_ "tested by if(x) on the same optional in this function"),
  (("tags_generator.hpp", "make_tag", "popback", "path.pop_back(); #3"),
    .order "pops what the matching push_back / emplace_back a few lines above in the same function pushed"),
  (("tags_generator.hpp", "make_tag", "optderef", "\"referred_type\", make_type_impl_path(*referred_type_name)));"),
    .local_ "tested by if(x) on the same optional in this function"),
  (("tags_generator.hpp", "handle_public_encoding", "recursion", "calls make_tag"),
    .rule "parse" "throw_if_nested_too_deep: schema_parser rejects composites and groups nested deeper than max_nesting_depth = 64, every pass recurses over that nesting only"),
  (("tags_generator.hpp", "make_field_tags", "optderef", "fmt::arg(\"type_tag\", *type_tag));"),
    .local_ "tested by if(x) on the same optional in this function"),
  (("tags_generator.hpp", "make_group_tags", "recursion", "calls make_member_tags"),
    .rule "parse" "throw_if_nested_too_deep: schema_parser rejects composites and groups nested deeper than max_nesting_depth = 64, every pass recurses over that nesting only"),
  (("tags_generator.hpp", "make_group_tags", "popback", "path.pop_back();"),
    .order "pops what the matching push_back / emplace_back a few lines above in the same function pushed"),
  (("tags_generator.hpp", "make_group_tags", "optderef", "make_message_impl_path(*context.mangled_name));"),
    .local_ "tested by if(x) on the same optional in this function"),
  (("tags_generator.hpp", "make_member_tags", "recursion", "calls make_group_tags"),
    .rule "parse" "throw_if_nested_too_deep: schema_parser rejects composites and groups nested deeper than max_nesting_depth = 64, every pass recurses over that nesting only"),
  (("tags_generator.hpp", "make_message_tag", "popback", "path.pop_back();"),
    .order "pops what the matching push_back / emplace_back a few lines above in the same function pushed"),
  (("tags_generator.hpp", "make_message_tag", "optderef", "m.name, make_message_impl_path(*context.mangled_name));"),
    .local_ "tested by if(x) on the same optional in this function"),
  (("tags_generator.hpp", "make_message_tags_impl", "popback", "path.pop_back();"),
    .order "pops what the matching push_back / emplace_back a few lines above in the same function pushed"),
  (("tags_generator.hpp", "generate", "optderef", "*context.mangled_tag_types_name),"),
    .local_ "tested by if(x) on the same optional in this function"),
  (("tags_generator.hpp", "generate", "optderef", "*context.mangled_tag_messages_name),"),
    .local_ "tested by if(x) on the same optional in this function"),
  (("tags_generator.hpp", "generate", "optderef", "*context.mangled_tag_types_name);"),
    .local_ "tested by if(x) on the same optional in this function"),
  (("tags_generator.hpp", "generate", "optderef", "*context.mangled_tag_messages_name);"),
    .local_ "tested by if(x) on the same optional in this function"),
  (("traits_generator.hpp", "make_deprecated", "optderef", "fmt::arg(\"deprecated_since\", *deprecated_since));"),
    .local_ "tested by if(x) on the same optional in this function"),
  (("traits_generator.hpp", "make_traits", "recursion", "calls make_level_traits, make_traits, make_traits_tag"),
    .rule "parse" "throw_if_nested_too_deep: schema_parser rejects composites and groups nested deeper than max_nesting_depth = 64, every pass recurses over that nesting only"),
  (("traits_generator.hpp", "get_num_in_group_underlying_type", "get", "const auto& r = std::get<sbe::ref>(*element);"),
    .rule "validate" "get_level_header_element: a level-header element is a type or a ref to a type"),
  (("traits_generator.hpp", "get_num_in_group_underlying_type", "ptrderef", "const auto& r = std::get<sbe::ref>(*element);"),
    .rule "validate" "get_level_header_element: a group header has a numInGroup element (required by validate_group_header)"),
  (("traits_generator.hpp", "get_group_payload_size", "frontback", "fmt::arg(\"num_in_group_param\", param_names.back()),"),
    .order "the caller pushes the numInGroup parameter name first"),
  (("traits_generator.hpp", "make_group_size_bytes_impl", "recursion", "calls make_group_size_bytes_impl"),
    .rule "parse" "throw_if_nested_too_deep: schema_parser rejects composites and groups nested deeper than max_nesting_depth = 64, every pass recurses over that nesting only"),
  (("traits_generator.hpp", "make_group_size_bytes_impl", "popback", "path.pop_back();"),
    .order "pops what the matching push_back / emplace_back a few lines above in the same function pushed"),
  (("traits_generator.hpp", "make_size_bytes_params", "assert", "assert(param_names.size() == param_types.size());"),
    .order "names and types are pushed pairwise"),
  (("traits_generator.hpp", "get_group_size_bytes_params", "recursion", "calls get_group_size_bytes_params"),
    .rule "parse" "throw_if_nested_too_deep: schema_parser rejects composites and groups nested deeper than max_nesting_depth = 64, every pass recurses over that nesting only"),
  (("traits_generator.hpp", "get_group_size_bytes_params", "popback", "path.pop_back();"),
    .order "pops what the matching push_back / emplace_back a few lines above in the same function pushed"),
  (("traits_generator.hpp", "make_traits_tag", "recursion", "calls make_traits_tag"),
    .rule "parse" "throw_if_nested_too_deep: schema_parser rejects composites and groups nested deeper than max_nesting_depth = 64, every pass recurses over that nesting only"),
  (("traits_generator.hpp", "make_member_traits", "recursion", "calls make_traits"),
    .rule "parse" "throw_if_nested_too_deep: schema_parser rejects composites and groups nested deeper than max_nesting_depth = 64, every pass recurses over that nesting only"),
  (("traits_generator.hpp", "make_level_traits", "recursion", "calls make_member_traits"),
    .rule "parse" "throw_if_nested_too_deep: schema_parser rejects composites and groups nested deeper than max_nesting_depth = 64, every pass recurses over that nesting only"),
  (("types_compiler.hpp", "compile", "popback", "dependencies.pop_back();"),
    .order "pops what the matching push_back / emplace_back a few lines above in the same function pushed"),
  (("types_compiler.hpp", "get_min_value", "optderef", "*t.min_value, t.primitive_type);"),
    .local_ "tested by if(x) on the same optional in this function"),
  (("types_compiler.hpp", "get_min_value", "at", "return built_in_min_values.at(t.primitive_type);"),
    .rule "validate" "validate_encoding(type): primitiveType is a primitive type; field types are tested with is_primitive_type"),
  (("types_compiler.hpp", "get_max_value", "optderef", "*t.max_value, t.primitive_type);"),
    .local_ "tested by if(x) on the same optional in this function"),
  (("types_compiler.hpp", "get_max_value", "at", "return built_in_max_values.at(t.primitive_type);"),
    .rule "validate" "validate_encoding(type): primitiveType is a primitive type; field types are tested with is_primitive_type"),
  (("types_compiler.hpp", "get_null_value", "optderef", "*t.null_value, t.primitive_type);"),
    .local_ "tested by if(x) on the same optional in this function"),
  (("types_compiler.hpp", "get_null_value", "at", "return built_in_null_values.at(t.primitive_type);"),
    .rule "validate" "validate_encoding(type): primitiveType is a primitive type; field types are tested with is_primitive_type"),
  (("types_compiler.hpp", "make_constant_type", "assert", "assert(t.presence == field_presence::constant);"),
    .order "compile_encoding(type) dispatches on presence and length"),
  (("types_compiler.hpp", "make_array_type", "assert", "assert((t.length != 1) && (t.presence != field_presence::constant));"),
    .order "compile_encoding(type) dispatches on presence and length"),
  (("types_compiler.hpp", "make_required_type", "assert", "assert((t.presence == field_presence::required) && (t.length == 1));"),
    .order "compile_encoding(type) dispatches on presence and length"),
  (("types_compiler.hpp", "make_optional_type", "assert", "assert((t.presence == field_presence::optional) && (t.length == 1));"),
    .order "compile_encoding(type) dispatches on presence and length"),
  (("types_compiler.hpp", "set_impl_and_public_types", "optderef", "*context.mangled_name);"),
    .local_ "tested by if(x) on the same optional in this function"),
  (("types_compiler.hpp", "compile_encoding", "recursion", "calls make_element_accessors"),
    .rule "parse" "throw_if_nested_too_deep: schema_parser rejects composites and groups nested deeper than max_nesting_depth = 64, every pass recurses over that nesting only"),
  (("types_compiler.hpp", "value_ref_to_enum_value", "recursion", "calls compile_public_encoding"),
    .rule "parse" "throw_if_nested_too_deep: schema_parser rejects composites and groups nested deeper than max_nesting_depth = 64, every pass recurses over that nesting only"),
  (("types_compiler.hpp", "value_ref_to_enum_value", "get", "const auto& e = std::get<sbe::enumeration>(enc);"),
    .rule "validate" "find_value_ref: the encoding named by valueRef exists and is an enum"),
  (("types_compiler.hpp", "get_const_value", "recursion", "calls value_ref_to_enum_value"),
    .rule "parse" "throw_if_nested_too_deep: schema_parser rejects composites and groups nested deeper than max_nesting_depth = 64, every pass recurses over that nesting only"),
  (("types_compiler.hpp", "get_const_value", "assert", "assert(t.presence == field_presence::constant);"),
    .order "called for constant types only (dispatch on presence)"),
  (("types_compiler.hpp", "get_const_value", "assert", "assert(t.value_ref || t.constant_value);"),
    .rule "validate" "validate_constant_value: exactly one of valueRef and value"),
  (("types_compiler.hpp", "get_const_value", "optderef", "return value_ref_to_enum_value(*t.value_ref);"),
    .local_ "tested by if(x) on the same optional in this function"),
  (("types_compiler.hpp", "get_const_value", "optderef", "*t.constant_value, t.length, t.location);"),
    .rule "validate" "validate_constant_value: exactly one of valueRef and value"),
  (("types_compiler.hpp", "get_const_value", "optderef", "*t.constant_value, t.primitive_type);"),
    .rule "validate" "validate_constant_value: exactly one of valueRef and value"),
  (("types_compiler.hpp", "make_children_visit_calls", "get", "std::get<0>(enc_visit_info),"),
    .static "std::get by type/index on a std::tuple: resolved at compile time"),
  (("types_compiler.hpp", "make_children_visit_calls", "get", "if(!std::get<0>(visit_info).empty())"),
    .static "std::get by type/index on a std::tuple: resolved at compile time"),
  (("types_compiler.hpp", "make_children_visit_calls", "get", "fmt::arg(\"visitor\", std::get<0>(visit_info)),"),
    .static "std::get by type/index on a std::tuple: resolved at compile time"),
  (("types_compiler.hpp", "make_children_visit_calls", "get", "fmt::arg(\"name\", std::get<1>(visit_info)),"),
    .static "std::get by type/index on a std::tuple: resolved at compile time"),
  (("types_compiler.hpp", "make_children_visit_calls", "get", "fmt::arg(\"tag\", std::get<2>(visit_info))));"),
    .static "std::get by type/index on a std::tuple: resolved at compile time"),
  (("types_compiler.hpp", "make_element_accessors", "recursion", "calls compile_encoding, compile_public_encoding, get_const_value"),
    .rule "parse" "throw_if_nested_too_deep: schema_parser rejects composites and groups nested deeper than max_nesting_depth = 64, every pass recurses over that nesting only"),
  (("types_compiler.hpp", "make_element_accessors", "optderef", "*context.offset_in_composite,"),
    .order "validate_element_offset stores offset_in_composite for every non-constant element"),
  (("types_compiler.hpp", "make_element_accessors", "optderef", "*context.offset_in_composite, #2"),
    .order "validate_element_offset stores offset_in_composite for every non-constant element"),
  (("types_compiler.hpp", "make_element_accessors", "optderef", "*context.offset_in_composite, #3"),
    .order "validate_element_offset stores offset_in_composite for every non-constant element"),
  (("types_compiler.hpp", "compile_public_encoding", "recursion", "calls compile_encoding"),
    .rule "parse" "throw_if_nested_too_deep: schema_parser rejects composites and groups nested deeper than max_nesting_depth = 64, every pass recurses over that nesting only"),
  (("types_compiler.hpp", "compile_public_encoding", "assert", "assert(!dependencies.empty());"),
    .order "compile pushes a dependency set before the first public encoding"),
  (("types_compiler.hpp", "compile_public_encoding", "frontback", "dependencies.back().emplace(name);"),
    .order "compile pushes a dependency set before the first public encoding"),
  (("types_compiler.hpp", "compile_public_encoding", "frontback", "name, detail_type, public_type, dependencies.back(), traits);"),
    .order "compile pushes a dependency set before the first public encoding"),
  (("types_compiler.hpp", "compile_public_encoding", "popback", "dependencies.pop_back();"),
    .order "pops what the matching push_back / emplace_back a few lines above in the same function pushed"),
  (("utils.hpp", "primitive_type_to_cpp_type", "at", "return map.at(type);"),
    .rule "validate" "validate_encoding(type): primitiveType is a primitive type; field types are tested with is_primitive_type"),
  (("utils.hpp", "primitive_type_to_wrapper_type", "assert", "assert(presence != field_presence::constant);"),
    .order "constant fields are emitted by make_const_field_accessor before this call"),
  (("utils.hpp", "primitive_type_to_wrapper_type", "at", "return required_types.at(type);"),
    .rule "validate" "validate_encoding(type): primitiveType is a primitive type; field types are tested with is_primitive_type"),
  (("utils.hpp", "primitive_type_to_wrapper_type", "at", "return optional_types.at(type);"),
    .rule "validate" "validate_encoding(type): primitiveType is a primitive type; field types are tested with is_primitive_type"),
  (("utils.hpp", "get_underlying_size", "at", "return map.at(underlying_type);"),
    .order "argument is a value of primitive_type_to_cpp_type"),
  (("utils.hpp", "get_valid_offset", "optderef", "if(*offset >= min_offset)"),
    .local_ "tested by if(x) on the same optional in this function"),
  (("utils.hpp", "get_valid_offset", "optderef", "return *offset;"),
    .local_ "tested by if(x) on the same optional in this function"),
  (("utils.hpp", "get_valid_offset", "optderef", "*offset,"),
    .local_ "tested by if(x) on the same optional in this function"),
  (("utils.hpp", "strip_leading_zeros", "index", "const auto is_negative = (!value.empty() && (value[0] == '-'));"),
    .local_ "!value.empty() in the same condition"),
  (("utils.hpp", "strip_leading_zeros", "substr", "auto digits = value.substr(is_negative ? 1 : 0);"),
    .local_ "is_negative implies !value.empty(): 1 <= size()"),
  (("utils.hpp", "strip_leading_zeros", "substr", "digits = digits.empty() ? digits : digits.substr(digits.size() - 1);"),
    .local_ "digits.empty() tested in the same expression"),
  (("utils.hpp", "strip_leading_zeros", "substr", "digits = digits.substr(first_non_zero);"),
    .local_ "first_non_zero != npos is an index into digits"),
  (("utils.hpp", "to_integer_literal", "assert", "assert(!value.empty() && (type != \"float\") && (type != \"double\"));"),
    .rule "validate" "value_fits_into_type: min/max/null/constant/validValue texts parse in the type"),
  (("utils.hpp", "to_integer_literal", "index", "if((type == \"int64\") && (value[0] == '-'))"),
    .rule "validate" "value_fits_into_type rejects the empty string"),
  (("utils.hpp", "to_integer_literal", "assert", "assert(v);"),
    .rule "validate" "value_fits_into_type: min/max/null/constant/validValue texts parse in the type"),
  (("utils.hpp", "to_integer_literal", "optderef", "\"{} {}\", min_signed_literal, (*v - min_signed_literal));"),
    .rule "validate" "value_fits_into_type: the text parses in the type"),
  (("utils.hpp", "to_integer_literal", "assert", "assert(v); #2"),
    .rule "validate" "value_fits_into_type: min/max/null/constant/validValue texts parse in the type"),
  (("utils.hpp", "to_integer_literal", "optderef", "if(*v > max_signed_literal)"),
    .rule "validate" "value_fits_into_type: the text parses in the type"),
  (("utils.hpp", "parse_value_ref", "substr", "res.enum_name = value_ref.substr(0, dot_pos);"),
    .local_ "dot_pos != npos tested before: dot_pos < size(), dot_pos + 1 <= size()"),
  (("utils.hpp", "parse_value_ref", "substr", "res.enumerator = value_ref.substr(dot_pos + 1);"),
    .local_ "dot_pos != npos tested before: dot_pos < size(), dot_pos + 1 <= size()"),
  (("utils.hpp", "numeric_literal_to_value", "assert", "assert(!value.empty());"),
    .rule "validate" "value_fits_into_type: min/max/null/constant/validValue texts parse in the type"),
  (("utils.hpp", "get_schema_encoding", "at", "return schema.types.at(lowered_name);"),
    .rule "validate" "every encoding name used after validation was looked up by get_encoding and rejected when missing"),
  (("utils.hpp", "get_schema_encoding_as", "get", "return std::get<T>(get_schema_encoding(schema, name));"),
    .rule "validate" "callers name an encoding whose kind the validator checked (header composite, header element type, valueRef enum)")
]
def guardOf (s : SiteKey) : Option Guard := guardTable.lookup s

/-- the recursion `parse_include → schema_parser → parse_schema_content`; the
    model's fuel can only run out here (and never does with `fs.length < fuel`) -/
def includeSite : SiteKey := ("schema_parser.hpp", "parse_include", "recursion", "calls parse_schema_content")

/-! ## command line (main.cpp `parse_command_line`) -/

structure Config where
  file : String := ""
  schemaName : Option String := none
  outputDir : String := "."
  inject : Option String := none
  deriving Repr, DecidableEq

inductive Cmd
  | exit0                 -- help / version printed, `std::exit(0)`
  | error (msg : String)  -- `throw_error`
  | go (c : Config)
  deriving Repr, DecidableEq

def positional : List String → Config → Cmd
  | [], _ => .error "missing filename"
  | [f], c => .go { c with file := f }
  | _, _ => .error "too many arguments"

def noValue (opt : String) : Cmd := .error ("no value for option `" ++ opt ++ "`")

/-- the option loop; `args` is `argv[1..]` -/
def parseArgs : List String → Config → Cmd
  | [], c => positional [] c
  | a :: rest, c =>
    if a = "--schema-name" then
      match rest with
      | v :: r => parseArgs r { c with schemaName := some v }
      | [] => noValue a
    else if a = "--output-dir" then
      match rest with
      | v :: r => parseArgs r { c with outputDir := v }
      | [] => noValue a
    else if a = "--inject-include" then
      match rest with
      | v :: r => parseArgs r { c with inject := some v }
      | [] => noValue a
    else if a = "--version" then .exit0
    else if a = "--help" then .exit0
    else if a = "--" then positional rest c
    else if a.toList.head? = some '-' then .error ("unknown argument: `" ++ a ++ "`")
    else positional (a :: rest) c

/-- `argv` includes `argv[0]`; `argc < 2` prints the help and exits 0 -/
def parseCommandLine : List String → Cmd
  | [] => .exit0
  | [_] => .exit0
  | _ :: args => parseArgs args {}

/-! ## file system and flattened DOM -/

inductive Kind | type | composite | enum | set | ref | message | field | group | data | other
  deriving DecidableEq, Repr

structure TNode where
  kind : Kind := .other
  attrs : List (String × String) := []
  text : String := ""         -- PCDATA content ("" = no text child)
  depth : Nat := 0            -- nesting depth below the enclosing `<types>` / `<message>`
  deriving Repr, DecidableEq

def TNode.attr (n : TNode) (k : String) : Option String := n.attrs.lookup k

/-- a child of the document root / of `messageSchema` -/
inductive Item
  | schema (n : TNode) (content : List Item)   -- `<messageSchema>`
  | types (n : TNode) (desc : List TNode)       -- `<types>` and its descendants in document order
  | message (n : TNode) (desc : List TNode)     -- `<message>` (n) and its descendants
  | incl (n : TNode)                            -- `<include href=…>`
  | other (n : TNode)                           -- anything else (warning "unhandled XML node")

inductive Xml
  | malformed (what : String)                   -- pugixml error text
  | doc (top : List Item)

inductive Entry
  | missing
  | dir
  | file (x : Xml)

abbrev FS := List (String × Entry)

def FS.get (fs : FS) (p : String) : Entry := (fs.lookup p).getD .missing

/-- what the parser hands on -/
structure Parsed where
  schemaAttrs : List (String × String) := []
  nodes : List TNode := []
  deriving Repr, DecidableEq

/-- everything the model does not transliterate -/
structure Env where
  /-- the parser's remaining diagnostics (duplicate names, missing attributes of
      elements other than `<type>`, member order …), lumped after the traversal -/
  parseDiag : Parsed → Option String
  /-- sbe_schema_validator, sbe_schema_cpp_validator, names_generator: message of the first error -/
  validate : Config → Parsed → Option String
  /-- would the access at a *guarded* site fail on this schema? -/
  siteFails : SiteKey → Parsed → Bool
  /-- directories created and files written by schema_compiler, in order -/
  dirs : Config → Parsed → List String
  files : Config → Parsed → List String
  mkdirFails : String → Bool
  openFails : String → Bool

/-- stops of the parsing stages -/
inductive PStop
  | diag (msg : String)
  | fuel
  deriving Repr, DecidableEq

abbrev PM := Except PStop

def loc (path : String) : String := path ++ ":L:C"

/-- `std::from_chars` into an unsigned type of `bits` bits, full consumption -/
def isNum (bits : Nat) (s : String) : Bool :=
  s.toList ≠ [] && s.toList.all Char.isDigit && decide (s.toList.foldl (fun a c => a * 10 + (c.toNat - 48)) 0 < 2 ^ bits)

def requiredNonEmpty (path : String) (n : TNode) (a : String) : PM String :=
  match n.attr a with
  | none => throw (.diag (loc path ++ ": required attribute `" ++ a ++ "` doesn't exist"))
  | some v => if v = "" then throw (.diag (loc path ++ ": `" ++ a ++ "` attribute is empty")) else pure v

def optNum (path : String) (n : TNode) (a : String) (bits : Nat) : PM Unit :=
  match n.attr a with
  | none => pure ()
  | some v => if isNum bits v then pure ()
      else throw (.diag (loc path ++ ": cannot convert `" ++ a ++ "` value (" ++ v ++ ") to its underlying numeric type"))

def reqNum (path : String) (n : TNode) (a : String) (bits : Nat) : PM Unit := do
  let v ← requiredNonEmpty path n a
  if isNum bits v then pure ()
  else throw (.diag (loc path ++ ": cannot convert `" ++ a ++ "` value (" ++ v ++ ") to its underlying numeric type"))

def checkPresence (path : String) (n : TNode) : PM Unit :=
  match n.attr "presence" with                      -- get_presence
  | none => pure ()
  | some p => if p = "required" ∨ p = "optional" ∨ p = "constant" then pure ()
              else throw (.diag (loc path ++ ": wrong presence token `" ++ p ++ "`"))

/-- `schema_parser::parse_type_encoding`, statement by statement as far as
    diagnostics are concerned.  The length deduction of a constant `char` type
    (`t.constant_value->size()`) is now under `&& t.constant_value` and cannot
    fail; it has no influence on the outcome and is left out. -/
def parseType (path : String) (n : TNode) : PM Unit := do
  let _ ← requiredNonEmpty path n "name"
  checkPresence path n
  optNum path n "length" 64
  optNum path n "offset" 64
  let _ ← requiredNonEmpty path n "primitiveType"
  optNum path n "sinceVersion" 64
  optNum path n "deprecated" 64

/-- `schema_parser::max_nesting_depth` -/
def maxNestingDepth : Nat := 64

/-- `throw_if_nested_too_deep` at the entry of `parse_composite_encoding` and
    `parse_group_member` (`depth`: 1 for a top-level composite / a message-level group) -/
def checkDepth (path : String) (n : TNode) : PM Unit :=
  if (n.kind = .composite ∨ n.kind = .group) ∧ maxNestingDepth < n.depth then
    throw (.diag (loc path ++ ": nesting is too deep, at most 64 levels are supported"))
  else pure ()

/-- one node of the traversal: nesting depth, and for `<type>` the attribute checks -/
def checkNode (path : String) (n : TNode) : PM Unit := do
  checkDepth path n
  match n.kind with
  | .type => parseType path n
  | _ => pure ()

def checkNodes (path : String) : List TNode → PM Unit
  | [] => pure ()
  | n :: r => do checkNode path n; checkNodes path r

def Parsed.add (p : Parsed) (ns : List TNode) : Parsed := { p with nodes := p.nodes ++ ns }

/-- `parse_schema_content` over the children of `messageSchema` / of an included
    document's root; `incl` resolves one `<include>` -/
def parseItemsWith (path : String) (incl : TNode → Parsed → PM Parsed) :
    List Item → Parsed → PM Parsed
  | [], acc => pure acc
  | .types _ desc :: r, acc => do
      checkNodes path desc
      parseItemsWith path incl r (acc.add desc)
  | .message n desc :: r, acc => do
      checkNodes path (n :: desc)
      parseItemsWith path incl r (acc.add (n :: desc))
  | .incl n :: r, acc => do
      let acc' ← incl n acc
      parseItemsWith path incl r acc'
  | .other _ :: r, acc => parseItemsWith path incl r acc     -- warning "unhandled XML node"
  | .schema _ _ :: r, acc => parseItemsWith path incl r acc  -- inside content: unhandled node

/-- `fs_provider::read_file` + `parse_xml` -/
def loadDoc (fs : FS) (path : String) : PM (List Item) :=
  match fs.get path with
  | .missing => throw (.diag ("can't open file: `" ++ path ++ "`"))
  | .dir => throw (.diag ("can't read file: `" ++ path ++ "` is a directory"))
  | .file (.malformed what) => throw (.diag (loc path ++ ": XML parsing error: `" ++ what ++ "`"))
  | .file (.doc top) => pure top

/-- `parse_include`: the `href` must not be on the include stack (the files
    whose parsing is in progress, outermost first); otherwise a new
    `schema_parser` for `href`, whose whole top level is content, with the
    stack extended by `href`.  `fuel` bounds the nesting of parsers. -/
def parseIncl (fs : FS) (path : String) (stack : List String) : Nat → TNode → Parsed → PM Parsed
  | 0, n, _ => do
      let href ← requiredNonEmpty path n "href"
      if href ∈ stack then throw (.diag (loc path ++ ": cyclic include of `" ++ href ++ "`"))
      else throw .fuel
  | fuel + 1, n, acc => do
      let href ← requiredNonEmpty path n "href"
      if href ∈ stack then throw (.diag (loc path ++ ": cyclic include of `" ++ href ++ "`"))
      else do
        let top ← loadDoc fs href
        parseItemsWith href (parseIncl fs href (stack ++ [href]) fuel) top acc

/-- `get_message_schema_node` -/
def findSchema (path : String) : List Item → PM (TNode × List Item)
  | [] => throw (.diag (loc path ++ ": can't find `messageSchema` child"))
  | .schema n c :: _ => pure (n, c)
  | .types _ _ :: r => findSchema path r
  | .message _ _ :: r => findSchema path r
  | .incl _ :: r => findSchema path r
  | .other _ :: r => findSchema path r

def checkByteOrder (path : String) (n : TNode) : PM Unit :=
  match n.attr "byteOrder" with
  | none => pure ()
  | some v => if v = "littleEndian" ∨ v = "bigEndian" then pure ()
              else throw (.diag (loc path ++ ": unknown byteOrder value: `" ++ v ++ "`"))

/-- `parse_message_schema` -/
def parseSchemaAttrs (path : String) (n : TNode) : PM Unit := do
  reqNum path n "id" 32
  reqNum path n "version" 64
  checkByteOrder path n

def parseMain (fs : FS) (fuel : Nat) (path : String) : PM Parsed := do
  let top ← loadDoc fs path
  let (n, content) ← findSchema path top
  parseSchemaAttrs path n
  parseItemsWith path (parseIncl fs path [path] fuel) content { schemaAttrs := n.attrs }

/-! ## after parsing -/

inductive Stop
  | p (s : PStop)
  | guarded (s : SiteKey)   -- a *guarded* site failed (excluded by `Sound`)
  deriving Repr, DecidableEq

def guardedSites : List SiteKey :=
  (guardTable.filter (fun e => !e.2.isUnguarded)).map (·.1)

/-- everything up to the first write -/
def front (env : Env) (fuel : Nat) (argv : List String) (fs : FS) : Except Stop (Option (Config × Parsed)) :=
  match parseCommandLine argv with
  | .exit0 => .ok none
  | .error msg => .error (.p (.diag msg))
  | .go cfg =>
    match parseMain fs fuel cfg.file with
    | .error e => .error (.p e)
    | .ok parsed =>
      match env.parseDiag parsed with
      | some msg => .error (.p (.diag msg))
      | none =>
        match env.validate cfg parsed with
        | some msg => .error (.p (.diag msg))
        | none =>
          match guardedSites.find? (fun s => env.siteFails s parsed) with
          | some s => .error (.guarded s)
          | none => .ok (some (cfg, parsed))

/-- `fs_provider::write_file` per file: a failing open is a diagnostic, what was
    written before stays.  (Failing writes are the subject of C20; here the
    operating system only refuses names.) -/
def emitFiles (env : Env) : List String → List String → Option String × List String
  | [], acc => (none, acc)
  | f :: r, acc =>
    if env.openFails f then (some ("can't open file: `" ++ f ++ "`"), acc)
    else emitFiles env r (acc ++ [f])

/-- `schema_compiler::compile`: directories first, then the files -/
def emit (env : Env) (cfg : Config) (p : Parsed) : Option String × List String :=
  match (env.dirs cfg p).find? env.mkdirFails with
  | some d => (some ("can't create directory " ++ d ++ ", error: `E`"), [])
  | none => emitFiles env (env.files cfg p) []

inductive Outcome
  | ok (files : List String)
  | diag (msg : String)
  | crash (site : SiteKey)
  deriving Repr, DecidableEq

def Outcome.isCrash : Outcome → Bool
  | .crash _ => true
  | _ => false

/-- `catch(const sbe_error& e) { reporter.error("{}", e.what()); return 1; }` -/
def report : Stop → Outcome
  | .p (.diag msg) => .diag msg
  | .p .fuel => .crash includeSite     -- a recursion without bound would exhaust the stack
  | .guarded s => .crash s

structure Result where
  outcome : Outcome
  written : List String     -- generated files on disk afterwards
  deriving Repr, DecidableEq

def run (env : Env) (fuel : Nat) (argv : List String) (fs : FS) : Result :=
  match front env fuel argv fs with
  | .error e => ⟨report e, []⟩
  | .ok none => ⟨.ok [], []⟩
  | .ok (some (cfg, p)) =>
    match emit env cfg p with
    | (none, w) => ⟨.ok w, w⟩
    | (some msg, w) => ⟨.diag msg, w⟩

/-- the guard table's claim about the guarded sites: an access can only fail
    on a schema that an earlier stage rejects (`rule`); `static`, `local_` and
    `order` sites never fail -/
def Sound (env : Env) : Prop :=
  ∀ e ∈ guardTable, ∀ cfg p, env.siteFails e.1 p = true →
    match e.2 with
    | .unguarded _ => True
    | .rule _ _ => env.parseDiag p ≠ none ∨ env.validate cfg p ≠ none
    | _ => False

end Sbepp.Gen.Pipeline
