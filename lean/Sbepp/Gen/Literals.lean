/-
  C07, literal rendering.  Model of how sbeppc turns schema values into C++
  literal text (`utils::to_integer_literal`, `numeric_literal_to_value`,
  `make_char_constant` / `make_string_constant`, enumerators, offsets, ids,
  header-filler constants, block lengths, free text pasted into string
  literals), of the checks the validator applied to those values before
  (`value_fits_into_type`: `std::from_chars`, `strtof`/`strtod`), and of what a
  C++ compiler makes of the emitted text at the SITE where it is pasted:

    * `return {lit};` / `T{lit}` / `f({lit})`  — list-initialisation: an integer
      constant must be in the range of an integer target, must convert exactly to
      a floating target; a floating constant must be in the range of the target
      ([dcl.init.list] narrowing);
    * `"text"`, `'c'` — the text must lex as ONE string / character literal that
      denotes the same characters.

  Everything is on `List Char` so that the kernel evaluates it (`decide`).
-/
import Sbepp.Schema.Ast
import Sbepp.Schema.Resolve
import Sbepp.Spec.Optional
import Sbepp.Extracted.Tables
import Sbepp.Extracted.Templates

namespace Sbepp.Gen.Literals
open Sbepp Sbepp.Schema
open Sbepp.Extracted

/-! ## Verdicts -/

/-- what the compilers make of one literal site -/
inductive Verdict
  /-- well-formed and denotes the schema value -/
  | ok
  /-- well-formed but denotes another value (`010` is 8; `"a\qb"` is `aqb`) -/
  | changed
  /-- ill-formed under every configuration -/
  | bad
  /-- ill-formed where trigraphs are replaced (`-std=c++11`, `-std=c++14`) -/
  | badPre17
  /-- accepted or rejected depending on the implementation (integer literal beyond `unsigned long long`) -/
  | implDep
  deriving DecidableEq, Repr, Inhabited

def Verdict.name : Verdict → String
  | .ok => "ok" | .changed => "changed" | .bad => "bad" | .badPre17 => "bad-pre17" | .implDep => "impl-dependent"

/-! ## Numbers as the validator reads them -/

def digitVal? (c : Char) : Option Nat :=
  if c.isDigit then some (c.toNat - '0'.toNat) else none

/-- value of a digit string in base `b` (left fold); `none` on a non-digit or a digit `≥ b` -/
def digitsVal (b : Nat) : List Char → Nat → Option Nat
  | [], acc => some acc
  | c :: cs, acc =>
    match digitVal? c with
    | some d => if d < b then digitsVal b cs (acc * b + d) else none
    | none => none

def decimal (cs : List Char) : Option Nat := if cs.isEmpty then none else digitsVal 10 cs 0

/-- `std::from_chars(first, last, value)` in base 10 with full consumption, as `utils::string_to_number<T>` uses
    it: an optional `-` (signed `T` only), at least one digit, leading zeros allowed, no `+`, no blanks; the
    mathematical value (range is checked by the caller) -/
def fromChars (signed : Bool) : List Char → Option Int
  | '-' :: cs => if signed then (decimal cs).map (fun (n : Nat) => -(Int.ofNat n)) else none
  | cs => (decimal cs).map (fun (n : Nat) => Int.ofNat n)

/-- range of the C++ type of an integer primitive (plain `char` is signed) -/
def primRange? : Prim → Option (Int × Int)
  | .char | .int8 => some (-128, 127)
  | .uint8 => some (0, 255)
  | .int16 => some (-32768, 32767)
  | .uint16 => some (0, 65535)
  | .int32 => some (-2147483648, 2147483647)
  | .uint32 => some (0, 4294967295)
  | .int64 => some (-9223372036854775808, 9223372036854775807)
  | .uint64 => some (0, 18446744073709551615)
  | .float | .double => none

def inPrimRange (p : Prim) (v : Int) : Bool :=
  match primRange? p with
  | some (lo, hi) => decide (lo ≤ v) && decide (v ≤ hi)
  | none => false

/-- `can_be_parsed_as<T>`: the parsed value, if the text is accepted for integer primitive `p` -/
def parseIntFor (p : Prim) (cs : List Char) : Option Int :=
  match fromChars p.isSigned cs with
  | some v => if inPrimRange p v then some v else none
  | none => none

/-! ### Decimal floating-point texts (`can_be_parsed_as_fp`) -/

/-- a decimal floating text `[sign] digits [. digits] [e [sign] digits]`, value `mant × 10 ^ exp10` -/
structure FpText where
  neg : Bool
  plus : Bool            -- written with a leading `+`
  mant : Nat
  exp10 : Int
  /-- no `.`, no exponent: the text is also an integer literal in C++ -/
  integerLooking : Bool
  /-- digits before the `.` (for the octal reading of an integer-looking text) -/
  intDigits : List Char
  deriving Repr, DecidableEq

def splitWhile (p : Char → Bool) : List Char → List Char × List Char
  | [] => ([], [])
  | c :: cs => if p c then let (a, b) := splitWhile p cs; (c :: a, b) else ([], c :: cs)

/-- exponent part `e[sign]digits` -/
def parseExp : List Char → Option Int
  | [] => some 0
  | e :: rest =>
    if e = 'e' ∨ e = 'E' then
      match rest with
      | '-' :: ds => (decimal ds).map (fun (n : Nat) => -(Int.ofNat n))
      | '+' :: ds => (decimal ds).map (fun (n : Nat) => Int.ofNat n)
      | ds => (decimal ds).map (fun (n : Nat) => Int.ofNat n)
    else none

def parseFpBody (neg plus : Bool) (cs : List Char) : Option FpText :=
  let (ip, rest) := splitWhile Char.isDigit cs
  match rest with
  | '.' :: rest' =>
    let (fp, rest'') := splitWhile Char.isDigit rest'
    if ip.isEmpty ∧ fp.isEmpty then none
    else
      match digitsVal 10 (ip ++ fp) 0, parseExp rest'' with
      | some m, some e => some ⟨neg, plus, m, e - (fp.length : Int), false, ip⟩
      | _, _ => none
  | [] => if ip.isEmpty then none else (digitsVal 10 ip 0).map (fun m => ⟨neg, plus, m, 0, true, ip⟩)
  | _ =>
    if ip.isEmpty then none
    else
      match digitsVal 10 ip 0, parseExp rest with
      | some m, some e => some ⟨neg, plus, m, e, false, ip⟩
      | _, _ => none

/-- the special values of XML / SBE -/
inductive FpSpecial | nan | inf | negInf
  deriving DecidableEq, Repr

def fpSpecial? (cs : List Char) : Option FpSpecial :=
  if cs = "NaN".toList then some .nan
  else if cs = "INF".toList ∨ cs = "+INF".toList then some .inf
  else if cs = "-INF".toList then some .negInf
  else none

def parseFp : List Char → Option FpText
  | '-' :: cs => parseFpBody true false cs
  | '+' :: cs => parseFpBody false true cs
  | cs => parseFpBody false false cs

/-- `|mant × 10^exp10| < bound` for a natural `bound` -/
def fpBelow (t : FpText) (bound : Nat) : Bool :=
  if 0 ≤ t.exp10 then decide (t.mant * 10 ^ t.exp10.toNat < bound)
  else decide (t.mant < bound * 10 ^ (-t.exp10).toNat)

/-- `num / den ≤ |mant × 10^exp10|` -/
def fpAtLeast (t : FpText) (num den : Nat) : Bool :=
  if 0 ≤ t.exp10 then decide (num ≤ t.mant * 10 ^ t.exp10.toNat * den)
  else decide (num * 10 ^ (-t.exp10).toNat ≤ t.mant * den)

/-- first magnitude that rounds to infinity (round to nearest even): `(2^(p+1) − 1) · 2^(emax − p)`;
    binary32: `(2^25 − 1)·2^103`, binary64: `(2^54 − 1)·2^970` -/
def overflowThreshold : Prim → Nat
  | .float => (2 ^ 25 - 1) * 2 ^ 103
  | .double => (2 ^ 54 - 1) * 2 ^ 970
  | _ => 0

/-- smallest positive normal number is `1 / 2^k` with `k` = 126 / 1022 -/
def minNormalLog : Prim → Nat
  | .float => 126
  | .double => 1022
  | _ => 0

/-- `strtof` / `strtod` do not set `ERANGE`: the value does not overflow and is zero or not below the
    smallest normal number (glibc reports underflow for inexact subnormal results; every decimal text in that
    range is treated as rejected here — the schema generators stay away from it) -/
def fpInRange (p : Prim) (t : FpText) : Bool :=
  fpBelow t (overflowThreshold p) && (t.mant == 0 || fpAtLeast t 1 (2 ^ minNormalLog p))

/-- `can_be_parsed_as_fp<float|double>` -/
def fpAccepted (p : Prim) (cs : List Char) : Bool :=
  (fpSpecial? cs).isSome ||
  match parseFp cs with
  | some t => fpInRange p t
  | none => false

/-- `sbe_schema_validator::value_fits_into_type` -/
def valueFits (p : Prim) (cs : List Char) : Bool :=
  if cs.isEmpty then false
  else if p.isFloat then fpAccepted p cs
  else (parseIntFor p cs).isSome

/-! ## Rendering (`utils.hpp`) -/

def natDigits (n : Nat) : List Char := (Nat.repr n).toList

/-- an integer literal expression as the generator emits it, token by token:
    `[-]digits[UL]` or `[-]digits -digits2` (the `"{} {}"` form for the most negative `int64`) -/
structure IntLit where
  neg : Bool
  digits : List Char
  ul : Bool := false
  minus : Option (List Char) := none
  deriving Repr, DecidableEq

/-- the emitted text -/
def IntLit.text (l : IntLit) : List Char :=
  (if l.neg then ['-'] else []) ++ l.digits ++ (if l.ul then ['U', 'L'] else []) ++
  (match l.minus with | some d => ' ' :: '-' :: d | none => [])

def int64MinDigits : List Char := "9223372036854775807".toList

/-- the digits part of `utils::strip_leading_zeros`: superfluous leading zeros are dropped, a text of zeros
    keeps its last character -/
def stripZeros (ds : List Char) : List Char :=
  match ds.dropWhile (· == '0') with
  | [] => (match ds.getLast? with | some c => [c] | none => [])
  | r => r

/-- how `to_integer_literal` pastes the digits of a value: through `strip_leading_zeros` when
    `Extracted.Templates.stripsLeadingZeros` says the generator does so, as written otherwise -/
def pastedDigits (ds : List Char) : List Char := if Templates.stripsLeadingZeros then stripZeros ds else ds

/-- `utils::to_integer_literal(value, type)`; `value` was accepted for `type` -/
def toIntegerLiteral (p : Prim) (cs : List Char) : IntLit :=
  match cs with
  | '-' :: ds =>
    if p == .int64 then
      match decimal ds with
      | some n =>
        -- `*v < min_signed_literal` : format `"{} {}"` of −9223372036854775807 and the (negative) difference
        if 9223372036854775807 < n then ⟨true, int64MinDigits, false, some (natDigits (n - 9223372036854775807))⟩
        else ⟨true, pastedDigits ds, false, none⟩
      | none => ⟨true, pastedDigits ds, false, none⟩
    else ⟨true, pastedDigits ds, false, none⟩
  | _ =>
    if p == .uint64 then
      match decimal cs with
      | some n => ⟨false, pastedDigits cs, decide (9223372036854775807 < n), none⟩
      | none => ⟨false, pastedDigits cs, false, none⟩
    else ⟨false, pastedDigits cs, false, none⟩

/-- `utils::numeric_literal_to_value` for `float` / `double`: the special values become
    `numeric_limits` members, everything else is pasted -/
inductive FpRendered
  | special (s : FpSpecial)
  | pasted (cs : List Char)
  deriving Repr, DecidableEq

/-- `value.find_first_of(".eE") == npos` -/
def noDotExp (cs : List Char) : Bool := cs.all (fun c => !(c == '.' || c == 'e' || c == 'E'))

def renderFp (cs : List Char) : FpRendered :=
  match fpSpecial? cs with
  | some s => .special s
  | none =>
    -- an integer-looking text gets `.0` (when `Extracted.Templates.floatDotZero` says the generator does so)
    if Templates.floatDotZero && noDotExp cs then .pasted (cs ++ ['.', '0']) else .pasted cs

/-! ## What C++ reads -/

/-- digits of a C++ integer literal: a leading `0` followed by more digits makes it octal -/
def cxxDigits (ds : List Char) : Option Nat :=
  match ds with
  | [] => none
  | '0' :: d :: rest => digitsVal 8 (d :: rest) 0
  | _ => digitsVal 10 ds 0

/-- value of the literal expression; `none`: not an integer literal of a standard type (bad octal digit, or a
    value no `unsigned long long` holds) -/
def IntLit.value? (l : IntLit) : Option Int :=
  match cxxDigits l.digits with
  | some n =>
    if n < 2 ^ 64 then
      let a : Int := if l.neg then -(n : Int) else (n : Int)
      match l.minus with
      | none => some a
      | some d =>
        match cxxDigits d with
        | some m => some (a - (m : Int))
        | none => none
    else none
  | none => none

/-- an integer is exactly representable in a binary floating type with `p` significand bits
    (every integer literal of a standard type is far below the largest finite value) -/
def exactInFloat (p : Nat) (v : Nat) : Bool :=
  v == 0 || (let sh := (Nat.log2 v + 1) - p; v / 2 ^ sh * 2 ^ sh == v)

def significand : Prim → Nat
  | .float => 24
  | .double => 53
  | _ => 0

/-- list-initialisation of primitive `p` from an integer constant `v` -/
def bracedInt (p : Prim) (v : Int) : Bool :=
  if p.isFloat then exactInFloat (significand p) v.natAbs else inPrimRange p v

/-! ### String and character literals -/

def isOctDigit (c : Char) : Bool := '0' ≤ c ∧ c ≤ '7'
def isHexDigit (c : Char) : Bool := c.isDigit || ('a' ≤ c ∧ c ≤ 'f') || ('A' ≤ c ∧ c ≤ 'F')

def hexVal (c : Char) : Nat :=
  if c.isDigit then c.toNat - 48 else if 'a' ≤ c ∧ c ≤ 'f' then c.toNat - 87 else c.toNat - 55

/-- what a simple escape sequence `\c` denotes -/
def simpleEscape? (c : Char) : Option Char :=
  if c == '\'' then some '\'' else if c == '"' then some '"' else if c == '?' then some '?'
  else if c == '\\' then some '\\' else if c == 'a' then some (Char.ofNat 7) else if c == 'b' then some (Char.ofNat 8)
  else if c == 'f' then some (Char.ofNat 12) else if c == 'n' then some '\n' else if c == 'r' then some '\r'
  else if c == 't' then some '\t' else if c == 'v' then some (Char.ofNat 11) else none

/-- trigraph replacement of the one sequence that matters inside a literal: `??/` is a backslash.
    `n` question marks are pending -/
def deTriAux : Nat → List Char → List Char
  | n, [] => List.replicate n '?'
  | 0, c :: r => if c == '?' then deTriAux 1 r else c :: deTriAux 0 r
  | 1, c :: r => if c == '?' then deTriAux 2 r else '?' :: c :: deTriAux 0 r
  | _ + 2, c :: r =>
    if c == '/' then '\\' :: deTriAux 0 r
    else if c == '?' then '?' :: deTriAux 2 r
    else '?' :: '?' :: c :: deTriAux 0 r

def deTrigraph (l : List Char) : List Char := deTriAux 0 l

/-- lexer state inside a literal: ordinary characters; directly after a backslash; after one / two octal
    digits (value so far); after `\x` without / with digits -/
inductive DSt
  | normal | esc | oct1 (v : Nat) | oct2 (v : Nat) | hex0 | hex (v : Nat)
  deriving DecidableEq, Repr

/-- the characters a string (`q = '"'`) or character (`q = '\''`) literal with the given text between its
    quotes denotes; `none`: the literal ends early, never ends, or contains an ill-formed escape sequence.
    `acc` collects the denoted characters in reverse -/
def denoteAux (q : Char) : DSt → List Char → List Char → Option (List Char)
  | .normal, [], acc => some acc.reverse
  | .esc, [], _ => none                               -- the backslash escapes the closing quote
  | .oct1 v, [], acc => some (Char.ofNat v :: acc).reverse
  | .oct2 v, [], acc => some (Char.ofNat v :: acc).reverse
  | .hex0, [], _ => none
  | .hex v, [], acc => some (Char.ofNat v :: acc).reverse
  | .normal, c :: rest, acc =>
    if c == '\\' then denoteAux q .esc rest acc
    else if c == q || c == '\n' then none
    else denoteAux q .normal rest (c :: acc)
  | .esc, c :: rest, acc =>
    if isOctDigit c then denoteAux q (.oct1 (c.toNat - 48)) rest acc
    else
      match simpleEscape? c with
      | some d => denoteAux q .normal rest (d :: acc)
      | none =>
        if c == 'x' then denoteAux q .hex0 rest acc
        else if c == 'u' || c == 'U' || c == '\n' then none   -- universal-character-names are not produced
        else denoteAux q .normal rest (c :: acc)             -- unknown escape: accepted with a warning
  | .oct1 v, c :: rest, acc =>
    if isOctDigit c then denoteAux q (.oct2 (v * 8 + (c.toNat - 48))) rest acc
    else if c == '\\' then denoteAux q .esc rest (Char.ofNat v :: acc)
    else if c == q || c == '\n' then none
    else denoteAux q .normal rest (c :: Char.ofNat v :: acc)
  | .oct2 v, c :: rest, acc =>
    if isOctDigit c then denoteAux q .normal rest (Char.ofNat (v * 8 + (c.toNat - 48)) :: acc)
    else if c == '\\' then denoteAux q .esc rest (Char.ofNat v :: acc)
    else if c == q || c == '\n' then none
    else denoteAux q .normal rest (c :: Char.ofNat v :: acc)
  | .hex0, c :: rest, acc => if isHexDigit c then denoteAux q (.hex (hexVal c)) rest acc else none
  | .hex v, c :: rest, acc =>
    if isHexDigit c then denoteAux q (.hex (v * 16 + hexVal c)) rest acc
    else if c == '\\' then denoteAux q .esc rest (Char.ofNat v :: acc)
    else if c == q || c == '\n' then none
    else denoteAux q .normal rest (c :: Char.ofNat v :: acc)

def denote (q : Char) (body : List Char) : Option (List Char) := denoteAux q .normal body []

/-- the digit `k` (below 8) as a character -/
def digitChar (k : Nat) : Char := Char.ofNat (48 + k)

/-- `fmt::format("{:03o}", n)` for `n < 512` -/
def octal3 (n : Nat) : List Char := [digitChar (n / 64 % 8), digitChar (n / 8 % 8), digitChar (n % 8)]

/-- one iteration of `utils::escape_literal` -/
def escapeChar (c : Char) : List Char :=
  if c == '"' then ['\\', '"'] else if c == '\'' then ['\\', '\''] else if c == '\\' then ['\\', '\\']
  else if c == '?' then ['\\', '?'] else if c == '\n' then ['\\', 'n'] else if c == '\r' then ['\\', 'r']
  else if c == '\t' then ['\\', 't']
  else if c.toNat < 0x20 then '\\' :: octal3 c.toNat
  else [c]

/-- `utils::escape_literal` -/
def escapeLiteral (cs : List Char) : List Char := cs.flatMap escapeChar

/-- schema text as it is pasted between quotes: through `escape_literal` when
    `Extracted.Templates.escapesLiterals` says every site does so, as written otherwise -/
def pastedText (cs : List Char) : List Char := if Templates.escapesLiterals then escapeLiteral cs else cs

/-- the `\0` padding of a string constant -/
def padding (pad : Nat) : List Char := (List.replicate pad ['\\', '0']).flatten

/-- verdict of a literal with `body` between its quotes that is meant to denote `expected`, with and without
    trigraph replacement -/
def literalVerdict (q : Char) (body expected : List Char) : Verdict :=
  match denote q body, denote q (deTrigraph body) with
  | none, _ => .bad
  | some _, none => .badPre17
  | some a, some b => if a == expected && b == expected then .ok else .changed

/-- `"text"` followed by `pad` times `\0` -/
def stringLiteral (text : List Char) (pad : Nat) : Verdict :=
  literalVerdict '"' (pastedText text ++ padding pad) (text ++ List.replicate pad (Char.ofNat 0))

/-- `'c'` for a one-character constant / enumerator -/
def charLiteral (text : List Char) : Verdict :=
  match text with
  | [c] => literalVerdict '\'' (pastedText [c]) [c]
  | _ => .bad

/-! ## Sites -/

/-- where a literal is pasted -/
inductive Target
  /-- a value of the C++ type of a primitive: `value_type` of a generated type, a header member, an
      underlying type -/
  | prim (p : Prim)
  /-- one of sbepp's `std::uintN_t` typedefs (`version_t`, `schema_id_t`, `offset_t`, …) of `bits` width -/
  | uint (bits : Nat)
  | str
  | chr
  deriving Repr, DecidableEq

inductive SiteText
  /-- an explicit integer value of the schema, rendered by `to_integer_literal` for primitive `p` -/
  | int (p : Prim) (cs : List Char)
  /-- an explicit value of a `float` / `double` entity, rendered by `numeric_literal_to_value` -/
  | fp (cs : List Char)
  /-- an unsigned number formatted by `fmt` -/
  | nat (n : Nat)
  /-- a row of the default tables (`Extracted.Tables`) -/
  | deflt (attr : Spec.Scalar.Attr) (text : String)
  /-- `::sbepp::to_underlying(E::X)`: the value the enumerator has -/
  | enumRef (v : Option Int)
  | chr (cs : List Char)
  | str (cs : List Char) (pad : Nat)
  deriving Repr

structure Site where
  kind : String
  entity : String
  text : SiteText
  target : Target

/-- integer-looking floating text read as the C++ integer literal it is -/
def fpAsInteger (t : FpText) : Option Nat := cxxDigits t.intDigits

def fitsFp (p : Prim) : FpRendered → Verdict
  | .special _ => .ok
  | .pasted cs =>
    match parseFp cs with
    | none => .bad
    | some t =>
      if t.integerLooking then
        match fpAsInteger t with
        | none =>
          -- `08`: invalid octal digit.  (digits only: `cxxDigits` fails only for a bad octal digit)
          .bad
        | some n =>
          if 2 ^ 64 ≤ n then .implDep
          else if !exactInFloat (significand p) n then .bad
          else if n != t.mant then .changed
          else .ok
      else if fpBelow t (overflowThreshold p) then .ok else .bad

def uintFits (bits n : Nat) : Bool := decide (n < 2 ^ bits)

/-- the verdict of one site -/
def Site.verdict (s : Site) : Verdict :=
  match s.target, s.text with
  | .prim p, .int q cs =>
    match (toIntegerLiteral q cs).value? with
    | none => .bad
    | some v =>
      if !bracedInt p v then .bad
      else if (fromChars true cs) == some v then .ok else .changed
  | .prim p, .fp cs => if p.isFloat then fitsFp p (renderFp cs) else .bad
  | .prim p, .nat n => if bracedInt p (n : Int) then .ok else .bad
  | .prim p, .deflt _ text => if (Spec.Scalar.evalLit p text).isSome then .ok else .bad
  | .prim p, .enumRef v =>
    match v with
    | some x => if bracedInt p x then .ok else .bad
    | none => .bad
  | .uint b, .nat n => if uintFits b n then .ok else .bad
  | .str, .str cs pad => stringLiteral cs pad
  | .chr, .chr cs => charLiteral cs
  | _, _ => .bad

/-! ## The sites of a schema -/

def primOf? (s : String) : Option Prim := Prim.ofName? s

def optList {α} : Option α → List α
  | some a => [a]
  | none => []

def textSite (kind entity : String) (t : String) : Site := ⟨kind, entity, .str t.toList 0, .str⟩

def attrSites (entity : String) (a : Attrs) : List Site :=
  [textSite "text.description" entity a.description] ++
  [⟨"since", entity, .nat a.since, .uint 64⟩] ++
  (optList a.deprecated).map (fun d => ⟨"deprecated", entity, .nat d, .uint 64⟩)

/-- min / max / null of a generated non-constant scalar type -/
def rangeSites (entity : String) (t : TypeDef) (p : Prim) : List Site :=
  let one (attr : Spec.Scalar.Attr) (kind : String) (v : Option String) (tbl : List (String × String)) : Site :=
    match v with
    | some txt =>
      if p.isFloat then ⟨kind, entity, .fp txt.toList, .prim p⟩
      else ⟨kind, entity, .int p txt.toList, .prim p⟩
    | none => ⟨kind ++ ".default", entity, .deflt attr ((Extracted.lookup tbl p.name).getD ""), .prim p⟩
  [one .min "min" t.minValue Extracted.genMin, one .max "max" t.maxValue Extracted.genMax] ++
  (if t.presence == .optional then [one .null "null" t.nullValue Extracted.genNull] else [])

/-- numeric value of an enumerator as C++ reads it (`'c'` or the integer literal) -/
def enumeratorValue (isChar : Bool) (p : Prim) (value : String) : Option Int :=
  if isChar then
    match value.toList with
    | [c] =>
      -- before `escape_literal`, `'` and `\\` made the enumerator itself ill-formed
      if (c == '\'' || c == '\\') && !Extracted.Templates.escapesLiterals then none else some (c.toNat : Int)
    | _ => none
  else (toIntegerLiteral p value.toList).value?

/-- the enumerator a `valueRef` names -/
def valueRefValue (types : List Elem) (ref : String) : Option Int :=
  -- `parse_value_ref`: split at the first `.`
  match splitWhile (fun c => c != '.') ref.toList with
  | (en', '.' :: vn') =>
    let en := String.ofList en'
    let vn := String.ofList vn'
    match lookup types en with
    | some (.enum _ enc _ values _) =>
      match encPrim types enc with
      | .ok pn =>
        match primOf? pn, values.find? (fun v => v.name == vn) with
        | some p, some v => enumeratorValue (pn == "char") p v.value
        | _, _ => none
      | .error _ => none
    | _ => none
  | _ => none

/-- `std::string::size()`: UTF-8 bytes -/
def byteLen (cs : List Char) : Nat := (cs.map (fun c => c.utf8Size)).sum

/-- `get_const_value` + `make_constant_accessor`: `T{value}` where a constant type is used -/
def constValueSites (types : List Elem) (entity : String) (t : TypeDef) : List Site :=
  match primOf? t.prim with
  | none => []
  | some p =>
    match t.valueRef, t.constValue with
    | some r, _ => [⟨"const.valueRef", entity, .enumRef (valueRefValue types r), .prim p⟩]
    | none, some c =>
      if p == .char then
        if byteLen c.toList > 1 then [⟨"const.string", entity, .str c.toList (t.length - byteLen c.toList), .str⟩]
        else [⟨"const.char", entity, .chr c.toList, .chr⟩]
      else if p.isFloat then [⟨"const", entity, .fp c.toList, .prim p⟩]
      else [⟨"const", entity, .int p c.toList, .prim p⟩]
    | none, none => []

/-- traits of a type: texts and numbers -/
def typeTraitSites (entity : String) (t : TypeDef) : List Site :=
  attrSites entity t.attrs ++
  [textSite "text.name" entity t.name, textSite "text.semanticType" entity t.attrs.semanticType,
   textSite "text.characterEncoding" entity (t.characterEncoding.getD ""),
   ⟨"length", entity, .nat t.length, .uint 64⟩] ++
  (optList t.offset).map (fun o => ⟨"offset", entity, .nat o, .uint 64⟩)

mutual
  /-- sites of one encoding (public type or composite element); `inComposite`: constants emit their value -/
  def elemSites (types : List Elem) (path : String) (inComposite : Bool) : Elem → List Site
    | .type t =>
      let entity := path ++ t.name
      typeTraitSites entity t ++
      (match primOf? t.prim with
       | some p =>
         if t.presence == .constant then (if inComposite then constValueSites types entity t else [])
         else if t.length == 1 then rangeSites entity t p else []
       | none => [])
    | .composite n off elems a =>
      let entity := path ++ n
      attrSites entity a ++ [textSite "text.name" entity n, textSite "text.semanticType" entity a.semanticType] ++
      (optList off).map (fun o => ⟨"offset", entity, .nat o, .uint 64⟩) ++
      elemsSites types (entity ++ ".") elems
    | .ref n ty off a =>
      let entity := path ++ n
      [textSite "text.name" entity n, ⟨"since", entity, .nat a.since, .uint 64⟩] ++
      (optList a.deprecated).map (fun d => ⟨"deprecated", entity, .nat d, .uint 64⟩) ++
      (optList off).map (fun o => ⟨"offset", entity, .nat o, .uint 64⟩) ++
      (match lookup types ty with
       | some (.type t) => if t.presence == .constant then constValueSites types entity t else []
       | _ => [])
    | .enum n enc off values a =>
      let entity := path ++ n
      let pn := match encPrim types enc with | .ok x => x | .error _ => ""
      attrSites entity a ++ [textSite "text.name" entity n] ++
      (optList off).map (fun o => ⟨"offset", entity, .nat o, .uint 64⟩) ++
      values.flatMap (fun v =>
        attrSites (entity ++ "." ++ v.name) v.attrs ++ [textSite "text.name" (entity ++ "." ++ v.name) v.name] ++
        (match primOf? pn with
         | some p =>
           if pn == "char" then [⟨"enumerator.char", entity ++ "." ++ v.name, .chr v.value.toList, .chr⟩]
           else [⟨"enumerator", entity ++ "." ++ v.name, .int p v.value.toList, .prim p⟩]
         | none => []))
    | .set n _ off choices a =>
      let entity := path ++ n
      attrSites entity a ++ [textSite "text.name" entity n] ++
      (optList off).map (fun o => ⟨"offset", entity, .nat o, .uint 64⟩) ++
      choices.flatMap (fun c =>
        attrSites (entity ++ "." ++ c.name) c.attrs ++ [textSite "text.name" (entity ++ "." ++ c.name) c.name,
          ⟨"choice.index", entity ++ "." ++ c.name, .nat c.index, .uint 8⟩])
  def elemsSites (types : List Elem) (path : String) : List Elem → List Site
    | [] => []
    | e :: es => elemSites types path true e ++ elemsSites types path es
end

/-- primitive type of a level-header member (`get_header_element`: a type, or a ref to a type) -/
def headerMemberPrim? (types : List Elem) (header : String) (member : String) : Option Prim :=
  match lookup types header with
  | some (.composite _ _ elems _) =>
    match elems.find? (fun e => e.name == member) with
    | some (.type t) => primOf? t.prim
    | some (.ref _ ty _ _) =>
      match lookup types ty with
      | some (.type t) => primOf? t.prim
      | _ => none
    | _ => none
  | _ => none

/-- `header.member({n})` of a header filler, if the header has the member -/
def fillerSite (types : List Elem) (entity header member : String) (n : Nat) : List Site :=
  match headerMemberPrim? types header member with
  | some p => [⟨"hdr." ++ member, entity, .nat n, .prim p⟩]
  | none => []

def fieldSites (types : List Elem) (path : String) (f : FieldDef) : List Site :=
  let entity := path ++ f.name
  attrSites entity f.attrs ++ [textSite "text.name" entity f.name, ⟨"id", entity, .nat f.id, .uint 16⟩] ++
  (optList f.offset).map (fun o => ⟨"offset", entity, .nat o, .uint 64⟩) ++
  -- constant fields: `make_const_field_accessor`
  (match primOf? f.type with
   | some p =>
     if f.presence == .constant then
       [⟨"const.valueRef", entity, .enumRef ((f.valueRef.bind (valueRefValue types))), .prim p⟩]
     else []
   | none =>
     match lookup types f.type with
     | some (.type t) => if t.presence == .constant then constValueSites types entity t else []
     | _ => [])

mutual
  /-- sites of a group: traits, header filler, members -/
  def groupSites (types : List Elem) (path : String) : NGroup → GroupDef → List Site
    | .mk _ _ (.mk bl _ ngs _), .mk name id dimType _ fields groups datas a =>
      let entity := path ++ name
      attrSites entity a ++
      [textSite "text.name" entity name, textSite "text.semanticType" entity a.semanticType,
       ⟨"id", entity, .nat id, .uint 16⟩, ⟨"blockLength", entity, .nat bl, .uint 64⟩] ++
      fillerSite types entity dimType "blockLength" bl ++
      fillerSite types entity dimType "numGroups" groups.length ++
      fillerSite types entity dimType "numVarDataFields" datas.length ++
      fields.flatMap (fieldSites types (entity ++ ".")) ++
      groupsSites types (entity ++ ".") ngs groups ++
      datas.flatMap (fun d => attrSites (entity ++ "." ++ d.name) d.attrs ++
        [textSite "text.name" (entity ++ "." ++ d.name) d.name, ⟨"id", entity ++ "." ++ d.name, .nat d.id, .uint 16⟩])
  def groupsSites (types : List Elem) (path : String) : List NGroup → List GroupDef → List Site
    | ng :: ngs, g :: gs => groupSites types path ng g ++ groupsSites types path ngs gs
    | _, _ => []
end

def messageSites (s : SchemaDef) (m : MessageDef) : List Site :=
  match resolveMessage s m with
  | .error _ => []
  | .ok nm =>
    match nm.level with
    | .mk bl _ ngs _ =>
      let entity := "messages." ++ m.name
      attrSites entity m.attrs ++
      [textSite "text.name" entity m.name, textSite "text.semanticType" entity m.attrs.semanticType,
       ⟨"id", entity, .nat m.id, .uint 32⟩, ⟨"blockLength", entity, .nat bl, .uint 64⟩] ++
      fillerSite s.types entity s.headerType "schemaId" s.id ++
      fillerSite s.types entity s.headerType "templateId" m.id ++
      fillerSite s.types entity s.headerType "version" s.version ++
      fillerSite s.types entity s.headerType "blockLength" bl ++
      fillerSite s.types entity s.headerType "numGroups" m.groups.length ++
      fillerSite s.types entity s.headerType "numVarDataFields" m.datas.length ++
      m.fields.flatMap (fieldSites s.types (entity ++ ".")) ++
      groupsSites s.types (entity ++ ".") ngs m.groups ++
      m.datas.flatMap (fun d => attrSites (entity ++ "." ++ d.name) d.attrs ++
        [textSite "text.name" (entity ++ "." ++ d.name) d.name, ⟨"id", entity ++ "." ++ d.name, .nat d.id, .uint 16⟩])

/-- the text attribute `package` as written in the XML (the schema name may be given on the command line) -/
structure SchemaTexts where
  package : String

def schemaSites (s : SchemaDef) (x : SchemaTexts) : List Site :=
  [textSite "text.package" "schema" x.package, textSite "text.semanticVersion" "schema" s.semanticVersion,
   textSite "text.description" "schema" s.description,
   ⟨"id", "schema", .nat s.id, .uint 32⟩, ⟨"version", "schema", .nat s.version, .uint 64⟩]

/-- every literal site of the code generated for `s` -/
def literalSites (s : SchemaDef) (x : SchemaTexts) : List Site :=
  schemaSites s x ++
  s.types.flatMap (elemSites s.types "types." false) ++
  s.messages.flatMap (messageSites s)

/-! ## What the validator checked before (sbe_schema_validator.hpp, schema_parser.hpp)

  Necessary conditions for sbeppc to accept a schema, as far as the literal
  sites depend on them: `value_fits_into_type` on every explicit value, the
  constant rules, and the ranges of the numeric attributes the parser stores in
  fixed-width integers. -/

/-- `value_ref_fits_into_type`: the enum's encoding is resolved to its primitive type (`get_enum_primitive_type`);
    a `char` enumerator is checked as the number of its character -/
def valueRefFits (types : List Elem) (ref : String) (p : Prim) : Bool :=
  match splitWhile (fun c => c != '.') ref.toList with
  | (en', '.' :: vn') =>
    if en'.isEmpty || vn'.isEmpty then false
    else
      match lookup types (String.ofList en') with
      | some (.enum _ enc _ values _) =>
        match values.find? (fun v => v.name == String.ofList vn') with
        | some v =>
          if (match encPrim types enc with | .ok pn => pn == "char" | .error _ => enc == "char") then
            match v.value.toList with
            | c :: _ => valueFits p (toString c.toNat).toList
            | [] => false
          else valueFits p v.value.toList
        | none => false
      | _ => false
  | _ => false

def isSingleByte (p : Prim) : Bool := p == .char || p == .int8 || p == .uint8

/-- `validate_encoding(type)` as far as values are concerned -/
def typeValuesOk (types : List Elem) (t : TypeDef) : Bool :=
  match primOf? t.prim with
  | none => false
  | some p =>
    let optFits (v : Option String) : Bool := match v with | some x => valueFits p x.toList | none => true
    if t.presence == .constant then
      (t.valueRef.isSome != t.constValue.isSome) &&
      (match t.valueRef, t.constValue with
       | some r, _ => valueRefFits types r p
       | none, some c => if p == .char then decide (byteLen c.toList ≤ t.length) && !c.isEmpty else valueFits p c.toList
       | none, none => false) &&
      (if t.valueRef.isSome || p != .char then t.length == 1 else true)
    else if t.length == 1 then
      optFits t.minValue && optFits t.maxValue && (if t.presence == .optional then optFits t.nullValue else true)
    else isSingleByte p

mutual
  def elemValuesOk (types : List Elem) : Elem → Bool
    | .type t => typeValuesOk types t
    | .ref _ _ _ _ => true
    | .set _ _ _ choices _ => choices.all (fun c => decide (c.index < 256))
    | .enum _ enc _ values _ =>
      (match encPrim types enc with
       | .ok pn =>
         match primOf? pn with
         | some p =>
           !p.isFloat &&
           values.all (fun v => if pn == "char" then byteLen v.value.toList == 1 else valueFits p v.value.toList)
         | none => false
       | .error _ => false)
    | .composite _ _ elems _ => elemsValuesOk types elems
  def elemsValuesOk (types : List Elem) : List Elem → Bool
    | [] => true
    | e :: es => elemValuesOk types e && elemsValuesOk types es
end

mutual
  def groupRangesOk : GroupDef → Bool
    | .mk _ id _ bl fields groups datas a =>
      decide (id < 2 ^ 16) && (match bl with | some b => decide (b < 2 ^ 64) | none => true) &&
      decide (a.since < 2 ^ 64) &&
      fields.all (fun f => decide (f.id < 2 ^ 16) && (match f.offset with | some o => decide (o < 2 ^ 64) | none => true)) &&
      datas.all (fun d => decide (d.id < 2 ^ 16)) && groupsRangesOk groups
  def groupsRangesOk : List GroupDef → Bool
    | [] => true
    | g :: gs => groupRangesOk g && groupsRangesOk gs
end

/-- the parser stores ids, versions, lengths and offsets in fixed-width unsigned integers -/
def rangesAccepted (s : SchemaDef) : Bool :=
  decide (s.id < 2 ^ 32) && decide (s.version < 2 ^ 64) &&
  s.messages.all (fun m =>
    decide (m.id < 2 ^ 32) && (match m.blockLength with | some b => decide (b < 2 ^ 64) | none => true) &&
    m.fields.all (fun f => decide (f.id < 2 ^ 16) && (match f.offset with | some o => decide (o < 2 ^ 64) | none => true)) &&
    m.datas.all (fun d => decide (d.id < 2 ^ 16)) && groupsRangesOk m.groups)

/-- constant fields: `validate_constant_field` for primitive-typed fields -/
def fieldValuesOk (types : List Elem) (f : FieldDef) : Bool :=
  match primOf? f.type with
  | some p =>
    if f.presence == .constant then (match f.valueRef with | some r => valueRefFits types r p | none => false) else true
  | none => true

mutual
  def groupFieldsOk (types : List Elem) : GroupDef → Bool
    | .mk _ _ _ _ fields groups _ _ => fields.all (fieldValuesOk types) && groupsFieldsOk types groups
  def groupsFieldsOk (types : List Elem) : List GroupDef → Bool
    | [] => true
    | g :: gs => groupFieldsOk types g && groupsFieldsOk types gs
end

def valuesAccepted (s : SchemaDef) : Bool :=
  elemsValuesOk s.types s.types &&
  s.messages.all (fun m => m.fields.all (fieldValuesOk s.types) && groupsFieldsOk s.types m.groups)

def layoutAccepted (s : SchemaDef) : Bool :=
  s.messages.all (fun m => match resolveMessage s m with | .ok _ => true | .error _ => false)

end Sbepp.Gen.Literals
