/-
  Model of the generated header fillers (`make_message_header_filler`,
  `make_group_header_filler` in messages_compiler.hpp): a sequence of member
  setters on the header composite, each member found by name (inline type or
  ref to a type), each written with the schema's value.
-/
import Sbepp.Schema.Resolve
import Sbepp.Spec.Encode

namespace Sbepp.Gen
open Sbepp Sbepp.Schema

/-- the (member, value) list `fill_message_header` writes, in generator order:
    schemaId, templateId, version, blockLength, then the optional counters -/
def messageHeaderFields (s : SchemaDef) (m : NMessage) (nGroups nDatas : Nat) : List (Leaf × Nat) :=
  let vals : List (String × Nat) :=
    [("schemaId", s.id), ("templateId", m.id), ("version", s.version),
     ("blockLength", match m.level with | .mk bl _ _ _ => bl),
     ("numGroups", nGroups), ("numVarDataFields", nDatas)]
  vals.filterMap (fun (n, v) => (findLeaf m.hdrLeaves n).map (fun l => (l.leaf, v)))

/-- header bytes after `fill_message_header` -/
def fillMessageHeader (bo : ByteOrder) (s : SchemaDef) (m : NMessage) (nGroups nDatas : Nat) (hdr : List Nat) : List Nat :=
  Spec.writeExtras bo hdr 0 (messageHeaderFields s m nGroups nDatas)

/-- the (member, value) list `fill_group_header(n)` writes -/
def groupHeaderFields (dim : Dim) (bl n : Nat) : List (Leaf × Nat) :=
  (⟨dim.blOff, dim.blSize⟩, bl) :: (⟨dim.numOff, dim.numSize⟩, n) :: dim.extras

end Sbepp.Gen
