/-
  Model of the trait-level `size_bytes(counts..., total_data_size)` functions the
  generator emits (`traits_generator.hpp`: `make_message_size_bytes`,
  `make_group_size_bytes`): one `numInGroup` parameter per group of the tree in
  pre-order whose documented meaning is the *total* number of entries of that
  group over all its parents' entries, plus `total_data_size` (sum of all data
  payload lengths) when the message has data members anywhere.
-/
import Sbepp.Schema.Resolve

namespace Sbepp.Gen
open Sbepp Sbepp.Schema

def sumDims : List NGroup → Nat
  | [] => 0
  | (.mk _ dim _) :: gs => dim.dim.size + sumDims gs

def sumDataHdrs : List NData → Nat
  | [] => 0
  | d :: ds => d.lenSize + sumDataHdrs ds

def sumLens : List (List Nat) → Nat
  | [] => 0
  | p :: ps => p.length + sumLens ps

mutual
  /-- the `n * (block_length + nested headers)` term of one group followed by the
      terms of its nested groups; consumes one count per group in pre-order -/
  def groupTerms : NGroup → List Nat → Nat × List Nat
    | .mk _ _ (.mk bl _ gs ds), counts =>
      match counts with
      | [] => (0, [])
      | n :: rest =>
        let r := groupsTerms gs rest
        (n * (bl + sumDims gs + sumDataHdrs ds) + r.1, r.2)
  def groupsTerms : List NGroup → List Nat → Nat × List Nat
    | [], counts => (0, counts)
    | g :: gs, counts =>
      let r1 := groupTerms g counts
      let r2 := groupsTerms gs r1.2
      (r1.1 + r2.1, r2.2)
end

/-- `message_traits<M>::size_bytes(counts..., total_data_size)` -/
def messageSize (m : NMessage) (counts : List Nat) (totalData : Nat) : Nat :=
  match m.level with
  | .mk bl _ gs ds =>
    m.hdrSize + bl + sumDims gs + (groupsTerms gs counts).1 + sumDataHdrs ds + totalData

/-! ### the documented meaning of the parameters, computed from a value tree -/

mutual
  def totalData : LVal → Nat
    | .mk _ gvs dvs => sumLens dvs + totalDataGs gvs
  def totalDataGs : List GVal → Nat
    | [] => 0
    | (.mk _ es) :: gs => totalDataEs es + totalDataGs gs
  def totalDataEs : List LVal → Nat
    | [] => 0
    | e :: es => totalData e + totalDataEs es
end

def addCounts : List Nat → List Nat → List Nat
  | a :: as, b :: bs => (a + b) :: addCounts as bs
  | [], bs => bs
  | as, [] => as

mutual
  /-- pre-order list of total entry counts of the groups `gs` given their values
      (one value list per parent entry is merged by `addCounts`) -/
  def countsGs : List NGroup → List GVal → List Nat
    | g :: gs, v :: vs => countsG g v ++ countsGs gs vs
    | gs, _ => zeroCounts gs
  def countsG : NGroup → GVal → List Nat
    | .mk _ _ (.mk _ _ cgs _), .mk _ es => es.length :: countsEs cgs es
  def countsEs : List NGroup → List LVal → List Nat
    | cgs, [] => zeroCounts cgs
    | cgs, (.mk _ gvs _) :: es => addCounts (countsGs cgs gvs) (countsEs cgs es)
  def zeroCounts : List NGroup → List Nat
    | [] => []
    | (.mk _ _ (.mk _ _ cgs _)) :: gs => 0 :: zeroCounts cgs ++ zeroCounts gs
end

end Sbepp.Gen
