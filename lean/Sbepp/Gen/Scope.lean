/-
  C07, names and scopes of the generated code.

  1. `names_generator.hpp` transliterated: which implementation name every type,
     message and group gets (`mangle`, the reserved sets, the order of the loops),
     as a fold over the *events* of the schema in the generator's traversal order.
  2. The declarations the generated code puts into each scope: the namespaces
     `S::types`, `S::detail::types`, `S::messages`, `S::detail::messages`, the tag
     structs under `S::schema` / `S::detail::schema`, and the members of every
     generated class; and the C++ rules that matter for them, driven by what
     `Extracted.Templates` says the generator's templates introduce:
       * a member of a class template may not be named like a template parameter
         of the class,
       * a declaration may not be named like a parameter of its own template
         header (g++ diagnoses function and alias templates, clang only classes),
       * a name used unqualified inside the scope of a template parameter,
         function parameter or local variable of the same name means that one,
       * a class named like an inherited member hides it,
       * a type and a function of one name in a namespace: the function wins.
  3. `make_unique_param_name` / the `size_bytes` parameter lists.
  4. Which files a generated file includes and which it needs.
  5. Resolution of the documented public paths in the declaration tree.
-/
import Sbepp.Schema.Ast
import Sbepp.Schema.Resolve
import Sbepp.Extracted.Templates

namespace Sbepp.Gen.Scope
open Sbepp Sbepp.Schema
open Sbepp.Extracted

/-! ## 1. names_generator -/

/-- `fmt::format("{}_{}", name, n)` -/
def suffixed (name : String) (n : Nat) : String := name ++ "_" ++ toString n

/-- `make_mangled_name`: the first `name_n`, `n = start, start+1, …`, that `ok` accepts; `fuel` bounds the
    search (the C++ loop runs to `SIZE_MAX` and then throws) -/
def mangleFrom (name : String) (ok : String → Bool) : Nat → Nat → Option String
  | 0, _ => none
  | fuel + 1, n => if ok (suffixed name n) then some (suffixed name n) else mangleFrom name ok fuel (n + 1)

/-- `make_mangled_name(name, location, reserved...)` -/
def mangle (name : String) (reserved : List String) : Option String :=
  mangleFrom name (fun c => !reserved.contains c) (reserved.length + 1) 0

def entryName (group : String) : String := group ++ "_entry"

/-- `make_mangled_group_info`: group name and entry name must both be free -/
def mangleGroup (name : String) (reserved : List String) : Option String :=
  mangleFrom name (fun c => !reserved.contains c && !reserved.contains (entryName c)) (2 * reserved.length + 1) 0

/-- `get_member_names` of an encoding -/
def memberNames : Elem → List String
  | .type t =>
    if t.presence == .constant || t.length != 1 then []
    else if t.presence == .required then ["min_value", "max_value"]
    else ["min_value", "max_value", "null_value"]
  | .enum _ _ _ values _ => values.map (·.name)
  | .set _ _ _ choices _ => choices.map (·.name)
  | .composite _ _ elems _ => elems.map Elem.name
  | .ref _ _ _ _ => []

/-- one step of the type loops: a public type, or a type defined inside a composite -/
inductive TEvent
  | pub (name : String) (members : List String)
  | inl (name : String) (members : List String)
  deriving Repr, DecidableEq

mutual
  /-- `handle_composite_elements`: every non-ref element, a composite followed by its own elements -/
  def inlineEvents : Elem → List TEvent
    | .ref _ _ _ _ => []
    | .composite n _ elems _ => .inl n (elems.map Elem.name) :: inlineEventsL elems
    | .type t => [.inl t.name (memberNames (.type t))]
    | .enum n e o vs a => [.inl n (memberNames (.enum n e o vs a))]
    | .set n e o cs a => [.inl n (memberNames (.set n e o cs a))]
  def inlineEventsL : List Elem → List TEvent
    | [] => []
    | e :: es => inlineEvents e ++ inlineEventsL es
end

/-- `generate_type_names` main loop, in the iteration order of `schema->types` -/
def typeEvents : List Elem → List TEvent
  | [] => []
  | e :: es =>
    (.pub e.name (memberNames e) ::
      (match e with
       | .composite _ _ elems _ => inlineEventsL elems
       | _ => [])) ++ typeEvents es

/-- what the generator decided for one event -/
structure Assigned where
  name : String          -- schema name
  impl : String          -- implementation name (`mangled_name.value_or(name)`)
  isPublic : Bool
  deriving Repr, DecidableEq

def Assigned.mangled (a : Assigned) : Bool := a.impl != a.name

/-- state: `mangled_type_names` (as insertion log), the decisions so far, and the names of the classes /
    aliases that end up in `S::detail::types` (every type defined inside a composite under the name chosen for
    it, every mangled public type) -/
structure NState where
  mangled : List String
  out : List Assigned
  declared : List String := []
  deriving Repr

open Templates (NameSet NameRef InsertSite)

/-- the set a lookup / reservation refers to -/
def pickSet (members mangled nonMangled : List String) : NameSet → List String
  | .members => members
  | .mangled => mangled
  | .nonMangled => nonMangled

/-- the name a lookup / insertion refers to; `m` is the name the mangling loop returned -/
def pickName (own m : String) : NameRef → String
  | .own => own
  | .ownEntry => entryName own
  | .mangledName => m
  | .mangledEntry => entryName m

/-- does the decision at `site` choose the mangling branch -/
def siteCond (site : InsertSite) (members mangled nonMangled : List String) (own : String) : Bool :=
  site.lookups.any (fun c => (pickSet members mangled nonMangled c.1).contains (pickName own own c.2))

def siteReserved (site : InsertSite) (members mangled nonMangled : List String) : List String :=
  site.reserved.flatMap (pickSet members mangled nonMangled)

/-- the set after the insertions of a branch (most recent first) -/
def siteInsert (refs : List NameRef) (own m : String) (mangled : List String) : List String :=
  (refs.map (pickName own m)).reverse ++ mangled

/-- one iteration of the type loops, as `Extracted.Templates.publicTypeSite` / `inlineTypeSite` describe them;
    `none` = `throw_error("can't generate a mangled name")` -/
def stepType (nonMangled : List String) (st : NState) : TEvent → Option NState
  | .pub n members =>
    if siteCond Templates.publicTypeSite members st.mangled nonMangled n then
      (mangle n (siteReserved Templates.publicTypeSite members st.mangled nonMangled)).map
        (fun m => ⟨siteInsert Templates.publicTypeSite.insMangled n m st.mangled, st.out ++ [⟨n, m, true⟩],
                   st.declared ++ [m]⟩)
    else some ⟨siteInsert Templates.publicTypeSite.insPlain n n st.mangled, st.out ++ [⟨n, n, true⟩], st.declared⟩
  | .inl n members =>
    if siteCond Templates.inlineTypeSite members st.mangled nonMangled n then
      (mangle n (siteReserved Templates.inlineTypeSite members st.mangled nonMangled)).map
        (fun m => ⟨siteInsert Templates.inlineTypeSite.insMangled n m st.mangled, st.out ++ [⟨n, m, false⟩],
                   st.declared ++ [m]⟩)
    else some ⟨siteInsert Templates.inlineTypeSite.insPlain n n st.mangled, st.out ++ [⟨n, n, false⟩],
               st.declared ++ [n]⟩

/-- the same iteration with the decisions written out the way names_generator.hpp is expected to make them
    (the theorems are about this form; `stepType_eq` ties it to the extracted sites) -/
def stepTypeE (nonMangled : List String) (st : NState) : TEvent → Option NState
  | .pub n members =>
    if members.contains n then
      (mangle n (members ++ st.mangled ++ nonMangled)).map
        (fun m => ⟨m :: st.mangled, st.out ++ [⟨n, m, true⟩], st.declared ++ [m]⟩)
    else some ⟨st.mangled, st.out ++ [⟨n, n, true⟩], st.declared⟩
  | .inl n members =>
    if members.contains n || st.mangled.contains n then
      (mangle n (members ++ st.mangled ++ nonMangled)).map
        (fun m => ⟨m :: st.mangled, st.out ++ [⟨n, m, false⟩], st.declared ++ [m]⟩)
    else some ⟨n :: st.mangled, st.out ++ [⟨n, n, false⟩], st.declared ++ [n]⟩

def runTypes (nonMangled : List String) : List TEvent → NState → Option NState
  | [], st => some st
  | e :: es, st => (stepType nonMangled st e).bind (runTypes nonMangled es)

def runTypesE (nonMangled : List String) : List TEvent → NState → Option NState
  | [], st => some st
  | e :: es, st => (stepTypeE nonMangled st e).bind (runTypesE nonMangled es)

/-- `collect_non_mangled_type_names` -/
def publicTypeNames (types : List Elem) : List String := types.map Elem.name

def typeNames (types : List Elem) : Option NState :=
  runTypes (publicTypeNames types) (typeEvents types) ⟨[], [], []⟩

/-- `mangled_tag_types_name` -/
def tagTypesName (types : List Elem) : Option String :=
  if (publicTypeNames types).contains "types" then mangle "types" (publicTypeNames types) else some "types"

/-! ### messages -/

def levelMemberNames (fields : List FieldDef) (groups : List GroupDef) (datas : List DataDef) : List String :=
  fields.map (·.name) ++ groups.map (fun g => match g with | .mk n _ _ _ _ _ _ _ => n) ++ datas.map (·.name)

inductive MEvent
  | msg (name : String) (members : List String)
  | grp (name : String) (entryMembers : List String)
  deriving Repr, DecidableEq

mutual
  /-- `handle_message_level` for one group: the group, then its nested groups -/
  def groupEvents : GroupDef → List MEvent
    | .mk n _ _ _ fields groups datas _ => .grp n (levelMemberNames fields groups datas) :: groupEventsL groups
  def groupEventsL : List GroupDef → List MEvent
    | [] => []
    | g :: gs => groupEvents g ++ groupEventsL gs
end

def messageEvents : List MessageDef → List MEvent
  | [] => []
  | m :: ms => (.msg m.name (levelMemberNames m.fields m.groups m.datas) :: groupEventsL m.groups) ++ messageEvents ms

/-- decisions for messages and groups: `impl` is the class / tag name, `entry` the entry class (groups) -/
structure MAssigned where
  name : String
  impl : String
  entry : String          -- "" for messages
  isMessage : Bool
  deriving Repr, DecidableEq

structure MState where
  mangled : List String    -- `mangled_message_names`
  out : List MAssigned
  /-- names of the classes that end up in `S::detail::messages`: every group class and entry class under the
      names chosen for them, every mangled message class -/
  declared : List String := []
  deriving Repr

/-- one iteration of the message / group loops as `Extracted.Templates.messageSite` / `groupSite` describe them -/
def stepMessage (nonMangled : List String) (st : MState) : MEvent → Option MState
  | .msg n members =>
    if siteCond Templates.messageSite members st.mangled nonMangled n then
      (mangle n (siteReserved Templates.messageSite members st.mangled nonMangled)).map
        (fun m => ⟨siteInsert Templates.messageSite.insMangled n m st.mangled, st.out ++ [⟨n, m, "", true⟩],
                   st.declared ++ [m]⟩)
    else some ⟨siteInsert Templates.messageSite.insPlain n n st.mangled, st.out ++ [⟨n, n, "", true⟩], st.declared⟩
  | .grp n em =>
    if siteCond Templates.groupSite em st.mangled nonMangled n then
      (mangleGroup n (siteReserved Templates.groupSite em st.mangled nonMangled)).map
        (fun m => ⟨siteInsert Templates.groupSite.insMangled n m st.mangled, st.out ++ [⟨n, m, entryName m, false⟩],
                   st.declared ++ [m, entryName m]⟩)
    else some ⟨siteInsert Templates.groupSite.insPlain n n st.mangled, st.out ++ [⟨n, n, entryName n, false⟩],
               st.declared ++ [n, entryName n]⟩

/-- the expected form (see `stepTypeE`) -/
def stepMessageE (nonMangled : List String) (st : MState) : MEvent → Option MState
  | .msg n members =>
    if members.contains n then
      (mangle n (members ++ st.mangled ++ nonMangled)).map
        (fun m => ⟨m :: st.mangled, st.out ++ [⟨n, m, "", true⟩], st.declared ++ [m]⟩)
    else some ⟨st.mangled, st.out ++ [⟨n, n, "", true⟩], st.declared⟩
  | .grp n em =>
    if st.mangled.contains n || st.mangled.contains (entryName n) || em.contains (entryName n) || em.contains n then
      (mangleGroup n (em ++ st.mangled ++ nonMangled)).map
        (fun m => ⟨entryName m :: m :: st.mangled, st.out ++ [⟨n, m, entryName m, false⟩],
                   st.declared ++ [m, entryName m]⟩)
    else some ⟨entryName n :: n :: st.mangled, st.out ++ [⟨n, n, entryName n, false⟩],
               st.declared ++ [n, entryName n]⟩

def runMessages (nonMangled : List String) : List MEvent → MState → Option MState
  | [], st => some st
  | e :: es, st => (stepMessage nonMangled st e).bind (runMessages nonMangled es)

def runMessagesE (nonMangled : List String) : List MEvent → MState → Option MState
  | [], st => some st
  | e :: es, st => (stepMessageE nonMangled st e).bind (runMessagesE nonMangled es)

/-- the shape of the four decisions the theorems are proved for -/
def sitesExpected : Bool :=
  Templates.mangleLoopsOk &&
  Templates.publicTypeSite == ⟨[(.members, .own)], [.members, .mangled, .nonMangled], [.mangledName], []⟩ &&
  Templates.inlineTypeSite ==
    ⟨[(.members, .own), (.mangled, .own)], [.members, .mangled, .nonMangled], [.mangledName], [.own]⟩ &&
  Templates.messageSite == ⟨[(.members, .own)], [.members, .mangled, .nonMangled], [.mangledName], []⟩ &&
  Templates.groupSite ==
    ⟨[(.mangled, .own), (.mangled, .ownEntry), (.members, .ownEntry), (.members, .own)],
     [.members, .mangled, .nonMangled], [.mangledName, .mangledEntry], [.own, .ownEntry]⟩

def messageNames (msgs : List MessageDef) : Option MState :=
  runMessages (msgs.map (·.name)) (messageEvents msgs) ⟨[], [], []⟩

def tagMessagesName (msgs : List MessageDef) : Option String :=
  if (msgs.map (·.name)).contains "messages" then mangle "messages" (msgs.map (·.name)) else some "messages"

/-! ## 2. Problems the templates cause for particular names -/

structure Problem where
  /-- class of the defect -/
  cls : String
  /-- schema entity (path) -/
  entity : String
  /-- the offending name -/
  name : String
  /-- which configurations reject: `all` | `gcc` | `clang` | `pre17` | `maybe` -/
  on : String
  deriving Repr, DecidableEq

def classTParams (kind : String) : List String :=
  (Templates.classTemplates.filter (fun c => c.kind == kind)).flatMap (·.tparams)

def classUnqualified (kind : String) : List String :=
  (Templates.classTemplates.filter (fun c => c.kind == kind)).flatMap (·.unqualified)

def classTypeCaptured (kind : String) : List String :=
  (Templates.classTemplates.filter (fun c => c.kind == kind)).flatMap (·.typeCaptured)

def memberOwn (kind : String) : List String :=
  (Templates.memberTemplates.filter (fun m => m.kind == kind)).flatMap (·.own)

def memberCaptured (kind : String) : List String :=
  (Templates.memberTemplates.filter (fun m => m.kind == kind)).flatMap (·.captured)

/-- a name that the preprocessor replaces -/
def macroProblems (entity name : String) (isFunction : Bool) : List Problem :=
  if Templates.objectMacros.contains name || (isFunction && Templates.functionMacros.contains name) then
    [⟨"macro-name", entity, name, "maybe"⟩]
  else []

/-- a member function `name` of a generated class template of kind `scope`, produced by the accessor templates
    `kinds` -/
def memberProblems (scope : String) (kinds : List String) (entity name : String) : List Problem :=
  (if (classTParams scope).contains name then [⟨"shadows-template-parameter", entity, name, "all"⟩] else []) ++
  (if (kinds.flatMap memberCaptured).contains name then [⟨"captured-by-template-scope", entity, name, "all"⟩] else []) ++
  (if (kinds.flatMap memberOwn).contains name then [⟨"shadows-template-parameter", entity, name, "gcc"⟩] else []) ++
  macroProblems entity name true

/-- kind of a field / element target -/
inductive VKind | scalar | array | const | enum | set | composite | missing
  deriving DecidableEq, Repr

def typeKind (t : TypeDef) : VKind :=
  if t.presence == .constant then .const else if t.length != 1 then .array else .scalar

def targetKind (types : List Elem) (ty : String) : VKind :=
  if isPrimitive ty then .scalar
  else match lookup types ty with
    | some (.type t) => typeKind t
    | some (.enum _ _ _ _ _) => .enum
    | some (.set _ _ _ _ _) => .set
    | some (.composite _ _ _ _) => .composite
    | _ => .missing

def elemKind (types : List Elem) : Elem → VKind
  | .type t => typeKind t
  | .enum _ _ _ _ _ => .enum
  | .set _ _ _ _ _ => .set
  | .composite _ _ _ _ => .composite
  | .ref _ ty _ _ => targetKind types ty

/-- accessor templates of a composite element -/
def elementAccessors : VKind → List String
  | .scalar => ["typeAccessor", "byTag"]
  | .array => ["arrayAccessor", "byTag"]
  | .const => ["constAccessor", "byTag"]
  | .enum => ["enumAccessor", "byTag"]
  | .set => ["setAccessor", "byTag"]
  | .composite => ["compositeAccessor", "byTag"]
  | .missing => []

/-- accessor templates of a message / entry field -/
def fieldAccessors (constField : Bool) (k : VKind) : List String :=
  if constField || k == .const then ["constAccessor", "byTag"]
  else match k with
    | .scalar => ["typeAccessor", "cursorValue", "byTag"]
    | .array => ["arrayAccessor", "cursorView", "byTag"]
    | .enum => ["enumAccessor", "cursorValue", "byTag"]
    | .set => ["setAccessor", "cursorValue", "byTag"]
    | .composite => ["compositeAccessor", "cursorView", "byTag"]
    | _ => []

/-- a generated class (or alias) `impl` of template kind `kind` for entity `entity` -/
def classProblems (kind : String) (entity impl : String) : List Problem :=
  (if (classTParams kind).contains impl then
     [⟨"shadows-template-parameter", entity, impl,
       if kind == "arrayAlias" || kind == "aliasTemplate" then "gcc" else "all"⟩] else []) ++
  (if (classTypeCaptured kind).contains impl then [⟨"type-hidden-by-template-parameter", entity, impl, "all"⟩] else []) ++
  macroProblems entity impl false

def baseMembersOf (kinds : List String) : List String :=
  (Templates.baseMembers.filter (fun b => kinds.contains b.1)).flatMap (·.2.2)

/-- a generated class named like a member of its runtime base class hides that member: certainly an error when
    the generated code itself relies on the member (unqualified in the class text, or `v.member()` in an
    accessor), otherwise when somebody calls the member -/
def valueClassProblems (kind : String) (entity impl : String) : List Problem :=
  if (classUnqualified kind).contains impl || Templates.dotMembers.contains impl then
    [⟨"class-hides-inherited-member", entity, impl, "all"⟩]
  else if (baseMembersOf [kind]).contains impl then [⟨"class-hides-inherited-member", entity, impl, "maybe"⟩]
  else []

/-- some generated text (a class or member template, or a macro of sbepp.hpp that generated code invokes) says
    `std::` without a leading `::` -/
def stdUnqualifiedAnywhere : Bool :=
  Templates.classTemplates.any (·.stdUnqualified) || !Templates.memberStdUnqualified.isEmpty ||
  !Templates.macrosStdUnqualified.isEmpty

/-- a type-like declaration `name` in a namespace in which the generator's text says `std::` -/
def stdProblems (entity name : String) : List Problem :=
  if name == "std" && stdUnqualifiedAnywhere then [⟨"hides-namespace-std", entity, name, "maybe"⟩] else []

/-! ### the declarations of one schema -/

/-- a type-like declaration in one of the four namespaces -/
structure NsDecl where
  ns : String            -- "types" | "detail.types" | "messages" | "detail.messages"
  name : String
  entity : String
  /-- template kind of the declaration (`composite`, `requiredType`, `enum`, `aliasTemplate`, …) -/
  kind : String
  /-- the generated file that contains it (name of the public type / message) -/
  file : String := ""
  deriving Repr, DecidableEq

def typeTemplateKind : Elem → String
  | .type t =>
    if t.presence == .constant then "constAlias" else if t.length != 1 then "arrayAlias"
    else if t.presence == .required then "requiredType" else "optionalType"
  | .enum _ _ _ _ _ => "enum"
  | .set _ _ _ _ _ => "set"
  | .composite _ _ _ _ => "composite"
  | .ref _ _ _ _ => "ref"

/-- whether the public alias of a mangled public type is an alias template -/
def aliasKind (e : Elem) : String :=
  match e with
  | .composite _ _ _ _ => "aliasTemplate"
  | .type t => if t.presence != .constant && t.length != 1 then "aliasTemplate" else "alias"
  | _ => "alias"

mutual
  /-- declarations of the types defined inside a composite, consuming the inline decisions in order -/
  def inlineDecls (file path : String) : Elem → List Assigned → List NsDecl × List Assigned
    | .ref _ _ _ _, as => ([], as)
    | .composite n _ elems _, a :: as =>
      let (ds, rest) := inlineDeclsL file (path ++ n ++ ".") elems as
      (⟨"detail.types", a.impl, path ++ n, "composite", file⟩ :: ds, rest)
    | e, a :: as => ([⟨"detail.types", a.impl, path ++ e.name, typeTemplateKind e, file⟩], as)
    | _, [] => ([], [])
  def inlineDeclsL (file path : String) : List Elem → List Assigned → List NsDecl × List Assigned
    | [], as => ([], as)
    | e :: es, as =>
      let (d1, r1) := inlineDecls file path e as
      let (d2, r2) := inlineDeclsL file path es r1
      (d1 ++ d2, r2)
end

/-- the public declaration(s) of one public type whose implementation name is `impl`: the class itself in
    `S::types`, or the class in `S::detail::types` plus an alias of the schema name in `S::types` -/
def publicTypeDecls (e : Elem) (impl : String) : List NsDecl :=
  let entity := "types." ++ e.name
  if impl == e.name then [⟨"types", e.name, entity, typeTemplateKind e, e.name⟩]
  else [⟨"detail.types", impl, entity, typeTemplateKind e, e.name⟩, ⟨"types", e.name, entity, aliasKind e, e.name⟩]

/-- declarations of the types defined inside a public type (composites only) -/
def inlineOf (e : Elem) (inls : List Assigned) : List NsDecl × List Assigned :=
  match e with
  | .composite _ _ elems _ => inlineDeclsL e.name ("types." ++ e.name ++ ".") elems inls
  | _ => ([], inls)

def implHead (as : List Assigned) (dflt : String) : String :=
  match as.head? with
  | some p => p.impl
  | none => dflt

/-- declarations of all types; `pubs` / `inls` are the decisions for public / inline types in event order -/
def typeDecls : List Elem → List Assigned → List Assigned → List NsDecl
  | [], _, _ => []
  | e :: es, pubs, inls =>
    publicTypeDecls e (implHead pubs e.name) ++ (inlineOf e inls).1 ++ typeDecls es pubs.tail (inlineOf e inls).2

mutual
  def groupDecls (path : String) : GroupDef → List MAssigned → List NsDecl × List MAssigned
    | .mk n _ _ _ _ groups _ _, a :: as =>
      let (ds, rest) := groupDeclsL (path ++ n ++ ".") groups as
      (⟨"detail.messages", a.impl, path ++ n, "group", ""⟩ :: ⟨"detail.messages", a.entry, path ++ n, "entry", ""⟩ :: ds, rest)
    | _, [] => ([], [])
  def groupDeclsL (path : String) : List GroupDef → List MAssigned → List NsDecl × List MAssigned
    | [], as => ([], as)
    | g :: gs, as =>
      let (d1, r1) := groupDecls path g as
      let (d2, r2) := groupDeclsL path gs r1
      (d1 ++ d2, r2)
end

def publicMessageDecls (m : MessageDef) (impl : String) : List NsDecl :=
  let entity := "messages." ++ m.name
  if impl == m.name then [⟨"messages", m.name, entity, "message", m.name⟩]
  else [⟨"detail.messages", impl, entity, "message", m.name⟩, ⟨"messages", m.name, entity, "aliasTemplate", m.name⟩]

def mimplHead (as : List MAssigned) (dflt : String) : String :=
  match as.head? with
  | some p => p.impl
  | none => dflt

def messageDecls : List MessageDef → List MAssigned → List NsDecl
  | [], _ => []
  | m :: ms, as =>
    publicMessageDecls m (mimplHead as m.name) ++ (groupDeclsL ("messages." ++ m.name ++ ".") m.groups as.tail).1 ++
      messageDecls ms (groupDeclsL ("messages." ++ m.name ++ ".") m.groups as.tail).2

/-- all type-like declarations of the four namespaces -/
def nsDecls (s : SchemaDef) : Option (List NsDecl) :=
  match typeNames s.types, messageNames s.messages with
  | some ts, some ms =>
    some (typeDecls s.types (ts.out.filter (·.isPublic)) (ts.out.filter (fun a => !a.isPublic)) ++
          messageDecls s.messages ms.out)
  | _, _ => none

/-- problems of the namespace-level declarations -/
def nsDeclProblems (ds : List NsDecl) : List Problem :=
  ds.flatMap (fun d =>
    (if d.kind == "requiredType" || d.kind == "optionalType" then valueClassProblems d.kind d.entity d.name else []) ++
    (if d.kind == "group" && (baseMembersOf ["groupFlat", "groupNested"]).contains d.name then
       [⟨"class-hides-inherited-member", d.entity, d.name, "maybe"⟩] else []) ++
    (if d.kind == "enum" then
       -- the enum's name is used inside its `tag_invoke`
       (if (classTypeCaptured "enumVisit").contains d.name then
          [⟨"type-hidden-by-template-parameter", d.entity, d.name, "all"⟩] else [])
     else []) ++
    (if d.kind == "alias" || d.kind == "entry" then macroProblems d.entity d.name false
     else classProblems d.kind d.entity d.name) ++
    stdProblems d.entity d.name ++
    -- a free function generated next to the enums of this namespace hides a type of the same name from
    -- there on: certainly for public types (the user names them after everything is declared) and inside one
    -- file; across files it depends on the order of inclusion
    (if ((Templates.namespaceFunctions.flatMap (·.2)).contains d.name) &&
        ds.any (fun e => e.ns == d.ns && e.kind == "enum") then
       [⟨"type-hidden-by-function", d.entity, d.name,
         if d.ns == "types" || ds.any (fun e => e.ns == d.ns && e.kind == "enum" && e.file == d.file) then "all"
         else "maybe"⟩] else []))

/-! ### members -/

def choiceProblems (entity : String) (c : Choice) : List Problem :=
  memberProblems "set" ["setChoice"] (entity ++ "." ++ c.name) c.name

def valueProblems (entity : String) (v : ValidValue) : List Problem :=
  macroProblems (entity ++ "." ++ v.name) v.name false

mutual
  /-- members of the types nested in an encoding (choices, enumerators, composite elements) -/
  def elemMemberProblems (types : List Elem) (path : String) : Elem → List Problem
    | .type _ => []
    | .ref _ _ _ _ => []
    | .enum n _ _ values _ => values.flatMap (valueProblems (path ++ n))
    | .set n _ _ choices _ => choices.flatMap (choiceProblems (path ++ n))
    | .composite n _ elems _ => elemsMemberProblems types (path ++ n ++ ".") elems
  def elemsMemberProblems (types : List Elem) (path : String) : List Elem → List Problem
    | [] => []
    | e :: es =>
      memberProblems "composite" (elementAccessors (elemKind types e)) (path ++ e.name) e.name ++
      elemMemberProblems types path e ++ elemsMemberProblems types path es
end

def groupName : GroupDef → String
  | .mk n _ _ _ _ _ _ _ => n

/-- `get_last_member` of a level that is not flat -/
def lastMember (groups : List GroupDef) (datas : List DataDef) : Option String :=
  match datas.getLast?, groups.getLast? with
  | some d, _ => some d.name
  | none, some g => some (groupName g)
  | none, none => none

def constField (types : List Elem) (f : FieldDef) : Bool :=
  match actualPresence types f with
  | .ok p => p == .constant
  | .error _ => false

mutual
  def levelProblems (types : List Elem) (scope path : String)
      (fields : List FieldDef) (datas : List DataDef) : List GroupDef → List GroupDef → List Problem
    | allGroups, [] =>
      fields.flatMap (fun f =>
        memberProblems scope (fieldAccessors (constField types f) (targetKind types f.type)) (path ++ f.name) f.name) ++
      allGroups.flatMap (fun g =>
        memberProblems scope ["groupAccessor", "cursorGroup", "byTag"] (path ++ groupName g) (groupName g)) ++
      datas.flatMap (fun d => memberProblems scope ["dataAccessor", "cursorData", "byTag"] (path ++ d.name) d.name) ++
      (match lastMember allGroups datas with
       | some n => if (memberCaptured "lastMember").contains n then
           [⟨"captured-by-template-scope", path ++ n, n, "all"⟩] else []
       | none => [])
    | allGroups, g :: gs => groupProblems types path g ++ levelProblems types scope path fields datas allGroups gs
  def groupProblems (types : List Elem) (path : String) : GroupDef → List Problem
    | .mk n _ _ _ fields groups datas _ => levelProblems types "entry" (path ++ n ++ ".") fields datas groups groups
end

def messageProblems (types : List Elem) (m : MessageDef) : List Problem :=
  levelProblems types "message" ("messages." ++ m.name ++ ".") m.fields m.datas m.groups m.groups

/-- member problems of one public type -/
def typeMemberProblems (types : List Elem) (e : Elem) : List Problem :=
  match e with
  | .composite n _ elems _ => elemsMemberProblems types ("types." ++ n ++ ".") elems
  | _ => elemMemberProblems types "types." e

/-- problems of the namespace-level declarations, or the generator's own failure -/
def declProblems (s : SchemaDef) : List Problem :=
  match nsDecls s with
  | some ds => nsDeclProblems ds
  | none => [⟨"mangling-failed", "schema", "", "all"⟩]

/-- every name problem of a schema -/
def nameProblems (s : SchemaDef) : List Problem :=
  declProblems s ++ s.types.flatMap (typeMemberProblems s.types) ++ s.messages.flatMap (messageProblems s.types)

/-! ## 3. `size_bytes` parameter names (traits_generator.hpp) -/

/-- the names that occur again later in the list -/
def dupNames : List String → List String
  | [] => []
  | x :: xs => (if xs.contains x then [x] else []) ++ dupNames xs

def dupProblemsOf (ns : String) (declared : List String) : List Problem :=
  (dupNames declared).map (fun n => ⟨"duplicate-declaration", ns ++ "." ++ n, n, "all"⟩)

/-- a class name the generator declares twice in `S::detail::types` / `S::detail::messages`: every header
    that sees both declarations (the top-level header at the latest) is ill-formed -/
def duplicateProblems (s : SchemaDef) : List Problem :=
  ((typeNames s.types).map (fun ts => dupProblemsOf "detail.types" ts.declared)).getD [] ++
  ((messageNames s.messages).map (fun ms => dupProblemsOf "detail.messages" ms.declared)).getD []

/-- the names `nsDecls` puts into a `detail` namespace (cross-check of `declared`) -/
def detailNames (ns : String) (ds : List NsDecl) : List String :=
  (ds.filter (fun d => d.ns == ns)).map (·.name)


def joinPath (path : List String) : String := "_".intercalate path

/-- the `while` of `make_unique_param_name`: `_<depth>` is appended as long as the name is among the existing
    ones.  `fuel` bounds the iterations; `existing.length + 1` always suffice (`uniqueLoop_terminates`: every
    iteration lengthens the name, so it can meet each existing name at most once) -/
def uniqueLoop (existing : List String) (depth : Nat) : Nat → String → Option String
  | 0, _ => none
  | fuel + 1, name =>
    if existing.contains name then uniqueLoop existing depth fuel (name ++ "_" ++ toString depth) else some name

/-- `make_unique_param_name`: the loop of fix 0030 when `Extracted.Templates.uniqueParamLoops` says the generator
    has it, one `_<depth>` at most otherwise -/
def uniqueParam (desired : String) (existing : List String) (depth : Nat) : String :=
  if Templates.uniqueParamLoops then (uniqueLoop existing depth (existing.length + 1) desired).getD desired
  else if existing.contains desired then desired ++ "_" ++ toString depth else desired

mutual
  /-- `get_group_size_bytes_params` -/
  def msgGroupParams (path names : List String) : GroupDef → List String
    | .mk n _ _ _ _ groups _ _ =>
      msgGroupsParams (path ++ [n])
        (names ++ [uniqueParam (joinPath (path ++ [n]) ++ "_num_in_group") names path.length]) groups
  def msgGroupsParams (path names : List String) : List GroupDef → List String
    | [] => names
    | g :: gs => msgGroupsParams path (msgGroupParams path names g) gs
end

mutual
  def groupHasData : GroupDef → Bool
    | .mk _ _ _ _ _ groups datas _ => !datas.isEmpty || groupsHaveData groups
  def groupsHaveData : List GroupDef → Bool
    | [] => false
    | g :: gs => groupHasData g || groupsHaveData gs
end

mutual
  def groupCount : GroupDef → Nat
    | .mk _ _ _ _ _ groups _ _ => 1 + groupsCount groups
  def groupsCount : List GroupDef → Nat
    | [] => 0
    | g :: gs => groupCount g + groupsCount gs
end

/-- `make_group_size_bytes_args`: the last `n` parameter names, then `0` for the data size -/
def groupArgs (names : List String) (n : Nat) (hasData : Bool) : List String :=
  names.drop (names.length - n) ++ (if hasData then ["0"] else [])

/-- the calls `group_traits<G>::size_bytes(args)` inside `message_traits<M>::size_bytes`
    (`make_message_size_bytes_impl`): the group and the argument list -/
def messageCalls (names : List String) : List GroupDef → List (GroupDef × List String)
  | [] => []
  | g :: gs =>
    let names' := msgGroupParams [] names g
    (g, groupArgs names' (names'.length - names.length) (groupHasData g)) :: messageCalls names' gs

/-- parameter names of `message_traits<M>::size_bytes` -/
def messageSizeParams (m : MessageDef) : List String :=
  msgGroupsParams [] [] m.groups ++ (if !m.datas.isEmpty || groupsHaveData m.groups then ["total_data_size"] else [])

mutual
  /-- `make_group_size_bytes_impl`: `path` does not contain the group the traits belong to -/
  def grpImplParams (path names : List String) : GroupDef → List String
    | .mk _ _ _ _ _ groups _ _ =>
      grpImplParamsL path
        (names ++ [if path.isEmpty then "num_in_group"
                   else uniqueParam (joinPath path ++ "_num_in_group") names path.length]) groups
  def grpImplParamsL (path names : List String) : List GroupDef → List String
    | [] => names
    | g :: gs => grpImplParamsL path (grpImplParams (path ++ [groupName g]) names g) gs
end

/-- parameter names of `group_traits<G>::size_bytes` -/
def groupSizeParams (g : GroupDef) : List String :=
  grpImplParams [] [] g ++ (if groupHasData g then ["total_data_size"] else [])

mutual
  /-- all parameter lists below a level, with the entity they belong to -/
  def allGroupParamLists (path : String) : GroupDef → List (String × List String)
    | .mk n i d b fs groups ds a =>
      (path ++ n, groupSizeParams (.mk n i d b fs groups ds a)) :: allGroupParamListsL (path ++ n ++ ".") groups
  def allGroupParamListsL (path : String) : List GroupDef → List (String × List String)
    | [] => []
    | g :: gs => allGroupParamLists path g ++ allGroupParamListsL path gs
end

def paramLists (s : SchemaDef) : List (String × List String) :=
  s.messages.flatMap (fun m =>
    ("messages." ++ m.name, messageSizeParams m) :: allGroupParamListsL ("messages." ++ m.name ++ ".") m.groups)

def dupName : List String → Option String
  | [] => none
  | x :: xs => if xs.contains x then some x else dupName xs

def paramProblems (s : SchemaDef) : List Problem :=
  (paramLists s).flatMap (fun (e, ps) =>
    match dupName ps with
    | some x => [⟨"duplicate-parameter-name", e, x, "all"⟩]
    | none => [])

/-! ## 4. Files -/

def enumOfValueRef (ref : String) : String :=
  String.ofList (ref.toList.takeWhile (· != '.'))

/-- canonical (declared) name of the public type `ty` refers to -/
def canon (types : List Elem) (ty : String) : String :=
  match lookup types ty with
  | some e => e.name
  | none => ty

/-- public types a constant type's value needs (`value_ref_to_enum_value`) -/
def constTypeNeeds (types : List Elem) (t : TypeDef) : List String :=
  if t.presence == .constant then (match t.valueRef with | some r => [canon types (enumOfValueRef r)] | none => [])
  else []

mutual
  /-- what `types/<composite>.hpp` includes = what its text refers to: refs, and the enums of the constants it
      prints (`compile_public_encoding` records the dependency where it emits the reference) -/
  def compositeDeps (types : List Elem) : Elem → List String
    | .ref _ ty _ _ =>
      canon types ty ::
        (match lookup types ty with
         | some (.type t) => constTypeNeeds types t
         | _ => [])
    | .type t => constTypeNeeds types t
    | .composite _ _ elems _ => compositeDepsL types elems
    | _ => []
  def compositeDepsL (types : List Elem) : List Elem → List String
    | [] => []
    | e :: es => compositeDeps types e ++ compositeDepsL types es
end

/-- `#include`s of `types/<name>.hpp` -/
def typeFileIncludes (types : List Elem) (e : Elem) : List String :=
  match e with
  | .composite _ _ elems _ => compositeDepsL types elems
  | _ => []

/-- files reachable through includes from the public types `start` -/
def reachable (types : List Elem) : Nat → List String → List String
  | 0, acc => acc
  | fuel + 1, acc =>
    let next := acc.flatMap (fun n => match lookup types n with | some e => typeFileIncludes types e | none => [])
    let new := next.filter (fun n => !acc.contains n)
    if new.isEmpty then acc else reachable types fuel (acc ++ new.eraseDups)

/-- the enum whose enumerator the accessor of a constant field prints (`E::X`, `value_ref_to_enumerator`) -/
def valueRefNeeds (types : List Elem) (f : FieldDef) : List String :=
  if constField types f then
    (match f.valueRef, isPrimitive f.type, lookup types f.type with
     | some r, true, _ => [canon types (enumOfValueRef r)]
     | _, false, some (.type t) => constTypeNeeds types t
     | some r, false, some (.enum _ _ _ _ _) => [canon types (enumOfValueRef r)]
     | _, _, _ => [])
  else []

/-- `dependencies.emplace(...)` for one field: its type, and — when
    `Extracted.Templates.valueRefRecordsDependency` says `value_ref_to_enumerator` records it — the enum of its
    `valueRef` -/
def fieldIncludes (types : List Elem) (f : FieldDef) : List String :=
  (if isPrimitive f.type then [] else [canon types f.type]) ++
  (if Templates.valueRefRecordsDependency then valueRefNeeds types f else [])

/-- public types the accessor of one field refers to: its type, and for constant fields the enum whose
    enumerator is printed -/
def fieldNeeds (types : List Elem) (f : FieldDef) : List String :=
  (if isPrimitive f.type then [] else [canon types f.type]) ++ valueRefNeeds types f

mutual
  /-- `dependencies.emplace(...)` calls while a group is compiled: its dimension type, the types of its fields
      and data members, its nested groups -/
  def groupIncludes (types : List Elem) : GroupDef → List String
    | .mk _ _ dim _ gf gg gd _ =>
      canon types dim :: (gf.flatMap (fieldIncludes types) ++ gd.map (fun d => canon types d.type) ++
        groupsIncludes types gg)
  def groupsIncludes (types : List Elem) : List GroupDef → List String
    | [] => []
    | g :: gs => groupIncludes types g ++ groupsIncludes types gs
end

def levelIncludes (types : List Elem) (fields : List FieldDef) (datas : List DataDef) (groups : List GroupDef) :
    List String :=
  fields.flatMap (fieldIncludes types) ++ datas.map (fun d => canon types d.type) ++ groupsIncludes types groups

mutual
  /-- public types the text generated for a group refers to -/
  def groupNeeds (types : List Elem) : GroupDef → List String
    | .mk _ _ dim _ gf gg gd _ =>
      canon types dim :: (gf.flatMap (fieldNeeds types) ++ gd.map (fun d => canon types d.type) ++
        groupsNeeds types gg)
  def groupsNeeds (types : List Elem) : List GroupDef → List String
    | [] => []
    | g :: gs => groupNeeds types g ++ groupsNeeds types gs
end

def levelNeeds (types : List Elem) (fields : List FieldDef) (datas : List DataDef) (groups : List GroupDef) :
    List String :=
  fields.flatMap (fieldNeeds types) ++ datas.map (fun d => canon types d.type) ++ groupsNeeds types groups

def messageIncludes (s : SchemaDef) (m : MessageDef) : List String :=
  canon s.types s.headerType :: levelIncludes s.types m.fields m.datas m.groups

def messageNeeds (s : SchemaDef) (m : MessageDef) : List String :=
  canon s.types s.headerType :: levelNeeds s.types m.fields m.datas m.groups

/-- names a message file needs that no included file (transitively) provides -/
def missingIncludes (s : SchemaDef) (m : MessageDef) : List String :=
  let have_ := reachable s.types (s.types.length + 1) (messageIncludes s m).eraseDups
  ((messageNeeds s m).filter (fun n => !have_.contains n)).eraseDups

def includeProblems (s : SchemaDef) : List Problem :=
  s.messages.flatMap (fun m =>
    (missingIncludes s m).map (fun n => ⟨"missing-include", "messages." ++ m.name, n, "all"⟩))

/-! ## 5. Public paths -/

/-- what the qualified name `::S::<ns>::<name>` denotes: the first declaration of that name in the namespace -/
def resolvePublic (ds : List NsDecl) (ns name : String) : Option String :=
  (ds.find? (fun d => d.ns == ns && d.name == name)).map (·.entity)

/-! ## 6. Names accepted by the validators -/

def isSymbolicName (n : String) : Bool :=
  match n.toList with
  | [] => false
  | c :: cs => !c.isDigit && (c :: cs).all (fun x => x.isAlphanum || x == '_')

/-- `sbe_schema_cpp_validator::validate_name` after `is_sbe_symbolic_name` -/
def nameAccepted (n : String) : Bool := isSymbolicName n && !Templates.cppKeywords.contains n

mutual
  def elemNames : Elem → List String
    | .type t => [t.name]
    | .ref n _ _ _ => [n]
    | .enum n _ _ values _ => n :: values.map (·.name)
    | .set n _ _ choices _ => n :: choices.map (·.name)
    | .composite n _ elems _ => n :: elemsNames elems
  def elemsNames : List Elem → List String
    | [] => []
    | e :: es => elemNames e ++ elemsNames es
end

mutual
  def groupNames : GroupDef → List String
    | .mk n _ _ _ fields groups datas _ => n :: fields.map (·.name) ++ groupsNames groups ++ datas.map (·.name)
  def groupsNames : List GroupDef → List String
    | [] => []
    | g :: gs => groupNames g ++ groupsNames gs
end

def allNames (s : SchemaDef) : List String :=
  elemsNames s.types ++
  s.messages.flatMap (fun m => m.name :: m.fields.map (·.name) ++ groupsNames m.groups ++ m.datas.map (·.name))

def namesAccepted (s : SchemaDef) : Bool := (allNames s).all nameAccepted

/-! ### uniqueness rules of the parser (schema_parser.hpp) -/

def nodupB : List String → Bool
  | [] => true
  | x :: xs => !xs.contains x && nodupB xs

mutual
  def elemUnique : Elem → Bool
    | .type _ => true
    | .ref _ _ _ _ => true
    | .enum _ _ _ values _ => nodupB (values.map (·.name))
    | .set _ _ _ choices _ => nodupB (choices.map (·.name))
    | .composite _ _ elems _ => nodupB (elems.map Elem.name) && elemsUnique elems
  def elemsUnique : List Elem → Bool
    | [] => true
    | e :: es => elemUnique e && elemsUnique es
end

mutual
  def groupUnique : GroupDef → Bool
    | .mk _ _ _ _ fields groups datas _ => nodupB (levelMemberNames fields groups datas) && groupsUnique groups
  def groupsUnique : List GroupDef → Bool
    | [] => true
    | g :: gs => groupUnique g && groupsUnique gs
end

/-- type names are unique ignoring case, message names and ids are unique, member names of a level, valid
    values, choices and composite elements are unique -/
def uniqueAccepted (s : SchemaDef) : Bool :=
  nodupB (s.types.map (fun e => e.name.toLower)) && elemsUnique s.types &&
  nodupB (s.messages.map (·.name)) &&
  s.messages.all (fun m => nodupB (levelMemberNames m.fields m.groups m.datas) && groupsUnique m.groups)

end Sbepp.Gen.Scope
