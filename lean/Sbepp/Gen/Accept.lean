/-
  C07: the necessary conditions for sbeppc to accept a schema that the C07
  theorems assume (names, uniqueness, explicit values, attribute ranges, layout).
-/
import Sbepp.Gen.Literals
import Sbepp.Gen.Scope

namespace Sbepp.Gen
open Sbepp Sbepp.Schema

def acceptedB (s : SchemaDef) : Bool :=
  Scope.namesAccepted s && Scope.uniqueAccepted s && Literals.valuesAccepted s && Literals.rangesAccepted s &&
  Literals.layoutAccepted s

end Sbepp.Gen
